/-!
# Wire codecs (property C20)

Executable model of the `to_dict` / `from_dict` / `to_json_dict` / `from_json_dict` codecs of
`lambda_service.py` (ErrorObject, the five `*Options`, the six `*Details`, OperationUpdate,
TimestampConverter, Operation) and `execution.py` (InitialExecutionState,
DurableExecutionInvocationInput, DurableExecutionInvocationOutput).

Conventions
* `lambda_service.py:N-M` / `execution.py:N-M` in a doc comment is the Python range a definition mirrors.
* A Python dict is `DV.dict kvs`, an association list in insertion order.  The encoders never emit a
  key twice, so `lookup` (first match) is `dict.get`.
* A `datetime` is `DV.ts micros` (integer microseconds since the epoch, UTC).  It occurs in `to_dict`
  output; `to_json_dict` replaces it by `DV.int millis`.
* Decoders return `Option`.  `none` means: Python raises (`KeyError` for `data["Id"]`, `ValueError`
  for `OperationType("nope")`, `AttributeError` for `"str".get`, `TypeError` for `"x" / 1000`) **or**
  Python silently builds an *ill-typed* object, i.e. stores in a field a value outside the field's
  declared type (the decoders never validate: `data.get("ParentId")` is stored whatever it is).  No
  well-typed object is equal to such an object, so for round-trip purposes the two are the same
  outcome.  The only ill-typed case reachable from the encoders is the epoch-millisecond-0 timestamp
  of the JSON variant, see `asOptTs` and `fromMillisField`.
* Python truthiness is mirrored branch by branch: `if self.parent_id:` is `truthyStr`, `if self.error:`
  on a dataclass instance is "is not None" (dataclasses define neither `__bool__` nor `__len__`; the
  same holds for `datetime` objects and `Enum` members), `if x := data.get(k):` is `lookupTruthy`.

No Mathlib, no proofs here (this file is linked into the driver executable).
-/
namespace Wire

/-! ## Wire-dictionary AST -/

/-- The Python values that occur in wire dictionaries (built at lambda_service.py:156-166, 242-338,
362-390, 807-903 and execution.py:98-153, 212-226). -/
inductive DV where
  | null
  | str (s : String)
  | int (i : Int)
  | bool (b : Bool)
  | ts (micros : Int)                    -- a `datetime.datetime`, as integer microseconds since the epoch
  | strs (l : List String)               -- `list[str]` (ErrorObject.stack_trace)
  | dict (kvs : List (String × DV))      -- insertion-ordered dict
  | list (xs : List DV)                  -- any other list (InitialExecutionState "Operations")
  deriving Inhabited

/-- Key/value list of a dict (same sites as `DV`: lambda_service.py:156-166, 362-390, 807-903). -/
abbrev KVs := List (String × DV)

/-- `dict.get(k)`: first entry with key `k` (`none` = absent); every `data.get(...)` / `data[...]`
of lambda_service.py:101-231, 392-431, 747-805, 883-939 and execution.py:52-70, 117-139, 196-210. -/
def lookup (k : String) : KVs → Option DV
  | [] => none
  | (k', v) :: rest => if k' = k then some v else lookup k rest

/-- `DV.get`: `d.get(k)` on a dict; `none` on anything else (Python: AttributeError; callers guard).
Same sites as `lookup` (lambda_service.py:101-231, 392-431, 747-805). -/
def DV.get (d : DV) (k : String) : Option DV :=
  match d with
  | .dict kvs => lookup k kvs
  | _ => none

/-- Python `bool(v)`: None, "", 0, False, [], {} are falsy; a datetime is always truthy.
Relied upon at lambda_service.py:118, 191, 216, 230, 395-415, 423, 761-788, 883-901, 921-939;
execution.py:55, 65, 209. -/
def DV.truthy : DV → Bool
  | .null => false
  | .str s => s ≠ ""
  | .int i => i ≠ 0
  | .bool b => b
  | .ts _ => true
  | .strs l => !l.isEmpty
  | .dict kvs => !kvs.isEmpty
  | .list xs => !xs.isEmpty

/-- Python `if x:` on the result of `data.get(k)`: the value when present *and truthy*
(lambda_service.py:395-415, 761-788, 883-901, 921-939). -/
def truthyOf : Option DV → Option DV
  | some v => if v.truthy then some v else none
  | none => none

/-- `if x := data.get(k):` — the value when present *and truthy*
(lambda_service.py:398-415, 761-788, 883-901, 921-939; execution.py:55, 65). -/
def lookupTruthy (k : String) (kvs : KVs) : Option DV := truthyOf (lookup k kvs)

/-- `result[k] = v` on a dict: replaces in place (keeps position) or appends
(lambda_service.py:884, 887, 892, 899, 922, 925, 930, 937). -/
def setKey (k : String) (v : DV) : KVs → KVs
  | [] => [(k, v)]
  | (k', v') :: rest => if k' = k then (k', v) :: rest else (k', v') :: setKey k v rest

/-- `if cond: result[k] = v` as a list fragment (lambda_service.py:158-165, 323-324, 369-388,
813-868; execution.py:220-224). -/
def optKV (k : String) (v : Option DV) : KVs :=
  match v with
  | some v => [(k, v)]
  | none => []

/-- `if s:` for a `str | None`: keeps only non-empty strings (lambda_service.py:369-372, 375,
813-816, 842, 857, 864). -/
def truthyStr (s : Option String) : Option String :=
  match s with
  | some s => if s = "" then none else some s
  | none => none

/-- A `str | None` as a dict *value* (`None` → `null`), lambda_service.py:824-830. -/
def optStrDV (s : Option String) : DV :=
  match s with
  | some s => .str s
  | none => .null

/-! ### Typed readers (`none` = raises or ill-typed, see header)

Each reader is `interpret (data.get(k))`; the interpretation of the looked-up value is a separate
function (`as…`) so that it can be reasoned about independently of the dictionary. -/

/-- A looked-up value as a `str | None` field (lambda_service.py:103, 117, 132-134, 190, 215, 229,
316, 421-424, 794-795; execution.py:210). -/
def asOptStr : Option DV → Option (Option String)
  | none => some none
  | some .null => some none
  | some (.str s) => some (some s)
  | some _ => none

/-- `data.get(k)` for a `str | None` field (lambda_service.py:103, 117, 132-134, 190, 215, 229, 316,
421-424, 794-795; execution.py:210). -/
def getStr? (kvs : KVs) (k : String) : Option (Option String) := asOptStr (lookup k kvs)

/-- A looked-up value as a mandatory `str` (absent: KeyError), lambda_service.py:214, 315, 418, 791;
execution.py:122-123, 134-135. -/
def asReqStr : Option DV → Option String
  | some (.str s) => some s
  | _ => none

/-- `data[k]` for a `str` field (absent: KeyError), lambda_service.py:214, 315, 418, 791;
execution.py:122-123, 134-135. -/
def reqStr (kvs : KVs) (k : String) : Option String := asReqStr (lookup k kvs)

/-- A looked-up value as a `str` with default (execution.py:59, 69). -/
def asStrD (dflt : String) : Option DV → Option String
  | none => some dflt
  | some (.str s) => some s
  | some _ => none

/-- `data.get(k, dflt)` for a `str` field (execution.py:59, 69). -/
def getStrD (kvs : KVs) (k : String) (dflt : String) : Option String := asStrD dflt (lookup k kvs)

/-- A looked-up value as an `int` with default (lambda_service.py:188, 240, 264, 291-292). -/
def asIntD (dflt : Int) : Option DV → Option Int
  | none => some dflt
  | some (.int i) => some i
  | some _ => none

/-- `data.get(k, dflt)` for an `int` field (lambda_service.py:188, 240, 264, 291-292). -/
def getIntD (kvs : KVs) (k : String) (dflt : Int) : Option Int := asIntD dflt (lookup k kvs)

/-- A looked-up value as a `bool` with default (lambda_service.py:116, 335). -/
def asBoolD (dflt : Bool) : Option DV → Option Bool
  | none => some dflt
  | some (.bool b) => some b
  | some _ => none

/-- `data.get(k, dflt)` for a `bool` field (lambda_service.py:116, 335). -/
def getBoolD (kvs : KVs) (k : String) (dflt : Bool) : Option Bool := asBoolD dflt (lookup k kvs)

/-- A looked-up value as a `list[str] | None` field (lambda_service.py:135). -/
def asOptStrs : Option DV → Option (Option (List String))
  | none => some none
  | some .null => some none
  | some (.strs l) => some (some l)
  | some _ => none

/-- `data.get(k)` for a `list[str] | None` field (lambda_service.py:135). -/
def getStrs? (kvs : KVs) (k : String) : Option (Option (List String)) := asOptStrs (lookup k kvs)

/-- A looked-up value as a `datetime | None` field (lambda_service.py:189, 201, 796-797).  **Decision:** a timestamp is read as
`some micros` only from `DV.ts`.  Any other non-null value (in particular the `DV.int 0` that
`from_json_dict` leaves unconverted for epoch-millisecond 0, lambda_service.py:921-939) makes the
decoder return `none`: Python builds an Operation whose `datetime | None` field holds the integer `0`,
which is ill-typed and unequal to every Operation with a datetime there. -/
def asOptTs : Option DV → Option (Option Int)
  | none => some none
  | some .null => some none
  | some (.ts m) => some (some m)
  | some _ => none

/-- `data.get(k)` for a `datetime | None` field (lambda_service.py:189, 201, 796-797; see `asOptTs`). -/
def getTs? (kvs : KVs) (k : String) : Option (Option Int) := asOptTs (lookup k kvs)

/-- `f(x) if x else None` for a looked-up `x` (lambda_service.py:118, 191, 216, 230, 395-415,
764-782; execution.py:209). -/
def subOf {α : Type} (f : DV → Option α) (x : Option DV) : Option (Option α) :=
  match truthyOf x with
  | none => some none
  | some x => (f x).map some

/-- `if x := data.get(k): f(x) else None` (lambda_service.py:397-415, 764-782). -/
def optSub {α : Type} (kvs : KVs) (k : String) (f : DV → Option α) : Option (Option α) :=
  subOf f (lookup k kvs)

/-- `[f(x) for x in xs]`, failing if any element fails (execution.py:56, 66). -/
def allSome {α β : Type} (f : α → Option β) : List α → Option (List β)
  | [] => some []
  | x :: xs =>
    match f x, allSome f xs with
    | some y, some ys => some (y :: ys)
    | _, _ => none

/-! ## Enumerations (Python enum *values*) -/

/-- lambda_service.py:38-43 -/
inductive OperationAction where
  | start | succeed | fail | retry | cancel
  deriving DecidableEq, Repr, Inhabited

/-- lambda_service.py:38-43 (`.value`) -/
def OperationAction.toStr : OperationAction → String
  | .start => "START" | .succeed => "SUCCEED" | .fail => "FAIL" | .retry => "RETRY" | .cancel => "CANCEL"

/-- lambda_service.py:38-43 (`OperationAction(s)`, ValueError = none) -/
def OperationAction.ofStr? : String → Option OperationAction
  | "START" => some .start | "SUCCEED" => some .succeed | "FAIL" => some .fail
  | "RETRY" => some .retry | "CANCEL" => some .cancel | _ => none

/-- lambda_service.py:46-54 -/
inductive OperationStatus where
  | started | pending | ready | succeeded | failed | cancelled | timedOut | stopped
  deriving DecidableEq, Repr, Inhabited

/-- lambda_service.py:46-54 (`.value`) -/
def OperationStatus.toStr : OperationStatus → String
  | .started => "STARTED" | .pending => "PENDING" | .ready => "READY" | .succeeded => "SUCCEEDED"
  | .failed => "FAILED" | .cancelled => "CANCELLED" | .timedOut => "TIMED_OUT" | .stopped => "STOPPED"

/-- lambda_service.py:46-54 (`OperationStatus(s)`) -/
def OperationStatus.ofStr? : String → Option OperationStatus
  | "STARTED" => some .started | "PENDING" => some .pending | "READY" => some .ready
  | "SUCCEEDED" => some .succeeded | "FAILED" => some .failed | "CANCELLED" => some .cancelled
  | "TIMED_OUT" => some .timedOut | "STOPPED" => some .stopped | _ => none

/-- lambda_service.py:57-63 -/
inductive OperationType where
  | execution | context | step | wait | callback | chainedInvoke
  deriving DecidableEq, Repr, Inhabited

/-- lambda_service.py:57-63 (`.value`) -/
def OperationType.toStr : OperationType → String
  | .execution => "EXECUTION" | .context => "CONTEXT" | .step => "STEP" | .wait => "WAIT"
  | .callback => "CALLBACK" | .chainedInvoke => "CHAINED_INVOKE"

/-- lambda_service.py:57-63 (`OperationType(s)`) -/
def OperationType.ofStr? : String → Option OperationType
  | "EXECUTION" => some .execution | "CONTEXT" => some .context | "STEP" => some .step
  | "WAIT" => some .wait | "CALLBACK" => some .callback | "CHAINED_INVOKE" => some .chainedInvoke
  | _ => none

/-- lambda_service.py:83-94 -/
inductive OperationSubType where
  | step | wait | callback | runInChildContext | map | mapIteration | parallel | parallelBranch
  | waitForCallback | waitForCondition | chainedInvoke
  deriving DecidableEq, Repr, Inhabited

/-- lambda_service.py:83-94 (`.value`) -/
def OperationSubType.toStr : OperationSubType → String
  | .step => "Step" | .wait => "Wait" | .callback => "Callback"
  | .runInChildContext => "RunInChildContext" | .map => "Map" | .mapIteration => "MapIteration"
  | .parallel => "Parallel" | .parallelBranch => "ParallelBranch"
  | .waitForCallback => "WaitForCallback" | .waitForCondition => "WaitForCondition"
  | .chainedInvoke => "ChainedInvoke"

/-- lambda_service.py:83-94 (`OperationSubType(s)`) -/
def OperationSubType.ofStr? : String → Option OperationSubType
  | "Step" => some .step | "Wait" => some .wait | "Callback" => some .callback
  | "RunInChildContext" => some .runInChildContext | "Map" => some .map
  | "MapIteration" => some .mapIteration | "Parallel" => some .parallel
  | "ParallelBranch" => some .parallelBranch | "WaitForCallback" => some .waitForCallback
  | "WaitForCondition" => some .waitForCondition | "ChainedInvoke" => some .chainedInvoke
  | _ => none

/-- execution.py:178-181 -/
inductive InvocationStatus where
  | succeeded | failed | pending
  deriving DecidableEq, Repr, Inhabited

/-- execution.py:178-181 (`.value`) -/
def InvocationStatus.toStr : InvocationStatus → String
  | .succeeded => "SUCCEEDED" | .failed => "FAILED" | .pending => "PENDING"

/-- execution.py:178-181 (`InvocationStatus(s)`) -/
def InvocationStatus.ofStr? : String → Option InvocationStatus
  | "SUCCEEDED" => some .succeeded | "FAILED" => some .failed | "PENDING" => some .pending
  | _ => none

/-- `Enum(x)` for a looked-up `x`: absent or non-member raises ValueError
(lambda_service.py:419-420, 757-758; execution.py:208). -/
def asReqEnum {α : Type} (ofStr? : String → Option α) : Option DV → Option α
  | some (.str s) => ofStr? s
  | _ => none

/-- `Enum(data.get(k))` / `Enum(data[k])`: absent or non-member raises
(lambda_service.py:419-420, 757-758; execution.py:208). -/
def reqEnum {α : Type} (ofStr? : String → Option α) (kvs : KVs) (k : String) : Option α :=
  asReqEnum ofStr? (lookup k kvs)

/-- `Enum(x) if x else None` for a looked-up `x` (lambda_service.py:423, 760-762). -/
def asOptEnum {α : Type} (ofStr? : String → Option α) (x : Option DV) : Option (Option α) :=
  match truthyOf x with
  | none => some none
  | some (.str s) => (ofStr? s).map some
  | some _ => none

/-- `Enum(x) if (x := data.get(k)) else None` (lambda_service.py:423, 760-762). -/
def optEnum {α : Type} (ofStr? : String → Option α) (kvs : KVs) (k : String) : Option (Option α) :=
  asOptEnum ofStr? (lookup k kvs)

/-! ## Timestamps -/

/-- lambda_service.py:707-716 `to_unix_millis`, timezone-aware branch (line 716):
`(dt - _UNIX_EPOCH) // timedelta(milliseconds=1)` — EXACT integer FLOOR division, also for pre-epoch
instants.  The model's `Int` division (`Int.ediv`; floor = Euclidean for a positive divisor) is
therefore exactly what the code computes.  The float path `int(dt.timestamp() * 1000)` (line 713) is
kept by the code only for *naive* datetimes, which are outside the model: every wire timestamp is
timezone-aware (UTC).  The remaining float caveat concerns `from_unix_millis` only, see `fromMs`. -/
def toMs (micros : Int) : Int := micros / 1000

/-- lambda_service.py:718-726 `from_unix_millis`: `fromtimestamp(ms / 1000, tz=UTC)`, exact here.
Python divides in floating point and `fromtimestamp` rounds to the nearest microsecond; for every
|ms| < 2^53/1000 that is the exact instant `ms * 1000` µs (checked by the correspondence test on
each drawn timestamp, not proved). -/
def fromMs (ms : Int) : Int := ms * 1000

/-! ## Dataclasses -/

/-- lambda_service.py:122-127 -/
structure ErrorObject where
  message : Option String
  type : Option String
  data : Option String
  stack_trace : Option (List String)
  deriving DecidableEq, Repr, Inhabited

/-- lambda_service.py:97-99 -/
structure ExecutionDetails where
  input_payload : Option String := none
  deriving DecidableEq, Repr, Inhabited

/-- lambda_service.py:106-110 -/
structure ContextDetails where
  replay_children : Bool := false
  result : Option String := none
  error : Option ErrorObject := none
  deriving DecidableEq, Repr, Inhabited

/-- lambda_service.py:177-182 -/
structure StepDetails where
  attempt : Int := 0
  next_attempt_timestamp : Option Int := none
  result : Option String := none
  error : Option ErrorObject := none
  deriving DecidableEq, Repr, Inhabited

/-- lambda_service.py:195-197 -/
structure WaitDetails where
  scheduled_end_timestamp : Option Int := none
  deriving DecidableEq, Repr, Inhabited

/-- lambda_service.py:204-208 -/
structure CallbackDetails where
  callback_id : String
  result : Option String := none
  error : Option ErrorObject := none
  deriving DecidableEq, Repr, Inhabited

/-- lambda_service.py:220-223 -/
structure ChainedInvokeDetails where
  result : Option String := none
  error : Option ErrorObject := none
  deriving DecidableEq, Repr, Inhabited

/-- lambda_service.py:234-236 -/
structure StepOptions where
  next_attempt_delay_seconds : Int := 0
  deriving DecidableEq, Repr, Inhabited

/-- lambda_service.py:248-260 -/
structure WaitOptions where
  wait_seconds : Int := 1
  deriving DecidableEq, Repr, Inhabited

/-- lambda_service.py:270-286 -/
structure CallbackOptions where
  timeout_seconds : Int := 0
  heartbeat_timeout_seconds : Int := 0
  deriving DecidableEq, Repr, Inhabited

/-- lambda_service.py:302-310 -/
structure ChainedInvokeOptions where
  function_name : String
  tenant_id : Option String := none
  deriving DecidableEq, Repr, Inhabited

/-- lambda_service.py:329-331 -/
structure ContextOptions where
  replay_children : Bool := false
  deriving DecidableEq, Repr, Inhabited

/-- lambda_service.py:341-360 -/
structure OperationUpdate where
  operation_id : String
  operation_type : OperationType
  action : OperationAction
  parent_id : Option String := none
  name : Option String := none
  sub_type : Option OperationSubType := none
  payload : Option String := none
  error : Option ErrorObject := none
  context_options : Option ContextOptions := none
  step_options : Option StepOptions := none
  wait_options : Option WaitOptions := none
  callback_options : Option CallbackOptions := none
  chained_invoke_options : Option ChainedInvokeOptions := none
  deriving DecidableEq, Repr, Inhabited

/-- lambda_service.py:728-745 -/
structure Operation where
  operation_id : String
  operation_type : OperationType
  status : OperationStatus
  parent_id : Option String := none
  name : Option String := none
  start_timestamp : Option Int := none
  end_timestamp : Option Int := none
  sub_type : Option OperationSubType := none
  execution_details : Option ExecutionDetails := none
  context_details : Option ContextDetails := none
  step_details : Option StepDetails := none
  wait_details : Option WaitDetails := none
  callback_details : Option CallbackDetails := none
  chained_invoke_details : Option ChainedInvokeDetails := none
  deriving DecidableEq, Repr, Inhabited

/-- execution.py:47-50 -/
structure InitialExecutionState where
  operations : List Operation
  next_marker : String
  deriving DecidableEq, Repr, Inhabited

/-- execution.py:111-115 -/
structure DurableExecutionInvocationInput where
  durable_execution_arn : String
  checkpoint_token : String
  initial_execution_state : InitialExecutionState
  deriving DecidableEq, Repr, Inhabited

/-- execution.py:184-194 -/
structure DurableExecutionInvocationOutput where
  status : InvocationStatus
  result : Option String := none
  error : Option ErrorObject := none
  deriving DecidableEq, Repr, Inhabited

/-! ## ErrorObject -/

/-- lambda_service.py:156-166 `ErrorObject.to_dict` (each field `if ... is not None`). -/
def ErrorObject.toKVs (e : ErrorObject) : KVs :=
  optKV "ErrorMessage" (e.message.map .str) ++
  optKV "ErrorType" (e.type.map .str) ++
  optKV "ErrorData" (e.data.map .str) ++
  optKV "StackTrace" (e.stack_trace.map .strs)

/-- lambda_service.py:156-166.  An all-None ErrorObject gives the EMPTY dict `{}`. -/
def ErrorObject.toDict (e : ErrorObject) : DV := .dict e.toKVs

/-- lambda_service.py:129-136 `ErrorObject.from_dict` -/
def ErrorObject.fromKVs (kvs : KVs) : Option ErrorObject := do
  let message ← getStr? kvs "ErrorMessage"
  let type ← getStr? kvs "ErrorType"
  let data ← getStr? kvs "ErrorData"
  let stack_trace ← getStrs? kvs "StackTrace"
  pure { message, type, data, stack_trace }

/-- lambda_service.py:129-136 (non-dict argument: AttributeError) -/
def ErrorObject.fromDict : DV → Option ErrorObject
  | .dict kvs => ErrorObject.fromKVs kvs
  | _ => none

/-- `ErrorObject.from_dict(data["Error"]) if data.get("Error") else None`
(lambda_service.py:114-118, 186-191, 212-216, 227-230, 395; execution.py:209).
An empty dict `{}` is falsy, so it is read back as "no error". -/
def optError (kvs : KVs) : Option (Option ErrorObject) :=
  optSub kvs "Error" ErrorObject.fromDict

/-! ## Options -/

/-- lambda_service.py:242-245 -/
def StepOptions.toDict (o : StepOptions) : DV :=
  .dict [("NextAttemptDelaySeconds", .int o.next_attempt_delay_seconds)]

/-- lambda_service.py:238-240 -/
def StepOptions.fromDict : DV → Option StepOptions
  | .dict kvs => do
    let next_attempt_delay_seconds ← getIntD kvs "NextAttemptDelaySeconds" 0
    pure { next_attempt_delay_seconds }
  | _ => none

/-- lambda_service.py:266-267 -/
def WaitOptions.toDict (o : WaitOptions) : DV :=
  .dict [("WaitSeconds", .int o.wait_seconds)]

/-- lambda_service.py:262-264 -/
def WaitOptions.fromDict : DV → Option WaitOptions
  | .dict kvs => do
    let wait_seconds ← getIntD kvs "WaitSeconds" 1
    pure { wait_seconds }
  | _ => none

/-- lambda_service.py:295-299 -/
def CallbackOptions.toDict (o : CallbackOptions) : DV :=
  .dict [("TimeoutSeconds", .int o.timeout_seconds),
         ("HeartbeatTimeoutSeconds", .int o.heartbeat_timeout_seconds)]

/-- lambda_service.py:288-293 -/
def CallbackOptions.fromDict : DV → Option CallbackOptions
  | .dict kvs => do
    let timeout_seconds ← getIntD kvs "TimeoutSeconds" 0
    let heartbeat_timeout_seconds ← getIntD kvs "HeartbeatTimeoutSeconds" 0
    pure { timeout_seconds, heartbeat_timeout_seconds }
  | _ => none

/-- lambda_service.py:319-326 (`tenant_id` only `if ... is not None`) -/
def ChainedInvokeOptions.toDict (o : ChainedInvokeOptions) : DV :=
  .dict ([("FunctionName", .str o.function_name)] ++ optKV "TenantId" (o.tenant_id.map .str))

/-- lambda_service.py:312-317 (`data["FunctionName"]`: KeyError) -/
def ChainedInvokeOptions.fromDict : DV → Option ChainedInvokeOptions
  | .dict kvs => do
    let function_name ← reqStr kvs "FunctionName"
    let tenant_id ← getStr? kvs "TenantId"
    pure { function_name, tenant_id }
  | _ => none

/-- lambda_service.py:337-338 -/
def ContextOptions.toDict (o : ContextOptions) : DV :=
  .dict [("ReplayChildren", .bool o.replay_children)]

/-- lambda_service.py:333-335 -/
def ContextOptions.fromDict : DV → Option ContextOptions
  | .dict kvs => do
    let replay_children ← getBoolD kvs "ReplayChildren" false
    pure { replay_children }
  | _ => none

/-! ## OperationUpdate -/

/-- lambda_service.py:362-390 `OperationUpdate.to_dict`.  `if self.parent_id:` etc. drop `None` and
`""`; `if self.error:` / `if self.context_options:` … are plain "is not None" (dataclass instances
are always truthy), so an all-None error is emitted as `"Error": {}`. -/
def OperationUpdate.toKVs (u : OperationUpdate) : KVs :=
  [("Id", .str u.operation_id),
   ("Type", .str u.operation_type.toStr),
   ("Action", .str u.action.toStr)] ++
  optKV "ParentId" ((truthyStr u.parent_id).map .str) ++
  optKV "Name" ((truthyStr u.name).map .str) ++
  optKV "SubType" (u.sub_type.map (fun s => .str s.toStr)) ++
  optKV "Payload" ((truthyStr u.payload).map .str) ++
  optKV "Error" (u.error.map ErrorObject.toDict) ++
  optKV "ContextOptions" (u.context_options.map ContextOptions.toDict) ++
  optKV "StepOptions" (u.step_options.map StepOptions.toDict) ++
  optKV "WaitOptions" (u.wait_options.map WaitOptions.toDict) ++
  optKV "CallbackOptions" (u.callback_options.map CallbackOptions.toDict) ++
  optKV "ChainedInvokeOptions" (u.chained_invoke_options.map ChainedInvokeOptions.toDict)

/-- lambda_service.py:362-390 -/
def OperationUpdate.toDict (u : OperationUpdate) : DV := .dict u.toKVs

/-- lambda_service.py:392-431 `OperationUpdate.from_dict` -/
def OperationUpdate.fromKVs (kvs : KVs) : Option OperationUpdate := do
  let error ← optError kvs
  let context_options ← optSub kvs "ContextOptions" ContextOptions.fromDict
  let step_options ← optSub kvs "StepOptions" StepOptions.fromDict
  let wait_options ← optSub kvs "WaitOptions" WaitOptions.fromDict
  let callback_options ← optSub kvs "CallbackOptions" CallbackOptions.fromDict
  let chained_invoke_options ← optSub kvs "ChainedInvokeOptions" ChainedInvokeOptions.fromDict
  let operation_id ← reqStr kvs "Id"
  let operation_type ← reqEnum OperationType.ofStr? kvs "Type"
  let action ← reqEnum OperationAction.ofStr? kvs "Action"
  let parent_id ← getStr? kvs "ParentId"
  let name ← getStr? kvs "Name"
  let sub_type ← optEnum OperationSubType.ofStr? kvs "SubType"
  let payload ← getStr? kvs "Payload"
  pure { operation_id, operation_type, action, parent_id, name, sub_type, payload, error,
         context_options, step_options, wait_options, callback_options, chained_invoke_options }

/-- lambda_service.py:392-431 -/
def OperationUpdate.fromDict : DV → Option OperationUpdate
  | .dict kvs => OperationUpdate.fromKVs kvs
  | _ => none

/-! ## Details (decoders; the encoders are inlined in `Operation.to_dict`) -/

/-- lambda_service.py:101-103 -/
def ExecutionDetails.fromDict : DV → Option ExecutionDetails
  | .dict kvs => do
    let input_payload ← getStr? kvs "InputPayload"
    pure { input_payload }
  | _ => none

/-- lambda_service.py:112-119 -/
def ContextDetails.fromDict : DV → Option ContextDetails
  | .dict kvs => do
    let error ← optError kvs
    let replay_children ← getBoolD kvs "ReplayChildren" false
    let result ← getStr? kvs "Result"
    pure { replay_children, result, error }
  | _ => none

/-- lambda_service.py:184-192 -/
def StepDetails.fromDict : DV → Option StepDetails
  | .dict kvs => do
    let error ← optError kvs
    let attempt ← getIntD kvs "Attempt" 0
    let next_attempt_timestamp ← getTs? kvs "NextAttemptTimestamp"
    let result ← getStr? kvs "Result"
    pure { attempt, next_attempt_timestamp, result, error }
  | _ => none

/-- lambda_service.py:199-201 -/
def WaitDetails.fromDict : DV → Option WaitDetails
  | .dict kvs => do
    let scheduled_end_timestamp ← getTs? kvs "ScheduledEndTimestamp"
    pure { scheduled_end_timestamp }
  | _ => none

/-- lambda_service.py:210-217 (`data["CallbackId"]`: KeyError) -/
def CallbackDetails.fromDict : DV → Option CallbackDetails
  | .dict kvs => do
    let error ← optError kvs
    let callback_id ← reqStr kvs "CallbackId"
    let result ← getStr? kvs "Result"
    pure { callback_id, result, error }
  | _ => none

/-- lambda_service.py:225-231 -/
def ChainedInvokeDetails.fromDict : DV → Option ChainedInvokeDetails
  | .dict kvs => do
    let error ← optError kvs
    let result ← getStr? kvs "Result"
    pure { result, error }
  | _ => none

/-- lambda_service.py:823-826: `{"InputPayload": input_payload}` (a `None` payload is emitted as null). -/
def ExecutionDetails.toDict (d : ExecutionDetails) : DV :=
  .dict [("InputPayload", optStrDV d.input_payload)]

/-- lambda_service.py:827-835: `{"Result": result}` always (a `None` result is emitted as null), plus
`"ReplayChildren": True` only `if self.context_details.replay_children` (so `False` is omitted and read
back through the decoder's default), plus `"Error": error.to_dict()` whenever the error is not None
(dataclass instance: always truthy — an all-None error is emitted as `{}`). -/
def ContextDetails.toKVs (d : ContextDetails) : KVs :=
  [("Result", optStrDV d.result)] ++
  optKV "ReplayChildren" (if d.replay_children then some (.bool d.replay_children) else none) ++
  optKV "Error" (d.error.map ErrorObject.toDict)

/-- lambda_service.py:827-835 -/
def ContextDetails.toDict (d : ContextDetails) : DV := .dict d.toKVs

/-- lambda_service.py:836-846: `Attempt` always; timestamp `if` present; `Result` only if non-empty;
`Error` whenever not None. -/
def StepDetails.toKVs (d : StepDetails) : KVs :=
  [("Attempt", .int d.attempt)] ++
  optKV "NextAttemptTimestamp" (d.next_attempt_timestamp.map .ts) ++
  optKV "Result" ((truthyStr d.result).map .str) ++
  optKV "Error" (d.error.map ErrorObject.toDict)

/-- lambda_service.py:836-846 -/
def StepDetails.toDict (d : StepDetails) : DV := .dict d.toKVs

/-- lambda_service.py:847-852: `{}` when there is no timestamp. -/
def WaitDetails.toDict (d : WaitDetails) : DV :=
  .dict (optKV "ScheduledEndTimestamp" (d.scheduled_end_timestamp.map .ts))

/-- lambda_service.py:853-861 -/
def CallbackDetails.toDict (d : CallbackDetails) : DV :=
  .dict ([("CallbackId", .str d.callback_id)] ++
         optKV "Result" ((truthyStr d.result).map .str) ++
         optKV "Error" (d.error.map ErrorObject.toDict))

/-- lambda_service.py:862-868: `{}` when there is neither a non-empty result nor an error. -/
def ChainedInvokeDetails.toDict (d : ChainedInvokeDetails) : DV :=
  .dict (optKV "Result" ((truthyStr d.result).map .str) ++
         optKV "Error" (d.error.map ErrorObject.toDict))

/-! ## Operation -/

/-- lambda_service.py:807-869 `Operation.to_dict`.  `if self.start_timestamp:` etc. are "is not None"
(datetime, Enum member and dataclass instances are always truthy). -/
def Operation.toKVs (o : Operation) : KVs :=
  [("Id", .str o.operation_id),
   ("Type", .str o.operation_type.toStr),
   ("Status", .str o.status.toStr)] ++
  optKV "ParentId" ((truthyStr o.parent_id).map .str) ++
  optKV "Name" ((truthyStr o.name).map .str) ++
  optKV "StartTimestamp" (o.start_timestamp.map .ts) ++
  optKV "EndTimestamp" (o.end_timestamp.map .ts) ++
  optKV "SubType" (o.sub_type.map (fun s => .str s.toStr)) ++
  optKV "ExecutionDetails" (o.execution_details.map ExecutionDetails.toDict) ++
  optKV "ContextDetails" (o.context_details.map ContextDetails.toDict) ++
  optKV "StepDetails" (o.step_details.map StepDetails.toDict) ++
  optKV "WaitDetails" (o.wait_details.map WaitDetails.toDict) ++
  optKV "CallbackDetails" (o.callback_details.map CallbackDetails.toDict) ++
  optKV "ChainedInvokeDetails" (o.chained_invoke_details.map ChainedInvokeDetails.toDict)

/-- lambda_service.py:807-869 -/
def Operation.toDict (o : Operation) : DV := .dict o.toKVs

/-- lambda_service.py:747-805 `Operation.from_dict`.  `OperationType(data.get("Type"))` raises
ValueError when absent; every `*Details` is decoded only `if` its dict is truthy (so `{}` → None);
since the fix at lines 784-788 this includes ChainedInvokeDetails (read through its own variable). -/
def Operation.fromKVs (kvs : KVs) : Option Operation := do
  let operation_type ← reqEnum OperationType.ofStr? kvs "Type"
  let status ← reqEnum OperationStatus.ofStr? kvs "Status"
  let sub_type ← optEnum OperationSubType.ofStr? kvs "SubType"
  let execution_details ← optSub kvs "ExecutionDetails" ExecutionDetails.fromDict
  let context_details ← optSub kvs "ContextDetails" ContextDetails.fromDict
  let step_details ← optSub kvs "StepDetails" StepDetails.fromDict
  let wait_details ← optSub kvs "WaitDetails" WaitDetails.fromDict
  let callback_details ← optSub kvs "CallbackDetails" CallbackDetails.fromDict
  let chained_invoke_details ← optSub kvs "ChainedInvokeDetails" ChainedInvokeDetails.fromDict
  let operation_id ← reqStr kvs "Id"
  let parent_id ← getStr? kvs "ParentId"
  let name ← getStr? kvs "Name"
  let start_timestamp ← getTs? kvs "StartTimestamp"
  let end_timestamp ← getTs? kvs "EndTimestamp"
  pure { operation_id, operation_type, status, parent_id, name, start_timestamp, end_timestamp,
         sub_type, execution_details, context_details, step_details, wait_details,
         callback_details, chained_invoke_details }

/-- lambda_service.py:747-805 -/
def Operation.fromDict : DV → Option Operation
  | .dict kvs => Operation.fromKVs kvs
  | _ => none

/-- lambda_service.py:883-887: `if ts := result.get(k): result[k] = to_unix_millis(ts)`.
(A truthy non-datetime there would raise in Python; `to_dict` never produces one, the model leaves
the dict unchanged.) -/
def toMillisField (k : String) (kvs : KVs) : KVs :=
  match lookupTruthy k kvs with
  | some (.ts m) => setKey k (.int (toMs m)) kvs
  | _ => kvs

/-- lambda_service.py:889-901: `if (d := result.get(outer)) and (ts := d.get(inner)):
result[outer][inner] = to_unix_millis(ts)`. -/
def toMillisNested (outer inner : String) (kvs : KVs) : KVs :=
  match lookupTruthy outer kvs with
  | some (.dict sub) =>
    match lookupTruthy inner sub with
    | some (.ts m) => setKey outer (.dict (setKey inner (.int (toMs m)) sub)) kvs
    | _ => kvs
  | _ => kvs

/-- lambda_service.py:871-903 `Operation.to_json_dict`, on the key/value list. -/
def Operation.jsonifyKVs (kvs : KVs) : KVs :=
  toMillisNested "WaitDetails" "ScheduledEndTimestamp"
    (toMillisNested "StepDetails" "NextAttemptTimestamp"
      (toMillisField "EndTimestamp"
        (toMillisField "StartTimestamp" kvs)))

/-- lambda_service.py:871-903 -/
def Operation.toJsonDict (o : Operation) : DV := .dict (Operation.jsonifyKVs o.toKVs)

/-- lambda_service.py:921-925: `if ms := data.get(k): data[k] = from_unix_millis(ms)`.
Falsy (absent, None, **0**) is left as is — so epoch-millisecond 0 stays the integer 0.
A truthy non-integer raises TypeError (`ms / 1000`) = `none`. -/
def fromMillisField (k : String) (kvs : KVs) : Option KVs :=
  match lookupTruthy k kvs with
  | none => some kvs
  | some (.int ms) => some (setKey k (.ts (fromMs ms)) kvs)
  | some _ => none

/-- lambda_service.py:927-939: nested variant (a truthy non-dict `outer` raises AttributeError). -/
def fromMillisNested (outer inner : String) (kvs : KVs) : Option KVs :=
  match lookupTruthy outer kvs with
  | none => some kvs
  | some (.dict sub) =>
    match lookupTruthy inner sub with
    | none => some kvs
    | some (.int ms) => some (setKey outer (.dict (setKey inner (.ts (fromMs ms)) sub)) kvs)
    | some _ => none
  | some _ => none

/-- lambda_service.py:918-939: the timestamp conversions of `from_json_dict`, on the key/value list. -/
def Operation.unjsonifyKVs (kvs : KVs) : Option KVs := do
  let kvs ← fromMillisField "StartTimestamp" kvs
  let kvs ← fromMillisField "EndTimestamp" kvs
  let kvs ← fromMillisNested "StepDetails" "NextAttemptTimestamp" kvs
  fromMillisNested "WaitDetails" "ScheduledEndTimestamp" kvs

/-- lambda_service.py:905-942 `Operation.from_json_dict` -/
def Operation.fromJsonDict : DV → Option Operation
  | .dict kvs => (Operation.unjsonifyKVs kvs).bind Operation.fromKVs
  | _ => none

/-! ## InitialExecutionState -/

/-- execution.py:98-102 -/
def InitialExecutionState.toDict (s : InitialExecutionState) : DV :=
  .dict [("Operations", .list (s.operations.map Operation.toDict)),
         ("NextMarker", .str s.next_marker)]

/-- execution.py:104-108 -/
def InitialExecutionState.toJsonDict (s : InitialExecutionState) : DV :=
  .dict [("Operations", .list (s.operations.map Operation.toJsonDict)),
         ("NextMarker", .str s.next_marker)]

/-- execution.py:54-56 / 64-66: `[f(op) for op in ops] if (ops := d.get("Operations")) else []`.
A truthy non-list raises (iterating a dict/str feeds strings to `from_dict`). -/
def readOperations (f : DV → Option Operation) (kvs : KVs) : Option (List Operation) :=
  match lookupTruthy "Operations" kvs with
  | none => some []
  | some (.list xs) => allSome f xs
  | some _ => none

/-- execution.py:52-60 -/
def InitialExecutionState.fromDict : DV → Option InitialExecutionState
  | .dict kvs => do
    let operations ← readOperations Operation.fromDict kvs
    let next_marker ← getStrD kvs "NextMarker" ""
    pure { operations, next_marker }
  | _ => none

/-- execution.py:62-70 -/
def InitialExecutionState.fromJsonDict : DV → Option InitialExecutionState
  | .dict kvs => do
    let operations ← readOperations Operation.fromJsonDict kvs
    let next_marker ← getStrD kvs "NextMarker" ""
    pure { operations, next_marker }
  | _ => none

/-! ## DurableExecutionInvocationInput -/

/-- execution.py:141-146 -/
def DurableExecutionInvocationInput.toDict (i : DurableExecutionInvocationInput) : DV :=
  .dict [("DurableExecutionArn", .str i.durable_execution_arn),
         ("CheckpointToken", .str i.checkpoint_token),
         ("InitialExecutionState", i.initial_execution_state.toDict)]

/-- execution.py:148-153 -/
def DurableExecutionInvocationInput.toJsonDict (i : DurableExecutionInvocationInput) : DV :=
  .dict [("DurableExecutionArn", .str i.durable_execution_arn),
         ("CheckpointToken", .str i.checkpoint_token),
         ("InitialExecutionState", i.initial_execution_state.toJsonDict)]

/-- `input_dict.get("InitialExecutionState", {})` (execution.py:125, 137): absent → `{}`. -/
def getStateDict (kvs : KVs) : DV :=
  match lookup "InitialExecutionState" kvs with
  | some v => v
  | none => .dict []

/-- execution.py:117-127 (`input_dict["DurableExecutionArn"]`: KeyError) -/
def DurableExecutionInvocationInput.fromDict : DV → Option DurableExecutionInvocationInput
  | .dict kvs => do
    let durable_execution_arn ← reqStr kvs "DurableExecutionArn"
    let checkpoint_token ← reqStr kvs "CheckpointToken"
    let initial_execution_state ← InitialExecutionState.fromDict (getStateDict kvs)
    pure { durable_execution_arn, checkpoint_token, initial_execution_state }
  | _ => none

/-- execution.py:129-139 -/
def DurableExecutionInvocationInput.fromJsonDict : DV → Option DurableExecutionInvocationInput
  | .dict kvs => do
    let durable_execution_arn ← reqStr kvs "DurableExecutionArn"
    let checkpoint_token ← reqStr kvs "CheckpointToken"
    let initial_execution_state ← InitialExecutionState.fromJsonDict (getStateDict kvs)
    pure { durable_execution_arn, checkpoint_token, initial_execution_state }
  | _ => none

/-! ## DurableExecutionInvocationOutput -/

/-- execution.py:212-226: `Result` kept whenever `is not None` (so `""` is kept); `if self.error:`
is "is not None", so an all-None error is emitted as `"Error": {}`. -/
def DurableExecutionInvocationOutput.toKVs (o : DurableExecutionInvocationOutput) : KVs :=
  [("Status", .str o.status.toStr)] ++
  optKV "Result" (o.result.map .str) ++
  optKV "Error" (o.error.map ErrorObject.toDict)

/-- execution.py:212-226 -/
def DurableExecutionInvocationOutput.toDict (o : DurableExecutionInvocationOutput) : DV :=
  .dict o.toKVs

/-- execution.py:196-210 -/
def DurableExecutionInvocationOutput.fromDict : DV → Option DurableExecutionInvocationOutput
  | .dict kvs => do
    let status ← reqEnum InvocationStatus.ofStr? kvs "Status"
    let error ← optError kvs
    let result ← getStr? kvs "Result"
    pure { status, result, error }
  | _ => none

end Wire
