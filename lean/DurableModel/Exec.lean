import DurableModel.Script
/-!
# Executions: a sequence of invocations interleaved with backend events

`Round.invoke` runs one invocation of the program against the part of the table the backend hands
out (B6: descendants of a completed context are omitted unless it has ReplayChildren), `Round.event`
lets a timer / external party act (B3).  No Mathlib, no proofs.
-/
namespace Exec
open Engine

/-- Proper prefixes of a position, i.e. the positions of its enclosing contexts. -/
def ancestors (p : Pos) : List Pos := (List.range p.length).filterMap (fun k => if k = 0 then none else some (p.take k))

/-- **B6.** -/
def hidden (t : Tbl) (p : Pos) : Bool :=
  (ancestors p).any (fun q =>
    match lookup t q with
    | some r => r.kind == .context && r.status.terminal && !r.replayChildren
    | none => false)

def visible (t : Tbl) : Tbl := t.filter (fun e => !(hidden t e.1))

inductive Round where
  | invoke (budget : Nat) (failAt : Option Nat) (keep : Nat) (imm : List (Pos × Backend.Immediate))
  | event (e : Backend.Event)
  deriving Repr, Inhabited

def immOf (l : List (Pos × Backend.Immediate)) : Pos → Backend.Immediate :=
  fun p => ((l.find? (fun e => e.1 == p)).map Prod.snd).getD .none

structure RoundOut where
  isInvoke : Bool
  ending : Option End := none
  trace : List Ev := []
  tbl : Tbl
  enabled : Bool := true
  deriving Inhabited

def runRound (p : Prog) (t : Tbl) : Round → RoundOut
  | .invoke budget failAt keep imm =>
    let (e, s) := Engine.invoke p (visible t) budget failAt (immOf imm)
    { isInvoke := true, ending := some e, trace := s.trace, tbl := finalTbl e s keep }
  | .event ev =>
    match Backend.fire t ev with
    | some t' => { isInvoke := false, tbl := t' }
    | none => { isInvoke := false, tbl := t, enabled := false }

def runRounds (p : Prog) : Tbl → List Round → List RoundOut
  | _, [] => []
  | t, r :: rs =>
    let o := runRound p t r
    o :: runRounds p o.tbl rs

end Exec
