import DurableModel.Engine
/-!
# Script: a first-order, serialisable mirror of `Engine.Prog`

The correspondence harness interprets the same `Script` with real `DurableContext` calls; `compile`
turns it into a `Prog` (continuations = closures over the observations made so far).  User code is
modelled as: every operation outcome is appended to the enclosing context's observation list; an
uncaught error propagates; the context returns the `|`-joined observations.  No Mathlib, no proofs.
-/
namespace Script
open Engine

/-- Outcome tables are indexed by attempt (1-based); the last entry repeats. -/
def tableAt {α : Type} [Inhabited α] (xs : List α) (attempt : Nat) : α :=
  match xs with
  | [] => default
  | _ => xs.getD (attempt - 1) (xs.getLastD default)

structure Retry where
  maxAttempts : Nat
  delays : List Nat
  noRetry : List String      -- exception classes that are never retried
  deriving Repr, Inhabited

def Retry.strategy (r : Retry) : RetryStrategy := fun e made =>
  if r.maxAttempts ≤ made then none
  else if r.noRetry.contains e.cls then none
  else some (tableAt r.delays made)

inductive Stmt where
  | step (body : List Outcome) (amo : Bool) (retry : Retry) (catch_ : Bool)
  | wait (secs : Nat)
  | cbNew (slot : Nat)
  | cbRes (slot : Nat) (catch_ : Bool)
  | invoke (payload : Val) (catch_ : Bool)
  | wfc (init : Val) (check : List Outcome) (decide : List (Option Nat)) (catch_ : Bool)
  | child (body : List Stmt) (limit : Nat) (summary : Val) (catch_ : Bool)
  | log (msg : String)
  | pad (n : Nat)             -- user code appends n filler characters to its observations (to build large results)
  | ret
  | raise (e : Exc)
  deriving Repr, Inhabited

/-- How user code records an observed outcome. -/
def digest (v : Val) : Val := if v.length > 40 then (v.take 8).toString ++ "#" ++ toString v.length else v

def obsOf : Outcome → Val
  | .ok v => digest v
  | .err e => "E:" ++ e.cls ++ ":" ++ e.msg ++ ":" ++ (e.etype.getD "-")

def join (obs : List Val) : Val := String.intercalate "|" obs

def slotOf (slots : List (Nat × Handle)) (k : Nat) : Handle :=
  ((slots.find? (fun p => p.1 == k)).map Prod.snd).getD []

mutual
  /-- Compile a statement list executed with observations `obs` so far. -/
  def compile : List Stmt → List Val → List (Nat × Handle) → Prog
    | [], obs, _ => .ret (join obs)
    | .ret :: _, obs, _ => .ret (join obs)
    | .raise e :: _, _, _ => .raise e
    | .log m :: rest, obs, sl => .log m (compile rest obs sl)
    | .pad n :: rest, obs, sl => compile rest (obs ++ [String.ofList (List.replicate n '~')]) sl
    | .wait secs :: rest, obs, sl => .wait secs (compile rest (obs ++ [noneVal]) sl)
    | .cbNew k :: rest, obs, sl => .cbNew (fun h => compile rest obs ((k, h) :: sl))
    | .cbRes k c :: rest, obs, sl => .cbRes (slotOf sl k) (fun o => after o c rest obs sl)
    | .invoke pl c :: rest, obs, sl => .invoke pl (fun o => after o c rest obs sl)
    | .step body amo retry c :: rest, obs, sl =>
        .step { body := fun a => tableAt body a, amo := amo, strategy := retry.strategy }
          (fun o => after o c rest obs sl)
    | .wfc init check decide c :: rest, obs, sl =>
        .wfc { init := init, check := fun _ a => tableAt check a, decide := fun _ a => tableAt decide a }
          (fun o => after o c rest obs sl)
    | .child body limit summary c :: rest, obs, sl =>
        .child { large := fun v => decide (limit < v.length + 2), summary := fun _ => summary }
          (compile body [] sl) (fun o => after o c rest obs sl)
  /-- Continuation after an outcome: record it; an uncaught error propagates. -/
  def after : Outcome → Bool → List Stmt → List Val → List (Nat × Handle) → Prog
    | .ok v, _, rest, obs, sl => compile rest (obs ++ [digest v]) sl
    | .err e, true, rest, obs, sl =>
        -- user code lets invocation-level errors (StepInterruptedError) propagate, as the SDK requires
        if e.inv then .raise e else compile rest (obs ++ [obsOf (.err e)]) sl
    | .err e, false, _, _, _ => .raise e
end

end Script
