/-!
# Ordered lock and ordered counter (property C19)

Transition-system model of `OrderedLock` / `OrderedCounter` (threading.py:78-222).  One
*request* `r : Nat` stands for one `with lock: body` performed by some thread; any number of
requests, any interleaving.  Each action is one critical section of the inner `Lock` (or the
return of `Event.wait()`), i.e. one atomic step under the trusted-base assumption T4.

    acquire (threading.py:111-140)
      with self._lock:  broken? -> raise OrderedLockError        -- `enq r` (refused)
                        append event; set it if alone            -- `enq r`
      event.wait(); if self._is_broken: raise OrderedLockError   -- `wake r`
    __exit__ without exception -> release (142-152)              -- `rel r`
      with self._lock: popleft; if waiters and not broken: waiters[0].set()
    __exit__ with exception (181-192)                            -- `brk r` then `rel r`
      with self._lock: broken = True; set every waiter
      release()

`wake r` merges "Event.wait() returned" with the following unlocked read of `_is_broken`: the
flag only ever goes False -> True, and while a woken, not-yet-checked, unbroken head exists no
request is inside its critical section, so no `brk` can interleave between the two.

Ghost fields (`arrivals`, `entries`, `results`) record history for the theorems; they do not
influence any transition.  No Mathlib, no proofs here.
-/
namespace Lock

inductive PC where
  | idle                -- acquire not called yet
  | waiting             -- event appended to the deque, blocked in event.wait()
  | inCS                -- holds the lock, running the body
  | breaking            -- body raised; `__exit__` marked the lock broken, release() still to run
  | doneOk              -- released normally
  | doneExc             -- left with its own exception (after marking the lock broken)
  | lockErr             -- got OrderedLockError from acquire
  deriving DecidableEq, Repr, Inhabited

inductive Act where
  | enq (r : Nat)
  | wake (r : Nat)
  | rel (r : Nat)
  | brk (r : Nat)
  deriving DecidableEq, Repr, Inhabited

structure St where
  pc : Nat → PC
  waiters : List Nat          -- the deque of events, head = owner
  isSet : Nat → Bool          -- event of request r is set
  broken : Bool
  counter : Nat               -- OrderedCounter._counter
  arrivals : List Nat         -- ghost: order in which requests were appended to the deque
  entries : List Nat          -- ghost: order in which requests entered their critical section
  results : List (Nat × Nat)  -- ghost: (request, value returned by increment), in order

def init : St :=
  { pc := fun _ => .idle, waiters := [], isSet := fun _ => false, broken := false,
    counter := 0, arrivals := [], entries := [], results := [] }

def setPc (s : St) (r : Nat) (p : PC) : St :=
  { s with pc := fun x => if x = r then p else s.pc x }

/-- `acquire`, first half (threading.py:119-130). -/
def enq (s : St) (r : Nat) : Option St :=
  if s.pc r ≠ .idle then none
  else if s.broken then some (setPc s r .lockErr)
  else
    some { (setPc s r .waiting) with
      waiters := s.waiters ++ [r],
      arrivals := s.arrivals ++ [r],
      isSet := fun x => if x = r then s.waiters.isEmpty else s.isSet x }

/-- `acquire`, second half (threading.py:133-140): enabled once the request's event is set. -/
def wake (s : St) (r : Nat) : Option St :=
  if s.pc r ≠ .waiting then none
  else if ¬ s.isSet r then none
  else if s.broken then some (setPc s r .lockErr)
  else some { (setPc s r .inCS) with entries := s.entries ++ [r] }

/-- `release` (threading.py:142-152), reached from a normal exit (`inCS`: the body of
`OrderedCounter.increment` has run: `_counter += 1; return _counter`) or after `brk`. -/
def rel (s : St) (r : Nat) : Option St :=
  match s.pc r with
  | .inCS =>
    match s.waiters with
    | [] => none      -- release() would raise "You have to acquire a lock before you can release it."
    | _ :: rest =>
      some { (setPc s r .doneOk) with
        waiters := rest,
        counter := s.counter + 1,
        results := s.results ++ [(r, s.counter + 1)],
        isSet := fun x => if (!s.broken && rest.head? == some x) then true else s.isSet x }
  | .breaking =>
    match s.waiters with
    | [] => none
    | _ :: rest =>
      some { (setPc s r .doneExc) with
        waiters := rest,
        isSet := fun x => if (!s.broken && rest.head? == some x) then true else s.isSet x }
  | _ => none

/-- `__exit__` with an exception, first lock section (threading.py:183-190). -/
def brk (s : St) (r : Nat) : Option St :=
  if s.pc r ≠ .inCS then none
  else
    some { (setPc s r .breaking) with
      broken := true,
      isSet := fun x => if x ∈ s.waiters then true else s.isSet x }

def step (s : St) : Act → Option St
  | .enq r => enq s r
  | .wake r => wake s r
  | .rel r => rel s r
  | .brk r => brk s r

/-- Run a list of actions; `none` as soon as one is not enabled. -/
def runActs : St → List Act → Option St
  | s, [] => some s
  | s, a :: as =>
    match step s a with
    | none => none
    | some s' => runActs s' as

/-- Reachability from the initial state. -/
inductive Reach : St → Prop where
  | init : Reach init
  | step {s s' : St} (a : Act) : Reach s → step s a = some s' → Reach s'

def holds (s : St) (r : Nat) : Bool := s.pc r == .inCS || s.pc r == .breaking

end Lock
