/-!
# Invocation outcome (property C18)

Decision tables of the wrapper `durable_execution` (execution.py:337-453), of
`handle_checkpoint_error` (execution.py:458-463) and of `CheckpointError.from_exception`
(exceptions.py:151-183).  No Mathlib, no proofs here.
-/
namespace Outcome

inductive Category where
  | invocation | execution
  deriving DecidableEq, Repr, Inhabited

/-- `CheckpointError.from_exception` (exceptions.py:151-180): `status` is
`ResponseMetadata.HTTPStatusCode` (`none` when absent or 0), `hasError` whether the `Error` dict is
present and non-empty, `code` its `Code` ("" when absent/None), `invalidToken` whether `Message`
starts with "Invalid Checkpoint Token". -/
def classify (status : Option Nat) (hasError : Bool) (code : String) (invalidToken : Bool) : Category :=
  match status with
  | none => .invocation
  | some 0 => .invocation
  | some st =>
    if st < 500 && 400 ≤ st && st ≠ 429 && hasError &&
       (code ≠ "InvalidParameterValueException" || !invalidToken)
    then .execution else .invocation

/-- `CheckpointError.is_retriable` (exceptions.py:182-183): the direction is the code's and its
tests' (the property defers to it). -/
def retriable (c : Category) : Bool := c == .execution

/-- Exception families as the wrapper's `except` chain distinguishes them (first match wins). -/
inductive Exc where
  | bgCheckpoint (c : Category)   -- BackgroundThreadError whose source is a CheckpointError
  | bgOther                       -- BackgroundThreadError with any other source exception
  | suspend                       -- SuspendExecution / TimedSuspendExecution
  | checkpoint (c : Category)     -- CheckpointError raised on the handler thread
  | invocation                    -- other InvocationError (BotoClientError, GetExecutionStateError, StepInterruptedError)
  | execution                     -- ExecutionError (CallbackError, NonDeterministicExecutionError, serdes failures)
  | other                         -- any other `Exception` (user errors, CallableRuntimeError, ValidationError, …)
  deriving DecidableEq, Repr, Inhabited

/-- What the handler thread delivered to `user_future.result()`. -/
inductive HandlerEnd where
  | returned (jsonable : Bool) (large : Bool)   -- value; is it json.dumps-able; is the text > the response limit
  | raisedExc (e : Exc) (largeErr : Bool)        -- `largeErr`: the FAILED response would exceed the limit (only for `other`)
  deriving DecidableEq, Repr, Inhabited

/-- Result of the extra synchronous checkpoint the wrapper issues for oversize results/errors. -/
inductive Ckpt where
  | ok
  | failedCheckpoint (c : Category)   -- the batcher failed with a CheckpointError
  | failedOther                       -- the batcher failed with another exception
  deriving DecidableEq, Repr, Inhabited

inductive Out where
  | succeeded (emptyPayload : Bool)   -- Status SUCCEEDED with Result (""/payload)
  | failed (withError : Bool)         -- Status FAILED with / without Error
  | pending                           -- Status PENDING, neither Result nor Error
  | raiseCheckpoint                   -- raises a retriable CheckpointError
  | raiseInvocation                   -- re-raises an InvocationError
  | raiseSource                       -- raises the non-CheckpointError source of a background failure
  deriving DecidableEq, Repr, Inhabited

/-- `handle_checkpoint_error` (execution.py:458-463). -/
def handleCheckpointError (c : Category) : Out :=
  if retriable c then .raiseCheckpoint else .failed true

/-- The `except` chain for an exception delivered by the handler thread (execution.py:379-453). -/
def onException (e : Exc) (largeErr : Bool) (ck : Ckpt) : Out :=
  match e with
  | .bgCheckpoint c => handleCheckpointError c
  | .bgOther => .raiseSource
  | .suspend => .pending
  | .checkpoint c => handleCheckpointError c
  | .invocation => .raiseInvocation
  | .execution => .failed true
  | .other =>
    if largeErr then
      match ck with
      | .ok => .failed false
      | .failedCheckpoint c => handleCheckpointError c     -- create_checkpoint_sync unwraps to the CheckpointError
      | .failedOther => .raiseSource                        -- … or to whatever the client raised
    else .failed true

/-- The whole wrapper (execution.py:337-453). -/
def wrapper (h : HandlerEnd) (ck : Ckpt) : Out :=
  match h with
  | .returned false _ => onException .other false ck        -- json.dumps raised TypeError inside the try
  | .returned true false => .succeeded false
  | .returned true true =>
    match ck with
    | .ok => .succeeded true
    | .failedCheckpoint c => handleCheckpointError c         -- BackgroundThreadError → first except clause
    | .failedOther => .raiseSource
  | .raisedExc e l => onException e l ck

end Outcome
