import DurableModel.Exec
/-!
# Vocabulary for the engine theorems (and trace monitors evaluated by the driver)

Executable definitions only; no proofs, no Mathlib.
-/
namespace Engine

/-- What a call at a position whose record is terminal must deliver: the recorded result, or the
recorded error as a CallableRuntimeError (`raise_callable_error`). -/
def outcomeOf (r : OpRec) : Outcome :=
  if r.status == .succeeded then .ok (r.result.getD noneVal) else .err (callableOf r.error)

/-- Completed with success or final failure (the statuses every handler short-circuits on). -/
def Done (r : OpRec) : Bool := r.status == .succeeded || r.status == .failed

/-- A context whose oversized result was replaced by a summary: its body is re-traversed on replay. -/
def ReplayCtx (r : OpRec) : Bool := r.kind == .context && r.status == .succeeded && r.replayChildren

def HRes.st : HRes → St
  | .deliver _ s => s
  | .stop _ s => s

/-- Events appended to the trace between two states. -/
def newEvents (before after : St) : List Ev := after.trace.drop before.trace.length

def Ev.isEnterAt (q : Pos) : Ev → Bool
  | .enter p _ _ _ => p == q
  | _ => false

def Ev.isUpdAt (q : Pos) : Ev → Bool
  | .upd u => u.pos == q
  | _ => false

def Ev.isRejected : Ev → Bool
  | .rejected _ => true
  | _ => false

def Ev.updOf : Ev → Option Upd
  | .upd u => some u
  | _ => none

def Upd.isTerminal (u : Upd) : Bool := u.action == .succeed || u.action == .fail

/-- A record on which the execution is durably parked: a retry timer, a wait timer, or an awaited
external event. -/
def Parked (r : OpRec) : Bool :=
  r.status == .pending ||
  (r.status == .started && (r.kind == .wait || r.kind == .callback || r.kind == .invoke))

/-- Trace monitor: no `enter`/`upd` at `q` among the events. -/
def noTouch (q : Pos) (evs : List Ev) : Bool := evs.all (fun e => !(e.isEnterAt q) && !(e.isUpdAt q))

end Engine
