/-!
# Operation identity (property C08)

Mirrors `DurableContext._create_step_id_for_logical_step` (context.py:307-314):

    step_id = f"{self._parent_id}-{step}" if self._parent_id else str(step)
    return hashlib.blake2b(step_id.encode()).hexdigest()[:64]

and the branch ids of `ConcurrentExecutor._execute_item_in_child_context`
(executor.py:399-408), which call the same function on the map/parallel context with the
branch index.  Identifiers are modelled as `List Char`; the hash is a parameter `H`.
No Mathlib, no proofs here.
-/
namespace Ident

abbrev Id := List Char

/-- `str(n)` for a natural number. -/
def decimal (n : Nat) : List Char := Nat.toDigits 10 n

/-- The pre-image that is hashed: `"<parent>-<n>"`, or `"<n>"` when the context has no
parent id (context.py:313; an empty parent id is falsy in Python and takes the root form). -/
def pre (parent : Option Id) (n : Nat) : List Char :=
  match parent with
  | none => decimal n
  | some p => if p = [] then decimal n else p ++ '-' :: decimal n

/-- A position in the program structure: the chain of call indices / branch indices from the
root context down to the operation (outermost first). -/
abbrev Pos := List Nat

/-- One level down: the id of the `n`-th operation of the context whose id is `par`. -/
def child (H : List Char → Id) (par : Option Id) (n : Nat) : Option Id :=
  some (H (pre par n))

/-- Id of the context reached by following `pos` from the root (`none` = the root context,
which has no id; context.py:269 `parent_id=None`). -/
def ctxOf (H : List Char → Id) (pos : Pos) : Option Id :=
  pos.foldl (child H) none

/-- Identifier of the operation at position `pos` (meaningful for non-empty `pos`). -/
def idOf (H : List Char → Id) (pos : Pos) : Id :=
  (ctxOf H pos).getD []

/-- Parent id reported for the operation at `pos`: the id of its enclosing context
(`OperationIdentifier.parent_id = self._parent_id`, context.py:349-351 etc.). -/
def parentOf (H : List Char → Id) (pos : Pos) : Option Id :=
  ctxOf H pos.dropLast

end Ident
