/-!
# The replay engine, sequential part (properties C01-C04, C07, C11-C14, C16, C17)

One *invocation* of a deterministic workflow against a backend table, as a total function
`run : Prog → Pos → Nat → St → End × St`, by structural recursion on the workflow `Prog` (an
interaction tree whose continuations are Lean functions, so every deterministic control flow —
try/except on outcomes included — is covered).  Each handler below is a transcription of
`check_result_status` / `execute` of the corresponding `operation/*.py`, one model branch per code
branch, including which checkpoints are synchronous.

Conventions
* positions are structural (`Pos = List Nat`): the k-th operation call of the context at `ctx` is
  `ctx ++ [k]` (k from 1, like `OrderedCounter`); C08 justifies using positions for ids.
* payloads are the values themselves (`Val`, an opaque token): C15 justifies identifying
  `deserialize (serialize v)` with `v` for values of the round-trip domain (hypothesis of C02).
* the backend contract is `Backend` below (DESIGN.md section 4, B1-B7).
* asynchronous updates are applied to the table at once, and remembered in `pending` until the next
  synchronous call: handlers never read an operation's record between its asynchronous START and
  its next synchronous update, so this is unobservable inside the invocation; a crash keeps only a
  prefix of `pending` (chosen by the oracle), which is what the next invocation can observe.
* `budget` counts crash points (inside every user function, before and after every synchronous
  API call): the invocation dies when it reaches 0.  `failAt = some k` makes the k-th synchronous
  API call fail without applying anything.

No Mathlib, no proofs here.
-/
namespace Engine

abbrev Pos := List Nat
abbrev Val := String

/-- The token for Python `None`. -/
def noneVal : Val := "None"

/-- An exception as user code observes it: class, message, and (for CallableRuntimeError) the
`error_type` attribute; `inv` = it is an `InvocationError` (StepInterruptedError). -/
structure Exc where
  cls : String
  msg : String
  etype : Option String := none
  inv : Bool := false
  deriving DecidableEq, Repr, Inhabited

inductive Outcome where
  | ok (v : Val)
  | err (e : Exc)
  deriving DecidableEq, Repr, Inhabited

/-- `ErrorObject` as stored by the backend (message, type). -/
structure ErrObj where
  message : Option String
  type : Option String
  deriving DecidableEq, Repr, Inhabited

/-- `ErrorObject.from_exception` (lambda_service.py:153-160). -/
def ErrObj.ofExc (e : Exc) : ErrObj := { message := some e.msg, type := some e.cls }

/-- `ErrorObject.to_callable_runtime_error` (lambda_service.py:180-186). -/
def ErrObj.toCallable (o : ErrObj) : Exc :=
  { cls := "CallableRuntimeError", msg := o.message.getD "None", etype := o.type }

/-- `CheckpointedResult.raise_callable_error` (state.py:190-203). -/
def callableOf : Option ErrObj → Exc
  | some o => o.toCallable
  | none => { cls := "CallableRuntimeError",
              msg := "Unknown error. No ErrorObject exists on the Checkpoint Operation.", etype := none }

inductive Kind where
  | step | wfc | wait | callback | invoke | context
  deriving DecidableEq, Repr, Inhabited

inductive Status where
  | started | pending | ready | succeeded | failed | cancelled | timedOut | stopped
  deriving DecidableEq, Repr, Inhabited

def Status.terminal : Status → Bool
  | .succeeded | .failed | .cancelled | .timedOut | .stopped => true
  | _ => false

structure OpRec where
  kind : Kind
  status : Status
  attempt : Nat := 0
  result : Option Val := none
  error : Option ErrObj := none
  replayChildren : Bool := false
  deriving DecidableEq, Repr, Inhabited

inductive Action where
  | start | succeed | fail | retry
  deriving DecidableEq, Repr, Inhabited

structure Upd where
  pos : Pos
  kind : Kind
  action : Action
  payload : Option Val := none
  error : Option ErrObj := none
  delay : Option Nat := none
  replayChildren : Bool := false
  sync : Bool := true
  deriving DecidableEq, Repr, Inhabited

abbrev Tbl := List (Pos × OpRec)

def lookup (t : Tbl) (p : Pos) : Option OpRec := (t.find? (fun e => e.1 == p)).map Prod.snd

def upsert (t : Tbl) (p : Pos) (r : OpRec) : Tbl :=
  if t.any (fun e => e.1 == p) then t.map (fun e => if e.1 == p then (p, r) else e) else t ++ [(p, r)]

/-! ## Backend contract (B1, B2): the lifecycle automaton -/
namespace Backend

/-- Outcome the backend may attach to the START of a wait / invoke / callback (immediate
completion, seen by the SDK's second status check). -/
inductive Immediate where
  | none
  | succeeded (v : Option Val)
  | failed (e : Option ErrObj)
  | timedOut
  | stopped
  deriving DecidableEq, Repr, Inhabited

def startRec (k : Kind) (imm : Immediate) : OpRec :=
  match k, imm with
  | .step, _ | .wfc, _ | .context, _ => { kind := k, status := .started }
  | _, .none => { kind := k, status := .started }
  | _, .succeeded v => { kind := k, status := .succeeded, result := v }
  | _, .failed e => { kind := k, status := .failed, error := e }
  | _, .timedOut => { kind := k, status := .timedOut }
  | _, .stopped => { kind := k, status := .stopped }

/-- Is the non-root parent an existing context? -/
def parentOk (t : Tbl) (p : Pos) : Bool :=
  match p.dropLast with
  | [] => true
  | par => match lookup t par with
           | some r => r.kind == .context
           | none => false

/-- **B1.** `apply` accepts exactly the legal updates; `none` = the backend rejects the call. -/
def apply (t : Tbl) (u : Upd) (imm : Immediate) : Option Tbl :=
  if !parentOk t u.pos then none else
  match lookup t u.pos, u.action with
  | none, .start => some (upsert t u.pos (startRec u.kind imm))
  | some r, .start =>
    if (r.kind == .step || r.kind == .wfc) && r.status == .ready && r.kind == u.kind
    then some (upsert t u.pos { r with status := .started }) else none
  | some r, .succeed =>
    if r.kind == u.kind && (r.status == .started || ((r.kind == .step || r.kind == .wfc) && r.status == .ready))
       && (r.kind == .step || r.kind == .wfc || r.kind == .context)
    then some (upsert t u.pos { r with status := .succeeded, result := u.payload, error := none,
                                       replayChildren := u.replayChildren }) else none
  | some r, .fail =>
    if r.kind == u.kind && (r.status == .started || ((r.kind == .step || r.kind == .wfc) && r.status == .ready))
       && (r.kind == .step || r.kind == .wfc || r.kind == .context)
    then some (upsert t u.pos { r with status := .failed, error := u.error }) else none
  | some r, .retry =>
    if r.kind == u.kind && (r.kind == .step || r.kind == .wfc) && (r.status == .started || r.status == .ready)
    then some (upsert t u.pos { r with status := .pending, attempt := r.attempt + 1,
                                       result := (if u.payload.isSome then u.payload else r.result),
                                       error := u.error }) else none
  | none, _ => none

/-- **B3.** What timers and external parties may do between (or during) invocations. -/
inductive Event where
  | retryReady (p : Pos)                         -- PENDING → READY at nextAttemptAt
  | waitDone (p : Pos)                           -- WAIT STARTED → SUCCEEDED
  | callbackDone (p : Pos) (o : Immediate)       -- CALLBACK STARTED → terminal
  | invokeDone (p : Pos) (o : Immediate)         -- CHAINED_INVOKE STARTED → terminal
  deriving DecidableEq, Repr, Inhabited

def finish (r : OpRec) : Immediate → OpRec
  | .none => r
  | .succeeded v => { r with status := .succeeded, result := v }
  | .failed e => { r with status := .failed, error := e }
  | .timedOut => { r with status := .timedOut }
  | .stopped => { r with status := .stopped }

/-- `none` when the event is not enabled in `t`. -/
def fire (t : Tbl) : Event → Option Tbl
  | .retryReady p =>
    match lookup t p with
    | some r => if (r.kind == .step || r.kind == .wfc) && r.status == .pending
                then some (upsert t p { r with status := .ready }) else none
    | none => none
  | .waitDone p =>
    match lookup t p with
    | some r => if r.kind == .wait && r.status == .started
                then some (upsert t p { r with status := .succeeded }) else none
    | none => none
  | .callbackDone p o =>
    match lookup t p with
    | some r => if r.kind == .callback && r.status == .started && o != .none
                then some (upsert t p (finish r o)) else none
    | none => none
  | .invokeDone p o =>
    match lookup t p with
    | some r => if r.kind == .invoke && r.status == .started && o != .none
                then some (upsert t p (finish r o)) else none
    | none => none

end Backend

/-! ## Workflows -/

/-- Retry strategy of a step: `(error, attempts made) ↦ none` (do not retry) or `some delay`. -/
abbrev RetryStrategy := Exc → Nat → Option Nat

structure StepSpec where
  body : Nat → Outcome                 -- attempt ↦ what the user function does
  amo : Bool := false                  -- StepSemantics.AT_MOST_ONCE_PER_RETRY
  strategy : RetryStrategy

structure WfcSpec where
  init : Val
  check : Val → Nat → Outcome          -- (state, attempt) ↦ new state or exception
  decide : Val → Nat → Option Nat      -- wait strategy: none = stop polling, some d = continue after d s

structure ChildSpec where
  large : Val → Bool := fun _ => false -- serialized result exceeds the checkpoint size limit
  summary : Val → Val := fun _ => ""   -- summary generator ("" when there is none)

/-- A callback handle: the position of the callback operation (the id returned to the user is the
backend's; it is a function of the position in this model). -/
abbrev Handle := Pos

inductive Prog where
  | ret (v : Val)
  | raise (e : Exc)
  | log (msg : String) (k : Prog)
  | step (s : StepSpec) (k : Outcome → Prog)
  | wait (secs : Nat) (k : Prog)
  | cbNew (k : Handle → Prog)
  | cbRes (h : Handle) (k : Outcome → Prog)
  | invoke (payload : Val) (k : Outcome → Prog)
  | wfc (w : WfcSpec) (k : Outcome → Prog)
  | child (c : ChildSpec) (body : Prog) (k : Outcome → Prog)

/-! ## One invocation -/

/-- Observable events of an invocation (the correspondence check compares these with the real code). -/
inductive Ev where
  | enter (p : Pos) (k : Kind) (attempt : Nat) (state : Option Val)   -- a user function is entered
  | upd (u : Upd)                                                     -- update handed to the checkpoint pipeline
  | applied (u : Upd)                                                 -- … accepted by the backend
  | rejected (u : Upd)                                                -- … refused by the backend (B1)
  | deliver (p : Pos) (o : Outcome)                                   -- an operation call returns / raises to user code
  | logged (ctx : Pos) (msg : String) (emitted : Bool)
  deriving DecidableEq, Repr, Inhabited

inductive End where
  | returned (v : Val)
  | raised (e : Exc)
  | suspended (delay : Option Nat)     -- TimedSuspendExecution / SuspendExecution
  | crashed
  | ckptFailed
  deriving DecidableEq, Repr, Inhabited

structure St where
  tbl : Tbl                                   -- backend table incl. asynchronous updates handed over so far
  pending : List Upd := []                    -- asynchronous updates not yet covered by a synchronous call
  syncTbl : Tbl                               -- backend table as of the last synchronous call
  trace : List Ev := []
  budget : Nat                                -- crash points left
  failAt : Option Nat := none                 -- index of the synchronous API call that fails
  syncCalls : Nat := 0
  imm : Pos → Backend.Immediate := fun _ => .none
  replaying : Bool := false                   -- ReplayStatus.REPLAY
  visited : List Pos := []

def emit (s : St) (e : Ev) : St := { s with trace := s.trace ++ [e] }

/-- A crash point: `none` = the invocation dies here. -/
def tick (s : St) : Option St := if s.budget = 0 then none else some { s with budget := s.budget - 1 }

/-- Result of a handler step. -/
inductive HRes where
  | deliver (o : Outcome) (s : St)
  | stop (e : End) (s : St)

/-- Hand an update to the checkpoint pipeline (`ExecutionState.create_checkpoint`). -/
def checkpoint (s : St) (u : Upd) : Except (End × St) St :=
  let s := emit s (.upd u)
  if !u.sync then
    match Backend.apply s.tbl u (s.imm u.pos) with
    | some t => .ok (emit { s with tbl := t, pending := s.pending ++ [u] } (.applied u))
    | none => .ok (emit { s with pending := s.pending ++ [u] } (.rejected u))
  else
    match tick s with
    | none => .error (.crashed, s)                                        -- dies before the call
    | some s =>
      if s.failAt = some s.syncCalls then .error (.ckptFailed, { s with syncCalls := s.syncCalls + 1 })
      else
        match Backend.apply s.tbl u (s.imm u.pos) with
        | none => .error (.ckptFailed, emit { s with syncCalls := s.syncCalls + 1 } (.rejected u))
        | some t =>
          let s := emit { s with tbl := t, syncTbl := t, pending := [], syncCalls := s.syncCalls + 1 } (.applied u)
          match tick s with
          | none => .error (.crashed, s)                                  -- dies after the call was applied
          | some s => .ok s

/-- `ExecutionState.track_replay` (state.py:293-325), called after an operation returned normally. -/
def trackReplay (s : St) (p : Pos) : St :=
  if !s.replaying then s else
  let visited := s.visited ++ [p]
  let completed := (s.tbl.filter (fun e => e.2.status.terminal)).map Prod.fst
  { s with visited := visited, replaying := !(completed.all (fun q => visited.contains q)) }

def deliverAt (s : St) (p : Pos) (o : Outcome) : HRes :=
  match o with
  | .ok v => .deliver (.ok v) (trackReplay (emit s (.deliver p (.ok v))) p)
  | .err e => .deliver (.err e) (trackReplay (emit s (.deliver p (.err e))) p)   -- `finally: track_replay` (context.py)

/-- "1.2.3" -/
def dotted (p : Pos) : String := String.intercalate "." (p.map toString)

/-- step.py:143-146; the harness canonicalises the operation id in the message to `@<position>`. -/
def StepInterrupted (p : Pos) : Exc :=
  { cls := "StepInterruptedError",
    msg := "Step operation_id=@" ++ dotted p ++ " name=p:" ++ dotted p ++ " was previously interrupted",
    inv := true }

/-- `StepOperationExecutor.retry_handler` (step.py:269-359). `r` is the record `execute` was given. -/
def retryHandler (s : St) (p : Pos) (spec : StepSpec) (r : Option OpRec) (e : Exc) : HRes :=
  let made := (match r with | some r => r.attempt | none => 0) + 1
  match spec.strategy e made with
  | some d =>
    match checkpoint s { pos := p, kind := .step, action := .retry, error := some (ErrObj.ofExc e),
                         delay := some (max 1 d) } with
    | .error (en, s) => .stop en s
    | .ok s => .stop (.suspended (some (max 1 d))) s
  | none =>
    match checkpoint s { pos := p, kind := .step, action := .fail, error := some (ErrObj.ofExc e) } with
    | .error (en, s) => .stop en s
    | .ok s => if e.inv then deliverAt s p (.err e) else deliverAt s p (.err (ErrObj.ofExc e).toCallable)

/-- `StepOperationExecutor.execute` (step.py:192-267). -/
def stepExecute (s : St) (p : Pos) (spec : StepSpec) (r : Option OpRec) : HRes :=
  let attempt := (match r with | some r => r.attempt | none => 0) + 1
  let s := emit s (.enter p .step attempt none)
  match tick s with
  | none => .stop .crashed s                                          -- dies inside the user function
  | some s =>
    match spec.body attempt with
    | .ok v =>
      match checkpoint s { pos := p, kind := .step, action := .succeed, payload := some v } with
      | .error (en, s) => .stop en s
      | .ok s => deliverAt s p (.ok v)
    | .err e => retryHandler s p spec r e

/-- `StepOperationExecutor.check_result_status` + `process` (step.py:79-190, base.py:150-187). -/
def handleStep (s : St) (p : Pos) (spec : StepSpec) : HRes :=
  match lookup s.tbl p with
  | some r =>
    if r.status == .succeeded then deliverAt s p (.ok (r.result.getD noneVal))
    else if r.status == .failed then deliverAt s p (.err (callableOf r.error))
    else if r.status == .pending then .stop (.suspended (some 0)) s
    else if r.status == .started && spec.amo then retryHandler s p spec (some r) (StepInterrupted p)
    else if r.status == .ready && spec.amo then
      -- at-most-once retry attempt: its START is recorded (synchronously) before the function runs
      match checkpoint s { pos := p, kind := .step, action := .start, sync := true } with
      | .error (en, s) => .stop en s
      | .ok s => stepExecute s p spec (lookup s.tbl p)
    else stepExecute s p spec (some r)                                 -- STARTED/READY + at-least-once
  | none =>
    match checkpoint s { pos := p, kind := .step, action := .start, sync := spec.amo } with
    | .error (en, s) => .stop en s
    | .ok s => stepExecute s p spec (if spec.amo then lookup s.tbl p else none)

/-- `WaitOperationExecutor` (wait.py:48-111). -/
def handleWait (s : St) (p : Pos) (secs : Nat) : HRes :=
  match lookup s.tbl p with
  | some r =>
    if r.status == .succeeded then deliverAt s p (.ok noneVal)
    else .stop (.suspended (some secs)) s
  | none =>
    match checkpoint s { pos := p, kind := .wait, action := .start, delay := some secs } with
    | .error (en, s) => .stop en s
    | .ok s =>
      match lookup s.tbl p with
      | some r => if r.status == .succeeded then deliverAt s p (.ok noneVal) else .stop (.suspended (some secs)) s
      | none => .stop (.raised { cls := "InvalidStateError", msg := "Invalid CheckResult state" }) s

/-- The terminal part of `InvokeOperationExecutor.check_result_status` (invoke.py:87-110). -/
def invokeTerminal (s : St) (p : Pos) (r : OpRec) : Option HRes :=
  if r.status == .succeeded then some (deliverAt s p (.ok (r.result.getD noneVal)))
  else if r.status == .failed || r.status == .timedOut || r.status == .stopped
  then some (deliverAt s p (.err (callableOf r.error)))
  else none

/-- `InvokeOperationExecutor` (invoke.py:87-172). -/
def handleInvoke (s : St) (p : Pos) (payload : Val) : HRes :=
  match lookup s.tbl p with
  | some r => (invokeTerminal s p r).getD (.stop (.suspended (some 0)) s)
  | none =>
    match checkpoint s { pos := p, kind := .invoke, action := .start, payload := some payload } with
    | .error (en, s) => .stop en s
    | .ok s =>
      match lookup s.tbl p with
      | some r => (invokeTerminal s p r).getD (.stop (.suspended (some 0)) s)
      | none => .stop (.raised { cls := "InvalidStateError", msg := "Invalid CheckResult state" }) s

/-- `CallbackOperationExecutor` (callback.py:68-147): returns the handle for any existing status. -/
def handleCbNew (s : St) (p : Pos) : Except (End × St) St :=
  match lookup s.tbl p with
  | some _ => .ok (trackReplay (emit s (.deliver p (.ok "cb"))) p)
  | none =>
    match checkpoint s { pos := p, kind := .callback, action := .start } with
    | .error x => .error x
    | .ok s =>
      match lookup s.tbl p with
      | some _ => .ok (trackReplay (emit s (.deliver p (.ok "cb"))) p)
      | none => .error (.raised { cls := "InvalidStateError", msg := "Invalid CheckResult state" }, s)

/-- `Callback.result` (context.py:183-229); `track_replay` is not called here. -/
def handleCbRes (s : St) (h : Handle) : HRes :=
  match lookup s.tbl h with
  | none => .deliver (.err { cls := "CallbackError", msg := "Callback operation must exist" })
              (emit s (.deliver h (.err { cls := "CallbackError", msg := "Callback operation must exist" })))
  | some r =>
    if r.status == .failed || r.status == .cancelled || r.status == .timedOut || r.status == .stopped then
      let m := match r.error with
               | some e => (match e.message with | some m => if m == "" then "Callback failed" else m | none => "Callback failed")
               | none => "Callback failed"
      .deliver (.err { cls := "CallbackError", msg := m }) (emit s (.deliver h (.err { cls := "CallbackError", msg := m })))
    else if r.status == .succeeded then
      .deliver (.ok (r.result.getD noneVal)) (emit s (.deliver h (.ok (r.result.getD noneVal))))
    else .stop (.suspended none) s

/-- `WaitForConditionOperationExecutor.execute` (wait_for_condition.py:139-283). -/
def wfcExecute (s : St) (p : Pos) (w : WfcSpec) (r : Option OpRec) : HRes :=
  let state := match r with
    | some r => if (r.status == .started || r.status == .ready) then
                  (match r.result with | some v => if v == "" then w.init else v | none => w.init)
                else w.init
    | none => w.init
  let attempt := (match r with | some r => r.attempt | none => 0) + 1
  let s := emit s (.enter p .wfc attempt (some state))
  match tick s with
  | none => .stop .crashed s
  | some s =>
    match w.check state attempt with
    | .ok ns =>
      match w.decide ns attempt with
      | none =>
        match checkpoint s { pos := p, kind := .wfc, action := .succeed, payload := some ns } with
        | .error (en, s) => .stop en s
        | .ok s => deliverAt s p (.ok ns)
      | some d =>
        match checkpoint s { pos := p, kind := .wfc, action := .retry, payload := some ns, delay := some (max 1 d) } with
        | .error (en, s) => .stop en s
        | .ok s => .stop (.suspended (some d)) s
    | .err e =>
      match checkpoint s { pos := p, kind := .wfc, action := .fail, error := some (ErrObj.ofExc e) } with
      | .error (en, s) => .stop en s
      | .ok s => deliverAt s p (.err e)          -- re-raises the ORIGINAL exception (wait_for_condition.py:278)

/-- `WaitForConditionOperationExecutor.check_result_status` (wait_for_condition.py:76-137). -/
def handleWfc (s : St) (p : Pos) (w : WfcSpec) : HRes :=
  let r := lookup s.tbl p
  match r with
  | some rr =>
    if rr.status == .succeeded then deliverAt s p (.ok (rr.result.getD noneVal))
    else if rr.status == .failed then deliverAt s p (.err (callableOf rr.error))
    else if rr.status == .pending then .stop (.suspended (some 0)) s
    else if rr.status == .started then wfcExecute s p w r
    else
      match checkpoint s { pos := p, kind := .wfc, action := .start, sync := false } with
      | .error (en, s) => .stop en s
      | .ok s => wfcExecute s p w r
  | none =>
    match checkpoint s { pos := p, kind := .wfc, action := .start, sync := false } with
    | .error (en, s) => .stop en s
    | .ok s => wfcExecute s p w r

/-- What `ChildOperationExecutor.check_result_status` decides before the body runs (child.py:72-135):
`inl` = short-circuit, `inr (s, replayMode)` = run the body. -/
def childBefore (s : St) (p : Pos) : HRes ⊕ (St × Bool) :=
  match lookup s.tbl p with
  | some r =>
    if r.status == .succeeded && !r.replayChildren then .inl (deliverAt s p (.ok (r.result.getD noneVal)))
    else if r.status == .succeeded && r.replayChildren then .inr (emit s (.enter p .context 0 none), true)
    else if r.status == .failed then .inl (deliverAt s p (.err (callableOf r.error)))
    else .inr (emit s (.enter p .context 0 none), false)
  | none =>
    match checkpoint s { pos := p, kind := .context, action := .start, sync := false } with
    | .error (en, s) => .inl (.stop en s)
    | .ok s => .inr (emit s (.enter p .context 0 none), false)

/-- What `ChildOperationExecutor.execute` does once the body has ended (child.py:137-247). -/
def childAfter (s : St) (p : Pos) (c : ChildSpec) (replayMode : Bool) (e : End) : HRes :=
  match e with
  | .returned v =>
    if replayMode then deliverAt s p (.ok v)
    else
      let u : Upd := if c.large v
        then { pos := p, kind := .context, action := .succeed, payload := some (c.summary v), replayChildren := true }
        else { pos := p, kind := .context, action := .succeed, payload := some v }
      match checkpoint s u with
      | .error (en, s) => .stop en s
      | .ok s => deliverAt s p (.ok v)
  | .raised ex =>
    match checkpoint s { pos := p, kind := .context, action := .fail, error := some (ErrObj.ofExc ex) } with
    | .error (en, s) => .stop en s
    | .ok s => if ex.inv then deliverAt s p (.err ex) else deliverAt s p (.err (ErrObj.ofExc ex).toCallable)
  | other => .stop other s

/-- `Logger._should_log` (logger.py:118-131). -/
def doLog (s : St) (ctx : Pos) (msg : String) : St := emit s (.logged ctx msg (!s.replaying))

/-- **One invocation.** `ctx` is the position of the enclosing context, `n` the number of operation
calls it has made so far. -/
def run : Prog → Pos → Nat → St → End × St
  | .ret v, _, _, s => (.returned v, s)
  | .raise e, _, _, s => (.raised e, s)
  | .log m k, ctx, n, s => run k ctx n (doLog s ctx m)
  | .step spec k, ctx, n, s =>
    match handleStep s (ctx ++ [n + 1]) spec with
    | .deliver o s => run (k o) ctx (n + 1) s
    | .stop e s => (e, s)
  | .wait secs k, ctx, n, s =>
    match handleWait s (ctx ++ [n + 1]) secs with
    | .deliver _ s => run k ctx (n + 1) s
    | .stop e s => (e, s)
  | .cbNew k, ctx, n, s =>
    match handleCbNew s (ctx ++ [n + 1]) with
    | .ok s => run (k (ctx ++ [n + 1])) ctx (n + 1) s
    | .error (e, s) => (e, s)
  | .cbRes h k, ctx, n, s =>
    match handleCbRes s h with
    | .deliver o s => run (k o) ctx n s
    | .stop e s => (e, s)
  | .invoke payload k, ctx, n, s =>
    match handleInvoke s (ctx ++ [n + 1]) payload with
    | .deliver o s => run (k o) ctx (n + 1) s
    | .stop e s => (e, s)
  | .wfc w k, ctx, n, s =>
    match handleWfc s (ctx ++ [n + 1]) w with
    | .deliver o s => run (k o) ctx (n + 1) s
    | .stop e s => (e, s)
  | .child c body k, ctx, n, s =>
    match childBefore s (ctx ++ [n + 1]) with
    | .inl (.deliver o s) => run (k o) ctx (n + 1) s
    | .inl (.stop e s) => (e, s)
    | .inr (s, replayMode) =>
      match run body (ctx ++ [n + 1]) 0 s with
      | (e, s) =>
        match childAfter s (ctx ++ [n + 1]) c replayMode e with
        | .deliver o s => run (k o) ctx (n + 1) s
        | .stop e s => (e, s)

/-- Table the backend holds after the invocation ended with `e`: the synchronous state plus the first
`keep` asynchronous updates handed over since the last synchronous checkpoint.  This is so for EVERY
ending: a crash or failed call loses the tail, and an invocation that suspends, returns or raises stops
the checkpoint thread, which abandons asynchronous updates still queued (state.py stop_checkpointing:
"non-essential ... will be abandoned").  `keep ≥ pending.length` is the run in which everything was sent. -/
def applyPrefix (t : Tbl) (imm : Pos → Backend.Immediate) : List Upd → Nat → Tbl
  | [], _ => t
  | _, 0 => t
  | u :: us, k + 1 =>
    match Backend.apply t u (imm u.pos) with
    | some t' => applyPrefix t' imm us k
    | none => applyPrefix t imm us k

def finalTbl (_e : End) (s : St) (keep : Nat) : Tbl :=
  applyPrefix s.syncTbl s.imm s.pending keep

/-- Initial state of an invocation on table `t`: REPLAY iff the complete history (all pages) holds
any operation besides EXECUTION (execution.py:295-318). -/
def initSt (t : Tbl) (budget : Nat) (failAt : Option Nat) (imm : Pos → Backend.Immediate) : St :=
  { tbl := t, syncTbl := t, budget := budget, failAt := failAt, imm := imm, replaying := !t.isEmpty }

/-- A whole invocation of the handler program. -/
def invoke (p : Prog) (t : Tbl) (budget : Nat) (failAt : Option Nat) (imm : Pos → Backend.Immediate) :
    End × St := run p [] 0 (initSt t budget failAt imm)

end Engine
