/-!
# Orphan filter of `ExecutionState.create_checkpoint`

Executable model of the section of
`/repo/src/aws_durable_execution_sdk_python/state.py` that runs under
`with self._parent_done_lock:` in `ExecutionState.create_checkpoint` (lines 432-482) and of
`ExecutionState._mark_orphans` (lines 553-603), together with the four fields they use
(`operations`, `_parent_to_children`, `_parent_done`, `_completed_contexts`, lines 236-259).

Sets of strings are modelled as lists of numbers (membership is all that is ever observed);
dictionaries `parent -> {children}` are modelled as lists of `(parent, child)` pairs.

`self.operations` is only read here (`_mark_orphans`); in the modelled setting (asynchronous
checkpoints, no background thread running) it is constant, hence `recorded` never changes.
-/

namespace Orphan

/-- Operation ids (`operation_id`, `parent_id`; state.py:436-482). Opaque strings in Python; the
harness maps them to numbers. -/
abbrev Id := Nat

/-- The part of an `OperationUpdate` that the locked section of `create_checkpoint` looks at
(state.py:436-482): `operation_id`, `parent_id` (`none` for a falsy / absent parent id, line 436
and 454), `operation_type == CONTEXT`, `action in {SUCCEED, FAIL}` (lines 444-448, 477-481). -/
structure Upd where
  id : Id
  parent : Option Id
  isContext : Bool
  completes : Bool
deriving Repr, DecidableEq, Inhabited

/-- The fields used by the orphan filter (state.py:236, 253, 256, 259).
* `edges`     : `_parent_to_children` as `(parent, child)` pairs (line 253);
* `recorded`  : parent links `(parent_id, operation_id)` of the operations loaded from earlier
                invocations, i.e. of `self.operations.values()` with a truthy `parent_id`
                (line 236, read at lines 567-573);
* `done`      : `_parent_done` (line 256);
* `completed` : `_completed_contexts` (line 259). -/
structure St where
  edges : List (Id × Id)
  recorded : List (Id × Id)
  done : List Id
  completed : List Id
deriving Repr, DecidableEq, Inhabited

/-- `operation_type == CONTEXT and action in {SUCCEED, FAIL}` (state.py:444-448 and 477-481). -/
def Upd.isCompletion (u : Upd) : Bool := u.isContext && u.completes

/-- Direct children of `p` in a link list: `self._parent_to_children.get(current_id, set())`
together with `recorded_children.get(current_id, set())` (state.py:590-592). -/
def childrenOf (links : List (Id × Id)) (p : Id) : List Id :=
  (links.filter (fun e => e.1 == p)).map (fun e => e.2)

/-- One round of frontier expansion: keeps `S` and adds every child of a member of `S`
(state.py:580-592, all pending `to_process` elements handled at once). -/
def expand (links : List (Id × Id)) (S : List Id) : List Id :=
  S ++ (links.filter (fun e => S.contains e.1)).map (fun e => e.2)

/-- `n` rounds of `expand` (the `while to_process:` loop of state.py:580-592). -/
def iter (links : List (Id × Id)) : Nat → List Id → List Id
  | 0, S => S
  | n + 1, S => iter links n (expand links S)

/-- The set of nodes reachable from `c` by at least one link (state.py:576-592: the value of
`all_descendants` after the loop, *before* `discard(context_id)`, minus the unconditional initial
insertion of the root; the root is a member here only if it lies on a cycle).

Starts from the direct children of `c` and expands `links.length + 1` times. That many rounds
suffice: a round that adds a new node turns at least one link `(p, x)` with `x ∉ S` into a link
with `x ∈ S`, which can happen at most `links.length` times, so among `links.length + 1` rounds at
least one adds nothing, and from then on the set is closed under children (proved in
`OrphanProofs.mem_reachable_iff`). -/
def reachable (links : List (Id × Id)) (c : Id) : List Id :=
  iter links (links.length + 1) (childrenOf links c)

/-- What `_mark_orphans(context_id)` adds to `_parent_done` (state.py:553-603): the BFS over
`_parent_to_children` and the recorded parent links (here the caller passes `edges ++ recorded`),
with the root itself removed by `all_descendants.discard(context_id)` (line 595) even when it lies
on a cycle. -/
def descendants (links : List (Id × Id)) (c : Id) : List Id :=
  (reachable links c).filter (fun x => x != c)

/-- The locked section of `create_checkpoint` (state.py:434-482), in order. The `Bool` is `true`
when the update goes on to be enqueued and `false` when `OrphanedChildException` is raised; the
mutations made before the `raise` are kept, as in Python. -/
def step (s : St) (u : Upd) : St × Bool :=
  -- (a) state.py:436-441
  let edges := match u.parent with
    | some p => s.edges ++ [(p, u.id)]
    | none => s.edges
  -- (b) state.py:444-449 (`_mark_orphans`, 553-603)
  let done1 := if u.isCompletion then s.done ++ descendants (edges ++ s.recorded) u.id else s.done
  -- (c) state.py:453-461
  let done2 := match u.parent with
    | some p =>
      if !done1.contains u.id && (done1.contains p || s.completed.contains p)
      then done1 ++ [u.id] else done1
    | none => done1
  -- (d) state.py:464-475
  if done2.contains u.id then
    ({ edges := edges, recorded := s.recorded, done := done2, completed := s.completed }, false)
  else
    -- (e) state.py:477-482
    let completed := if u.isCompletion then s.completed ++ [u.id] else s.completed
    ({ edges := edges, recorded := s.recorded, done := done2, completed := completed }, true)

/-- `create_checkpoint` called once per update, in order, on the same `ExecutionState`
(state.py:432-482); collects the accepted flags. -/
def runAll (s : St) : List Upd → St × List Bool
  | [] => (s, [])
  | u :: us =>
    let r := step s u
    let rs := runAll r.1 us
    (rs.1, r.2 :: rs.2)

end Orphan
