/-!
# Checkpoint batcher (properties C05, C06, batcher layer of C03)

Transition-system model of `ExecutionState.create_checkpoint` (producers, state.py:462-494) and
of the single consumer thread `checkpoint_batches_forever` / `_collect_checkpoint_batch`
(state.py:572-677, 690-786), for any number of producers and any interleaving.  Each action is
one primitive step of one thread (a `queue.Queue` put/get, an `Event` set/is_set, an API call
returning) — atomic under trusted-base assumption T4.  Time is abstracted: the batching window may
end at any moment (`windowEnd` is always enabled), which over-approximates every timing.

The model mirrors the tree *after* the two `fix:` commits (overflow drain accepts an oversize item
into an empty batch; the failure event is set before draining and producers re-check it after the
put).  Ghost fields (`handed`, `dropped`, `calls`, `failedCall`) only record history.
No Mathlib, no proofs here.
-/
namespace Batcher

structure Item where
  id : Nat
  size : Nat          -- `_calculate_operation_size`: 0 for an empty checkpoint (update None)
  sync : Bool         -- has a CompletionEvent
  deriving DecidableEq, Repr, Inhabited

structure Cfg where
  maxBytes : Nat
  maxOps : Nat
  deriving DecidableEq, Repr, Inhabited

/-- Where the consumer thread is. -/
inductive Phase where
  | drain        -- draining the overflow queue (state.py:704-721)
  | first        -- batch empty: blocking for the first item of the main queue (724-740)
  | window       -- collecting more items inside the batching window (743-777)
  | call         -- batch collected, API call in flight (602-617)
  | release      -- call returned and response merged (622-629); completion events to set (632-634)
  | loopCheck    -- back at `while not stopped` (594)
  | failFlag     -- API call raised: about to set `_checkpointing_failed` (fix: before draining)
  | failBatch    -- waking the waiters of the failed batch
  | failOverflow -- draining the overflow queue, waking waiters
  | failMain     -- draining the main queue, waking waiters
  | done         -- the loop has exited
  deriving DecidableEq, Repr, Inhabited

/-- Where the producer of one item is (one `create_checkpoint` call). -/
inductive PPC where
  | new       -- not called yet
  | checked   -- passed the first `_checkpointing_failed.is_set()` check (state.py:463)
  | put       -- enqueued (476); re-check of the failure event pending (fix)
  | waiting   -- synchronous caller blocked in `completion_event.wait()` (492)
  | retAsync  -- asynchronous call returned
  | retOk     -- synchronous call returned normally
  | retErr    -- raised BackgroundThreadError
  deriving DecidableEq, Repr, Inhabited

inductive Act where
  | pCheck (x : Item) | pPut (x : Item) | pRecheck (x : Item) | pWake (x : Item)
  | drainTake | drainPutBack | drainEnd
  | firstGet | firstStop
  | windowGet | windowEnd
  | apiOk | apiFail | apiFailAfterApply | releaseAll
  | loopAgain | loopStop
  | failFlag | failBatch | failOvOne | failOvEnd | failMainOne | failMainEnd
  | stop
  deriving DecidableEq, Repr, Inhabited

structure St where
  cfg : Cfg
  mainQ : List Item
  overflow : List Item
  batch : List Item
  total : Nat
  toRelease : List Item                 -- the delivered batch whose events are still to be set
  phase : Phase
  token : Nat
  failed : Bool                         -- `_checkpointing_failed` is set
  stopped : Bool                        -- `_checkpointing_stopped` is set
  evt : Nat → Option Bool               -- completion event of item id: none / set ok / set with error
  ppc : Nat → PPC
  calls : List (Nat × List Item)        -- ghost: successful API calls (token sent, batch)
  failedCall : Option (Nat × List Item) -- ghost: the API call that raised
  handed : List Item                    -- ghost: items in the order of their `put`
  dropped : List Item                   -- ghost: items discarded by the failure path

def init (cfg : Cfg) : St :=
  { cfg := cfg, mainQ := [], overflow := [], batch := [], total := 0, toRelease := [],
    phase := .drain, token := 0, failed := false, stopped := false,
    evt := fun _ => none, ppc := fun _ => .new, calls := [], failedCall := none,
    handed := [], dropped := [] }

def setPpc (s : St) (i : Nat) (p : PPC) : St :=
  { s with ppc := fun x => if x = i then p else s.ppc x }

/-- Set the completion events of the synchronous items of `xs` to `b`; first value wins
(`CompletionEvent.set`, threading.py:44-54: "first error wins", and a set event stays set). -/
def setEvents (e : Nat → Option Bool) (xs : List Item) (b : Bool) : Nat → Option Bool :=
  fun i => if (xs.any (fun x => x.sync && x.id == i)) then (match e i with | none => some b | some v => some v) else e i

def bytesOf (xs : List Item) : Nat := (xs.map Item.size).sum

/-! ### producers (state.py:462-494) -/

def pCheck (s : St) (x : Item) : Option St :=
  if s.ppc x.id ≠ .new then none
  else if s.failed then some (setPpc s x.id .retErr)
  else some (setPpc s x.id .checked)

def pPut (s : St) (x : Item) : Option St :=
  if s.ppc x.id ≠ .checked then none
  else some { (setPpc s x.id .put) with mainQ := s.mainQ ++ [x], handed := s.handed ++ [x] }

def pRecheck (s : St) (x : Item) : Option St :=
  if s.ppc x.id ≠ .put then none
  else if x ∉ s.handed then none      -- the producer continues with the item it enqueued
  else if s.failed then some (setPpc s x.id .retErr)
  else some (setPpc s x.id (if x.sync then .waiting else .retAsync))

def pWake (s : St) (x : Item) : Option St :=
  if s.ppc x.id ≠ .waiting then none
  else match s.evt x.id with
    | none => none
    | some true => some (setPpc s x.id .retOk)
    | some false => some (setPpc s x.id .retErr)

/-! ### consumer: `_collect_checkpoint_batch` -/

def afterDrain (s : St) : St :=
  { s with phase := if s.batch.isEmpty then .first else .window }

def drainTake (s : St) : Option St :=
  if s.phase ≠ .drain then none
  else if ¬ (s.batch.length < s.cfg.maxOps) then none
  else match s.overflow with
    | [] => none
    | x :: r =>
      if (!s.batch.isEmpty) && (s.total + x.size > s.cfg.maxBytes) then none
      else some { s with batch := s.batch ++ [x], total := s.total + x.size, overflow := r }

def drainPutBack (s : St) : Option St :=
  if s.phase ≠ .drain then none
  else if ¬ (s.batch.length < s.cfg.maxOps) then none
  else match s.overflow with
    | [] => none
    | x :: r =>
      if (!s.batch.isEmpty) && (s.total + x.size > s.cfg.maxBytes)
      then some (afterDrain { s with overflow := r ++ [x] })
      else none

def drainEnd (s : St) : Option St :=
  if s.phase ≠ .drain then none
  else if s.overflow.isEmpty || ¬ (s.batch.length < s.cfg.maxOps) then some (afterDrain s)
  else none

def firstGet (s : St) : Option St :=
  if s.phase ≠ .first then none
  else match s.mainQ with
    | [] => none
    | x :: r => some { s with mainQ := r, batch := [x], total := x.size, phase := .window }

def firstStop (s : St) : Option St :=
  if s.phase ≠ .first then none
  else if s.stopped then some { s with phase := .done } else none

def windowGet (s : St) : Option St :=
  if s.phase ≠ .window then none
  else if ¬ (s.batch.length < s.cfg.maxOps) then none
  else match s.mainQ with
    | [] => none
    | x :: r =>
      if s.total + x.size > s.cfg.maxBytes
      then some { s with mainQ := r, overflow := s.overflow ++ [x], phase := .call }
      else some { s with mainQ := r, batch := s.batch ++ [x], total := s.total + x.size }

def windowEnd (s : St) : Option St :=
  if s.phase ≠ .window then none else some { s with phase := .call }

/-! ### consumer: `checkpoint_batches_forever` -/

def apiOk (s : St) : Option St :=
  if s.phase ≠ .call then none
  else some { s with calls := s.calls ++ [(s.token, s.batch)], token := s.token + 1,
                     toRelease := s.batch, batch := [], total := 0, phase := .release }

/-- The checkpoint call raised; nothing was applied. -/
def apiFail (s : St) : Option St :=
  if s.phase ≠ .call then none
  else some { s with failedCall := some (s.token, s.batch), phase := .failFlag }

/-- The checkpoint call was applied but fetching the paginated response raised (state.py:625-629
is inside the same `try`). -/
def apiFailAfterApply (s : St) : Option St :=
  if s.phase ≠ .call then none
  else some { s with calls := s.calls ++ [(s.token, s.batch)],
                     failedCall := some (s.token, s.batch), phase := .failFlag }

def releaseAll (s : St) : Option St :=
  if s.phase ≠ .release then none
  else some { s with evt := setEvents s.evt s.toRelease true, toRelease := [], phase := .loopCheck }

def loopAgain (s : St) : Option St :=
  if s.phase ≠ .loopCheck then none
  else if s.stopped then none else some { s with phase := .drain }

def loopStop (s : St) : Option St :=
  if s.phase ≠ .loopCheck then none
  else if s.stopped then some { s with phase := .done } else none

def failFlag (s : St) : Option St :=
  if s.phase ≠ .failFlag then none
  else some { s with failed := true, phase := .failBatch }

def failBatch (s : St) : Option St :=
  if s.phase ≠ .failBatch then none
  else some { s with evt := setEvents s.evt s.batch false, dropped := s.dropped ++ s.batch,
                     batch := [], total := 0, phase := .failOverflow }

def failOvOne (s : St) : Option St :=
  if s.phase ≠ .failOverflow then none
  else match s.overflow with
    | [] => none
    | x :: r => some { s with evt := setEvents s.evt [x] false, dropped := s.dropped ++ [x], overflow := r }

def failOvEnd (s : St) : Option St :=
  if s.phase ≠ .failOverflow then none
  else if s.overflow.isEmpty then some { s with phase := .failMain } else none

def failMainOne (s : St) : Option St :=
  if s.phase ≠ .failMain then none
  else match s.mainQ with
    | [] => none
    | x :: r => some { s with evt := setEvents s.evt [x] false, dropped := s.dropped ++ [x], mainQ := r }

def failMainEnd (s : St) : Option St :=
  if s.phase ≠ .failMain then none
  else if s.mainQ.isEmpty then some { s with phase := .done } else none

def stop (s : St) : Option St := some { s with stopped := true }

def step (s : St) : Act → Option St
  | .pCheck x => pCheck s x
  | .pPut x => pPut s x
  | .pRecheck x => pRecheck s x
  | .pWake x => pWake s x
  | .drainTake => drainTake s
  | .drainPutBack => drainPutBack s
  | .drainEnd => drainEnd s
  | .firstGet => firstGet s
  | .firstStop => firstStop s
  | .windowGet => windowGet s
  | .windowEnd => windowEnd s
  | .apiOk => apiOk s
  | .apiFail => apiFail s
  | .apiFailAfterApply => apiFailAfterApply s
  | .releaseAll => releaseAll s
  | .loopAgain => loopAgain s
  | .loopStop => loopStop s
  | .failFlag => failFlag s
  | .failBatch => failBatch s
  | .failOvOne => failOvOne s
  | .failOvEnd => failOvEnd s
  | .failMainOne => failMainOne s
  | .failMainEnd => failMainEnd s
  | .stop => stop s

def runActs : St → List Act → Option St
  | s, [] => some s
  | s, a :: as =>
    match step s a with
    | none => none
    | some s' => runActs s' as

/-- Is this a step of the consumer thread? -/
def Act.isConsumer : Act → Bool
  | .pCheck _ | .pPut _ | .pRecheck _ | .pWake _ | .stop => false
  | _ => true

inductive Reach (cfg : Cfg) : St → Prop where
  | init : Reach cfg (init cfg)
  | step {s s' : St} (a : Act) : Reach cfg s → step s a = some s' → Reach cfg s'

/-- Items delivered to the backend so far, in delivery order. -/
def delivered (s : St) : List Item := (s.calls.map Prod.snd).flatten

def Phase.isFail : Phase → Bool
  | .failFlag | .failBatch | .failOverflow | .failMain => true
  | _ => false

end Batcher
