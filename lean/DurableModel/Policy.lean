/-!
# Map/parallel completion policy (property C09, pure part)

Mirrors
* `ExecutionCounters` (concurrency/models.py:423-537) as constructed by
  `ConcurrentExecutor.__init__` (concurrency/executor.py:167-179): decides when to stop;
* `BatchResult._get_completion_reason` / `from_items` (concurrency/models.py:117-225): classifies the
  outcome *independently of the counters*;
* `ConcurrentExecutor._create_result` (concurrency/executor.py:338-378) and `replay`
  (executor.py:426-458): one item per branch.

Percentages are exact rationals `num/den` (the Python code computes `f / n * 100 > pct` in floating
point; the difference is hunted by the correspondence check on a boundary grid, T6).
No Mathlib, no proofs here.
-/
namespace Policy

/-- `CompletionConfig` (config.py:80-117). `tolPct = some (num, den)` is the percentage `num/den`. -/
structure Cfg where
  minSucc : Option Nat
  tolCount : Option Nat
  tolPct : Option (Nat × Nat)
  deriving DecidableEq, Repr, Inhabited

/-- `failure_count / total * 100 > pct`, evaluated exactly, guarded by `total > 0`
(models.py:472-475, 170-179, 532-535). -/
def pctExceeded (f n : Nat) (p : Nat × Nat) : Bool := decide (0 < n) && decide (p.1 * n < f * 100 * p.2)

def countExceeded (f : Nat) (c : Nat) : Bool := decide (c < f)

/-- `min_successful = completion_config.min_successful or len(executables)` (executor.py:168):
`None` **and 0** both fall back to the number of branches. -/
def minEff (cfg : Cfg) (n : Nat) : Nat :=
  match cfg.minSucc with
  | some m => if m = 0 then n else m
  | none => n

/-- `ExecutionCounters.should_continue` (models.py:451-477). -/
def shouldContinue (cfg : Cfg) (f n : Nat) : Bool :=
  if cfg.tolCount.isNone && cfg.tolPct.isNone then f == 0
  else if (match cfg.tolCount with | some c => countExceeded f c | none => false) then false
  else if (match cfg.tolPct with | some p => pctExceeded f n p | none => false) then false
  else true

/-- `ExecutionCounters.is_complete` (models.py:479-492). -/
def isComplete (cfg : Cfg) (s f n : Nat) : Bool := (s + f == n) || decide (minEff cfg n ≤ s)

/-- `ExecutionCounters.should_complete` (models.py:494-499). -/
def shouldComplete (cfg : Cfg) (s f n : Nat) : Bool := isComplete cfg s f n || !(shouldContinue cfg f n)

inductive Reason where
  | allCompleted | minSuccessfulReached | failureToleranceExceeded
  deriving DecidableEq, Repr, Inhabited

def Cfg.hasCriteria (cfg : Cfg) : Bool := cfg.minSucc.isSome || cfg.tolCount.isSome || cfg.tolPct.isSome

/-- `BatchResult._get_completion_reason` (models.py:117-194); `cfg = none` is `completion_config is None`. -/
def reason (cfg : Option Cfg) (f s completed total : Nat) : Reason :=
  match cfg with
  | none =>
    if 0 < f then .failureToleranceExceeded
    else if completed = total then .allCompleted
    else .allCompleted
  | some c =>
    if !c.hasCriteria then
      (if 0 < f then .failureToleranceExceeded
       else if completed = total then .allCompleted
       else .allCompleted)
    else if (match c.tolCount with | some k => countExceeded f k | none => false) then .failureToleranceExceeded
    else if (match c.tolPct with | some p => pctExceeded f total p | none => false) then .failureToleranceExceeded
    else if completed = total then .allCompleted
    else if (match c.minSucc with | some m => decide (m ≤ s) | none => false) then .minSuccessfulReached
    else .allCompleted

/-- Status of a branch inside the executor (`BranchStatus`, models.py:307-313). -/
inductive Branch (ρ ε : Type) where
  | pending | running | suspended | suspendedUntil (t : Nat)
  | completed (r : ρ) | failed (e : ε)
  deriving Repr

/-- A reported batch item (`BatchItem`, models.py:62-67). -/
inductive Item (ρ ε : Type) where
  | succeeded (idx : Nat) (r : ρ)
  | failed (idx : Nat) (e : ε)
  | started (idx : Nat)
  deriving Repr

def Item.idx {ρ ε : Type} : Item ρ ε → Nat
  | .succeeded i _ | .failed i _ | .started i => i

/-- One item of `_create_result` (executor.py:349-376). -/
def itemOf {ρ ε : Type} (i : Nat) : Branch ρ ε → Item ρ ε
  | .completed r => .succeeded i r
  | .failed e => .failed i e
  | _ => .started i

def itemsFrom {ρ ε : Type} : Nat → List (Branch ρ ε) → List (Item ρ ε)
  | _, [] => []
  | i, b :: bs => itemOf i b :: itemsFrom (i + 1) bs

/-- `_create_result`: one item per branch, in input order. -/
def createItems {ρ ε : Type} (bs : List (Branch ρ ε)) : List (Item ρ ε) := itemsFrom 0 bs

def countS {ρ ε : Type} (is : List (Item ρ ε)) : Nat := (is.filter (fun | .succeeded _ _ => true | _ => false)).length
def countF {ρ ε : Type} (is : List (Item ρ ε)) : Nat := (is.filter (fun | .failed _ _ => true | _ => false)).length
def countT {ρ ε : Type} (is : List (Item ρ ε)) : Nat := (is.filter (fun | .started _ => true | _ => false)).length

/-- `BatchResult.from_items` (models.py:196-225). -/
def reasonOfItems {ρ ε : Type} (cfg : Option Cfg) (is : List (Item ρ ε)) : Reason :=
  reason cfg (countF is) (countS is) (countS is + countF is) (countT is + (countS is + countF is))

/-- The tolerance notion of the *policy* as the code defines it (pinned by
`test_from_items_empty_config_with_failures`): with no tolerance configured any failure exceeds it. -/
def toleranceExceeded (cfg : Cfg) (f n : Nat) : Bool :=
  (cfg.tolCount.isNone && cfg.tolPct.isNone && decide (0 < f)) ||
  (match cfg.tolCount with | some c => countExceeded f c | none => false) ||
  (match cfg.tolPct with | some p => pctExceeded f n p | none => false)

end Policy
