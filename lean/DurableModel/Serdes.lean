/-!
# Default serialization (property C15)

Model of `ExtendedTypeSerDes.serialize/deserialize` (serdes.py:391-441), the codecs
(serdes.py:87-338) and `BatchResult.to_dict/from_dict` (concurrency/models.py:69-115, 227-231).

* `V` is the grammar of Python values the default serializer accepts.  Values are *typed*: `bool`
  and `int`, `list` and `tuple`, `datetime` and `date` are different constructors, so equality in
  `V` is "equal value of the same Python type at every nesting level".
* `J` is the JSON AST that `json.dumps` receives / `json.loads` returns.  The text layer
  (`json.dumps`/`json.loads` on such ASTs) and the leaf codecs (`base64`, `str(UUID)/UUID()`,
  `str(Decimal)/Decimal()`, `isoformat/fromisoformat`, float `repr`) are trusted-base item T5: a
  leaf value is represented by the very string its codec produces, so its round trip is the identity
  here and is *tested* on the implementation.
* Dict keys are `Key`, to be faithful to `json.dumps` silently coercing non-string keys
  (serdes.py:227-235 only rejects tuples).

No Mathlib, no proofs here.
-/
namespace Serdes

inductive J where
  | null
  | bool (b : Bool)
  | int (i : Int)
  | float (r : String)        -- a float, identified by its repr (T5)
  | str (s : String)
  | arr (xs : List J)
  | obj (kvs : List (String × J))
  deriving Repr, Inhabited

/-- Python dict keys that can reach `json.dumps`. -/
inductive Key where
  | kstr (s : String)
  | kint (i : Int)
  | kbool (b : Bool)
  | knone
  | kfloat (r : String)         -- identified by the text json.dumps emits for it (repr, NaN, Infinity)
  | ktuple                    -- any tuple key: rejected with SerDesError (serdes.py:229-231)
  deriving DecidableEq, Repr, Inhabited

/-- `ErrorObject` (lambda_service.py:138-186). -/
structure Err where
  message : Option String
  type : Option String
  data : Option String
  stack : Option (List String)
  deriving DecidableEq, Repr, Inhabited

inductive V where
  | none
  | bool (b : Bool)
  | int (i : Int)
  | float (r : String)
  | str (s : String)
  | bytes (b64 : String)       -- identified by its base64 text (T5)
  | uuid (s : String)
  | decimal (s : String)
  | datetime (iso : String)
  | date (iso : String)
  | list (xs : List V)
  | tuple (xs : List V)
  | dict (kvs : List (Key × V))
  /-- `BatchResult(all=[BatchItem(index, status, result, error)], completion_reason)`;
      `status` and `reason` are the enum *values* (strings). -/
  | batch (items : List (Int × String × V × Option Err)) (reason : String)
  deriving Repr, Inhabited

/-! ## encoding -/

def env (tag : String) (payload : J) : J := .obj [("t", .str tag), ("v", payload)]

/-- `json.dumps` key coercion (CPython `json.encoder`): str stays, int → decimal text,
True/False → "true"/"false", None → "null", float → repr. -/
def keyText : Key → Option String
  | .kstr s => some s
  | .kint i => some (toString i)
  | .kbool true => some "true"
  | .kbool false => some "false"
  | .knone => some "null"
  | .kfloat r => some r
  | .ktuple => none

def optStrJ : Option String → List (String × J) → String → List (String × J)
  | some s, acc, k => acc ++ [(k, env "s" (.str s))]
  | none, acc, _ => acc

/-- `ErrorObject.to_dict()` then `_wrap` of that dict: only non-None fields are present. -/
def encErr (e : Err) : J :=
  env "m" (.obj (
    (optStrJ e.data
      (optStrJ e.type
        (optStrJ e.message [] "ErrorMessage") "ErrorType") "ErrorData") ++
    (match e.stack with
     | some st => [("StackTrace", env "l" (.arr (st.map (fun s => env "s" (.str s)))))]
     | none => [])))

def encOptErr : Option Err → J
  | some e => encErr e
  | none => env "n" .null

mutual
  /-- `TypeCodec.encode` + `_to_json_serializable`: every value is individually wrapped. -/
  def enc : V → Option J
    | .none => some (env "n" .null)
    | .bool b => some (env "b" (.bool b))
    | .int i => some (env "i" (.int i))
    | .float r => some (env "f" (.float r))
    | .str s => some (env "s" (.str s))
    | .bytes b => some (env "B" (.str b))
    | .uuid s => some (env "u" (.str s))
    | .decimal s => some (env "d" (.str s))
    | .datetime s => some (env "dt" (.str s))
    | .date s => some (env "D" (.str s))
    | .list xs => (encList xs).map (fun js => env "l" (.arr js))
    | .tuple xs => (encList xs).map (fun js => env "t" (.arr js))
    | .dict kvs => (encKVs kvs).map (fun js => env "m" (.obj js))
    | .batch items reason =>
        (encItems items).map (fun js =>
          env "br" (.obj [("all", env "l" (.arr js)), ("completionReason", env "s" (.str reason))]))
  def encList : List V → Option (List J)
    | [] => some []
    | x :: xs =>
      match enc x, encList xs with
      | some j, some js => some (j :: js)
      | _, _ => none
  def encKVs : List (Key × V) → Option (List (String × J))
    | [] => some []
    | (k, x) :: kvs =>
      match keyText k, enc x, encKVs kvs with
      | some s, some j, some js => some ((s, j) :: js)
      | _, _, _ => none
  /-- `BatchItem.to_dict()` wrapped as a dict. -/
  def encItems : List (Int × String × V × Option Err) → Option (List J)
    | [] => some []
    | (idx, st, r, e) :: items =>
      match enc r, encItems items with
      | some j, some js =>
        some (env "m" (.obj [("index", env "i" (.int idx)), ("status", env "s" (.str st)),
                             ("result", j), ("error", encOptErr e)]) :: js)
      | _, _ => none
end

/-- `SerDes.is_primitive` (serdes.py:365-372). -/
def isPrim : V → Bool
  | .none | .bool _ | .int _ | .float _ | .str _ => true
  | .list xs => isPrimList xs
  | _ => false
where
  isPrimList : List V → Bool
    | [] => true
    | x :: xs => isPrim x && isPrimList xs

/-- Plain JSON of a primitive value (the fast path). -/
def plain : V → J
  | .none => .null
  | .bool b => .bool b
  | .int i => .int i
  | .float r => .float r
  | .str s => .str s
  | .list xs => .arr (plainList xs)
  | _ => .null
where
  plainList : List V → List J
    | [] => []
    | x :: xs => plain x :: plainList xs

/-- `ExtendedTypeSerDes.serialize` up to the text layer; `none` = SerDesError (→ ExecutionError). -/
def ser (v : V) : Option J := if isPrim v then some (plain v) else enc v

/-! ## decoding -/

/-- Python `dict` built by `json.loads` / a dict comprehension: a later duplicate key overwrites
the value but keeps the position of the first occurrence. -/
def dictInsert {α : Type} (kvs : List (String × α)) (k : String) (v : α) : List (String × α) :=
  if kvs.any (fun p => p.1 == k) then kvs.map (fun p => if p.1 == k then (k, v) else p)
  else kvs ++ [(k, v)]

def lookup {α : Type} (kvs : List (String × α)) (k : String) : Option α :=
  (kvs.reverse.find? (fun p => p.1 == k)).map Prod.snd

def isPrimJ : J → Bool
  | .null | .bool _ | .int _ | .float _ | .str _ => true
  | .arr xs => isPrimJList xs
  | .obj _ => false
where
  isPrimJList : List J → Bool
    | [] => true
    | x :: xs => isPrimJ x && isPrimJList xs

def fromPlain : J → V
  | .null => .none
  | .bool b => .bool b
  | .int i => .int i
  | .float r => .float r
  | .str s => .str s
  | .arr xs => .list (fromPlainList xs)
  | .obj _ => .none
where
  fromPlainList : List J → List V
    | [] => []
    | x :: xs => fromPlain x :: fromPlainList xs

def strOf : V → Option String
  | .str s => some s
  | _ => Option.none

def decStrList : List V → Option (List String)
  | [] => some []
  | x :: xs =>
    match strOf x, decStrList xs with
    | some s, some ss => some (s :: ss)
    | _, _ => Option.none

/-- `ErrorObject.from_dict` on a decoded dict (`data.get(...)`). -/
def errOfDict (kvs : List (Key × V)) : Option Err :=
  let get := fun (k : String) => (kvs.reverse.find? (fun p => p.1 == Key.kstr k)).map Prod.snd
  let s := fun (k : String) => (get k).bind strOf
  some { message := s "ErrorMessage", type := s "ErrorType", data := s "ErrorData",
         stack := match get "StackTrace" with
                  | some (.list xs) => decStrList xs
                  | _ => Option.none }

/-- `BatchItem.from_dict` on a decoded dict; `none` on a KeyError / ValueError. -/
def itemOfDict (kvs : List (Key × V)) : Option (Int × String × V × Option Err) :=
  let get := fun (k : String) => (kvs.reverse.find? (fun p => p.1 == Key.kstr k)).map Prod.snd
  match get "index", get "status" with
  | some (.int i), some (.str st) =>
    let r := (get "result").getD .none
    match get "error" with
    | some (.dict ekvs) => if ekvs.isEmpty then some (i, st, r, Option.none)
                           else (errOfDict ekvs).map (fun e => (i, st, r, some e))
    | _ => some (i, st, r, Option.none)      -- None or absent: `if data.get("error")` is falsy
  | _, _ => Option.none

def itemsOfList : List V → Option (List (Int × String × V × Option Err))
  | [] => some []
  | .dict kvs :: xs =>
    match itemOfDict kvs, itemsOfList xs with
    | some it, some its => some (it :: its)
    | _, _ => Option.none
  | _ :: _ => Option.none

/-- `BatchResult.from_dict` on a decoded dict (with an explicit completionReason). -/
def batchOfDict (kvs : List (Key × V)) : Option V :=
  let get := fun (k : String) => (kvs.reverse.find? (fun p => p.1 == Key.kstr k)).map Prod.snd
  match get "all", get "completionReason" with
  | some (.list xs), some (.str reason) => (itemsOfList xs).map (fun its => .batch its reason)
  | _, _ => Option.none

mutual
  /-- `_unwrap` of one wrapped JSON value (serdes.py:273-283) followed by `TypeCodec.decode`.
  Only shapes that `enc` can produce are accepted; anything else is `none` (the correspondence
  check compares decoding only on images of `enc`). -/
  def dec : J → Option V
    | .obj [("t", .str tag), ("v", payload)] => decTag tag payload
    | _ => Option.none
  def decTag (tag : String) (payload : J) : Option V :=
    match tag, payload with
    | "n", _ => some .none
    | "b", .bool b => some (.bool b)
    | "i", .int i => some (.int i)
    | "f", .float r => some (.float r)
    | "s", .str s => some (.str s)
    | "B", .str s => some (.bytes s)
    | "u", .str s => some (.uuid s)
    | "d", .str s => some (.decimal s)
    | "dt", .str s => some (.datetime s)
    | "D", .str s => some (.date s)
    | "l", .arr js => (decList js).map .list
    | "t", .arr js => (decList js).map .tuple
    | "m", .obj kvs => (decKVs kvs).map .dict
    | "br", .obj kvs => (decKVs kvs).bind batchOfDict
    | _, _ => Option.none
  def decList : List J → Option (List V)
    | [] => some []
    | j :: js =>
      match dec j, decList js with
      | some v, some vs => some (v :: vs)
      | _, _ => Option.none
  def decKVs : List (String × J) → Option (List (Key × V))
    | [] => some []
    | (k, j) :: kvs =>
      match dec j, decKVs kvs with
      | some v, some vs => some ((Key.kstr k, v) :: vs)
      | _, _ => Option.none
end

/-- `ExtendedTypeSerDes.deserialize` after `json.loads`. -/
def deser (j : J) : Option V := if isPrimJ j then some (fromPlain j) else dec j

/-! ## well-formedness predicates used by the theorems -/

def Key.isStr : Key → Bool
  | .kstr _ => true
  | _ => false

def errNonEmpty (e : Err) : Bool :=
  e.message.isSome || e.type.isSome || e.data.isSome || e.stack.isSome

mutual
  /-- All dict keys are strings, no dict has two equal keys, batch-item errors are not all-None. -/
  def wf : V → Bool
    | .list xs => wfList xs
    | .tuple xs => wfList xs
    | .dict kvs => wfKVs kvs && (kvs.map Prod.fst).Nodup
    | .batch items _ => wfItems items
    | _ => true
  def wfList : List V → Bool
    | [] => true
    | x :: xs => wf x && wfList xs
  def wfKVs : List (Key × V) → Bool
    | [] => true
    | (k, x) :: kvs => k.isStr && wf x && wfKVs kvs
  def wfItems : List (Int × String × V × Option Err) → Bool
    | [] => true
    | (_, _, r, e) :: items => wf r && (match e with | some e => errNonEmpty e | none => true) && wfItems items
end

end Serdes
