import DurableModel.Policy
/-!
# The concurrent executor of map / parallel (executor-level parts of C07, C09, C06)

Transition-system model of `ConcurrentExecutor.execute` (concurrency/executor.py:191-270),
`_on_task_complete` (executor.py:310-360), `should_execution_suspend` (273-308), `_create_result`
(362-402) and `TimerScheduler` (54-128), *after* the `fix:` commits (zero executables return at once;
a BaseException from a branch or from the timer thread's resubmitter is recorded as fatal and wakes
the waiting thread).  One action = one atomic step of one thread (T4): a pool worker picking up a
task, a task ending and its done-callback, the timer thread resubmitting a branch, the main thread
waking up.  What a branch *does* (its child context, checkpoints, user code) is abstracted to the
way its task ends (`Fin`); that part is the sequential engine's business.

`status` is the executor's `BranchStatus`: note that `ExecutableWithState.run` marks a branch RUNNING
at *submit* time; `active` are the branches whose task a pool worker is actually executing.
No Mathlib, no proofs here.
-/
namespace Par

/-- `BranchStatus` (concurrency/models.py:307-313). -/
inductive BSt where
  | pending | running | completed | failed | suspended | suspendedUntil (t : Nat)
  deriving DecidableEq, Repr, Inhabited

/-- How a branch's task ends (what `future.result()` raises/returns in `_on_task_complete`). -/
inductive Fin where
  | ok                    -- returns a result
  | err                   -- raises an Exception
  | susp                  -- raises SuspendExecution
  | suspUntil (t : Nat)   -- raises TimedSuspendExecution
  | orphan                -- raises OrphanedChildException (parent already completed)
  | fatal                 -- raises another BaseException (BackgroundThreadError after a failed checkpoint)
  deriving DecidableEq, Repr, Inhabited

inductive Act where
  | submit (i : Nat)           -- the main thread submits branch i (in index order; executor.py:252-255)
  | begin (i : Nat)            -- a pool worker takes branch i from the head of the work queue
  | taskEnd (i : Nat) (f : Fin) -- branch i's task function ends in its worker (how: f); the worker is free
  | finish (i : Nat) (f : Fin) -- the done-callback of that task runs (status, counters, decision)
  | timerFire (i : Nat)        -- the timer thread pops the due entry of branch i and resets the branch to PENDING
  | resubmit (i : Nat) (ckOk : Bool)   -- ... and, after its refresh checkpoint (ok / failed), submits the branch again
  | tick (d : Nat)             -- time passes
  | cancel (i : Nat)           -- the woken main thread cancels branch i's task before a worker started it
  | wake                       -- the main thread reads the fatal / suspend flags: raises, or decides to return a result
  | snapshot                   -- ... and builds that result from the branch statuses (remaining queued tasks cancelled)
  deriving DecidableEq, Repr, Inhabited

/-- What the main thread does after waking. -/
inductive Outcome where
  | result (items : List BSt)  -- `_create_result()` over this snapshot of the branch statuses
  | suspend (timed : Option Nat)
  | fatal
  deriving DecidableEq, Repr, Inhabited

structure St where
  n : Nat
  maxWorkers : Nat
  cfg : Policy.Cfg
  status : Nat → BSt
  queue : List Nat            -- submitted tasks no worker has started yet (FIFO)
  active : List Nat           -- tasks being executed by a pool worker
  succ : Nat
  fail : Nat
  evt : Bool                  -- `_completion_event` is set
  suspendExc : Option (Option Nat)   -- `_suspend_exception`: some (some t) timed / some none indefinite
  fatal : Bool                -- `_fatal_exception` is set
  clock : Nat
  timers : List (Nat × Nat)   -- TimerScheduler heap: (resume time, branch)
  out : Option Outcome        -- set by `wake`
  maxActive : Nat             -- ghost: high-water mark of `active.length`
  submitted : Nat             -- how many of the initial tasks the main thread has submitted so far
  refreshing : Option Nat     -- the branch whose resumption is between reset_to_pending and its re-submission
  ended : List (Nat × Fin)    -- tasks whose function has ended and whose done-callback has not run yet
  returning : Bool            -- the main thread found neither flag set and is about to build the result

/-- `execute` before the first task is submitted, for n > 0 branches: every branch is PENDING
(`ExecutableWithState.__init__`).  The main thread then submits the branches one by one (`submit`), and only after
the last one does it wait for the completion event: workers, done-callbacks and the timer thread already run while
it is still submitting (a branch may park and be re-submitted before a later branch was submitted at all). -/
def init (n maxConc : Nat) (cfg : Policy.Cfg) : St :=
  { n := n, maxWorkers := if maxConc = 0 then n else maxConc, cfg := cfg,
    status := fun i => if i < n then .pending else .completed,
    queue := [], active := [], succ := 0, fail := 0, evt := false, suspendExc := none,
    fatal := false, clock := 0, timers := [], out := none, maxActive := 0, submitted := 0, refreshing := none, ended := [], returning := false }

def setStatus (s : St) (i : Nat) (b : BSt) : St :=
  { s with status := fun x => if x = i then b else s.status x }

/-- `should_execution_suspend` (executor.py:273-308) over branches 0..n-1. -/
def shouldSuspend (s : St) : Option (Option Nat) :=
  let sts := (List.range s.n).map s.status
  if sts.any (fun b => b == .pending || b == .running) then none
  else
    let times := sts.filterMap (fun b => match b with | .suspendedUntil t => some t | _ => none)
    match times with
    | t :: ts => some (some (ts.foldl min t))
    | [] => if sts.any (fun b => b == .suspended) then some none else none

/-- Tail of `_on_task_complete` (executor.py:352-360): decide completion or suspension. -/
def decide (s : St) : St :=
  if Policy.shouldComplete s.cfg s.succ s.fail s.n then { s with evt := true }
  else
    match shouldSuspend s with
    | some k => { s with suspendExc := some k, evt := true }
    | none => s

/-- `submit_task` for the next initial branch (executor.py:236-255): the task is queued and the branch is RUNNING
(`ExecutableWithState.run`). -/
def submit_ (s : St) (i : Nat) : Option St :=
  if i ≠ s.submitted then none
  else if ¬ (i < s.n) then none
  else some { (setStatus s i .running) with queue := s.queue ++ [i], submitted := s.submitted + 1 }

def begin_ (s : St) (i : Nat) : Option St :=
  match s.queue with
  | [] => none
  | h :: rest =>
    if h ≠ i then none
    else if ¬ (s.active.length < s.maxWorkers) then none
    else some { s with queue := rest, active := s.active ++ [i],
                       maxActive := max s.maxActive (s.active.length + 1) }

/-- The task function of branch i returns or raises in its worker: the worker is free again.  The done-callback
(`finish`) normally follows at once in the same worker, but it is attached by the submitting thread after `submit`
returned (`future.add_done_callback`, executor.py:249): a task that ends before that runs its callback later, inline on
the submitting thread - and the freed worker may already have taken the next task. -/
def taskEnd (s : St) (i : Nat) (f : Fin) : Option St :=
  if i ∉ s.active then none
  else some { s with active := s.active.erase i, ended := s.ended ++ [(i, f)] }

/-- `_on_task_complete` (executor.py:310-360), for a task whose function has ended. -/
def finish (s : St) (i : Nat) (f : Fin) : Option St :=
  if (i, f) ∉ s.ended then none
  else
    let s := { s with ended := s.ended.erase (i, f) }
    match f with
    | .ok => some (decide { (setStatus s i .completed) with succ := s.succ + 1 })
    | .err => some (decide { (setStatus s i .failed) with fail := s.fail + 1 })
    | .susp => some (decide (setStatus s i .suspended))
    | .suspUntil t => some (decide { (setStatus s i (.suspendedUntil t)) with timers := s.timers ++ [(t, i)] })
    | .orphan => some s
    | .fatal => some { s with fatal := true, evt := true }

/-- `TimerScheduler._timer_loop` + `resubmitter` (executor.py:97-128, 207-221): the earliest due entry is
popped; if the branch can resume it is reset to PENDING, an empty checkpoint refreshes the state, and
the branch is submitted again (RUNNING) - unless completion or suspension has already been decided (the
completion event is set): then the resubmitter, which checks the event and submits under the callbacks' lock,
leaves the branch PENDING and starts nothing (fix: no user code is started after the decision).  A failing
refresh checkpoint is fatal. -/
def timerFire (s : St) (i : Nat) : Option St :=
  if s.refreshing.isSome then none          -- one timer thread: the previous resumption is still being refreshed
  else
  match s.timers with
  | [] => none
  | _ =>
    let due := s.timers.filter (fun e => e.1 ≤ s.clock)
    match due with
    | [] => none
    | d :: ds =>
      let e := ds.foldl (fun a b => if b.1 < a.1 then b else a) d     -- smallest time, first inserted wins
      if e.2 ≠ i then none
      else
        let s := { s with timers := s.timers.erase e }
        match s.status i with
        | .suspendedUntil t =>
          if t ≤ s.clock then some { (setStatus s i .pending) with refreshing := some i }   -- reset_to_pending, then the resubmitter
          else some s
        | _ => some s

/-- Second half of a resumption (the `resubmitter`, executor.py:222-240), after the blocking refresh checkpoint: a
failed refresh is fatal; once completion or suspension has been decided the branch is left PENDING and nothing is
started (the event is checked and the task submitted under the callbacks' lock); otherwise the task is queued and the
branch is RUNNING.  Other threads (the main thread still submitting, callbacks, workers) run between the two halves. -/
def resubmit (s : St) (i : Nat) (ckOk : Bool) : Option St :=
  if s.refreshing ≠ some i then none
  else
    let s := { s with refreshing := none }
    if ¬ ckOk then some { s with fatal := true, evt := true }
    else if s.evt then some s
    else some { (setStatus s i .running) with queue := s.queue ++ [i] }

def tick (s : St) (d : Nat) : Option St := some { s with clock := s.clock + d }

/-- The main thread, once `_completion_event.wait()` has returned, cancels tasks no worker has started:
`future.cancel()` over the initial futures (executor.py:261-263) and `shutdown(cancel_futures=True)`
(executor.py:279) for the re-submitted ones.  These cancellations are not atomic with the rest of the
wake-up: between two of them a worker may still take a (re-submitted) task from the queue, so each
successful cancellation is an action of its own.  The cancelled future's done-callback marks the branch
SUSPENDED (`_on_task_complete`, `future.cancelled()` branch). -/
def cancel_ (s : St) (i : Nat) : Option St :=
  if ¬ s.evt then none
  else if s.submitted < s.n then none      -- the main thread cancels only after it has submitted everything and woken up
  else if s.out.isSome then none
  else if i ∉ s.queue then none
  else some { (setStatus s i .suspended) with queue := s.queue.erase i }

/-- The main thread reads the flags (executor.py:268-276, after the timer scheduler has stopped): it raises the fatal
exception, or the suspend exception (queued tasks are cancelled by the pool shutdown in `finally`), or goes on to
return a result (`returning`), which is built by `snapshot`. -/
def wake (s : St) : Option St :=
  if ¬ s.evt then none
  else if s.submitted < s.n then none
  else if s.out.isSome then none
  else if s.returning then none
  else
    if s.fatal ∨ s.suspendExc.isSome then
      let s := { s with status := fun x => if x ∈ s.queue then .suspended else s.status x, queue := [] }
      if s.fatal then some { s with out := some .fatal }
      else match s.suspendExc with
        | some k => some { s with out := some (.suspend k) }
        | none => none
    else some { s with returning := true }

/-- `_create_result()` (executor.py:283, 362-402), a moment AFTER the flags were read: the pool has been shut down
(`finally`, remaining queued tasks cancelled) and the result is built from the statuses as they are NOW - callbacks of
tasks that ended in between have been accounted (a fatal flag set in between is no longer looked at). -/
def snapshot (s : St) : Option St :=
  if ¬ s.returning then none
  else if s.out.isSome then none
  else
    let s := { s with status := fun x => if x ∈ s.queue then .suspended else s.status x, queue := [] }
    some { s with out := some (.result ((List.range s.n).map s.status)) }

def step (s : St) : Act → Option St
  | .submit i => submit_ s i
  | .begin i => begin_ s i
  | .taskEnd i f => taskEnd s i f
  | .finish i f => finish s i f
  | .timerFire i => timerFire s i
  | .resubmit i ok => resubmit s i ok
  | .tick d => tick s d
  | .cancel i => cancel_ s i
  | .wake => wake s
  | .snapshot => snapshot s

def runActs : St → List Act → Option St
  | s, [] => some s
  | s, a :: as =>
    match step s a with
    | none => none
    | some s' => runActs s' as

inductive Reach (n maxConc : Nat) (cfg : Policy.Cfg) : St → Prop where
  | init : Reach n maxConc cfg (init n maxConc cfg)
  | step {s s' : St} (a : Act) : Reach n maxConc cfg s → step s a = some s' → Reach n maxConc cfg s'

/-- Branch statuses → the items `_create_result` reports (payloads abstracted). -/
def itemsOf (sts : List BSt) : List (Policy.Item Unit Unit) :=
  Policy.createItems (sts.map (fun b => match b with
    | .completed => Policy.Branch.completed ()
    | .failed => Policy.Branch.failed ()
    | .pending => Policy.Branch.pending
    | .running => Policy.Branch.running
    | .suspended => Policy.Branch.suspended
    | .suspendedUntil t => Policy.Branch.suspendedUntil t))

end Par
