/-!
# Packaged retry / wait strategies (properties C12, C13 — strategy part)

Mirrors `create_retry_strategy` (retries.py:67-118), `create_wait_strategy` (waits.py:72-98) and
`JitterStrategy.apply_jitter` (config.py:479-496) over exact rationals: the back-off rate is
`rateNum/rateDen`, the jitter draw `random.random()` is a parameter `jn/jd ∈ [0,1)`.
(The Python code computes in floating point; differences are hunted on grids, T6.)
No Mathlib, no proofs here.
-/
namespace Strategy

inductive Jitter where
  | none | full | half
  deriving DecidableEq, Repr, Inhabited

structure Cfg where
  maxAttempts : Nat
  initial : Nat        -- initial_delay_seconds
  maxDelay : Nat       -- max_delay_seconds
  rateNum : Nat
  rateDen : Nat        -- backoff_rate = rateNum / rateDen, rateDen > 0
  jitter : Jitter
  deriving DecidableEq, Repr, Inhabited

/-- `math.ceil(a / b)` for `b > 0`. -/
def ceilDiv (a b : Nat) : Nat := (a + b - 1) / b

/-- Numerator of `base_delay = min(initial * rate ** (attempts - 1), max_delay)` over the
denominator `baseDen` (retries.py:107-110, waits.py:88-91). -/
def baseNum (c : Cfg) (attempts : Nat) : Nat :=
  min (c.initial * c.rateNum ^ (attempts - 1)) (c.maxDelay * c.rateDen ^ (attempts - 1))

def baseDen (c : Cfg) (attempts : Nat) : Nat := c.rateDen ^ (attempts - 1)

/-- `max(1, math.ceil(apply_jitter(base_delay)))` (retries.py:112-114, config.py:488-496). -/
def delay (c : Cfg) (attempts jn jd : Nat) : Nat :=
  match c.jitter with
  | .none => max 1 (ceilDiv (baseNum c attempts) (baseDen c attempts))
  | .full => max 1 (ceilDiv (jn * baseNum c attempts) (jd * baseDen c attempts))
  | .half => max 1 (ceilDiv (baseNum c attempts * jd + jn * baseNum c attempts) (2 * jd * baseDen c attempts))

/-- `retry_strategy(error, attempts_made)`: `none` = do not retry, `some d` = retry after `d` s.
`retryable` is the outcome of the message/type filters (retries.py:87-116). -/
def retryDecision (c : Cfg) (retryable : Bool) (attempts jn jd : Nat) : Option Nat :=
  if c.maxAttempts ≤ attempts then none
  else if !retryable then none
  else some (delay c attempts jn jd)

/-- `wait_strategy(result, attempts_made)` (waits.py:75-96): `none` = stop polling. -/
def waitDecision (c : Cfg) (shouldContinue : Bool) (attempts jn jd : Nat) : Option Nat :=
  if !shouldContinue then none
  else if c.maxAttempts ≤ attempts then none
  else some (delay c attempts jn jd)

/-! ## error filters of `create_retry_strategy` (retries.py:74-104) -/

/-- Python's `pat in s` on strings (as character lists): `pat` occurs as a contiguous piece of `s`. -/
def isInfix (pat : List Char) : List Char → Bool
  | [] => pat.isEmpty
  | c :: cs => pat.isPrefixOf (c :: cs) || isInfix pat cs

/-- One entry of `retryable_errors`: a plain string is a *substring* test against `str(error)`; of a compiled
pattern the model only knows whether `pattern.search(str(error))` finds a match (the `re` engine is not modelled). -/
inductive MsgFilter where
  | text (s : String)
  | pattern (hit : Bool)
  deriving Repr, Inhabited

def msgHit (msg : String) : MsgFilter → Bool
  | .text p => isInfix p.toList msg.toList
  | .pattern h => h

/-- Is the error retryable?  `msgFilters` / `typeFilters` are `config.retryable_errors` /
`config.retryable_error_types` (`none` = not given; a type filter is represented by the outcome of its `isinstance`
test).  Only when NEITHER was given the default pattern `.*` (matches every message) applies. -/
def retryable (msgFilters : Option (List MsgFilter)) (typeFilters : Option (List Bool)) (msg : String) : Bool :=
  let fs := match msgFilters with
    | some l => l
    | none => if typeFilters.isNone then [.pattern true] else []
  fs.any (msgHit msg) || (typeFilters.getD []).any id


/-- The presets of `RetryPresets` (retries.py:121-174). -/
def presetNone : Cfg := ⟨1, 5, 300, 2, 1, .full⟩
def presetDefault : Cfg := ⟨6, 5, 60, 2, 1, .full⟩
def presetTransient : Cfg := ⟨3, 5, 300, 2, 1, .half⟩
def presetResource : Cfg := ⟨5, 5, 300, 2, 1, .full⟩
def presetCritical : Cfg := ⟨10, 1, 60, 3, 2, .none⟩

end Strategy
