import Lean.Data.Json
import DurableModel.Par
/-! JSON glue for the Par (executor) model (trusted). -/
open Lean Par

namespace DriverLib.ParGlue

def natAt (a : Array Json) (i : Nat) : Nat := ((a.getD i Json.null).getNat?).toOption.getD 0
def strAt (a : Array Json) (i : Nat) : String := ((a.getD i Json.null).getStr?).toOption.getD ""
def boolAt (a : Array Json) (i : Nat) : Bool := ((a.getD i Json.null).getBool?).toOption.getD false

def finOf (a : Array Json) : Fin :=
  match strAt a 2 with
  | "ok" => .ok | "err" => .err | "susp" => .susp | "suspUntil" => .suspUntil (natAt a 3)
  | "orphan" => .orphan | _ => .fatal

def actOf (j : Json) : Option Act :=
  match j with
  | Json.arr a =>
    match strAt a 0 with
    | "submit" => some (.submit (natAt a 1))
    | "begin" => some (.begin (natAt a 1))
    | "taskEnd" => some (.taskEnd (natAt a 1) (finOf a))
    | "finish" => some (.finish (natAt a 1) (finOf a))
    | "timerFire" => some (.timerFire (natAt a 1))
    | "resubmit" => some (.resubmit (natAt a 1) (boolAt a 2))
    | "tick" => some (.tick (natAt a 1))
    | "cancel" => some (.cancel (natAt a 1))
    | "wake" => some .wake
    | "snapshot" => some .snapshot
    | _ => none
  | _ => none

def bstName : BSt → String
  | .pending => "pending" | .running => "running" | .completed => "completed" | .failed => "failed"
  | .suspended => "suspended" | .suspendedUntil _ => "suspendedUntil"

def runFrom (s : St) (acts : List Act) (k : Nat) : St × Option Nat :=
  match acts with
  | [] => (s, none)
  | a :: as =>
    match step s a with
    | none => (s, some k)
    | some s' => runFrom s' as (k + 1)

def onat (j : Json) (k : String) : Option Nat :=
  match j.getObjVal? k with
  | .ok v => v.getNat?.toOption
  | _ => none

def handle (c : String) (j : Json) : Json :=
  match c with
  | "par.run" =>
    let raw := match j.getObjVal? "acts" with | .ok (Json.arr a) => a.toList | _ => []
    let acts := raw.filterMap actOf
    if acts.length ≠ raw.length then Json.mkObj [("error", "bad-action")] else
    let pct : Option (Nat × Nat) := match onat j "pctNum", onat j "pctDen" with
      | some a, some b => some (a, b)
      | _, _ => none
    let cfg : Policy.Cfg := { minSucc := onat j "min", tolCount := onat j "count", tolPct := pct }
    let n := (onat j "n").getD 0
    let (s, bad) := runFrom (init n ((onat j "maxConc").getD 0) cfg) acts 0
    Json.mkObj [
      ("enabled", Json.bool bad.isNone),
      ("failed_at", match bad with | some k => toJson k | none => Json.null),
      ("evt", Json.bool s.evt), ("fatal", Json.bool s.fatal),
      ("maxActive", toJson s.maxActive), ("maxWorkers", toJson s.maxWorkers),
      ("statuses", Json.arr ((List.range n).map (fun (i : Nat) => Json.str (bstName (s.status i)))).toArray),
      ("out", match s.out with
        | some (.result items) => Json.mkObj [("k", "result"), ("items", Json.arr (items.map (fun b => Json.str (bstName b))).toArray)]
        | some (.suspend (some t)) => Json.mkObj [("k", "suspend"), ("t", toJson t)]
        | some (.suspend none) => Json.mkObj [("k", "suspend"), ("t", Json.null)]
        | some .fatal => Json.mkObj [("k", "fatal")]
        | none => Json.null)]
  | _ => Json.mkObj [("error", "unknown-par")]

end DriverLib.ParGlue
