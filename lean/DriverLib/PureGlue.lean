import Lean.Data.Json
import DurableModel.Policy
import DurableModel.Strategy
import DurableModel.Outcome
/-! JSON glue for Policy / Strategy / Outcome (trusted). -/
open Lean

namespace DriverLib.PureGlue

def onat (j : Json) (k : String) : Option Nat :=
  match j.getObjVal? k with
  | .ok v => v.getNat?.toOption
  | _ => none
def gnat (j : Json) (k : String) : Nat := (onat j k).getD 0
def gbool (j : Json) (k : String) : Bool := (j.getObjValAs? Bool k).toOption.getD false
def gstr (j : Json) (k : String) : String := (j.getObjValAs? String k).toOption.getD ""

def cfgOf (j : Json) : Policy.Cfg :=
  { minSucc := onat j "min", tolCount := onat j "count",
    tolPct := match onat j "pctNum", onat j "pctDen" with
              | some a, some b => some (a, b)
              | _, _ => none }

def reasonName : Policy.Reason → String
  | .allCompleted => "ALL_COMPLETED"
  | .minSuccessfulReached => "MIN_SUCCESSFUL_REACHED"
  | .failureToleranceExceeded => "FAILURE_TOLERANCE_EXCEEDED"

def jitterOf : String → Strategy.Jitter
  | "NONE" => .none | "HALF" => .half | _ => .full

def scfgOf (j : Json) : Strategy.Cfg :=
  { maxAttempts := gnat j "maxAttempts", initial := gnat j "initial", maxDelay := gnat j "maxDelay",
    rateNum := gnat j "rateNum", rateDen := gnat j "rateDen", jitter := jitterOf (gstr j "jitter") }

def msgFilterOf (j : Json) : Strategy.MsgFilter :=
  match j.getObjValAs? String "text" with
  | .ok t => .text t
  | _ => .pattern (gbool j "hit")

def optArr (j : Json) (k : String) : Option (Array Json) :=
  match j.getObjVal? k with
  | .ok (.arr a) => some a
  | _ => none

def catOf : String → Outcome.Category
  | "EXECUTION" => .execution | _ => .invocation
def catName : Outcome.Category → String
  | .execution => "EXECUTION" | .invocation => "INVOCATION"

def excOf (j : Json) : Outcome.Exc :=
  match gstr j "exc" with
  | "bgCheckpoint" => .bgCheckpoint (catOf (gstr j "cat"))
  | "bgOther" => .bgOther
  | "suspend" => .suspend
  | "checkpoint" => .checkpoint (catOf (gstr j "cat"))
  | "invocation" => .invocation
  | "execution" => .execution
  | _ => .other

def ckOf (j : Json) : Outcome.Ckpt :=
  match gstr j "ck" with
  | "failedCheckpoint" => .failedCheckpoint (catOf (gstr j "ckcat"))
  | "failedOther" => .failedOther
  | _ => .ok

def outName : Outcome.Out → String
  | .succeeded e => if e then "SUCCEEDED:empty" else "SUCCEEDED:payload"
  | .failed w => if w then "FAILED:error" else "FAILED:noerror"
  | .pending => "PENDING"
  | .raiseCheckpoint => "raise:CheckpointError"
  | .raiseInvocation => "raise:InvocationError"
  | .raiseSource => "raise:source"

def optNatJ : Option Nat → Json
  | some n => toJson n
  | none => Json.null

def handle (c : String) (j : Json) : Json :=
  match c with
  | "policy.decide" =>
    let cfg := cfgOf j
    let s := gnat j "s"; let f := gnat j "f"; let n := gnat j "n"
    let noCfg := gbool j "noCfg"
    Json.mkObj [
      ("shouldComplete", Json.bool (Policy.shouldComplete cfg s f n)),
      ("shouldContinue", Json.bool (Policy.shouldContinue cfg f n)),
      ("isComplete", Json.bool (Policy.isComplete cfg s f n)),
      ("reason", reasonName (Policy.reason (if noCfg then none else some cfg) f s (s + f) n))]
  | "policy.reason" =>
    -- the classifier alone: arbitrary counts (completed need not be s + f), `noCfg` = `completion_config is None`
    let cfg := cfgOf j
    Json.mkObj [
      ("reason", reasonName (Policy.reason (if gbool j "noCfg" then none else some cfg)
        (gnat j "f") (gnat j "s") (gnat j "completed") (gnat j "n")))]
  | "strategy.retry" =>
    Json.mkObj [("d", optNatJ (Strategy.retryDecision (scfgOf j) (gbool j "retryable") (gnat j "a") (gnat j "jn") (gnat j "jd")))]
  | "strategy.retryable" =>
    let fs := (optArr j "filters").map (fun a => a.toList.map msgFilterOf)
    let ts := (optArr j "types").map (fun a => a.toList.map (fun x => (x.getBool?).toOption.getD false))
    Json.mkObj [("r", Json.bool (Strategy.retryable fs ts (gstr j "msg")))]
  | "strategy.wait" =>
    Json.mkObj [("d", optNatJ (Strategy.waitDecision (scfgOf j) (gbool j "cont") (gnat j "a") (gnat j "jn") (gnat j "jd")))]
  | "outcome.classify" =>
    Json.mkObj [("cat", catName (Outcome.classify (onat j "status") (gbool j "hasError") (gstr j "code") (gbool j "tok")))]
  | "outcome.wrapper" =>
    let h : Outcome.HandlerEnd :=
      if gstr j "h" == "returned" then .returned (gbool j "jsonable") (gbool j "large")
      else .raisedExc (excOf j) (gbool j "large")
    Json.mkObj [("out", outName (Outcome.wrapper h (ckOf j)))]
  | _ => Json.mkObj [("error", "unknown-pure")]

end DriverLib.PureGlue
