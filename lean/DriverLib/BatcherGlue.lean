import Lean.Data.Json
import DurableModel.Batcher
/-! JSON glue for the Batcher model (trusted). -/
open Lean Batcher

namespace DriverLib.BatcherGlue

def natAt (a : Array Json) (i : Nat) : Nat := ((a.getD i Json.null).getNat?).toOption.getD 0
def boolAt (a : Array Json) (i : Nat) : Bool := ((a.getD i Json.null).getBool?).toOption.getD false

def itemAt (a : Array Json) : Item := { id := natAt a 1, size := natAt a 2, sync := boolAt a 3 }

def actOf (j : Json) : Option Act :=
  match j with
  | Json.arr a =>
    match (a.getD 0 Json.null).getStr?.toOption.getD "" with
    | "pCheck" => some (.pCheck (itemAt a))
    | "pPut" => some (.pPut (itemAt a))
    | "pRecheck" => some (.pRecheck (itemAt a))
    | "pWake" => some (.pWake (itemAt a))
    | "drainTake" => some .drainTake | "drainPutBack" => some .drainPutBack | "drainEnd" => some .drainEnd
    | "firstGet" => some .firstGet | "firstStop" => some .firstStop
    | "windowGet" => some .windowGet | "windowEnd" => some .windowEnd
    | "apiOk" => some .apiOk | "apiFail" => some .apiFail | "apiFailAfterApply" => some .apiFailAfterApply
    | "releaseAll" => some .releaseAll | "loopAgain" => some .loopAgain | "loopStop" => some .loopStop
    | "failFlag" => some .failFlag | "failBatch" => some .failBatch | "failOvOne" => some .failOvOne
    | "failOvEnd" => some .failOvEnd | "failMainOne" => some .failMainOne | "failMainEnd" => some .failMainEnd
    | "stop" => some .stop
    | _ => none
  | _ => none

def phaseName : Phase → String
  | .drain => "drain" | .first => "first" | .window => "window" | .call => "call" | .release => "release"
  | .loopCheck => "loopCheck" | .failFlag => "failFlag" | .failBatch => "failBatch"
  | .failOverflow => "failOverflow" | .failMain => "failMain" | .done => "done"

def ppcName : PPC → String
  | .new => "new" | .checked => "checked" | .put => "put" | .waiting => "waiting"
  | .retAsync => "retAsync" | .retOk => "retOk" | .retErr => "retErr"

def runFrom (s : St) (acts : List Act) (k : Nat) : St × Option Nat :=
  match acts with
  | [] => (s, none)
  | a :: as =>
    match step s a with
    | none => (s, some k)
    | some s' => runFrom s' as (k + 1)

def ids (xs : List Item) : Json := Json.arr (xs.map (fun (x : Item) => toJson x.id)).toArray

def handle (c : String) (j : Json) : Json :=
  match c with
  | "batcher.run" =>
    let raw := match j.getObjVal? "acts" with | .ok (Json.arr a) => a.toList | _ => []
    let acts := raw.filterMap actOf
    if acts.length ≠ raw.length then Json.mkObj [("error", "bad-action")] else
    let cfg : Cfg := { maxBytes := (j.getObjValAs? Nat "maxBytes").toOption.getD 0,
                       maxOps := (j.getObjValAs? Nat "maxOps").toOption.getD 0 }
    let idl := match j.getObjVal? "ids" with | .ok (Json.arr a) => a.toList.filterMap (fun (x : Json) => x.getNat?.toOption) | _ => []
    let (s, bad) := runFrom (init cfg) acts 0
    Json.mkObj [
      ("enabled", Json.bool bad.isNone),
      ("failed_at", match bad with | some k => toJson k | none => Json.null),
      ("phase", phaseName s.phase),
      ("calls", Json.arr (s.calls.map (fun (c : Nat × List Item) => Json.arr #[toJson c.1, ids c.2])).toArray),
      ("failedCall", match s.failedCall with | some c => Json.arr #[toJson c.1, ids c.2] | none => Json.null),
      ("ppc", Json.arr (idl.map (fun (i : Nat) => Json.arr #[toJson i, Json.str (ppcName (s.ppc i))])).toArray),
      ("mainQ", ids s.mainQ), ("overflow", ids s.overflow), ("batch", ids s.batch),
      ("handed", ids s.handed), ("failed", Json.bool s.failed)]
  | _ => Json.mkObj [("error", "unknown-batcher")]

end DriverLib.BatcherGlue
