import Lean.Data.Json
import DurableModel.Serdes
/-! JSON glue for the Serdes model (trusted). -/
open Lean Serdes

namespace DriverLib.SerdesGlue

def gstr (j : Json) (k : String) : String := (j.getObjValAs? String k).toOption.getD ""
def garr (j : Json) (k : String) : List Json :=
  match j.getObjVal? k with
  | .ok (Json.arr a) => a.toList
  | _ => []
def gint (j : Json) (k : String) : Int := ((gstr j k).toInt?).getD 0
def gopt (j : Json) (k : String) : Option String :=
  match j.getObjVal? k with
  | .ok (Json.str s) => some s
  | _ => none

def keyOf (j : Json) : Key :=
  match gstr j "k" with
  | "kstr" => .kstr (gstr j "s")
  | "kint" => .kint (gint j "i")
  | "kbool" => .kbool ((j.getObjValAs? Bool "b").toOption.getD false)
  | "knone" => .knone
  | "kfloat" => .kfloat (gstr j "r")
  | _ => .ktuple

def errOf (j : Json) : Option Err :=
  match j with
  | Json.null => none
  | _ => some { message := gopt j "message", type := gopt j "type", data := gopt j "data",
                stack := match j.getObjVal? "stack" with
                         | .ok (Json.arr a) => some (a.toList.map (fun x => (x.getStr?).toOption.getD ""))
                         | _ => none }

partial def vOf (j : Json) : V :=
  match gstr j "k" with
  | "none" => .none
  | "bool" => .bool ((j.getObjValAs? Bool "b").toOption.getD false)
  | "int" => .int (gint j "i")
  | "float" => .float (gstr j "r")
  | "str" => .str (gstr j "s")
  | "bytes" => .bytes (gstr j "s")
  | "uuid" => .uuid (gstr j "s")
  | "decimal" => .decimal (gstr j "s")
  | "datetime" => .datetime (gstr j "s")
  | "date" => .date (gstr j "s")
  | "list" => .list ((garr j "xs").map vOf)
  | "tuple" => .tuple ((garr j "xs").map vOf)
  | "dict" => .dict ((garr j "kvs").map (fun p =>
      match p with
      | Json.arr a => (keyOf (a.getD 0 Json.null), vOf (a.getD 1 Json.null))
      | _ => (.knone, .none)))
  | "batch" => .batch ((garr j "items").map (fun p =>
      match p with
      | Json.arr a => (((a.getD 0 Json.null).getStr?.toOption.getD "0").toInt?.getD 0,
                       (a.getD 1 Json.null).getStr?.toOption.getD "",
                       vOf (a.getD 2 Json.null), errOf (a.getD 3 Json.null))
      | _ => (0, "", .none, none))) (gstr j "reason")
  | _ => .none

partial def jOut : J → Json
  | .null => Json.null
  | .bool b => Json.bool b
  | .int i => Json.mkObj [("$i", toString i)]
  | .float r => Json.mkObj [("$f", r)]
  | .str s => Json.str s
  | .arr xs => Json.arr (xs.map jOut).toArray
  | .obj kvs => Json.mkObj [("$o", Json.arr (kvs.map (fun p => Json.arr #[Json.str p.1, jOut p.2])).toArray)]

def keyOut : Key → Json
  | .kstr s => Json.mkObj [("k", "kstr"), ("s", s)]
  | .kint i => Json.mkObj [("k", "kint"), ("i", toString i)]
  | .kbool b => Json.mkObj [("k", "kbool"), ("b", Json.bool b)]
  | .knone => Json.mkObj [("k", "knone")]
  | .kfloat r => Json.mkObj [("k", "kfloat"), ("r", r)]
  | .ktuple => Json.mkObj [("k", "ktuple")]

def optOut : Option String → Json
  | some s => Json.str s
  | none => Json.null

def errOut : Option Err → Json
  | none => Json.null
  | some e => Json.mkObj [("message", optOut e.message), ("type", optOut e.type), ("data", optOut e.data),
      ("stack", match e.stack with | some st => Json.arr (st.map Json.str).toArray | none => Json.null)]

partial def vOut : V → Json
  | .none => Json.mkObj [("k", "none")]
  | .bool b => Json.mkObj [("k", "bool"), ("b", Json.bool b)]
  | .int i => Json.mkObj [("k", "int"), ("i", toString i)]
  | .float r => Json.mkObj [("k", "float"), ("r", r)]
  | .str s => Json.mkObj [("k", "str"), ("s", s)]
  | .bytes s => Json.mkObj [("k", "bytes"), ("s", s)]
  | .uuid s => Json.mkObj [("k", "uuid"), ("s", s)]
  | .decimal s => Json.mkObj [("k", "decimal"), ("s", s)]
  | .datetime s => Json.mkObj [("k", "datetime"), ("s", s)]
  | .date s => Json.mkObj [("k", "date"), ("s", s)]
  | .list xs => Json.mkObj [("k", "list"), ("xs", Json.arr (xs.map vOut).toArray)]
  | .tuple xs => Json.mkObj [("k", "tuple"), ("xs", Json.arr (xs.map vOut).toArray)]
  | .dict kvs => Json.mkObj [("k", "dict"), ("kvs", Json.arr (kvs.map (fun p => Json.arr #[keyOut p.1, vOut p.2])).toArray)]
  | .batch items reason => Json.mkObj [("k", "batch"), ("reason", reason),
      ("items", Json.arr (items.map (fun p => Json.arr #[Json.str (toString p.1), Json.str p.2.1, vOut p.2.2.1, errOut p.2.2.2])).toArray)]

def handle (c : String) (j : Json) : Json :=
  match c with
  | "serdes.rt" =>
    let v := match j.getObjVal? "v" with | .ok x => vOf x | _ => .none
    let s := ser v
    Json.mkObj [
      ("echo", vOut v),
      ("wf", Json.bool (wf v)),
      ("ser", match s with | some x => jOut x | none => Json.str "$reject"),
      ("back", match s.bind deser with | some w => vOut w | none => Json.str "$none")]
  | _ => Json.mkObj [("error", "unknown-serdes")]

end DriverLib.SerdesGlue
