import Lean.Data.Json
import DurableModel.Orphan
/-! JSON glue for the orphan filter model (trusted). -/
open Lean

namespace DriverLib.OrphanGlue

def garr (j : Json) (k : String) : List Json :=
  match j.getObjVal? k with
  | .ok (Json.arr a) => a.toList
  | _ => []

def onat (j : Json) (k : String) : Option Nat :=
  match j.getObjVal? k with
  | .ok v => v.getNat?.toOption
  | _ => none

def gbool (j : Json) (k : String) : Bool := (j.getObjValAs? Bool k).toOption.getD false

def pairOf (j : Json) : Option (Nat × Nat) :=
  match j with
  | Json.arr a =>
    match a.toList with
    | [p, c] =>
      match p.getNat?, c.getNat? with
      | .ok p, .ok c => some (p, c)
      | _, _ => none
    | _ => none
  | _ => none

def updOf (j : Json) : Option Orphan.Upd :=
  match onat j "id" with
  | some i => some { id := i, parent := onat j "parent", isContext := gbool j "ctx", completes := gbool j "completes" }
  | none => none

/-- Sorted ascending, duplicates removed. -/
def norm (l : List Nat) : List Nat :=
  (l.toArray.qsort (· < ·)).toList.eraseDups

def natsJ (l : List Nat) : Json := Json.arr ((norm l).map (fun (n : Nat) => toJson n)).toArray

def handle (c : String) (j : Json) : Json :=
  match c with
  | "orphan.run" =>
    let recJ := garr j "recorded"
    let recorded := recJ.filterMap pairOf
    let updJ := garr j "updates"
    let updates := updJ.filterMap updOf
    if recorded.length ≠ recJ.length then Json.mkObj [("error", "bad-recorded")]
    else if updates.length ≠ updJ.length then Json.mkObj [("error", "bad-update")]
    else
      let s0 : Orphan.St := { edges := [], recorded := recorded, done := [], completed := [] }
      let r := Orphan.runAll s0 updates
      Json.mkObj [
        ("accepted", Json.arr (r.2.map Json.bool).toArray),
        ("done", natsJ r.1.done),
        ("completed", natsJ r.1.completed)]
  | _ => Json.mkObj [("error", "unknown-orphan")]

end DriverLib.OrphanGlue
