import Lean.Data.Json
import DurableModel
import DriverLib.SerdesGlue
import DriverLib.BatcherGlue
import DriverLib.PureGlue
import DriverLib.EngineGlue
import DriverLib.WireGlue
import DriverLib.ParGlue
import DriverLib.OrphanGlue
/-! JSON glue between the line protocol and the model's executable definitions (trusted). -/
open Lean

namespace DriverLib

def str (j : Json) (k : String) : String := (j.getObjValAs? String k).toOption.getD ""
def nat (j : Json) (k : String) : Nat := (j.getObjValAs? Nat k).toOption.getD 0
def optStr (j : Json) (k : String) : Option String :=
  match j.getObjVal? k with
  | .ok (Json.str s) => some s
  | _ => none
def optNat (j : Json) (k : String) : Option Nat :=
  match j.getObjVal? k with
  | .ok v => (v.getNat?).toOption
  | _ => none
def arr (j : Json) (k : String) : List Json :=
  match j.getObjVal? k with
  | .ok (Json.arr a) => a.toList
  | _ => []
def bool (j : Json) (k : String) : Bool := (j.getObjValAs? Bool k).toOption.getD false

def err (m : String) : Json := Json.mkObj [("error", m)]

/-! ### Ident -/
def handleIdent (c : String) (j : Json) : Json :=
  match c with
  | "ident.pre" =>
    let par := (optStr j "parent").map String.toList
    Json.mkObj [("pre", String.ofList (Ident.pre par (nat j "n")))]
  | "ident.decimal" => Json.mkObj [("s", String.ofList (Ident.decimal (nat j "n")))]
  | _ => err "unknown-ident"

/-! ### Lock -/
def lockAct (j : Json) : Option Lock.Act :=
  match j with
  | Json.arr a =>
    match a.toList with
    | [Json.str k, n] =>
      match n.getNat? with
      | .ok r =>
        match k with
        | "enq" => some (.enq r) | "wake" => some (.wake r) | "rel" => some (.rel r) | "brk" => some (.brk r)
        | _ => none
      | _ => none
    | _ => none
  | _ => none

def pcName : Lock.PC → String
  | .idle => "idle" | .waiting => "waiting" | .inCS => "inCS" | .breaking => "breaking"
  | .doneOk => "doneOk" | .doneExc => "doneExc" | .lockErr => "lockErr"

/-- Replays an action list through `Lock.step`; reports the first action that is not enabled. -/
def lockRun (s : Lock.St) (acts : List Lock.Act) (k : Nat) : Lock.St × Option Nat :=
  match acts with
  | [] => (s, none)
  | a :: as =>
    match Lock.step s a with
    | none => (s, some k)
    | some s' => lockRun s' as (k + 1)

def handleLock (c : String) (j : Json) : Json :=
  match c with
  | "lock.run" =>
    let acts := (arr j "acts").filterMap lockAct
    if acts.length ≠ (arr j "acts").length then err "bad-action" else
    let reqs := (arr j "reqs").filterMap (fun x => x.getNat?.toOption)
    let (s, bad) := lockRun Lock.init acts 0
    Json.mkObj [
      ("enabled", Json.bool bad.isNone),
      ("failed_at", match bad with | some k => toJson k | none => Json.null),
      ("pcs", Json.arr (reqs.map (fun (r : Nat) => Json.arr #[toJson r, Json.str (pcName (s.pc r))])).toArray),
      ("results", Json.arr (s.results.map (fun (p : Nat × Nat) => Json.arr #[toJson p.1, toJson p.2])).toArray),
      ("entries", Json.arr (s.entries.map (fun (r : Nat) => toJson r)).toArray),
      ("arrivals", Json.arr (s.arrivals.map (fun (r : Nat) => toJson r)).toArray),
      ("broken", Json.bool s.broken),
      ("counter", toJson s.counter)]
  | _ => err "unknown-lock"

def handle (c : String) (j : Json) : Json :=
  if c.startsWith "ident." then handleIdent c j
  else if c.startsWith "lock." then handleLock c j
  else if c.startsWith "serdes." then SerdesGlue.handle c j
  else if c.startsWith "batcher." then BatcherGlue.handle c j
  else if c.startsWith "engine." then EngineGlue.handle c j
  else if c.startsWith "wire." then WireGlue.handle c j
  else if c.startsWith "par." then ParGlue.handle c j
  else if c.startsWith "orphan." then OrphanGlue.handle c j
  else if c.startsWith "policy." || c.startsWith "strategy." || c.startsWith "outcome." then PureGlue.handle c j
  else err ("unknown-component " ++ c)

end DriverLib
