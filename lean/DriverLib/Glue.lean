import Lean.Data.Json
import DurableModel
/-! JSON glue between the line protocol and the model's executable definitions (trusted). -/
open Lean

namespace DriverLib

def str (j : Json) (k : String) : String := (j.getObjValAs? String k).toOption.getD ""
def nat (j : Json) (k : String) : Nat := (j.getObjValAs? Nat k).toOption.getD 0
def optStr (j : Json) (k : String) : Option String :=
  match j.getObjVal? k with
  | .ok (Json.str s) => some s
  | _ => none
def optNat (j : Json) (k : String) : Option Nat :=
  match j.getObjVal? k with
  | .ok v => (v.getNat?).toOption
  | _ => none
def arr (j : Json) (k : String) : List Json :=
  match j.getObjVal? k with
  | .ok (Json.arr a) => a.toList
  | _ => []
def bool (j : Json) (k : String) : Bool := (j.getObjValAs? Bool k).toOption.getD false

def err (m : String) : Json := Json.mkObj [("error", m)]

/-! ### Ident -/
def handleIdent (c : String) (j : Json) : Json :=
  match c with
  | "ident.pre" =>
    let par := (optStr j "parent").map String.toList
    Json.mkObj [("pre", String.ofList (Ident.pre par (nat j "n")))]
  | "ident.decimal" => Json.mkObj [("s", String.ofList (Ident.decimal (nat j "n")))]
  | _ => err "unknown-ident"

def handle (c : String) (j : Json) : Json :=
  if c.startsWith "ident." then handleIdent c j
  else err ("unknown-component " ++ c)

end DriverLib
