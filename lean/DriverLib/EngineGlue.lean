import Lean.Data.Json
import DurableModel.Exec
/-! JSON glue for the engine model (trusted). -/
open Lean Engine

namespace DriverLib.EngineGlue

def gstr (j : Json) (k : String) : String := (j.getObjValAs? String k).toOption.getD ""
def gnat (j : Json) (k : String) : Nat := (j.getObjValAs? Nat k).toOption.getD 0
def gbool (j : Json) (k : String) : Bool := (j.getObjValAs? Bool k).toOption.getD false
def garr (j : Json) (k : String) : List Json :=
  match j.getObjVal? k with
  | .ok (Json.arr a) => a.toList
  | _ => []
def gopt (j : Json) (k : String) : Option Json :=
  match j.getObjVal? k with
  | .ok Json.null => none
  | .ok v => some v
  | _ => none
def optStr (j : Json) (k : String) : Option String := (gopt j k).bind (fun v => v.getStr?.toOption)
def optNat (j : Json) (k : String) : Option Nat := (gopt j k).bind (fun v => v.getNat?.toOption)

def posOf (j : Json) : Pos :=
  match j with
  | Json.arr a => a.toList.filterMap (fun (x : Json) => x.getNat?.toOption)
  | _ => []

def excOf (j : Json) : Exc :=
  { cls := gstr j "cls", msg := gstr j "msg", etype := optStr j "etype", inv := gbool j "inv" }

def outcomeOf (j : Json) : Outcome :=
  match gopt j "err" with
  | some e => .err (excOf e)
  | none => .ok (gstr j "ok")

def retryOf (j : Json) : Script.Retry :=
  { maxAttempts := gnat j "max", delays := (garr j "delays").filterMap (fun (x : Json) => x.getNat?.toOption),
    noRetry := (garr j "noretry").filterMap (fun (x : Json) => x.getStr?.toOption) }

partial def stmtOf (j : Json) : Script.Stmt :=
  match gstr j "op" with
  | "step" => .step ((garr j "body").map outcomeOf) (gbool j "amo")
                (match gopt j "retry" with | some r => retryOf r | none => { maxAttempts := 1, delays := [], noRetry := [] })
                (gbool j "catch")
  | "wait" => .wait (gnat j "secs")
  | "cbnew" => .cbNew (gnat j "slot")
  | "cbres" => .cbRes (gnat j "slot") (gbool j "catch")
  | "invoke" => .invoke (gstr j "payload") (gbool j "catch")
  | "wfc" => .wfc (gstr j "init") ((garr j "check").map outcomeOf)
               ((garr j "decide").map (fun (x : Json) => x.getNat?.toOption)) (gbool j "catch")
  | "child" => .child ((garr j "body").map stmtOf) (gnat j "limit") (gstr j "summary") (gbool j "catch")
  | "log" => .log (gstr j "msg")
  | "pad" => .pad (gnat j "n")
  | "raise" => .raise (excOf j)
  | _ => .ret

def errObjOf (j : Json) : Option ErrObj :=
  match j with
  | Json.null => none
  | _ => some { message := optStr j "message", type := optStr j "type" }

def immOfJson (j : Json) : Backend.Immediate :=
  match gstr j "k" with
  | "succeeded" => .succeeded (optStr j "v")
  | "failed" => .failed ((gopt j "e").bind errObjOf)
  | "timedOut" => .timedOut
  | "stopped" => .stopped
  | _ => .none

def roundOf (j : Json) : Exec.Round :=
  match gstr j "r" with
  | "invoke" => .invoke (gnat j "budget") (optNat j "failAt") (gnat j "keep")
      ((garr j "imm").map (fun (x : Json) => match x with
        | Json.arr a => (posOf (a.getD 0 Json.null), immOfJson (a.getD 1 Json.null))
        | _ => ([], .none)))
  | "retryReady" => .event (.retryReady (posOf ((gopt j "pos").getD Json.null)))
  | "waitDone" => .event (.waitDone (posOf ((gopt j "pos").getD Json.null)))
  | "callbackDone" => .event (.callbackDone (posOf ((gopt j "pos").getD Json.null)) (immOfJson ((gopt j "o").getD Json.null)))
  | _ => .event (.invokeDone (posOf ((gopt j "pos").getD Json.null)) (immOfJson ((gopt j "o").getD Json.null)))

def posJ (p : Pos) : Json := Json.arr (p.map (fun (n : Nat) => toJson n)).toArray
def optJ (o : Option String) : Json := match o with | some s => Json.str s | none => Json.null
def optNatJ (o : Option Nat) : Json := match o with | some n => toJson n | none => Json.null

def kindS : Kind → String
  | .step => "step" | .wfc => "wfc" | .wait => "wait" | .callback => "callback" | .invoke => "invoke" | .context => "context"
def statusS : Status → String
  | .started => "STARTED" | .pending => "PENDING" | .ready => "READY" | .succeeded => "SUCCEEDED"
  | .failed => "FAILED" | .cancelled => "CANCELLED" | .timedOut => "TIMED_OUT" | .stopped => "STOPPED"
def actionS : Action → String
  | .start => "START" | .succeed => "SUCCEED" | .fail => "FAIL" | .retry => "RETRY"

def errObjJ (e : Option ErrObj) : Json :=
  match e with
  | some e => Json.mkObj [("message", optJ e.message), ("type", optJ e.type)]
  | none => Json.null

def outcomeJ : Outcome → Json
  | .ok v => Json.mkObj [("ok", v)]
  | .err e => Json.mkObj [("err", Json.mkObj [("cls", e.cls), ("msg", e.msg), ("etype", optJ e.etype)])]

def updJ (u : Upd) : Json :=
  Json.mkObj [("pos", posJ u.pos), ("kind", kindS u.kind), ("action", actionS u.action), ("payload", optJ u.payload),
    ("error", errObjJ u.error), ("delay", optNatJ u.delay), ("replayChildren", Json.bool u.replayChildren), ("sync", Json.bool u.sync)]

def evJ : Ev → Json
  | .enter p k a st => Json.arr #["enter", posJ p, kindS k, toJson a, optJ st]
  | .upd u => Json.arr #["upd", updJ u]
  | .applied u => Json.arr #["applied", updJ u]
  | .rejected u => Json.arr #["rejected", updJ u]
  | .deliver p o => Json.arr #["deliver", posJ p, outcomeJ o]
  | .logged c m e => Json.arr #["log", posJ c, m, Json.bool e]

def endJ : End → Json
  | .returned v => Json.mkObj [("end", "returned"), ("v", v)]
  | .raised e => Json.mkObj [("end", "raised"), ("cls", e.cls), ("msg", e.msg), ("etype", optJ e.etype)]
  | .suspended d => Json.mkObj [("end", "suspended"), ("timed", Json.bool d.isSome)]
  | .crashed => Json.mkObj [("end", "crashed")]
  | .ckptFailed => Json.mkObj [("end", "ckptFailed")]

def recJ (e : Pos × OpRec) : Json :=
  Json.mkObj [("pos", posJ e.1), ("kind", kindS e.2.kind), ("status", statusS e.2.status), ("attempt", toJson e.2.attempt),
    ("result", optJ e.2.result), ("error", errObjJ e.2.error), ("replayChildren", Json.bool e.2.replayChildren)]

def handle (c : String) (j : Json) : Json :=
  match c with
  | "engine.exec" =>
    let script := (garr j "script").map stmtOf
    let rounds := (garr j "rounds").map roundOf
    let prog := Script.compile script [] []
    let outs := Exec.runRounds prog [] rounds
    Json.mkObj [("rounds", Json.arr (outs.map (fun (o : Exec.RoundOut) =>
      Json.mkObj [("invoke", Json.bool o.isInvoke), ("enabled", Json.bool o.enabled),
        ("end", match o.ending with | some e => endJ e | none => Json.null),
        ("trace", Json.arr (o.trace.map evJ).toArray),
        ("tbl", Json.arr (o.tbl.map recJ).toArray)])).toArray)]
  | _ => Json.mkObj [("error", "unknown-engine")]

end DriverLib.EngineGlue
