import Lean.Data.Json
import DurableModel.Wire
/-! JSON glue for the Wire model (trusted).

Model objects are plain JSON objects keyed by the Python attribute names; enums are their Python
values; timestamps are integer microseconds; absent = null.  `DV` output: null → null, str → string,
int → {"$i": n}, bool → bool, ts → {"$ts": micros}, strs/list → array, dict → {"$o": [[k, v], …]}. -/
open Lean Wire

namespace DriverLib.WireGlue

def fld (j : Json) (k : String) : Json :=
  match j.getObjVal? k with
  | .ok v => v
  | .error _ => Json.null

def gStr (j : Json) (k : String) : String :=
  match fld j k with | Json.str s => s | _ => ""
def gOptStr (j : Json) (k : String) : Option String :=
  match fld j k with | Json.str s => some s | _ => none
def gInt (j : Json) (k : String) : Int :=
  match (fld j k).getInt? with | .ok i => i | .error _ => 0
def gOptInt (j : Json) (k : String) : Option Int :=
  match (fld j k).getInt? with | .ok i => some i | .error _ => none
def gBool (j : Json) (k : String) : Bool :=
  match fld j k with | Json.bool b => b | _ => false
def gOptStrs (j : Json) (k : String) : Option (List String) :=
  match fld j k with
  | Json.arr a => some (a.toList.map (fun x => match x with | Json.str s => s | _ => ""))
  | _ => none
def gOpt {α : Type} (j : Json) (k : String) (f : Json → α) : Option α :=
  match fld j k with
  | Json.null => none
  | v => some (f v)
def gEnum {α : Type} [Inhabited α] (ofStr? : String → Option α) (j : Json) (k : String) : α :=
  (ofStr? (gStr j k)).getD default
def gOptEnum {α : Type} (ofStr? : String → Option α) (j : Json) (k : String) : Option α :=
  (gOptStr j k).bind ofStr?

/-! ### parsers -/

def errorOf (j : Json) : ErrorObject :=
  { message := gOptStr j "message", type := gOptStr j "type", data := gOptStr j "data",
    stack_trace := gOptStrs j "stack_trace" }

def updateOf (j : Json) : OperationUpdate :=
  { operation_id := gStr j "operation_id"
    operation_type := gEnum OperationType.ofStr? j "operation_type"
    action := gEnum OperationAction.ofStr? j "action"
    parent_id := gOptStr j "parent_id"
    name := gOptStr j "name"
    sub_type := gOptEnum OperationSubType.ofStr? j "sub_type"
    payload := gOptStr j "payload"
    error := gOpt j "error" errorOf
    context_options := gOpt j "context_options" (fun o => { replay_children := gBool o "replay_children" })
    step_options := gOpt j "step_options"
      (fun o => { next_attempt_delay_seconds := gInt o "next_attempt_delay_seconds" })
    wait_options := gOpt j "wait_options" (fun o => { wait_seconds := gInt o "wait_seconds" })
    callback_options := gOpt j "callback_options"
      (fun o => { timeout_seconds := gInt o "timeout_seconds"
                  heartbeat_timeout_seconds := gInt o "heartbeat_timeout_seconds" })
    chained_invoke_options := gOpt j "chained_invoke_options"
      (fun o => { function_name := gStr o "function_name", tenant_id := gOptStr o "tenant_id" }) }

def operationOf (j : Json) : Operation :=
  { operation_id := gStr j "operation_id"
    operation_type := gEnum OperationType.ofStr? j "operation_type"
    status := gEnum OperationStatus.ofStr? j "status"
    parent_id := gOptStr j "parent_id"
    name := gOptStr j "name"
    start_timestamp := gOptInt j "start_timestamp"
    end_timestamp := gOptInt j "end_timestamp"
    sub_type := gOptEnum OperationSubType.ofStr? j "sub_type"
    execution_details := gOpt j "execution_details" (fun o => { input_payload := gOptStr o "input_payload" })
    context_details := gOpt j "context_details"
      (fun o => { replay_children := gBool o "replay_children", result := gOptStr o "result"
                  error := gOpt o "error" errorOf })
    step_details := gOpt j "step_details"
      (fun o => { attempt := gInt o "attempt"
                  next_attempt_timestamp := gOptInt o "next_attempt_timestamp"
                  result := gOptStr o "result", error := gOpt o "error" errorOf })
    wait_details := gOpt j "wait_details"
      (fun o => { scheduled_end_timestamp := gOptInt o "scheduled_end_timestamp" })
    callback_details := gOpt j "callback_details"
      (fun o => { callback_id := gStr o "callback_id", result := gOptStr o "result"
                  error := gOpt o "error" errorOf })
    chained_invoke_details := gOpt j "chained_invoke_details"
      (fun o => { result := gOptStr o "result", error := gOpt o "error" errorOf }) }

def stateOf (j : Json) : InitialExecutionState :=
  { operations := match fld j "operations" with
                  | Json.arr a => a.toList.map operationOf
                  | _ => []
    next_marker := gStr j "next_marker" }

def inputOf (j : Json) : DurableExecutionInvocationInput :=
  { durable_execution_arn := gStr j "durable_execution_arn"
    checkpoint_token := gStr j "checkpoint_token"
    initial_execution_state := stateOf (fld j "initial_execution_state") }

def outputOf (j : Json) : DurableExecutionInvocationOutput :=
  { status := gEnum InvocationStatus.ofStr? j "status"
    result := gOptStr j "result"
    error := gOpt j "error" errorOf }

/-! ### printers -/

def oStr : Option String → Json
  | some s => Json.str s
  | none => Json.null
def oInt : Option Int → Json
  | some i => toJson i
  | none => Json.null
def oOpt {α : Type} (f : α → Json) : Option α → Json
  | some a => f a
  | none => Json.null

def errorOut (e : ErrorObject) : Json :=
  Json.mkObj [("message", oStr e.message), ("type", oStr e.type), ("data", oStr e.data),
    ("stack_trace", match e.stack_trace with
                    | some l => Json.arr (l.map Json.str).toArray
                    | none => Json.null)]

def updateOut (u : OperationUpdate) : Json :=
  Json.mkObj [
    ("operation_id", u.operation_id),
    ("operation_type", u.operation_type.toStr),
    ("action", u.action.toStr),
    ("parent_id", oStr u.parent_id),
    ("name", oStr u.name),
    ("sub_type", oOpt (fun (s : OperationSubType) => Json.str s.toStr) u.sub_type),
    ("payload", oStr u.payload),
    ("error", oOpt errorOut u.error),
    ("context_options", oOpt (fun (o : ContextOptions) =>
      Json.mkObj [("replay_children", Json.bool o.replay_children)]) u.context_options),
    ("step_options", oOpt (fun (o : StepOptions) =>
      Json.mkObj [("next_attempt_delay_seconds", toJson o.next_attempt_delay_seconds)]) u.step_options),
    ("wait_options", oOpt (fun (o : WaitOptions) =>
      Json.mkObj [("wait_seconds", toJson o.wait_seconds)]) u.wait_options),
    ("callback_options", oOpt (fun (o : CallbackOptions) =>
      Json.mkObj [("timeout_seconds", toJson o.timeout_seconds),
                  ("heartbeat_timeout_seconds", toJson o.heartbeat_timeout_seconds)]) u.callback_options),
    ("chained_invoke_options", oOpt (fun (o : ChainedInvokeOptions) =>
      Json.mkObj [("function_name", o.function_name), ("tenant_id", oStr o.tenant_id)])
      u.chained_invoke_options)]

def operationOut (o : Operation) : Json :=
  Json.mkObj [
    ("operation_id", o.operation_id),
    ("operation_type", o.operation_type.toStr),
    ("status", o.status.toStr),
    ("parent_id", oStr o.parent_id),
    ("name", oStr o.name),
    ("start_timestamp", oInt o.start_timestamp),
    ("end_timestamp", oInt o.end_timestamp),
    ("sub_type", oOpt (fun (s : OperationSubType) => Json.str s.toStr) o.sub_type),
    ("execution_details", oOpt (fun (d : ExecutionDetails) =>
      Json.mkObj [("input_payload", oStr d.input_payload)]) o.execution_details),
    ("context_details", oOpt (fun (d : ContextDetails) =>
      Json.mkObj [("replay_children", Json.bool d.replay_children), ("result", oStr d.result),
                  ("error", oOpt errorOut d.error)]) o.context_details),
    ("step_details", oOpt (fun (d : StepDetails) =>
      Json.mkObj [("attempt", toJson d.attempt),
                  ("next_attempt_timestamp", oInt d.next_attempt_timestamp),
                  ("result", oStr d.result), ("error", oOpt errorOut d.error)]) o.step_details),
    ("wait_details", oOpt (fun (d : WaitDetails) =>
      Json.mkObj [("scheduled_end_timestamp", oInt d.scheduled_end_timestamp)]) o.wait_details),
    ("callback_details", oOpt (fun (d : CallbackDetails) =>
      Json.mkObj [("callback_id", d.callback_id), ("result", oStr d.result),
                  ("error", oOpt errorOut d.error)]) o.callback_details),
    ("chained_invoke_details", oOpt (fun (d : ChainedInvokeDetails) =>
      Json.mkObj [("result", oStr d.result), ("error", oOpt errorOut d.error)])
      o.chained_invoke_details)]

def stateOut (s : InitialExecutionState) : Json :=
  Json.mkObj [("operations", Json.arr (s.operations.map operationOut).toArray),
              ("next_marker", s.next_marker)]

def inputOut (i : DurableExecutionInvocationInput) : Json :=
  Json.mkObj [("durable_execution_arn", i.durable_execution_arn),
              ("checkpoint_token", i.checkpoint_token),
              ("initial_execution_state", stateOut i.initial_execution_state)]

def outputOut (o : DurableExecutionInvocationOutput) : Json :=
  Json.mkObj [("status", o.status.toStr), ("result", oStr o.result),
              ("error", oOpt errorOut o.error)]

partial def dvOut : DV → Json
  | .null => Json.null
  | .str s => Json.str s
  | .int i => Json.mkObj [("$i", toJson i)]
  | .bool b => Json.bool b
  | .ts m => Json.mkObj [("$ts", toJson m)]
  | .strs l => Json.arr (l.map Json.str).toArray
  | .list xs => Json.arr (xs.map dvOut).toArray
  | .dict kvs => Json.mkObj [("$o", Json.arr (kvs.map (fun p => Json.arr #[Json.str p.1, dvOut p.2])).toArray)]

def handle (c : String) (j : Json) : Json :=
  let obj := fld j "obj"
  match c with
  | "wire.update" =>
    let u := updateOf obj
    Json.mkObj [("dict", dvOut u.toDict),
                ("back", oOpt updateOut (OperationUpdate.fromDict u.toDict))]
  | "wire.operation" =>
    let o := operationOf obj
    Json.mkObj [("dict", dvOut o.toDict),
                ("back", oOpt operationOut (Operation.fromDict o.toDict)),
                ("jdict", dvOut o.toJsonDict),
                ("jback", oOpt operationOut (Operation.fromJsonDict o.toJsonDict))]
  | "wire.input" =>
    let i := inputOf obj
    Json.mkObj [("dict", dvOut i.toDict),
                ("back", oOpt inputOut (DurableExecutionInvocationInput.fromDict i.toDict)),
                ("jdict", dvOut i.toJsonDict),
                ("jback", oOpt inputOut (DurableExecutionInvocationInput.fromJsonDict i.toJsonDict))]
  | "wire.output" =>
    let o := outputOf obj
    Json.mkObj [("dict", dvOut o.toDict),
                ("back", oOpt outputOut (DurableExecutionInvocationOutput.fromDict o.toDict))]
  | _ => Json.mkObj [("error", "unknown-wire")]

end DriverLib.WireGlue
