import DurableModel
import Proofs.Lock
