import DurableModel
import Proofs.Lock
import Proofs.Serdes
import Proofs.Batcher
import Proofs.Policy
import Proofs.Strategy
import Proofs.Wire
