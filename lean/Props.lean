import Props.C08
import Props.C19
import Props.C15
import Props.C05
import Props.C09
import Props.C12S
import Props.C18
import Props.C20
