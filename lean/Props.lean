import Props.C08
