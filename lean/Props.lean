import Props.C08
import Props.C19
