import Props.C08
import Props.C19
import Props.C15
import Props.C05
