import Proofs.EngineH
/-!
# C16 — Oversized results stay out of checkpoints yet are fully recovered (child-context part)

Handler-level theorems about `childBefore` / `childAfter` of `DurableModel/Engine.lean`.
`ctxSummaryUpd p sv` is the synchronous SUCCEED with `payload = some sv`, `replayChildren = true`;
`ctxFullUpd p v` the synchronous SUCCEED with `payload = some v`, `replayChildren = false`;
`ckOk s u t'` the state after an accepted synchronous checkpoint (`Proofs/EngineH.lean`).
-/
namespace C16
open Engine EngineH

/-- **C16_summary_only.** The body of a child context returned `v`, `v` is too large, the context is
not in replay mode.  In **every** outcome (crash, fault, rejection, success) the only update handed
to the checkpoint pipeline is the SUCCEED carrying the **summary** (`c.summary v`) with
ReplayChildren set — never the value.  If nothing goes wrong the backend applies it, the record is a
`ReplayCtx` whose stored result is the summary, and the call still returns the full `v`. -/
theorem C16_summary_only (s : St) (p : Pos) (c : ChildSpec) (v : Val) (hlg : c.large v = true) :
    (ctxSummaryUpd p (c.summary v)).payload = some (c.summary v) ∧
    (ctxSummaryUpd p (c.summary v)).replayChildren = true ∧
    (ctxSummaryUpd p (c.summary v)).sync = true ∧
    (∀ ev ∈ newEvents s (childAfter s p c false (.returned v)).st,
      (∀ u, ev = .upd u → u = ctxSummaryUpd p (c.summary v)) ∧
      (∀ q o, ev = .deliver q o → q = p ∧ o = .ok v) ∧ isEnter ev = false) ∧
    (∀ t', 2 ≤ s.budget → s.failAt ≠ some s.syncCalls →
      Backend.apply s.tbl (ctxSummaryUpd p (c.summary v)) (s.imm p) = some t' →
      childAfter s p c false (.returned v) =
        deliverAt (ckOk s (ctxSummaryUpd p (c.summary v)) t') p (.ok v) ∧
      (∃ s', childAfter s p c false (.returned v) = .deliver (.ok v) s' ∧ s'.tbl = t') ∧
      newEvents s (childAfter s p c false (.returned v)).st =
        [.upd (ctxSummaryUpd p (c.summary v)), .applied (ctxSummaryUpd p (c.summary v)),
         .deliver p (.ok v)] ∧
      ∃ r₀ r', lookup s.tbl p = some r₀ ∧
        r' = { r₀ with status := .succeeded, result := some (c.summary v), error := none,
                       replayChildren := true } ∧
        lookup t' p = some r' ∧ ReplayCtx r' = true) := by
  refine ⟨rfl, rfl, rfl, ?_, ?_⟩
  · have hg := checkpoint_grows
      (P := fun ev => (∀ u, ev = .upd u → u = ctxSummaryUpd p (c.summary v)) ∧
        (∀ q o, ev = .deliver q o → q = p ∧ o = .ok v) ∧ isEnter ev = false)
      s (ctxSummaryUpd p (c.summary v))
      ⟨fun u h => (by cases h; rfl), fun q o h => (by cases h), rfl⟩
      ⟨fun u h => (by cases h), fun q o h => (by cases h), rfl⟩
      ⟨fun u h => (by cases h), fun q o h => (by cases h), rfl⟩
    rw [childAfter_returned_large s p c v hlg]
    cases hc : checkpoint s (ctxSummaryUpd p (c.summary v)) with
    | error x => obtain ⟨en, s'⟩ := x; rw [hc] at hg; exact hg.1.newEvents
    | ok s' =>
      rw [hc] at hg
      exact (hg.trans (deliverAt_grows _ _ _
        ⟨fun u h => (by cases h), fun q o h => (by cases h; exact ⟨rfl, rfl⟩), rfl⟩)).newEvents
  · intro t' hb hf ha
    have heq : childAfter s p c false (.returned v) =
        deliverAt (ckOk s (ctxSummaryUpd p (c.summary v)) t') p (.ok v) := by
      rw [childAfter_returned_large s p c v hlg, checkpoint_sync_ok rfl hb hf ha]
    obtain ⟨s', hdl, htr, htb⟩ := deliverAt_eq (ckOk s (ctxSummaryUpd p (c.summary v)) t') p (.ok v)
    refine ⟨heq, ⟨s', heq.trans hdl, htb⟩, ?_, ?_⟩
    · rw [heq, hdl]; apply newEvents_of_trace_eq
      show s'.trace = _
      rw [htr]; simp
    · obtain ⟨r₀, hl, hk, _, rfl⟩ := apply_succeed_inv (u := ctxSummaryUpd p (c.summary v)) rfl ha
      refine ⟨r₀, _, hl, rfl, lookup_upsert_self _ _ _, ?_⟩
      have hk' : r₀.kind = .context := hk
      simp [ReplayCtx, hk']

example : ∃ (s : St) (p : Pos) (c : ChildSpec) (v : Val) (t' : Tbl), c.large v = true ∧
    2 ≤ s.budget ∧ s.failAt ≠ some s.syncCalls ∧
    Backend.apply s.tbl (ctxSummaryUpd p (c.summary v)) (s.imm p) = some t' :=
  ⟨{ tbl := [([1], { kind := .context, status := .started })], syncTbl := [], budget := 2 }, [1],
   { large := fun _ => true, summary := fun _ => "sum" }, "a very large value",
   [([1], { kind := .context, status := .succeeded, result := some "sum", replayChildren := true })],
   rfl, by decide, by decide, by decide⟩

/-- **C16_small_recorded_in_full.** Not too large: the only update is the SUCCEED carrying `v` itself
with ReplayChildren unset; if nothing goes wrong the record stores `v` and is not a `ReplayCtx`. -/
theorem C16_small_recorded_in_full (s : St) (p : Pos) (c : ChildSpec) (v : Val)
    (hsm : c.large v = false) :
    (ctxFullUpd p v).payload = some v ∧ (ctxFullUpd p v).replayChildren = false ∧
    (ctxFullUpd p v).sync = true ∧
    (∀ ev ∈ newEvents s (childAfter s p c false (.returned v)).st,
      (∀ u, ev = .upd u → u = ctxFullUpd p v) ∧
      (∀ q o, ev = .deliver q o → q = p ∧ o = .ok v) ∧ isEnter ev = false) ∧
    (∀ t', 2 ≤ s.budget → s.failAt ≠ some s.syncCalls →
      Backend.apply s.tbl (ctxFullUpd p v) (s.imm p) = some t' →
      childAfter s p c false (.returned v) = deliverAt (ckOk s (ctxFullUpd p v) t') p (.ok v) ∧
      (∃ s', childAfter s p c false (.returned v) = .deliver (.ok v) s' ∧ s'.tbl = t') ∧
      newEvents s (childAfter s p c false (.returned v)).st =
        [.upd (ctxFullUpd p v), .applied (ctxFullUpd p v), .deliver p (.ok v)] ∧
      ∃ r₀ r', lookup s.tbl p = some r₀ ∧
        r' = { r₀ with status := .succeeded, result := some v, error := none, replayChildren := false } ∧
        lookup t' p = some r' ∧ ReplayCtx r' = false) := by
  refine ⟨rfl, rfl, rfl, ?_, ?_⟩
  · have hg := checkpoint_grows
      (P := fun ev => (∀ u, ev = .upd u → u = ctxFullUpd p v) ∧
        (∀ q o, ev = .deliver q o → q = p ∧ o = .ok v) ∧ isEnter ev = false)
      s (ctxFullUpd p v)
      ⟨fun u h => (by cases h; rfl), fun q o h => (by cases h), rfl⟩
      ⟨fun u h => (by cases h), fun q o h => (by cases h), rfl⟩
      ⟨fun u h => (by cases h), fun q o h => (by cases h), rfl⟩
    rw [childAfter_returned_small s p c v hsm]
    cases hc : checkpoint s (ctxFullUpd p v) with
    | error x => obtain ⟨en, s'⟩ := x; rw [hc] at hg; exact hg.1.newEvents
    | ok s' =>
      rw [hc] at hg
      exact (hg.trans (deliverAt_grows _ _ _
        ⟨fun u h => (by cases h), fun q o h => (by cases h; exact ⟨rfl, rfl⟩), rfl⟩)).newEvents
  · intro t' hb hf ha
    have heq : childAfter s p c false (.returned v) =
        deliverAt (ckOk s (ctxFullUpd p v) t') p (.ok v) := by
      rw [childAfter_returned_small s p c v hsm, checkpoint_sync_ok rfl hb hf ha]
    obtain ⟨s', hdl, htr, htb⟩ := deliverAt_eq (ckOk s (ctxFullUpd p v) t') p (.ok v)
    refine ⟨heq, ⟨s', heq.trans hdl, htb⟩, ?_, ?_⟩
    · rw [heq, hdl]; apply newEvents_of_trace_eq
      show s'.trace = _
      rw [htr]; simp
    · obtain ⟨r₀, hl, _, _, rfl⟩ := apply_succeed_inv (u := ctxFullUpd p v) rfl ha
      exact ⟨r₀, _, hl, rfl, lookup_upsert_self _ _ _, by simp [ReplayCtx]⟩

example : ∃ (s : St) (p : Pos) (c : ChildSpec) (v : Val) (t' : Tbl), c.large v = false ∧
    2 ≤ s.budget ∧ s.failAt ≠ some s.syncCalls ∧
    Backend.apply s.tbl (ctxFullUpd p v) (s.imm p) = some t' :=
  ⟨{ tbl := [([1], { kind := .context, status := .started })], syncTbl := [], budget := 2 }, [1],
   {}, "v", [([1], { kind := .context, status := .succeeded, result := some "v" })],
   rfl, by decide, by decide, by decide⟩

/-- **C16_replay_ctx_reentered.** On a `ReplayCtx` record (completed context whose checkpoint holds
only a summary) `childBefore` does not short-circuit: it re-enters the body in replay mode; its only
event is `enter p context`; nothing is sent, the table is untouched. -/
theorem C16_replay_ctx_reentered (s : St) (p : Pos) (r : OpRec) (hl : lookup s.tbl p = some r)
    (hr : ReplayCtx r = true) :
    childBefore s p = .inr (emit s (.enter p .context 0 none), true) ∧
    newEvents s (emit s (.enter p .context 0 none)) = [.enter p .context 0 none] ∧
    (emit s (.enter p .context 0 none)).tbl = s.tbl := by
  simp only [ReplayCtx, Bool.and_eq_true, beq_iff_eq] at hr
  exact ⟨childBefore_replay hl hr.1.2 hr.2, newEvents_of_trace_eq rfl, rfl⟩

/-- Conversely replay mode is chosen only for a SUCCEEDED record with ReplayChildren. -/
theorem C16_replay_mode_only_for_replay_children (s s' : St) (p : Pos)
    (h : childBefore s p = .inr (s', true)) :
    ∃ r, lookup s.tbl p = some r ∧ r.status = .succeeded ∧ r.replayChildren = true := by
  unfold childBefore at h
  split at h
  · next r hl =>
    split at h
    · cases h
    · split at h
      · next hc =>
        simp only [Bool.and_eq_true, beq_iff_eq] at hc
        exact ⟨r, hl, hc.1, hc.2⟩
      · split at h <;> cases h
  · split at h <;> cases h

/-- **C16_replay_mode_sends_nothing.** Replay mode end to end at handler level: `childBefore` on a
`ReplayCtx` record sends nothing (previous theorem), and once the re-run body has returned `v` (in
whatever state `s₂`) `childAfter … true` delivers exactly `.ok v` — the full value, not the stored
summary — with **no** update at all and the table untouched, whatever `c.large v` says. -/
theorem C16_replay_mode_sends_nothing (s : St) (p : Pos) (c : ChildSpec) (r : OpRec) (v : Val)
    (hl : lookup s.tbl p = some r) (hr : ReplayCtx r = true) (s₂ : St) :
    childBefore s p = .inr (emit s (.enter p .context 0 none), true) ∧
    childAfter s₂ p c true (.returned v) = deliverAt s₂ p (.ok v) ∧
    (∃ s', childAfter s₂ p c true (.returned v) = .deliver (.ok v) s' ∧ s'.tbl = s₂.tbl) ∧
    newEvents s₂ (childAfter s₂ p c true (.returned v)).st = [.deliver p (.ok v)] ∧
    (∀ ev ∈ newEvents s₂ (childAfter s₂ p c true (.returned v)).st, isUpd ev = false) := by
  obtain ⟨s', hdl, _, htb⟩ := deliverAt_eq s₂ p (.ok v)
  have hn : newEvents s₂ (childAfter s₂ p c true (.returned v)).st = [.deliver p (.ok v)] := by
    rw [childAfter_replay]; exact deliverAt_newEvents _ _ _
  refine ⟨(C16_replay_ctx_reentered s p r hl hr).1, childAfter_replay s₂ p c v,
    ⟨s', (childAfter_replay s₂ p c v).trans hdl, htb⟩, hn, ?_⟩
  rw [hn]
  intro ev hev
  simp only [List.mem_singleton] at hev
  subst hev; rfl

example : ∃ (s : St) (p : Pos) (r : OpRec), lookup s.tbl p = some r ∧ ReplayCtx r = true :=
  ⟨{ tbl := [([1], { kind := .context, status := .succeeded, result := some "sum", replayChildren := true })],
     syncTbl := [], budget := 0 }, [1],
   { kind := .context, status := .succeeded, result := some "sum", replayChildren := true },
   by decide, by decide⟩

/-- The stored result of a `ReplayCtx` is the summary, so short-circuiting would lose the value:
the record written by `C16_summary_only` has `outcomeOf r' = .ok (c.summary v)`, which differs from
the delivered `.ok v` whenever the summary differs from the value — hence the re-traversal. -/
theorem C16_summary_record_outcome (r₀ : OpRec) (sv : Val) :
    outcomeOf { r₀ with status := .succeeded, result := some sv, error := none, replayChildren := true } =
      .ok sv := rfl

end C16
