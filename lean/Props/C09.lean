import DurableModel.Policy
import Proofs.Policy
/-!
# C09 — map/parallel completion policy (decision logic and reporting)

Pure part: the stop decision of the counters, the independent classifier, item construction.
The executor-level part (return instant, concurrency bound, replay) is in `Props/C09Exec.lean`.
-/
namespace C09
open Policy PolicyProofs

/-- **Decision logic stated outright.** The executor decides to stop exactly when all branches
finished, or the (effective) minimum of successes is reached, or the failure tolerance is exceeded. -/
theorem C09_decide_iff_policy (cfg : Cfg) (s f n : Nat) :
    shouldComplete cfg s f n = true ↔
      (s + f = n ∨ minEff cfg n ≤ s ∨ toleranceExceeded cfg f n = true) := by
  unfold shouldComplete
  rw [not_shouldContinue_eq]
  simp [isComplete, or_assoc]

/-- The decision is monotone: once the executor may stop it may still stop after further branches
finish (it never "un-decides"). -/
theorem C09_decision_stable (cfg : Cfg) (s f n : Nat) (h : shouldComplete cfg s f n = true)
    (hle : s + f + 1 ≤ n) :
    shouldComplete cfg (s + 1) f n = true ∧ shouldComplete cfg s (f + 1) n = true := by
  rw [C09_decide_iff_policy] at h
  rw [C09_decide_iff_policy, C09_decide_iff_policy]
  rcases h with h | h | h
  · omega
  · exact ⟨Or.inr (Or.inl (by omega)), Or.inr (Or.inl h)⟩
  · exact ⟨Or.inr (Or.inr h), Or.inr (Or.inr (toleranceExceeded_succ h))⟩

/-- One item per input, in input order, index = position. -/
theorem C09_items_shape {ρ ε : Type} (bs : List (Branch ρ ε)) :
    (createItems bs).length = bs.length ∧
    (createItems bs).map Item.idx = List.range bs.length := by
  refine ⟨length_itemsFrom 0 bs, ?_⟩
  rw [createItems, map_idx_itemsFrom, List.range_eq_range']

/-- Each reported item carries its branch's own outcome; unfinished branches are reported started. -/
theorem C09_items_faithful {ρ ε : Type} (bs : List (Branch ρ ε)) (i : Nat) (hi : i < bs.length) :
    (createItems bs)[i]? = some (itemOf i bs[i]) := by
  rw [createItems, getElem?_itemsFrom, List.getElem?_eq_getElem hi]
  simp

/-- The counts the classifier derives from the items agree with the branch statuses. -/
theorem C09_counts {ρ ε : Type} (bs : List (Branch ρ ε)) :
    countS (createItems bs) + countF (createItems bs) + countT (createItems bs) = bs.length := by
  rw [counts_total, createItems, length_itemsFrom]

/-- Full-strength consistency of the reported reason with the statuses and the policy, at any
state in which the executor has decided to stop (`s` succeeded, `f` failed, `n - s - f` reported
started). -/
def C09_reason_consistent_full : Prop :=
  ∀ (cfg : Cfg) (s f n : Nat), s + f ≤ n → shouldComplete cfg s f n = true →
    (reason (some cfg) f s (s + f) n = .allCompleted → s + f = n) ∧
    (reason (some cfg) f s (s + f) n = .minSuccessfulReached →
        ∃ m, cfg.minSucc = some m ∧ m ≤ s ∧ s + f ≠ n) ∧
    (reason (some cfg) f s (s + f) n = .failureToleranceExceeded → toleranceExceeded cfg f n = true)

/-- … which is **false** on the unchanged tree (finding F7): `first_successful()` (min_successful = 1,
no tolerance), one failure out of three: the executor stops (fail-fast) but the classifier answers
ALL_COMPLETED while two branches are still reported started. -/
theorem C09_reason_consistent_witness : ¬ C09_reason_consistent_full := by
  intro h
  have := (h ⟨some 1, none, none⟩ 0 1 3 (by decide) (by decide)).1 (by decide)
  exact absurd this (by decide)

/-- What does hold: the same statement when a failure tolerance is configured, or no minimum is
configured, or nothing failed. -/
theorem C09_reason_consistent_partial (cfg : Cfg) (s f n : Nat) (hle : s + f ≤ n)
    (hd : shouldComplete cfg s f n = true)
    (hp : cfg.tolCount.isSome = true ∨ cfg.tolPct.isSome = true ∨ cfg.minSucc = none ∨ f = 0) :
    (reason (some cfg) f s (s + f) n = .allCompleted → s + f = n) ∧
    (reason (some cfg) f s (s + f) n = .minSuccessfulReached →
        ∃ m, cfg.minSucc = some m ∧ m ≤ s ∧ s + f ≠ n) ∧
    (reason (some cfg) f s (s + f) n = .failureToleranceExceeded → toleranceExceeded cfg f n = true) := by
  rw [C09_decide_iff_policy] at hd
  rcases cfg with ⟨ms, tc, tp⟩
  rcases ms with _ | m <;> rcases tc with _ | c <;> rcases tp with _ | p <;>
    simp only [reason, Cfg.hasCriteria, toleranceExceeded, minEff, Option.isSome, Option.isNone,
      Bool.or_false, Bool.or_true, Bool.not_true, Bool.not_false, Bool.true_and, Bool.false_and,
      Bool.false_or, Bool.false_eq_true, if_false, if_true, ite_self, false_or, true_or, or_true,
      reduceCtorEq] at hd hp ⊢ <;>
    grind

/-- The classifier applied to the items of `_create_result` sees exactly the branch counts. -/
theorem C09_reason_of_items {ρ ε : Type} (cfg : Option Cfg) (bs : List (Branch ρ ε)) :
    reasonOfItems cfg (createItems bs) =
      reason cfg (countF (createItems bs)) (countS (createItems bs))
        (countS (createItems bs) + countF (createItems bs)) bs.length := by
  have h := C09_counts bs
  unfold reasonOfItems
  congr 1
  omega

/-- Non-vacuity of the partial theorem: an "at least 2 of 5, at most 1 failure" policy that stops
early on the second success. -/
example : shouldComplete ⟨some 2, some 1, none⟩ 2 1 5 = true ∧
    reason (some ⟨some 2, some 1, none⟩) 1 2 3 5 = .minSuccessfulReached := by decide

/-! ## The classifier on its own (all configurations, arbitrary counts) -/

/-- **Classifier, every configuration, every count** (`_get_completion_reason`, models.py:117-194):
with no failed item the reported reason is never FAILURE_TOLERANCE_EXCEEDED. -/
theorem C09_reason_no_failure (cfg : Option Cfg) (s c t : Nat) :
    reason cfg 0 s c t ≠ .failureToleranceExceeded := by
  rcases cfg with _ | ⟨ms, tc, tp⟩
  · simp [reason]
  · rcases ms with _ | m <;> rcases tc with _ | k <;> rcases tp with _ | p <;>
      simp [reason, Cfg.hasCriteria, countExceeded, pctExceeded] <;> grind

/-- MIN_SUCCESSFUL_REACHED is reported only when a minimum is configured, that many items succeeded and
not every item completed. -/
theorem C09_reason_min_sound (cfg : Option Cfg) (f s c t : Nat)
    (h : reason cfg f s c t = .minSuccessfulReached) :
    ∃ c' m, cfg = some c' ∧ c'.minSucc = some m ∧ m ≤ s ∧ c ≠ t := by
  rcases cfg with _ | ⟨ms, tc, tp⟩
  · simp [reason] at h; grind
  · rcases ms with _ | m <;> rcases tc with _ | k <;> rcases tp with _ | p <;>
      simp [reason, Cfg.hasCriteria] at h ⊢ <;> grind

/-- Once the classifier reports FAILURE_TOLERANCE_EXCEEDED, one more failure (whatever else changed among
the other counts) is still reported so: the reason of a failed batch does not flip on a later replay that
sees one more failed straggler. -/
theorem C09_reason_failure_stable (cfg : Option Cfg) (f s c t : Nat)
    (h : reason cfg f s c t = .failureToleranceExceeded) (s' c' : Nat) :
    reason cfg (f + 1) s' c' t = .failureToleranceExceeded := by
  rcases cfg with _ | ⟨ms, tc, tp⟩
  · simp [reason]
  · have hc := @countExceeded_succ f
    have hp := @pctExceeded_succ f t
    rcases ms with _ | m <;> rcases tc with _ | k <;> rcases tp with _ | p <;>
      simp [reason, Cfg.hasCriteria] at h ⊢ <;> grind

/-- The classifier's failure condition stated outright (it does **not** contain the counters' fail-fast
rule when a minimum alone is configured - that gap is finding F7, `C09_reason_consistent_witness`). -/
theorem C09_reason_failure_iff (cfg : Cfg) (f s c t : Nat) :
    reason (some cfg) f s c t = .failureToleranceExceeded ↔
      ((cfg.hasCriteria = false ∧ 0 < f) ∨
       (cfg.hasCriteria = true ∧
        ((∃ k, cfg.tolCount = some k ∧ k < f) ∨ (∃ p, cfg.tolPct = some p ∧ pctExceeded f t p = true)))) := by
  rcases cfg with ⟨ms, tc, tp⟩
  rcases ms with _ | m <;> rcases tc with _ | k <;> rcases tp with _ | p <;>
    simp [reason, Cfg.hasCriteria, countExceeded] <;> grind
example : reason (some ⟨none, some 1, none⟩) 2 0 2 5 = .failureToleranceExceeded ∧
    reason (some ⟨none, some 1, none⟩) 3 1 4 5 = .failureToleranceExceeded ∧
    reason (some ⟨some 1, none, none⟩) 0 1 1 3 = .minSuccessfulReached := by decide

/-! ## `min_successful=0` -/

/-- `min_successful=0` is read as "not set" by the executor (`min_successful or len(executables)`,
executor.py:168): the stop decision is the one of the same configuration without a minimum, in every state. -/
theorem C09_min_zero_same_decision (tc : Option Nat) (tp : Option (Nat × Nat)) (s f n : Nat) :
    shouldComplete ⟨some 0, tc, tp⟩ s f n = shouldComplete ⟨none, tc, tp⟩ s f n := by
  rw [Bool.eq_iff_iff, C09_decide_iff_policy, C09_decide_iff_policy]
  simp [minEff, toleranceExceeded]

/-- … and at every state where the executor has decided with such a configuration and a tolerance is set, the
classifier never answers MIN_SUCCESSFUL_REACHED for an unfinished batch it did not stop for a minimum:
the decision was "all finished" or "tolerance exceeded". -/
theorem C09_min_zero_reason (tc : Option Nat) (tp : Option (Nat × Nat)) (s f n : Nat) (hle : s + f ≤ n)
    (ht : tc.isSome = true ∨ tp.isSome = true)
    (hd : shouldComplete ⟨some 0, tc, tp⟩ s f n = true) :
    reason (some ⟨some 0, tc, tp⟩) f s (s + f) n ≠ .minSuccessfulReached := by
  rcases tc with _ | c <;> rcases tp with _ | p <;>
    simp [shouldComplete, isComplete, minEff, shouldContinue, reason, Cfg.hasCriteria] at ht hd ⊢ <;> grind

example : shouldComplete ⟨some 0, some 1, none⟩ 1 2 5 = true ∧
    reason (some ⟨some 0, some 1, none⟩) 2 1 3 5 = .failureToleranceExceeded := by decide

end C09
