import DurableModel.EngineSpec
import Proofs.EngineLive
import Props.C03
/-!
# C07 — suspension is sound and live

*Sound*: an invocation ends `suspended` only with the unfinished part of the workflow parked on a
timer or an external event the backend already knows about, and the backend can always wake it
(part A).  *Live*: driven by an environment that fires its timers and delivers the awaited
callbacks / invoke results, every execution of a bounded, replay-stable workflow reaches a final
outcome after finitely many invocations (part B, `C07_terminates`).  *Total*: one invocation is a
total function (`C07_invocation_total`; by construction of the model).

Since the SDK abandons the asynchronous updates still queued when an invocation ends — whatever
the ending (`Engine.finalTbl`) —, every statement about "the table the backend holds afterwards" is
for **every** number `keep` of asynchronous updates that still got through, and the liveness
theorem is for every *keep plan* `keep : Nat → Nat` (round `i` keeps `keep i` of them): all that the
progress argument needs is written synchronously; a lost asynchronous START is sent again.

The liveness statement with `EngineCompat.Scoped` (replay-stability up to `Sim`) instead of
`EngineLive.LScoped` (replay-stability up to equality) is **false**: `C07_terminates_full_false`
exhibits a `Scoped`, `Bounded` workflow that is suspended forever (a consequence of finding F2).
-/
set_option linter.unusedSimpArgs false
set_option linter.unusedVariables false

namespace C07
open Engine EngineRun EngineCompat EngineLive

/-! ## Part A — soundness of suspension -/

/-- **A1.**  If an invocation from a table whose PENDING records are steps / wait-for-conditions,
all of whose `wait` / `invoke` / `Callback.result()` calls are well-placed (`EngineRun.Respects`, as
in `C03.C03_pending_after_park_partial`), ends `suspended`, then there is a position `q` with a
parking record that
* is in the synchronously acknowledged table,
* is in the table the backend holds afterwards, **however many** (`keep`) of the asynchronous
  updates still in flight got through (it was written synchronously), and
* can be woken there: the event `wakeEvent q r o` (retry timer / wait timer / completion of the
  callback or chained invoke with any real outcome `o`) is enabled. -/
theorem C07_suspended_is_parked (p : Prog) (t : Tbl) (budget : Nat) (failAt : Option Nat)
    (imm : Pos → Backend.Immediate) (d : Option Nat)
    (hk : Respects p [] 0 (initSt t budget failAt imm) = true) (hpk : PendKinded t)
    (he : (invoke p t budget failAt imm).1 = .suspended d) :
    ∃ q r, lookup (invoke p t budget failAt imm).2.syncTbl q = some r ∧ Parked r = true ∧
      ∀ keep,
        lookup (finalTbl (invoke p t budget failAt imm).1 (invoke p t budget failAt imm).2 keep) q = some r ∧
        ∀ o, o ≠ Backend.Immediate.none → ∃ t',
          Backend.fire (finalTbl (invoke p t budget failAt imm).1 (invoke p t budget failAt imm).2 keep)
            (wakeEvent q r o) = some t' := by
  obtain ⟨q, r, hl, hp⟩ := C03.C03_pending_after_park_partial p t budget failAt imm d hk he
  have hw : WAL (invoke p t budget failAt imm).2 := wal_run p [] 0 _ (wal_init t budget failAt imm)
  refine ⟨q, r, hl, hp, fun keep => ?_⟩
  have hcur : lookup (finalTbl (invoke p t budget failAt imm).1 (invoke p t budget failAt imm).2 keep) q =
      some r := parked_kept hw hl hp keep
  have hkd := EngineExec.invoke_stable stableA_pendKinded p t budget failAt imm keep hpk
  exact ⟨hcur, fun o ho => wake_enabled hcur hp (hkd q r hcur) o ho⟩

/-- The side condition of A1 holds for every table of every execution that starts from the empty
table: it is preserved by invocations (any ending, any crash prefix), by backend events and by B6. -/
theorem C07_pendKinded_invariant :
    PendKinded [] ∧
    (∀ (p : Prog) (t : Tbl) (rd : Exec.Round), PendKinded t → PendKinded (Exec.runRound p t rd).tbl) := by
  refine ⟨pendKinded_nil, fun p t rd h => ?_⟩
  cases rd with
  | invoke b fa keep imm =>
    rw [EngineExec.runRound_invoke]
    exact EngineExec.invoke_stable stableA_pendKinded p _ b fa _ keep (pendKinded_visible h)
  | event ev =>
    rcases EngineExec.runRound_event_tbl p t ev with h1 | h1
    · rw [h1]; exact h
    · exact stableF_pendKinded _ _ _ h1 h

/-- No indefinite suspension. -/
def NoIndef : HRes → Prop
  | .deliver _ _ => True
  | .stop e _ => e ≠ .suspended none

theorem ck_err_ne {s : St} {u : Upd} {en : End} {s' : St} (hc : checkpoint s u = .error (en, s')) :
    en ≠ .suspended none := by
  have := checkpoint_spec s u
  rw [hc] at this
  cases this <;> (intro h; cases h)

theorem noIndef_deliverAt (s : St) (p : Pos) (o : Outcome) : NoIndef (deliverAt s p o) := by
  cases o <;> trivial

syntax "ni_fin" : tactic
macro_rules | `(tactic| ni_fin) => `(tactic| first
  | exact noIndef_deliverAt _ _ _
  | exact ck_err_ne ‹_›
  | (intro h; cases h; done)
  | trivial)

theorem noIndef_retryHandler (s : St) (p : Pos) (sp : StepSpec) (r : Option OpRec) (e : Exc) :
    NoIndef (retryHandler s p sp r e) := by
  unfold retryHandler
  dsimp only
  repeat' split
  all_goals ni_fin

theorem noIndef_stepExecute (s : St) (p : Pos) (sp : StepSpec) (r : Option OpRec) :
    NoIndef (stepExecute s p sp r) := by
  unfold stepExecute
  dsimp only
  repeat' split
  all_goals first | ni_fin | exact noIndef_retryHandler _ _ _ _ _

theorem noIndef_wfcExecute (s : St) (p : Pos) (w : WfcSpec) (r : Option OpRec) :
    NoIndef (wfcExecute s p w r) := by
  unfold wfcExecute
  dsimp only
  repeat' split
  all_goals ni_fin

theorem noIndef_handleStep (s : St) (p : Pos) (sp : StepSpec) : NoIndef (handleStep s p sp) := by
  unfold handleStep
  repeat' split
  all_goals first | ni_fin | exact noIndef_retryHandler _ _ _ _ _ | exact noIndef_stepExecute _ _ _ _

theorem noIndef_handleWfc (s : St) (p : Pos) (w : WfcSpec) : NoIndef (handleWfc s p w) := by
  unfold handleWfc
  dsimp only
  repeat' split
  all_goals first | ni_fin | exact noIndef_wfcExecute _ _ _ _

theorem noIndef_handleWait (s : St) (p : Pos) (secs : Nat) : NoIndef (handleWait s p secs) := by
  unfold handleWait
  repeat' split
  all_goals ni_fin

theorem noIndef_handleInvoke (s : St) (p : Pos) (pl : Val) : NoIndef (handleInvoke s p pl) := by
  unfold handleInvoke invokeTerminal
  repeat' split
  all_goals try simp only [Option.getD]
  all_goals ni_fin

/-- **A2.**  When a suspension is timed and when it is indefinite, handler by handler:
a PENDING step / wait-for-condition suspends with delay 0 (the backend re-invokes at
`nextAttemptAt`); a retry with the (clamped) delay of the strategy; a wait with its duration; an
outstanding chained invoke with delay 0; `Callback.result()` on an outstanding callback suspends
**without** a timer. -/
theorem C07_timed_iff :
    -- step / wait-for-condition found PENDING
    (∀ (s : St) (q : Pos) (sp : StepSpec) (r : OpRec), lookup s.tbl q = some r → r.status = .pending →
      handleStep s q sp = .stop (.suspended (some 0)) s) ∧
    (∀ (s : St) (q : Pos) (w : WfcSpec) (r : OpRec), lookup s.tbl q = some r → r.status = .pending →
      handleWfc s q w = .stop (.suspended (some 0)) s) ∧
    -- a retry that the strategy grants: `some (max 1 d)`
    (∀ (s : St) (q : Pos) (sp : StepSpec) (r : Option OpRec) (e : Exc) (d : Nat) (en : End) (s' : St),
      sp.strategy e (EngineH.att r) = some d → retryHandler s q sp r e = .stop en s' →
      en = .suspended (some (max 1 d)) ∨ en = .crashed ∨ en = .ckptFailed) ∧
    -- wait on a record that is not SUCCEEDED: `some secs`
    (∀ (s : St) (q : Pos) (secs : Nat) (r : OpRec), lookup s.tbl q = some r → r.status ≠ .succeeded →
      handleWait s q secs = .stop (.suspended (some secs)) s) ∧
    -- chained invoke not yet completed: `some 0`
    (∀ (s : St) (q : Pos) (pl : Val) (r : OpRec), lookup s.tbl q = some r → invOut r = none →
      handleInvoke s q pl = .stop (.suspended (some 0)) s) ∧
    -- `Callback.result()` on an outstanding callback: indefinite
    (∀ (s : St) (h : Pos) (r : OpRec), lookup s.tbl h = some r → cbOut r = none →
      handleCbRes s h = .stop (.suspended none) s) ∧
    -- and that is the only indefinite suspension of a handler
    (∀ (s : St) (q : Pos) (sp : StepSpec) (s' : St), handleStep s q sp ≠ .stop (.suspended none) s') ∧
    (∀ (s : St) (q : Pos) (w : WfcSpec) (s' : St), handleWfc s q w ≠ .stop (.suspended none) s') ∧
    (∀ (s : St) (q : Pos) (secs : Nat) (s' : St), handleWait s q secs ≠ .stop (.suspended none) s') ∧
    (∀ (s : St) (q : Pos) (pl : Val) (s' : St), handleInvoke s q pl ≠ .stop (.suspended none) s') := by
  refine ⟨fun s q sp r hl hp => EngineH.handleStep_pending sp hl hp,
    fun s q w r hl hp => EngineH.handleWfc_pending w hl hp, ?_, ?_, ?_, ?_, ?_, ?_, ?_, ?_⟩
  · intro s q sp r e d en s' hstr h
    rw [EngineH.retryHandler_eq, hstr] at h
    simp only [] at h
    have hg := EngineH.checkpoint_grows (P := fun _ => True) s (EngineH.stepRetryUpd q e d) trivial trivial trivial
    cases hc : checkpoint s (EngineH.stepRetryUpd q e d) with
    | error x =>
      obtain ⟨en', s''⟩ := x
      rw [hc] at h hg
      simp only [HRes.stop.injEq] at h
      rcases hg.2 with h1 | h1
      · exact Or.inr (Or.inl (h.1 ▸ h1))
      · exact Or.inr (Or.inr (h.1 ▸ h1))
    | ok s'' =>
      rw [hc] at h
      simp only [HRes.stop.injEq] at h
      exact Or.inl h.1.symm
  · intro s q secs r hl hne
    rw [handleWait_some secs hl, if_neg hne]
  · intro s q pl r hl ho
    rw [handleInvoke_some pl hl, ho]
  · intro s h r hl ho
    rw [handleCbRes_some hl, ho]
  · intro s q sp s' h
    have := noIndef_handleStep s q sp
    rw [h] at this
    exact this rfl
  · intro s q w s' h
    have := noIndef_handleWfc s q w
    rw [h] at this
    exact this rfl
  · intro s q secs s' h
    have := noIndef_handleWait s q secs
    rw [h] at this
    exact this rfl
  · intro s q pl s' h
    have := noIndef_handleInvoke s q pl
    rw [h] at this
    exact this rfl

/-- **A3.**  One invocation is a total function: it always ends with one of the five `End`s, in a
state whose trace is a (finite) list — no invocation runs forever.  (By construction of the model:
`run` is defined by structural recursion on the workflow.) -/
theorem C07_invocation_total (p : Prog) (ctx : Pos) (n : Nat) (s : St) :
    ∃ e s', run p ctx n s = (e, s') ∧
      ((∃ v, e = .returned v) ∨ (∃ ex, e = .raised ex) ∨ (∃ d, e = .suspended d) ∨ e = .crashed ∨
        e = .ckptFailed) ∧
      ∃ evs, s'.trace = s.trace ++ evs := by
  refine ⟨(run p ctx n s).1, (run p ctx n s).2, rfl, ?_, (fr_run p ctx n s).trace⟩
  cases (run p ctx n s).1 with
  | returned v => exact Or.inl ⟨v, rfl⟩
  | raised ex => exact Or.inr (Or.inl ⟨ex, rfl⟩)
  | suspended d => exact Or.inr (Or.inr (Or.inl ⟨d, rfl⟩))
  | crashed => exact Or.inr (Or.inr (Or.inr (Or.inl rfl)))
  | ckptFailed => exact Or.inr (Or.inr (Or.inr (Or.inr rfl)))

/-! ## Part B — liveness

The good environment is `EngineLive.fireAll` (every PENDING step / wait-for-condition becomes READY,
every STARTED wait SUCCEEDED, every STARTED callback / chained invoke is completed with `outc q`);
`EngineLive.goodRound` is one invocation (no injected fault, nothing completed at START), after which
the backend holds `finalTbl … k` (the acknowledged table plus the first `k` asynchronous updates
still in flight — the SDK abandons the rest, whatever the ending), followed by `fireAll`;
`goodTbl` / `goodEnd` iterate it from the empty table with crash budget `budget i` and `keep i` kept
asynchronous updates in round `i`. -/

/-- Each cell `fireAll` changes is changed by a legal backend event (B3). -/
theorem C07_fireAll_legal (outc : Pos → Backend.Immediate) (t : Tbl) (q : Pos) (r : OpRec)
    (hl : lookup t q = some r) (hne : fireRec (outc q) r ≠ r) (ho : outc q ≠ .none) :
    ∃ ev, Backend.fire t ev = some (upsert t q (fireRec (outc q) r)) :=
  fireAll_legal outc t q r hl hne ho

/-- `fireAll` is a sequence of enabled backend events, up to the order of the table's entries. -/
theorem C07_fireAll_fires (outc : Pos → Backend.Immediate) (hout : ∀ q, outc q ≠ .none) (t : Tbl) :
    ∃ evs t', fireSeq t evs = some t' ∧ ∀ q, lookup t' q = lookup (fireAll outc t) q :=
  fireAll_fires outc hout t

/-- … and `fireAll` is pointwise: the record at `q` becomes `fireRec (outc q)` of it. -/
theorem C07_fireAll_lookup (outc : Pos → Backend.Immediate) (t : Tbl) (q : Pos) :
    lookup (fireAll outc t) q = (lookup t q).map (fireRec (outc q)) := lookup_fireAll outc t q

/-! ### Progress of the single operations -/

/-- **Step.**  In a fault-free state, from a position whose record is absent / STARTED / READY with
`a` attempts made, `handleStep`
* delivers, leaving a final (`Done`) record whose replayed outcome is the delivered one (up to the
  original-vs-`CallableRuntimeError` form of an invocation error), or
* crashes, or
* suspends leaving the record PENDING with `a + 1` attempts — only if the strategy granted the retry;
  the RETRY was synchronous: nothing is in flight (`Synced`), so the backend holds exactly this table
  whatever it keeps (`kept_synced`);
`fireAll` makes a PENDING step READY (same attempt count); and once `M ≤ a + 1` for a bound `M` of
the strategy, the third case is impossible. -/
theorem C07_step_progress {s : St} {q : Pos} (sp : StepSpec) (a : Nat)
    (hok : StOk s) (hp : Backend.parentOk s.tbl q = true)
    (hl : (lookup s.tbl q = none ∧ a = 0) ∨
      ∃ rt, lookup s.tbl q = some rt ∧ rt.kind = .step ∧ (rt.status = .started ∨ rt.status = .ready) ∧
        a = rt.attempt) :
    StepPost sp q a (handleStep s q sp) ∧
    (∀ (outc : Pos → Backend.Immediate) (t : Tbl) (r : OpRec), lookup t q = some r → r.kind = .step →
      r.status = .pending → lookup (fireAll outc t) q = some { r with status := .ready }) ∧
    (∀ M, (∀ e a', M ≤ a' → sp.strategy e a' = none) → M ≤ a + 1 →
      ∀ d s', handleStep s q sp ≠ .stop (.suspended d) s') := by
  have hv := handleStep_visit sp a hok hp hl
  refine ⟨hv, ?_, ?_⟩
  · intro outc t r hlr hk hs
    rw [lookup_fireAll, hlr]
    show some (fireRec _ r) = _
    rw [fireRec_pending (Or.inl hk) hs]
  · intro M hM hle d s' h
    rw [h] at hv
    rcases hv with hv | ⟨_, _, ex, _, _, _, _, _, hstr, _⟩
    · cases hv
    · rw [hM ex (a + 1) hle] at hstr; cases hstr

/-- **Wait-for-condition**: like a step, with the wait strategy `decide` in place of the retry
strategy. -/
theorem C07_wfc_progress {s : St} {q : Pos} (w : WfcSpec) (a : Nat)
    (hok : StOk s) (hp : Backend.parentOk s.tbl q = true)
    (hl : (lookup s.tbl q = none ∧ a = 0) ∨
      ∃ rt, lookup s.tbl q = some rt ∧ rt.kind = .wfc ∧ (rt.status = .started ∨ rt.status = .ready) ∧
        a = rt.attempt) :
    WfcPost w q a (handleWfc s q w) ∧
    (∀ (outc : Pos → Backend.Immediate) (t : Tbl) (r : OpRec), lookup t q = some r → r.kind = .wfc →
      r.status = .pending → lookup (fireAll outc t) q = some { r with status := .ready }) ∧
    (∀ M, (∀ v a', M ≤ a' → w.decide v a' = none) → M ≤ a + 1 →
      ∀ d s', handleWfc s q w ≠ .stop (.suspended d) s') := by
  have hv := handleWfc_visit w a hok hp hl
  refine ⟨hv, ?_, ?_⟩
  · intro outc t r hlr hk hs
    rw [lookup_fireAll, hlr]
    show some (fireRec _ r) = _
    rw [fireRec_pending (Or.inr hk) hs]
  · intro M hM hle d s' h
    rw [h] at hv
    rcases hv with hv | ⟨_, _, v, _, _, _, _, _, hstr, _⟩
    · cases hv
    · rw [hM v (a + 1) hle] at hstr; cases hstr

/-- **Wait**: the first visit registers the timer synchronously and suspends (or crashes); `fireAll`
lets the timer elapse; the next visit delivers. -/
theorem C07_wait_progress (q : Pos) (secs : Nat) :
    (∀ s : St, StOk s → Backend.parentOk s.tbl q = true → lookup s.tbl q = none →
      (∃ s', handleWait s q secs = .stop .crashed s') ∨
      (∃ s', handleWait s q secs = .stop (.suspended (some secs)) s' ∧
        lookup s'.tbl q = some { kind := .wait, status := .started } ∧ Synced s')) ∧
    (∀ (outc : Pos → Backend.Immediate) (t : Tbl), lookup t q = some { kind := .wait, status := .started } →
      lookup (fireAll outc t) q = some { kind := .wait, status := .succeeded }) ∧
    (∀ (s : St) (r : OpRec), lookup s.tbl q = some r → r.status = .succeeded →
      handleWait s q secs = deliverAt s q (.ok noneVal)) := by
  refine ⟨fun s hok hp hl => handleWait_visit secs hok hp hl, ?_, ?_⟩
  · intro outc t hl
    rw [lookup_fireAll, hl]; rfl
  · intro s r hl hs
    rw [handleWait_some secs hl, if_pos hs]

/-- **Chained invoke**: registered and suspended; completed by the environment; delivered. -/
theorem C07_invoke_progress (q : Pos) (pl : Val) :
    (∀ s : St, StOk s → Backend.parentOk s.tbl q = true → lookup s.tbl q = none →
      (∃ s', handleInvoke s q pl = .stop .crashed s') ∨
      (∃ s', handleInvoke s q pl = .stop (.suspended (some 0)) s' ∧
        lookup s'.tbl q = some { kind := .invoke, status := .started } ∧ Synced s')) ∧
    (∀ (outc : Pos → Backend.Immediate) (t : Tbl), outc q ≠ .none →
      lookup t q = some { kind := .invoke, status := .started } →
      ∃ r o, lookup (fireAll outc t) q = some r ∧ invOut r = some o) ∧
    (∀ (s : St) (r : OpRec) (o : Outcome), lookup s.tbl q = some r → invOut r = some o →
      handleInvoke s q pl = deliverAt s q o) := by
  refine ⟨fun s hok hp hl => handleInvoke_visit pl hok hp hl, ?_, ?_⟩
  · intro outc t ho hl
    have := invOut_finish ho
    cases hio : invOut (Backend.finish { kind := .invoke, status := .started } (outc q)) with
    | none => rw [hio] at this; cases this
    | some o => exact ⟨_, o, by rw [lookup_fireAll, hl]; rfl, hio⟩
  · intro s r o hl ho
    rw [handleInvoke_some pl hl, ho]

/-- **Callback**: `create_callback` registers the callback and returns the handle at once;
`Callback.result()` on it suspends (indefinitely); the environment completes the callback; the next
`Callback.result()` delivers. -/
theorem C07_callback_progress (q : Pos) :
    (∀ s : St, StOk s → Backend.parentOk s.tbl q = true → lookup s.tbl q = none →
      (∃ s', handleCbNew s q = .error (.crashed, s')) ∨
      (∃ s', handleCbNew s q = .ok s' ∧ lookup s'.tbl q = some { kind := .callback, status := .started } ∧
        Synced s')) ∧
    (∀ s : St, lookup s.tbl q = some { kind := .callback, status := .started } →
      handleCbRes s q = .stop (.suspended none) s) ∧
    (∀ (outc : Pos → Backend.Immediate) (t : Tbl), outc q ≠ .none →
      lookup t q = some { kind := .callback, status := .started } →
      ∃ r o, lookup (fireAll outc t) q = some r ∧ cbOut r = some o) ∧
    (∀ (s : St) (r : OpRec) (o : Outcome), lookup s.tbl q = some r → cbOut r = some o →
      handleCbRes s q = .deliver o (emit s (.deliver q o))) := by
  refine ⟨fun s hok hp hl => handleCbNew_visit hok hp hl, ?_, ?_, ?_⟩
  · intro s hl
    rw [handleCbRes_some hl]; rfl
  · intro outc t ho hl
    have := cbOut_finish ho
    cases hio : cbOut (Backend.finish { kind := .callback, status := .started } (outc q)) with
    | none => rw [hio] at this; cases this
    | some o => exact ⟨_, o, by rw [lookup_fireAll, hl]; rfl, hio⟩
  · intro s r o hl ho
    rw [handleCbRes_some hl, ho]

/-! ### A step is done within `M + 1` rounds -/

/-- The table before round `i` of the one-operation driver: visit the step at `q` (crash budget
`budget i`), let the backend keep `keep i` of the asynchronous updates in flight, then let the
environment fire. -/
def stepTbl (outc : Pos → Backend.Immediate) (sp : StepSpec) (q : Pos) (budget keep : Nat → Nat) (t0 : Tbl) :
    Nat → Tbl
  | 0 => t0
  | i + 1 => fireAll outc (kept
      (handleStep (initSt (stepTbl outc sp q budget keep t0 i) (budget i) none (fun _ => .none)) q sp).st (keep i))

/-- The visit of round `i`. -/
def stepVisit (outc : Pos → Backend.Immediate) (sp : StepSpec) (q : Pos) (budget keep : Nat → Nat) (t0 : Tbl)
    (i : Nat) : HRes :=
  handleStep (initSt (stepTbl outc sp q budget keep t0 i) (budget i) none (fun _ => .none)) q sp

theorem parentOk_congr {t t' : Tbl} {q : Pos} (h : lookup t' q.dropLast = lookup t q.dropLast) :
    Backend.parentOk t' q = Backend.parentOk t q := by
  unfold Backend.parentOk
  cases hdl : q.dropLast with
  | nil => rfl
  | cons c cs => rw [hdl] at h; simp only [h]

theorem dropLast_ne {q : Pos} (hq : q ≠ []) : q.dropLast ≠ q := by
  intro he
  have h1 := congrArg List.length he
  rw [List.length_dropLast] at h1
  have : 0 < q.length := List.length_pos_iff.mpr hq
  omega

theorem parentOk_fireAll (outc : Pos → Backend.Immediate) {t : Tbl} {q : Pos}
    (h : Backend.parentOk t q = true) : Backend.parentOk (fireAll outc t) q = true := by
  unfold Backend.parentOk at h ⊢
  cases hdl : q.dropLast with
  | nil => rfl
  | cons c cs =>
    rw [hdl] at h
    simp only [] at h ⊢
    rw [lookup_fireAll]
    cases hl : lookup t (c :: cs) with
    | none => rw [hl] at h; cases h
    | some r =>
      rw [hl] at h
      simp only [Option.map_some]
      rw [fireRec_kind]; exact h

/-- **A bounded step is done within `M + 1` rounds**: from a fresh position, after at most `M`
suspended rounds the visit delivers (the record is then `Done`) — or the invocation crashes;
whatever the backend keeps of the asynchronous updates (the RETRY is synchronous). -/
theorem C07_step_done_within (outc : Pos → Backend.Immediate) (sp : StepSpec) (q : Pos) (hq : q ≠ [])
    (budget keep : Nat → Nat) (t0 : Tbl) (M : Nat) (hM : ∀ e a, M ≤ a → sp.strategy e a = none)
    (hp0 : Backend.parentOk t0 q = true) (hl0 : lookup t0 q = none) :
    ∃ i, i ≤ M ∧ (∀ i', i' < i → ∃ d s', stepVisit outc sp q budget keep t0 i' = .stop (.suspended d) s') ∧
      ((∃ o s' r', stepVisit outc sp q budget keep t0 i = .deliver o s' ∧ lookup s'.tbl q = some r' ∧
          Done r' = true) ∨
       (∃ s', stepVisit outc sp q budget keep t0 i = .stop .crashed s')) := by
  have hinv : ∀ i, (∀ i', i' < i → ∃ d s', stepVisit outc sp q budget keep t0 i' = .stop (.suspended d) s') →
      Backend.parentOk (stepTbl outc sp q budget keep t0 i) q = true ∧
      ((lookup (stepTbl outc sp q budget keep t0 i) q = none ∧ i = 0) ∨
        ∃ rt, lookup (stepTbl outc sp q budget keep t0 i) q = some rt ∧ rt.kind = .step ∧
          (rt.status = .started ∨ rt.status = .ready) ∧ i = rt.attempt) := by
    intro i
    induction i with
    | zero => intro _; exact ⟨hp0, Or.inl ⟨hl0, rfl⟩⟩
    | succ i ih =>
      intro hs
      obtain ⟨hp, hrec⟩ := ih (fun i' hi' => hs i' (by omega))
      obtain ⟨d, s', hv⟩ := hs i (by omega)
      have hvis := handleStep_visit (s := initSt (stepTbl outc sp q budget keep t0 i) (budget i) none (fun _ => .none))
        sp i (stOk_init _ _) hp hrec
      have hst : (stepVisit outc sp q budget keep t0 i).st = s' := by rw [hv]; rfl
      have hoa := onlyAt_handleStep (initSt (stepTbl outc sp q budget keep t0 i) (budget i) none (fun _ => .none)) q sp
      unfold stepVisit at hv hst
      rw [hv] at hvis
      rw [hst] at hoa
      rcases hvis with hc | ⟨_, r', _, _, hl', hk', hs', hat', _, hsy⟩
      · cases hc
      · have htbl : stepTbl outc sp q budget keep t0 (i + 1) = fireAll outc s'.tbl := by
          show fireAll outc (kept (handleStep _ q sp).st (keep i)) = _
          rw [hst, kept_synced hsy]
        constructor
        · rw [htbl]
          apply parentOk_fireAll
          rw [parentOk_congr (hoa _ (dropLast_ne hq))]
          exact hp
        · refine Or.inr ⟨{ r' with status := .ready }, ?_, hk', Or.inr rfl, hat'.symm⟩
          rw [htbl, lookup_fireAll, hl']
          show some (fireRec _ r') = _
          rw [fireRec_pending (Or.inl hk') hs']
  have hex : ∃ i, ¬ ∃ d s', stepVisit outc sp q budget keep t0 i = .stop (.suspended d) s' := by
    apply Classical.byContradiction
    intro hne
    have hall : ∀ i, ∃ d s', stepVisit outc sp q budget keep t0 i = .stop (.suspended d) s' :=
      fun i => Classical.byContradiction (fun h => hne ⟨i, h⟩)
    obtain ⟨hp, hrec⟩ := hinv M (fun i' _ => hall i')
    obtain ⟨d, s', hv⟩ := hall M
    have h3 := (C07_step_progress sp M (stOk_init (stepTbl outc sp q budget keep t0 M) (budget M)) hp hrec).2.2 M hM
      (by omega) d s'
    exact h3 hv
  obtain ⟨j, hj, hmin⟩ := exists_least hex
  have hprev : ∀ i', i' < j → ∃ d s', stepVisit outc sp q budget keep t0 i' = .stop (.suspended d) s' :=
    fun i' hi' => Classical.byContradiction (fun h => hmin i' hi' h)
  obtain ⟨hp, hrec⟩ := hinv j hprev
  have hvis := handleStep_visit (s := initSt (stepTbl outc sp q budget keep t0 j) (budget j) none (fun _ => .none))
    sp j (stOk_init _ _) hp hrec
  have hjM : j ≤ M := by
    apply Classical.byContradiction
    intro hgt
    obtain ⟨hpM, hrecM⟩ := hinv M (fun i' hi' => hprev i' (by omega))
    obtain ⟨d, s', hv⟩ := hprev M (by omega)
    exact (C07_step_progress sp M (stOk_init (stepTbl outc sp q budget keep t0 M) (budget M)) hpM hrecM).2.2 M hM
      (by omega) d s' hv
  refine ⟨j, hjM, hprev, ?_⟩
  cases hv : stepVisit outc sp q budget keep t0 j with
  | deliver o s' =>
    unfold stepVisit at hv
    rw [hv] at hvis
    obtain ⟨r', hl', hd', _⟩ := hvis
    exact Or.inl ⟨o, s', r', rfl, hl', hd'⟩
  | stop e s' =>
    have hv' := hv
    unfold stepVisit at hv
    rw [hv] at hvis
    rcases hvis with hc | ⟨d, _, _, he, _⟩
    · subst hc; exact Or.inr ⟨s', rfl⟩
    · subst he; exact absurd ⟨d, s', hv'⟩ hj

/-! ### The global theorem -/

/-- **C07, liveness.**  Let `p` be a workflow whose retry strategies and wait strategies give up
after finitely many attempts (`Bounded`) and which is replay-stable (`LScoped`: `Scoped` with
equality — instead of `Sim` — of the continuations that replay may confuse).  Let the
environment deliver a real outcome to every awaited callback / chained invoke.  Then for every plan
of crash budgets **and every keep plan** (`keep i` = how many of the asynchronous updates still
queued at the end of invocation `i` reach the backend; the rest is abandoned), the execution from
the empty table consists of finitely many invocations that end `suspended`, followed by one that
returns or raises — or crashes, and then the crash budget of that invocation is exhausted
(`budget = 0` in its final state).  In particular no round ends `ckptFailed`. -/
theorem C07_terminates (p : Prog) (hb : Bounded p) (hsc : LScoped p [] 0)
    (outc : Pos → Backend.Immediate) (hout : ∀ q, outc q ≠ .none) (budget keep : Nat → Nat) :
    ∃ n, (∀ i, i < n → ∃ d, goodEnd outc p budget keep i = .suspended d) ∧
      ((∃ v, goodEnd outc p budget keep n = .returned v) ∨ (∃ e, goodEnd outc p budget keep n = .raised e) ∨
        (goodEnd outc p budget keep n = .crashed ∧ (goodSt outc p budget keep n).budget = 0)) :=
  good_terminates' hout p hb hsc budget keep

/-- The same under the proviso "no round crashes": a final outcome is reached. -/
theorem C07_terminates_crashfree (p : Prog) (hb : Bounded p) (hsc : LScoped p [] 0)
    (outc : Pos → Backend.Immediate) (hout : ∀ q, outc q ≠ .none) (budget keep : Nat → Nat)
    (hnc : ∀ i, goodEnd outc p budget keep i ≠ .crashed) :
    ∃ n, (∀ i, i < n → ∃ d, goodEnd outc p budget keep i = .suspended d) ∧
      ((∃ v, goodEnd outc p budget keep n = .returned v) ∨ (∃ e, goodEnd outc p budget keep n = .raised e)) := by
  obtain ⟨n, h1, h2⟩ := C07_terminates p hb hsc outc hout budget keep
  refine ⟨n, h1, ?_⟩
  rcases h2 with h | h | h
  · exact Or.inl h
  · exact Or.inr h
  · exact absurd h.1 (hnc n)

/-- The core of the proof, for a fragment placed anywhere: no infinite sequence of invocations, each
on the table the good environment makes of what the backend kept of the previous one, consists of
suspensions only. -/
theorem C07_no_infinite_suspension (outc : Pos → Backend.Immediate) (hout : ∀ q, outc q ≠ .none) (p : Prog)
    (ctx : Pos) (n : Nat) (keep : Nat → Nat) (seq : Nat → St) (hb : Bounded p) (hsc : LScoped p ctx n)
    (g : GoodSeq outc keep p ctx n seq) : False :=
  live hout p ctx n keep seq hb hsc g

/-- Every table of a good execution — under every keep plan — is compatible with the program, and no
update is ever rejected. -/
theorem C07_good_compat (p : Prog) (hsc : LScoped p [] 0) (outc : Pos → Backend.Immediate)
    (budget keep : Nat → Nat) (i : Nat) :
    Compat p [] 0 (goodTbl outc p budget keep i) ∧ goodEnd outc p budget keep i ≠ .ckptFailed :=
  ⟨good_compat outc hsc.scoped budget keep i, good_no_fault outc hsc.scoped budget keep i⟩

/-! ### The statement with `Scoped` is false -/

/-- The liveness statement for `Scoped` programs (replay-stability up to `Sim` only). -/
def C07_terminates_full : Prop :=
  ∀ (p : Prog), Bounded p → Scoped p [] 0 → ∀ (outc : Pos → Backend.Immediate), (∀ q, outc q ≠ .none) →
    ∀ (budget keep : Nat → Nat), ∃ n, ∀ d, goodEnd outc p budget keep n ≠ .suspended d

namespace Cx

def e0 : Exc := { cls := "E", msg := "check failed" }
def e1 : Exc := { cls := "E1", msg := "body failed" }

def cxStep : StepSpec := { body := fun _ => .err e1, strategy := fun _ a => if a < 2 then some 1 else none }

def cxK2 (o : Outcome) : Prog :=
  match o with
  | .ok _ => .ret "x"
  | .err ex => .raise ex

/-- The continuation tells the original exception (first execution: it runs a retrying step) from
its `CallableRuntimeError` form (replay: it waits). -/
def cxK (o : Outcome) : Prog :=
  match o with
  | .ok _ => .ret "x"
  | .err e => if e.cls == "CallableRuntimeError" then .wait 5 (.ret "x") else .step cxStep cxK2

/-- A wait-for-condition whose check fails (finding F2: the original exception is delivered on first
execution, a `CallableRuntimeError` on replay). -/
def cx : Prog := .wfc { init := "", check := fun _ _ => .err e0, decide := fun _ _ => none } cxK

def cxOut : Pos → Backend.Immediate := fun _ => .succeeded none

theorem cx_bounded : Bounded cx := by
  refine .wfc ⟨0, fun _ _ _ => rfl⟩ (fun o => ?_)
  cases o with
  | ok v => exact .ret
  | err e =>
    show Bounded (if e.cls == "CallableRuntimeError" then _ else _)
    split
    · exact .wait .ret
    · refine .step ⟨2, fun _ a ha => ?_⟩ (fun o => ?_)
      · show (if a < 2 then some 1 else none) = none
        rw [if_neg (by omega)]
      · cases o <;> first | exact .ret | exact .raise

theorem sim_step_wait : Sim (.step cxStep cxK2) (.wait 5 (.ret "x")) := by
  intro ctx n t
  constructor
  · intro hc
    cases hc with
    | fresh hu => exact .fresh hu
    | stepActive hl hk ha hu =>
      refine .waitPark hl ?_ hu
      rcases ha with h | h | h <;> rw [h] <;> simp
    | @stepDone _ _ _ _ _ r hl hd hc' =>
      by_cases hs : r.status = .succeeded
      · have : cxK2 (outcomeOf r) = .ret "x" := by simp [outcomeOf, hs, cxK2]
        rw [this] at hc'
        exact .waitDone hl hs hc'
      · have : ∃ ex, cxK2 (outcomeOf r) = .raise ex := by simp [outcomeOf, hs, cxK2]
        obtain ⟨ex, hex⟩ := this
        rw [hex] at hc'
        cases hc' with
        | fresh hu => exact .waitPark hl hs hu
  · intro v hr
    cases hr with
    | @step _ _ _ _ _ _ r hl hd hr' =>
      by_cases hs : r.status = .succeeded
      · have : cxK2 (outcomeOf r) = .ret "x" := by simp [outcomeOf, hs, cxK2]
        rw [this] at hr'
        cases hr'
        exact .wait hl hs .ret
      · have : ∃ ex, cxK2 (outcomeOf r) = .raise ex := by simp [outcomeOf, hs, cxK2]
        obtain ⟨ex, hex⟩ := this
        rw [hex] at hr'
        cases hr'

theorem cx_scoped : Scoped cx [] 0 := by
  refine .wfc (fun o => ?_) (fun e st a h => ?_)
  · cases o with
    | ok v => exact .ret
    | err e =>
      show Scoped (if e.cls == "CallableRuntimeError" then _ else _) [] 1
      split
      · exact .wait .ret
      · refine .step (fun o => ?_) (fun e _ _ => ?_)
        · cases o <;> first | exact .ret | exact .raise
        · exact Sim.raise _ _
  · have he : e = e0 := by
      have : (Outcome.err e0) = .err e := h
      cases this; rfl
    subst he
    exact sim_step_wait

/-- From round 1 on the table is a fixed point of the good round, which ends `suspended`: the wait
of the replay path sits on the READY step record of the first-execution path.  Both when every
asynchronous update in flight is abandoned (`keep = 0`) and when all get through (`keep = 100`). -/
theorem cx_fixpoint (k : Nat) (hk : k = 0 ∨ k = 100) :
    goodEnd cxOut cx (fun _ => 100) (fun _ => k) 0 = .suspended (some 1) ∧
    goodRound cxOut cx 100 k (goodTbl cxOut cx (fun _ => 100) (fun _ => k) 1) =
      (.suspended (some 5), goodTbl cxOut cx (fun _ => 100) (fun _ => k) 1) := by
  rcases hk with rfl | rfl <;> decide

theorem cx_tbl (k : Nat) (hk : k = 0 ∨ k = 100) (i : Nat) :
    goodTbl cxOut cx (fun _ => 100) (fun _ => k) (i + 1) = goodTbl cxOut cx (fun _ => 100) (fun _ => k) 1 := by
  induction i with
  | zero => rfl
  | succ i ih =>
    show (goodRound cxOut cx 100 k (goodTbl cxOut cx (fun _ => 100) (fun _ => k) (i + 1))).2 = _
    rw [ih, (cx_fixpoint k hk).2]

/-- **Livelock.**  Every round of the good execution of `cx` ends `suspended` (keep plans `0` and
`100`). -/
theorem cx_suspended_forever (k : Nat) (hk : k = 0 ∨ k = 100) (i : Nat) :
    ∃ d, goodEnd cxOut cx (fun _ => 100) (fun _ => k) i = .suspended d := by
  cases i with
  | zero => exact ⟨_, (cx_fixpoint k hk).1⟩
  | succ i =>
    refine ⟨some 5, ?_⟩
    show (goodRound cxOut cx 100 k (goodTbl cxOut cx (fun _ => 100) (fun _ => k) (i + 1))).1 = _
    rw [cx_tbl k hk i, (cx_fixpoint k hk).2]

end Cx

/-- **The liveness statement for `Scoped` programs is false** (a consequence of finding F2): a
workflow that reacts differently to the original exception of a failed wait-for-condition and to its
replayed `CallableRuntimeError` form can be suspended forever — the replay path waits on a position
where the first-execution path left a retrying step. -/
theorem C07_terminates_full_false : ¬ C07_terminates_full := by
  intro h
  obtain ⟨n, hn⟩ := h Cx.cx Cx.cx_bounded Cx.cx_scoped Cx.cxOut (fun _ h => by cases h) (fun _ => 100)
    (fun _ => 0)
  obtain ⟨d, hd⟩ := Cx.cx_suspended_forever 0 (Or.inl rfl) n
  exact hn d hd

/-! ### Non-vacuity -/

namespace Demo

/-- A step that fails once and is retried once. -/
def demoStep : StepSpec :=
  { body := fun a => if a = 1 then .err { cls := "E", msg := "boom" } else .ok "s",
    strategy := fun _ a => if a < 2 then some 3 else none }

def kRes (o : Outcome) : Prog :=
  match o with
  | .ok v => .ret v
  | .err _ => .ret "cb-failed"

def kOut (o : Outcome) : Prog :=
  match o with
  | .ok v => .ret v
  | .err _ => .raise { cls := "WorkflowFailed", msg := "child failed" }

/-- Inside a child context: a step with one retry, then a wait, then a callback (create + result). -/
def demo : Prog :=
  .child {} (.step demoStep fun _ => .wait 5 (.cbNew fun h => .cbRes h kRes)) kOut

def demoOut : Pos → Backend.Immediate := fun _ => .succeeded (some "cbv")

theorem demo_bounded : Bounded demo := by
  refine .child (.step ⟨2, fun _ a ha => ?_⟩ (fun _ => .wait (.cbNew (fun h => .cbRes (fun o => ?_))))) (fun o => ?_)
  · show (if a < 2 then some 3 else none) = none
    rw [if_neg (by omega)]
  · cases o <;> exact .ret
  · cases o <;> first | exact .ret | exact .raise

theorem demo_scoped : LScoped demo [] 0 := by
  refine .child (.step (fun _ => .wait (.cbNew (.cbRes (past_self _ _) (fun o => ?_)))) (fun _ _ _ => rfl))
    (fun o => ?_) (fun _ _ => rfl)
  · cases o <;> exact .ret
  · cases o <;> first | exact .ret | exact .raise

/-- The good execution of `demo`: retry timer, wait timer, callback, then the result — the same four
rounds whether the backend abandons every asynchronous update in flight (`keep = 0`) or receives
all of them (`keep = 100`): each suspension here follows a synchronous call. -/
theorem demo_rounds :
    (List.range 4).map (goodEnd demoOut demo (fun _ => 100) (fun _ => 0)) =
      [.suspended (some 3), .suspended (some 5), .suspended none, .returned "cbv"] ∧
    (List.range 4).map (goodEnd demoOut demo (fun _ => 100) (fun _ => 100)) =
      [.suspended (some 3), .suspended (some 5), .suspended none, .returned "cbv"] := by decide

/-- `C07_terminates` applies to `demo`, for every keep plan; the round it promises is round 3. -/
theorem demo_terminates (keep : Nat → Nat) :
    ∃ n, (∀ i, i < n → ∃ d, goodEnd demoOut demo (fun _ => 100) keep i = .suspended d) ∧
      ((∃ v, goodEnd demoOut demo (fun _ => 100) keep n = .returned v) ∨
        (∃ e, goodEnd demoOut demo (fun _ => 100) keep n = .raised e) ∨
        (goodEnd demoOut demo (fun _ => 100) keep n = .crashed ∧
          (goodSt demoOut demo (fun _ => 100) keep n).budget = 0)) :=
  C07_terminates demo demo_bounded demo_scoped demoOut (fun _ h => by cases h) (fun _ => 100) keep

/-- A child context whose result is oversized (the context is re-traversed on replay), followed by a
wait. -/
def demoLarge : Prog :=
  .child { large := fun _ => true, summary := fun _ => "sum" } (.wait 1 (.ret "big")) (fun o => .wait 2 (kRes o))

theorem demoLarge_bounded : Bounded demoLarge := by
  refine .child (.wait .ret) (fun o => .wait ?_)
  cases o <;> exact .ret

theorem demoLarge_scoped : LScoped demoLarge [] 0 := by
  refine .child (.wait .ret) (fun o => .wait ?_) (fun _ _ => rfl)
  cases o <;> exact .ret

theorem demoLarge_rounds :
    ((List.range 3).map (goodEnd demoOut demoLarge (fun _ => 100) (fun _ => 0)) =
      [.suspended (some 1), .suspended (some 2), .returned "big"] ∧
    lookup (goodTbl demoOut demoLarge (fun _ => 100) (fun _ => 0) 2) [1] =
      some { kind := .context, status := .succeeded, result := some "sum", replayChildren := true }) ∧
    ((List.range 3).map (goodEnd demoOut demoLarge (fun _ => 100) (fun _ => 100)) =
      [.suspended (some 1), .suspended (some 2), .returned "big"] ∧
    lookup (goodTbl demoOut demoLarge (fun _ => 100) (fun _ => 100) 2) [1] =
      some { kind := .context, status := .succeeded, result := some "sum", replayChildren := true }) := by decide

/-- A workflow in which an asynchronous START is really lost: inside a fresh child context,
`Callback.result()` on a callback of the enclosing context suspends without any synchronous call, so
the START of the child context is still in flight.  With `keep = 0` it is abandoned (the table after
round 0 has no record at `[2]`) and sent again in round 1; with `keep = 100` it gets through.  The
rounds end the same way. -/
def demoLost : Prog :=
  .cbNew fun h => .child {} (.cbRes h kRes) kOut

theorem demoLost_bounded : Bounded demoLost := by
  refine .cbNew (fun h => .child (.cbRes (fun o => ?_)) (fun o => ?_))
  · cases o <;> exact .ret
  · cases o <;> first | exact .ret | exact .raise

theorem demoLost_scoped : LScoped demoLost [] 0 := by
  refine .cbNew (.child (.cbRes (past_into_child (past_self [] 0)) (fun o => ?_)) (fun o => ?_) (fun _ _ => rfl))
  · cases o <;> exact .ret
  · cases o <;> first | exact .ret | exact .raise

theorem demoLost_rounds :
    ((List.range 2).map (goodEnd demoOut demoLost (fun _ => 100) (fun _ => 0)) =
      [.suspended none, .returned "cbv"] ∧
     lookup (goodTbl demoOut demoLost (fun _ => 100) (fun _ => 0) 1) [2] = none) ∧
    ((List.range 2).map (goodEnd demoOut demoLost (fun _ => 100) (fun _ => 100)) =
      [.suspended none, .returned "cbv"] ∧
     lookup (goodTbl demoOut demoLost (fun _ => 100) (fun _ => 100) 1) [2] =
      some { kind := .context, status := .started }) := by decide

end Demo

end C07
