import Proofs.EngineExec
/-!
# C01 / C02 across invocations

Statements over every program, every start table and every list of rounds (crash points, failing
calls, `keep`, immediate outcomes, backend events in any order).

* `Exec.runRound` runs an invocation on `Exec.visible t` and returns `finalTbl` of *that* table, so
  rows hidden by B6 (descendants of a completed context without ReplayChildren) are DROPPED from the
  table by an invocation round (witness: `hidden_rows_are_dropped`).  "Terminal records persist" is
  therefore stated as: the record is still there, or the position is hidden (and then stays hidden).
-/
namespace C01X
open Engine EngineExec

/-- **C01X (state).** A terminal record is never changed by later rounds: after every later round
the table still holds exactly `r` at `q`, or `q` lies under a completed context (B6) — any start
table, any rounds. -/
theorem C01X_terminal_persists (p : Prog) (t : Tbl) (q : Pos) (r : OpRec)
    (h : lookup t q = some r) (hd : r.status.terminal = true) (rounds : List Exec.Round) :
    ∀ o ∈ Exec.runRounds p t rounds, lookup o.tbl q = some r ∨ Exec.hidden o.tbl q = true :=
  runRounds_inv p (fun t => lookup t q = some r ∨ Exec.hidden t q = true)
    (fun t rd ht => round_frozen_or_hidden p q r hd t rd ht) rounds t (Or.inl h)

theorem done_terminal {r : OpRec} (h : Done r = true) : r.status.terminal = true := by
  rcases done_cases h with h | h <;> simp [h, Status.terminal]

/-- **C01X (state), prefix form.** If after some prefix of the rounds the table has a completed
record `r` at `q`, then after every longer prefix it still has exactly `r` at `q`, or `q` is hidden. -/
theorem C01X_terminal_persists_across_rounds (p : Prog) (t0 : Tbl) (pre suf : List Exec.Round)
    (q : Pos) (r : OpRec) (h : lookup (tblAfter p t0 pre) q = some r) (hd : Done r = true) :
    lookup (tblAfter p t0 (pre ++ suf)) q = some r ∨ Exec.hidden (tblAfter p t0 (pre ++ suf)) q = true := by
  rw [tblAfter_append]
  exact tblAfter_inv p (fun t => lookup t q = some r ∨ Exec.hidden t q = true)
    (fun t rd ht => round_frozen_or_hidden p q r (done_terminal hd) t rd ht) suf _ (Or.inl h)

/-- **C01X (trace).** Once the (well-formed) table has a completed record at `q` that is not a
ReplayChildren context, no later round enters a user function at `q` or hands over an update for `q`. -/
theorem C01X_no_reentry (p : Prog) (t : Tbl) (hwf : WF t) (q : Pos) (r : OpRec)
    (h : lookup t q = some r) (hd : Done r = true) (hrc : ReplayCtx r = false) (rounds : List Exec.Round) :
    ∀ o ∈ Exec.runRounds p t rounds, noTouch q o.trace = true := by
  have hfin : FinRec r := finRec_of_done (hwf _ _ h) hd hrc
  intro o ho
  obtain ⟨t', rd, ⟨hwf', hq⟩, rfl⟩ := runRounds_mem p
    (fun t => WF t ∧ (lookup t q = some r ∨ Exec.hidden t q = true))
    (fun t rd ht => ⟨round_wf p t rd ht.1, round_frozen_or_hidden p q r (done_terminal hd) t rd ht.2⟩)
    rounds t ⟨hwf, Or.inl h⟩ o ho
  cases rd with
  | event ev => rw [runRound_event_trace]; rfl
  | invoke b fa keep imm =>
    rw [runRound_invoke]
    simp only []
    have hm := invoke_noTouch p t' b fa (Exec.immOf imm) hwf' q
      (hq.elim (fun h => Or.inl ⟨r, h, hfin⟩) Or.inr)
    have := mv_noTouch hm
    rwa [invoke_trace_nil] at this

theorem wf_tblAfter (p : Prog) (t0 : Tbl) (h : WF t0) (rounds : List Exec.Round) : WF (tblAfter p t0 rounds) :=
  tblAfter_inv p WF (fun t rd ht => round_wf p t rd ht) rounds t0 h

/-- **C01X (trace), prefix form**, for executions from the empty table. -/
theorem C01X_no_reentry_across_rounds (p : Prog) (pre suf : List Exec.Round) (q : Pos) (r : OpRec)
    (h : lookup (tblAfter p [] pre) q = some r) (hd : Done r = true) (hrc : ReplayCtx r = false) :
    ∀ o ∈ (Exec.runRounds p [] (pre ++ suf)).drop pre.length, noTouch q o.trace = true := by
  rw [runRounds_append]
  rw [List.drop_left' (runRounds_length p pre [])]
  exact C01X_no_reentry p _ (wf_tblAfter p [] wf_nil pre) q r h hd hrc suf


/-- **C01, single invocation (the fact `hsingle` the cross-invocation theorem rests on, proved
here).**  If the record at `q` is completed (SUCCEEDED / FAILED, and not a SUCCEEDED record with
ReplayChildren) in both the current and the durable table, a run whose context does not lie inside
`q` neither enters a user function at `q` nor hands over an update for `q`. -/
theorem C01X_single_invocation (p : Prog) (ctx : Pos) (n : Nat) (s : St) (q : Pos) (r : OpRec)
    (h1 : lookup s.tbl q = some r) (h2 : lookup s.syncTbl q = some r) (hd : Done r = true)
    (hrc : r.status = .succeeded → r.replayChildren = false) (hctx : ¬ q <+: ctx ∨ q = []) :
    noTouch q (newEvents s (run p ctx n s).2) = true :=
  mv_noTouch (run_noTouch q q r ⟨hd, hrc⟩ (List.prefix_refl _) p ctx n s h1 h2 hctx)

/-- The same for every position below a completed context (`anc` a prefix of `q`): what B6 hides is
never visited. -/
theorem C01X_single_invocation_below (p : Prog) (ctx : Pos) (n : Nat) (s : St) (anc q : Pos) (r : OpRec)
    (hq : anc <+: q) (h1 : lookup s.tbl anc = some r) (h2 : lookup s.syncTbl anc = some r)
    (hd : Done r = true) (hrc : r.status = .succeeded → r.replayChildren = false)
    (hctx : ¬ anc <+: ctx) : noTouch q (newEvents s (run p ctx n s).2) = true :=
  mv_noTouch (run_noTouch anc q r ⟨hd, hrc⟩ hq p ctx n s h1 h2 (Or.inl hctx))

/-! ## C02 across invocations -/

/-- **C02X.** Programs without `wait` / `create_callback` / `callback.result` nodes (steps,
wait-for-condition, invokes, child contexts, logging, any control flow).  Once the (well-formed)
table has a completed record `r` at `q` that is not a ReplayChildren context, every delivery at `q`
in every later round is the recorded outcome `outcomeOf r` (the recorded result, or the recorded
error as a CallableRuntimeError) — whatever the crash points, faults and event order. -/
theorem C02X_replay_delivers_recorded (p : Prog) (hN : AllN noWaitCbN p) (t : Tbl) (hwf : WF t)
    (q : Pos) (r : OpRec) (h : lookup t q = some r) (hd : Done r = true) (hrc : ReplayCtx r = false)
    (rounds : List Exec.Round) :
    ∀ o ∈ Exec.runRounds p t rounds, ∀ x, Ev.deliver q x ∈ o.trace → x = outcomeOf r := by
  have hfin : FinRec r := finRec_of_done (hwf _ _ h) hd hrc
  intro o ho x hx
  obtain ⟨t', rd, ⟨hwf', hq⟩, rfl⟩ := runRounds_mem p
    (fun t => WF t ∧ (lookup t q = some r ∨ Exec.hidden t q = true))
    (fun t rd ht => ⟨round_wf p t rd ht.1, round_frozen_or_hidden p q r (done_terminal hd) t rd ht.2⟩)
    rounds t ⟨hwf, Or.inl h⟩ o ho
  cases rd with
  | event ev => rw [runRound_event_trace] at hx; cases hx
  | invoke b fa keep imm =>
    rw [runRound_invoke] at hx
    simp only [] at hx
    exact (invoke_deliver p hN t' b fa (Exec.immOf imm) hwf' q r
      (hq.elim (fun h => Or.inl ⟨h, hfin⟩) Or.inr) x hx).1

/-- Prefix form, from the empty table. -/
theorem C02X_replay_delivers_recorded_across_rounds (p : Prog) (hN : AllN noWaitCbN p)
    (pre suf : List Exec.Round) (q : Pos) (r : OpRec)
    (h : lookup (tblAfter p [] pre) q = some r) (hd : Done r = true) (hrc : ReplayCtx r = false) :
    ∀ o ∈ (Exec.runRounds p [] (pre ++ suf)).drop pre.length, ∀ x, Ev.deliver q x ∈ o.trace →
      x = outcomeOf r := by
  rw [runRounds_append, List.drop_left' (runRounds_length p pre [])]
  exact C02X_replay_delivers_recorded p hN _ (wf_tblAfter p [] wf_nil pre) q r h hd hrc suf

/-! ## Witnesses: why the statements have the shape they have -/

namespace Witness

def exc0 : Exc := { cls := "E", msg := "m" }
def stepOk : StepSpec := { body := fun _ => .ok "v", strategy := fun _ _ => none }
def stepFail : StepSpec := { body := fun _ => .err exc0, strategy := fun _ _ => none }

/-- A child context with a step inside, then a wait. -/
def progChild : Prog := .child {} (.step stepOk (fun _ => .ret "c")) (fun _ => .wait 1 (.ret "done"))

def two : List Exec.Round := [.invoke 100 none 0 [], .invoke 100 none 0 []]

/-- A failed step whose position is then (ab)used as a callback handle. -/
def progCbRes : Prog := .step stepFail (fun _ => .cbRes [1] (fun _ => .ret "r"))

end Witness

/-- The single-invocation statement with `ReplayCtx r = false` as its only side condition is false for
arbitrary states: `ChildOperationExecutor` looks at the ReplayChildren flag without looking at the
kind, so a (never produced, ill-formed) SUCCEEDED *step* record with ReplayChildren makes a child
context at that position run its body again.  `C01X_single_invocation` therefore asks for
`replayChildren = false`, and the cross-invocation theorems for well-formed tables (`WF`, an
invariant of every execution from `[]`). -/
theorem hsingle_needs_wellformed :
    let r : OpRec := { kind := .step, status := .succeeded, replayChildren := true }
    let s : St := { tbl := [([1], r)], syncTbl := [([1], r)], budget := 10 }
    let p : Prog := .child {} (.ret "x") (fun _ => .ret "y")
    lookup s.tbl [1] = some r ∧ Done r = true ∧ ReplayCtx r = false ∧
    noTouch [1] (newEvents s (run p [] 0 s).2) = false := by decide

/-- Rows hidden by B6 are dropped from the table by the next invocation round: after round 1 the
table has the (completed) step `[1,1]` of the completed context `[1]`; after round 2 it has not. -/
theorem hidden_rows_are_dropped :
    (lookup (tblAfter Witness.progChild [] [.invoke 100 none 0 []]) [1, 1]).map (·.status) = some .succeeded ∧
    lookup (tblAfter Witness.progChild [] Witness.two) [1, 1] = none ∧
    Exec.hidden (tblAfter Witness.progChild [] Witness.two) [1, 1] = true := by decide

/-- `C02X` is false for programs that call `callback.result` on a handle that is a step position
(possible in the model, where handles are arbitrary positions): on replay the step delivers the
recorded CallableRuntimeError at `[1]`, `Callback.result` delivers a CallbackError at `[1]`. -/
theorem C02X_false_with_cbRes :
    let r : OpRec := { kind := .step, status := .failed, error := some (ErrObj.ofExc Witness.exc0) }
    lookup (tblAfter Witness.progCbRes [] [.invoke 100 none 0 []]) [1] = some r ∧
    ((Exec.runRounds Witness.progCbRes [] Witness.two).getD 1 default).trace.any
      (fun e => match e with
        | .deliver p x => p == [1] && x != outcomeOf r
        | _ => false) = true := by decide

end C01X
