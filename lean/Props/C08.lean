import DurableModel.Ident
import Mathlib.Data.List.Induction
/-!
# C08 — operation identity is deterministic, schedule-independent and collision-free

The identifier is *by construction* a function of the position alone: `Ident.idOf H pos` takes
no state, schedule or history argument (`C08_pure` records this as a theorem about two
arbitrary "runs").  Collision-freedom is proved under the hypothesis that the hash is
injective and never returns the empty string (blake2b-256 hex digests have length 64); the
collision resistance of blake2b is a hypothesis, not an axiom.
-/
namespace C08
open Ident

theorem decimal_injective {m n : Nat} (h : decimal m = decimal n) : m = n := by
  have hm := @Nat.ofDigitChars_ten_toDigits m
  have hn := @Nat.ofDigitChars_ten_toDigits n
  unfold decimal at h
  rw [h] at hm
  exact hm.symm.trans hn

theorem dash_not_mem_decimal (n : Nat) : '-' ∉ decimal n := by
  intro h
  have := Nat.isDigit_of_mem_toDigits (b := 10) (by decide) (by decide) h
  exact absurd this (by decide)

theorem append_dash_inj : ∀ (s1 s2 d1 d2 : List Char), '-' ∉ d1 → '-' ∉ d2 →
    s1 ++ '-' :: d1 = s2 ++ '-' :: d2 → s1 = s2 ∧ d1 = d2
  | [], [], d1, d2, _, _, h => by
      simp at h; exact ⟨rfl, h⟩
  | [], c :: s2, d1, d2, h1, _, h => by
      simp at h
      obtain ⟨_, h⟩ := h
      exact absurd (by rw [h]; simp) h1
  | c :: s1, [], d1, d2, _, h2, h => by
      simp at h
      obtain ⟨_, h⟩ := h
      exact absurd (by rw [← h]; simp) h2
  | a :: s1, b :: s2, d1, d2, h1, h2, h => by
      simp at h
      obtain ⟨hab, h⟩ := h
      obtain ⟨hs, hd⟩ := append_dash_inj s1 s2 d1 d2 h1 h2 h
      exact ⟨by rw [hab, hs], hd⟩

/-- Two pre-images coincide only for the same parent and the same index (parents are either
absent or non-empty). -/
theorem C08_pre_injective (a b : Option Id) (m n : Nat)
    (ha : ∀ x, a = some x → x ≠ []) (hb : ∀ x, b = some x → x ≠ [])
    (h : pre a m = pre b n) : a = b ∧ m = n := by
  cases a with
  | none =>
    cases b with
    | none => exact ⟨rfl, decimal_injective (by simpa [pre] using h)⟩
    | some q =>
      have hq := hb q rfl
      simp [pre, hq] at h
      exact absurd (by rw [h]; simp) (dash_not_mem_decimal m)
  | some p =>
    have hp := ha p rfl
    cases b with
    | none =>
      simp [pre, hp] at h
      exact absurd (by rw [← h]; simp) (dash_not_mem_decimal n)
    | some q =>
      have hq := hb q rfl
      simp [pre, hp, hq] at h
      obtain ⟨h1, h2⟩ := append_dash_inj p q _ _ (dash_not_mem_decimal m) (dash_not_mem_decimal n) h
      exact ⟨by rw [h1], decimal_injective h2⟩

theorem ctxOf_snoc (H : List Char → Id) (p : Pos) (n : Nat) :
    ctxOf H (p ++ [n]) = some (H (pre (ctxOf H p) n)) := by
  simp [ctxOf, child, List.foldl_append]

theorem ctxOf_nonempty (H : List Char → Id) (hne : ∀ x, H x ≠ []) (p : Pos) :
    ∀ x, ctxOf H p = some x → x ≠ [] := by
  induction p using List.reverseRecOn with
  | nil => intro x h; simp [ctxOf] at h
  | append_singleton p n _ =>
    intro x h
    rw [ctxOf_snoc] at h
    cases h
    exact hne _

theorem ctxOf_eq_none (H : List Char → Id) (p : Pos) : ctxOf H p = none ↔ p = [] := by
  induction p using List.reverseRecOn with
  | nil => simp [ctxOf]
  | append_singleton p n _ => simp [ctxOf_snoc]

/-- **Collision freedom.** If the hash is injective and never empty, two positions with the
same context id are the same position. -/
theorem C08_ctx_injective (H : List Char → Id) (hinj : Function.Injective H)
    (hne : ∀ x, H x ≠ []) : ∀ p q : Pos, ctxOf H p = ctxOf H q → p = q := by
  intro p
  induction p using List.reverseRecOn with
  | nil =>
    intro q h
    have : ctxOf H q = none := by rw [← h]; simp [ctxOf]
    exact ((ctxOf_eq_none H q).1 this).symm
  | append_singleton p m ih =>
    intro q
    induction q using List.reverseRecOn with
    | nil =>
      intro h
      have : ctxOf H (p ++ [m]) = none := by rw [h]; simp [ctxOf]
      exact absurd ((ctxOf_eq_none H _).1 this) (by simp)
    | append_singleton q n _ =>
      intro h
      rw [ctxOf_snoc, ctxOf_snoc] at h
      have h' := hinj (Option.some.inj h)
      obtain ⟨hpq, hmn⟩ := C08_pre_injective _ _ m n (ctxOf_nonempty H hne p)
        (ctxOf_nonempty H hne q) h'
      rw [ih q hpq, hmn]

/-- Two different operation positions never share an identifier. -/
theorem C08_injective (H : List Char → Id) (hinj : Function.Injective H)
    (hne : ∀ x, H x ≠ []) (p q : Pos) (hp : p ≠ []) (hq : q ≠ [])
    (h : idOf H p = idOf H q) : p = q := by
  apply C08_ctx_injective H hinj hne
  unfold idOf at h
  cases hcp : ctxOf H p with
  | none => exact absurd ((ctxOf_eq_none H p).1 hcp) hp
  | some x =>
    cases hcq : ctxOf H q with
    | none => exact absurd ((ctxOf_eq_none H q).1 hcq) hq
    | some y => simp [hcp, hcq] at h; rw [h]

/-- The identifier is a function of the position alone: whatever else differs between two
runs (schedule, history, invocation number — modelled as arbitrary extra data `σ₁ σ₂`), the
same position gets the same identifier and the same parent link. -/
theorem C08_pure {σ : Type} (H : List Char → Id) (idIn : σ → Pos → Id)
    (hdef : ∀ s p, idIn s p = idOf H p) (σ₁ σ₂ : σ) (p : Pos) : idIn σ₁ p = idIn σ₂ p := by
  rw [hdef, hdef]

/-- The parent link of a non-root operation is the identifier of its enclosing context, and
root-level operations have no parent. -/
theorem C08_parent_link (H : List Char → Id) (p : Pos) (n : Nat) :
    parentOf H (p ++ [n]) = ctxOf H p ∧
    (p = [] → parentOf H (p ++ [n]) = none) ∧
    (p ≠ [] → parentOf H (p ++ [n]) = some (idOf H p)) := by
  have h1 : parentOf H (p ++ [n]) = ctxOf H p := by simp [parentOf]
  refine ⟨h1, ?_, ?_⟩
  · intro hp; rw [h1, hp]; simp [ctxOf]
  · intro hp
    rw [h1]
    cases hc : ctxOf H p with
    | none => exact absurd ((ctxOf_eq_none H p).1 hc) hp
    | some x => simp [idOf, hc]

/-- The id of an operation is the hash of its parent's id, a dash and its index. -/
theorem C08_id_shape (H : List Char → Id) (p : Pos) (n : Nat) :
    idOf H (p ++ [n]) = H (pre (parentOf H (p ++ [n])) n) := by
  simp [idOf, ctxOf_snoc, parentOf]

/-- Non-vacuity: the hypotheses of `C08_injective` are satisfiable (a length-prefixing
injective "hash"), and distinct concrete positions get distinct ids under it. -/
example : ∃ H : List Char → Id, Function.Injective H ∧ (∀ x, H x ≠ []) ∧
    idOf H [1, 0, 2] ≠ idOf H [1, 2] := by
  refine ⟨fun s => 'h' :: s, ?_, ?_, ?_⟩
  · intro a b h; simpa using h
  · intro x; simp
  · decide

end C08
