import DurableModel.Batcher
import Proofs.Batcher
/-!
# C05 — checkpoint stream: nothing lost, duplicated or reordered; limits respected; callers released
# C06 — (batcher layer) checkpoint failure is fail-stop
# C03 — (batcher layer) a synchronous caller is released with success only after its update was applied

All theorems quantify over every reachable state of `Batcher.step` for an arbitrary configuration,
i.e. every number of producers, every interleaving with the consumer thread, every window timing
(the window may end at any moment), every update size including oversize ones.
Liveness is stated as "never stuck" + "strictly decreasing measure" for the consumer thread; that a
runnable thread eventually runs is trusted-base assumption T4.
-/
namespace C05
open Batcher BatcherProofs

/-- Rank of the consumer's phase inside one collection cycle. -/
def rank : Phase → Nat
  | .release => 7 | .loopCheck => 6 | .drain => 5 | .first => 4 | .window => 3 | .call => 2
  | .failFlag => 4 | .failBatch => 3 | .failOverflow => 2 | .failMain => 1 | .done => 0

/-- Work left for the consumer. -/
def mu (s : St) : Nat :=
  24 * s.mainQ.length + 16 * s.overflow.length + 8 * s.batch.length + rank s.phase


/-- Every consumer step other than the two failing API returns strictly decreases `mu`. -/
private theorem mu_decreases {cfg : Cfg} {s s' : St} (P : InvP cfg s) (a : Act)
    (ha : a.isConsumer = true) (hs : step s a = some s')
    (h1 : a ≠ .apiFail) (h2 : a ≠ .apiFailAfterApply) : mu s' < mu s := by
  cases a with
  | pCheck x => simp [Act.isConsumer] at ha
  | pPut x => simp [Act.isConsumer] at ha
  | pRecheck x => simp [Act.isConsumer] at ha
  | pWake x => simp [Act.isConsumer] at ha
  | stop => simp [Act.isConsumer] at ha
  | apiFail => exact absurd rfl h1
  | apiFailAfterApply => exact absurd rfl h2
  | drainTake =>
    obtain ⟨x, r, hph, hlen, hov, hsz, rfl⟩ := drainTake_some hs
    simp [mu, rank, hph, hov]; omega
  | drainPutBack =>
    obtain ⟨x, r, hph, hlen, hov, hne, hne1, hsz, rfl⟩ := drainPutBack_some hs
    simp [mu, rank, hph, hov]
  | drainEnd =>
    obtain ⟨hph, hc, ⟨hb, rfl⟩ | ⟨hb, hb1, rfl⟩⟩ := drainEnd_some hs <;> simp [mu, rank, hph]
  | firstGet =>
    obtain ⟨x, r, hph, hq, rfl⟩ := firstGet_some hs
    simp [mu, rank, hph, hq]; omega
  | firstStop =>
    obtain ⟨hph, hst, rfl⟩ := firstStop_some hs
    simp [mu, rank, hph]
  | windowGet =>
    obtain ⟨x, r, hph, hlen, hq, ⟨hsz, rfl⟩ | ⟨hsz, rfl⟩⟩ := windowGet_some hs <;>
      simp [mu, rank, hph, hq] <;> omega
  | windowEnd =>
    obtain ⟨hph, rfl⟩ := windowEnd_some hs
    simp [mu, rank, hph]
  | apiOk =>
    obtain ⟨hph, rfl⟩ := apiOk_some hs
    have := P.batch_ne (Or.inr hph)
    simp [mu, rank, hph]; omega
  | releaseAll =>
    obtain ⟨hph, rfl⟩ := releaseAll_some hs
    simp [mu, rank, hph]
  | loopAgain =>
    obtain ⟨hph, hst, rfl⟩ := loopAgain_some hs
    simp [mu, rank, hph]
  | loopStop =>
    obtain ⟨hph, hst, rfl⟩ := loopStop_some hs
    simp [mu, rank, hph]
  | failFlag =>
    obtain ⟨hph, rfl⟩ := failFlag_some hs
    simp [mu, rank, hph]
  | failBatch =>
    obtain ⟨hph, rfl⟩ := failBatch_some hs
    simp [mu, rank, hph]; omega
  | failOvOne =>
    obtain ⟨x, r, hph, hq, rfl⟩ := failOvOne_some hs
    simp [mu, rank, hph, hq]
  | failOvEnd =>
    obtain ⟨hph, hq, rfl⟩ := failOvEnd_some hs
    simp [mu, rank, hph]
  | failMainOne =>
    obtain ⟨x, r, hph, hq, rfl⟩ := failMainOne_some hs
    simp [mu, rank, hph, hq]
  | failMainEnd =>
    obtain ⟨hph, hq, rfl⟩ := failMainEnd_some hs
    simp [mu, rank, hph]

/-- **Order, no loss, no duplication.** While no API call has failed, what was delivered, followed
by what is in the batch, the overflow queue and the main queue, is exactly the sequence of updates
in the order they were handed over. -/
theorem C05_order_no_loss_no_dup {cfg : Cfg} {s : St} (h : Reach cfg s) (hops : 1 ≤ cfg.maxOps)
    (hf : s.failedCall = none) :
    delivered s ++ s.batch ++ s.overflow ++ s.mainQ = s.handed := by
  exact (reach_inv2 h hops).order hf

/-- Delivered updates are always a prefix of the handed-over sequence (also after a failure). -/
theorem C05_delivered_prefix {cfg : Cfg} {s : St} (h : Reach cfg s) (hops : 1 ≤ cfg.maxOps) :
    delivered s <+: s.handed := by
  exact (reach_inv2 h hops).pref

/-- Every update is handed over at most once, hence (with the prefix theorem) delivered at most
once. -/
theorem C05_handed_nodup {cfg : Cfg} {s : St} (h : Reach cfg s) :
    (s.handed.map Item.id).Nodup := by
  exact (reach_invH h).h_nodup

/-- **Token chain.** The k-th successful call carried token k (each call carries the token
returned by the previous one), and while nothing failed the consumer holds the latest token. -/
theorem C05_token_chain {cfg : Cfg} {s : St} (h : Reach cfg s) :
    s.calls.map Prod.fst = List.range s.calls.length ∧
    (s.failedCall = none → s.token = s.calls.length) ∧
    (∀ c, s.failedCall = some c → c.1 = s.token) := by
  have P := reach_invP h
  exact ⟨P.tok_calls, P.tok_cur, P.tok_fc⟩

/-- **Operation-count limit**, and no call is ever empty. -/
theorem C05_count_limit {cfg : Cfg} {s : St} (h : Reach cfg s) (hops : 1 ≤ cfg.maxOps) :
    ∀ c ∈ s.calls, 1 ≤ c.2.length ∧ c.2.length ≤ cfg.maxOps := by
  intro c hc
  exact ⟨(reach_invP h).calls_ne c hc, (reach_inv2 h hops).calls_len c hc⟩

/-- **Size limit**: a call exceeds the byte limit only if it consists of a single update. -/
theorem C05_size_limit {cfg : Cfg} {s : St} (h : Reach cfg s) :
    ∀ c ∈ s.calls, bytesOf c.2 ≤ cfg.maxBytes ∨ c.2.length = 1 := by
  exact (reach_invP h).calls_size

/-- The overflow queue never holds more than one update. -/
theorem C05_overflow_le_one {cfg : Cfg} {s : St} (h : Reach cfg s) (hops : 1 ≤ cfg.maxOps) :
    s.overflow.length ≤ 1 := by
  exact (reach_inv2 h hops).ov_len

/-- **C03, batcher layer.** A completion event is set with success only for an update that is part
of an API call that has returned (and whose response has been merged: `apiOk` models both). -/
theorem C03_release_after_apply {cfg : Cfg} {s : St} (h : Reach cfg s) (i : Nat)
    (he : s.evt i = some true) : ∃ c ∈ s.calls, ∃ x ∈ c.2, x.id = i := by
  exact (reach_invH h).evt_calls i he

/-- A synchronous caller that returned normally had its update, and every update handed over
before it, delivered. -/
theorem C05_sync_return_delivered {cfg : Cfg} {s : St} (h : Reach cfg s) (hops : 1 ≤ cfg.maxOps)
    (x : Item) (pre post : List Item) (hx : s.handed = pre ++ x :: post)
    (hr : s.ppc x.id = .retOk) : pre ++ [x] <+: delivered s := by
  have H := reach_invH h
  obtain ⟨c, hc, y, hy, hyi⟩ := H.evt_calls _ (H.ok_evt _ hr)
  have hpre := (reach_inv2 h hops).pref
  have hyd : y ∈ delivered s := mem_delivered hc hy
  have hxh : x ∈ s.handed := by simp [hx]
  have hyx : y = x := eq_of_nodup_map H.h_nodup (hpre.subset hyd) hxh hyi
  subst hyx
  exact prefix_of_mem (hx ▸ hpre) hyd (hx ▸ nodup_of_nodup_map H.h_nodup)

/-- **Never stuck.** While nothing failed and stop was not signalled, if some synchronous update
was handed over and its caller has not been released yet, a consumer step is enabled. -/
theorem C05_sync_not_stuck {cfg : Cfg} {s : St} (h : Reach cfg s) (hops : 1 ≤ cfg.maxOps)
    (hf : s.failedCall = none) (hs : s.stopped = false)
    (x : Item) (hx : x ∈ s.handed) (hsync : x.sync = true) (he : s.evt x.id = none) :
    ∃ a, a.isConsumer = true ∧ (step s a).isSome = true := by
  have P := reach_invP h
  have H := reach_invH h
  have I2 := reach_inv2 h hops
  have hpipe := H.pipe x hx hsync he
  cases hph : s.phase with
  | drain =>
    rcases drain_enabled hph with h1 | h1 | h1
    · exact ⟨.drainTake, rfl, h1⟩
    · exact ⟨.drainPutBack, rfl, h1⟩
    · exact ⟨.drainEnd, rfl, h1⟩
  | first =>
    refine ⟨.firstGet, rfl, ?_⟩
    have hb := P.batch_nil (Or.inl hph)
    have ho := I2.ov_nil2 (Or.inl hph)
    have hr := P.rel_nil (by simp [hph])
    simp [hb, ho, hr] at hpipe
    cases hq : s.mainQ with
    | nil => simp [hq] at hpipe
    | cons y r => simp [step, firstGet, hph, hq]
  | window => exact ⟨.windowEnd, rfl, by simp [step, windowEnd, hph]⟩
  | call => exact ⟨.apiOk, rfl, by simp [step, apiOk, hph]⟩
  | release => exact ⟨.releaseAll, rfl, by simp [step, releaseAll, hph]⟩
  | loopCheck => exact ⟨.loopAgain, rfl, by simp [step, loopAgain, hph, hs]⟩
  | failFlag => exact absurd hf (P.fail_fc (by simp [hph, Phase.isFail]))
  | failBatch => exact absurd hf (P.fail_fc (by simp [hph, Phase.isFail]))
  | failOverflow => exact absurd hf (P.fail_fc (by simp [hph, Phase.isFail]))
  | failMain => exact absurd hf (P.fail_fc (by simp [hph, Phase.isFail]))
  | done =>
    have := P.done_stopped hph hf
    simp [hs] at this

/-- **Progress measure.** Every consumer step that does not start the failure path strictly
decreases `mu`; only producers (new work) increase it.  Together with `C05_sync_not_stuck` every
synchronous caller is released after finitely many consumer steps. -/
theorem C05_consumer_measure {cfg : Cfg} {s s' : St} (h : Reach cfg s) (a : Act)
    (ha : a.isConsumer = true) (hf : s'.failedCall = none) (hs : step s a = some s') :
    mu s' < mu s := by
  have P := reach_invP h
  refine mu_decreases P a ha hs ?_ ?_
  · rintro rfl
    obtain ⟨_, rfl⟩ := apiFail_some hs
    simp at hf
  · rintro rfl
    obtain ⟨_, rfl⟩ := apiFailAfterApply_some hs
    simp at hf

/-! ## C06 (batcher layer) -/

/-- After an API call failed no further API call is made. -/
theorem C06_no_call_after_failure {cfg : Cfg} {s s' : St} (h : Reach cfg s)
    (hf : s.failedCall ≠ none) (a : Act) (hs : step s a = some s') :
    s'.calls = s.calls ∧ s'.failedCall = s.failedCall := by
  have P := reach_invP h
  have hph := P.fc_phase hf
  cases a with
  | pCheck x => obtain ⟨_, rfl⟩ := pCheck_some hs; exact ⟨rfl, rfl⟩
  | pPut x => obtain ⟨_, rfl⟩ := pPut_some hs; exact ⟨rfl, rfl⟩
  | pRecheck x => obtain ⟨_, _, rfl⟩ := pRecheck_some hs; exact ⟨rfl, rfl⟩
  | pWake x => obtain ⟨_, b, _, rfl⟩ := pWake_some hs; exact ⟨rfl, rfl⟩
  | drainTake => obtain ⟨x, r, _, _, _, _, rfl⟩ := drainTake_some hs; exact ⟨rfl, rfl⟩
  | drainPutBack => obtain ⟨x, r, _, _, _, _, _, _, rfl⟩ := drainPutBack_some hs; exact ⟨rfl, rfl⟩
  | drainEnd => obtain ⟨_, _, ⟨_, rfl⟩ | ⟨_, _, rfl⟩⟩ := drainEnd_some hs <;> exact ⟨rfl, rfl⟩
  | firstGet => obtain ⟨x, r, _, _, rfl⟩ := firstGet_some hs; exact ⟨rfl, rfl⟩
  | firstStop => obtain ⟨_, _, rfl⟩ := firstStop_some hs; exact ⟨rfl, rfl⟩
  | windowGet =>
    obtain ⟨x, r, _, _, _, ⟨_, rfl⟩ | ⟨_, rfl⟩⟩ := windowGet_some hs <;> exact ⟨rfl, rfl⟩
  | windowEnd => obtain ⟨_, rfl⟩ := windowEnd_some hs; exact ⟨rfl, rfl⟩
  | apiOk => obtain ⟨hc, rfl⟩ := apiOk_some hs; simp [hc, Phase.isFail] at hph
  | apiFail => obtain ⟨hc, rfl⟩ := apiFail_some hs; simp [hc, Phase.isFail] at hph
  | apiFailAfterApply =>
    obtain ⟨hc, rfl⟩ := apiFailAfterApply_some hs; simp [hc, Phase.isFail] at hph
  | releaseAll => obtain ⟨_, rfl⟩ := releaseAll_some hs; exact ⟨rfl, rfl⟩
  | loopAgain => obtain ⟨_, _, rfl⟩ := loopAgain_some hs; exact ⟨rfl, rfl⟩
  | loopStop => obtain ⟨_, _, rfl⟩ := loopStop_some hs; exact ⟨rfl, rfl⟩
  | failFlag => obtain ⟨_, rfl⟩ := failFlag_some hs; exact ⟨rfl, rfl⟩
  | failBatch => obtain ⟨_, rfl⟩ := failBatch_some hs; exact ⟨rfl, rfl⟩
  | failOvOne => obtain ⟨x, r, _, _, rfl⟩ := failOvOne_some hs; exact ⟨rfl, rfl⟩
  | failOvEnd => obtain ⟨_, _, rfl⟩ := failOvEnd_some hs; exact ⟨rfl, rfl⟩
  | failMainOne => obtain ⟨x, r, _, _, rfl⟩ := failMainOne_some hs; exact ⟨rfl, rfl⟩
  | failMainEnd => obtain ⟨_, _, rfl⟩ := failMainEnd_some hs; exact ⟨rfl, rfl⟩
  | stop => obtain rfl := stop_some hs; exact ⟨rfl, rfl⟩

/-- The failure event is set before any queue is drained and stays set. -/
theorem C06_flag_before_drain {cfg : Cfg} {s : St} (h : Reach cfg s)
    (hp : s.phase = .failBatch ∨ s.phase = .failOverflow ∨ s.phase = .failMain ∨
      (s.phase = .done ∧ s.failedCall ≠ none)) : s.failed = true := by
  exact (reach_invP h).failed_iff.mpr hp

/-- **Everybody is woken.** Once the consumer has finished its failure path, no synchronous caller
is left blocked on an event that will never be set. -/
theorem C06_all_woken {cfg : Cfg} {s : St} (h : Reach cfg s) (hops : 1 ≤ cfg.maxOps)
    (hf : s.failedCall ≠ none) (hd : s.phase = .done) (i : Nat) (hw : s.ppc i = .waiting) :
    s.evt i ≠ none := by
  have _ := hops  -- not needed for this property
  have P := reach_invP h
  exact (reach_invH h).done_woken hd (P.failed_iff.mpr (Or.inr (Or.inr (Or.inr ⟨hd, hf⟩)))) i hw

/-- … and after a failure no caller is ever released with success unless its update was part of
an applied call (`C03_release_after_apply`), while callers checking or re-checking the failure
event raise. -/
theorem C06_late_producers_fail {s : St} (hfl : s.failed = true) (x : Item) :
    (s.ppc x.id = .new → ∃ s', pCheck s x = some s' ∧ s'.ppc x.id = .retErr ∧ s'.mainQ = s.mainQ) ∧
    (s.ppc x.id = .put → x ∈ s.handed → ∃ s', pRecheck s x = some s' ∧ s'.ppc x.id = .retErr) := by
  constructor
  · intro hn
    exact ⟨setPpc s x.id .retErr, by simp [pCheck, hn, hfl], by simp [setPpc], by simp [setPpc]⟩
  · intro hp hh
    exact ⟨setPpc s x.id .retErr, by simp [pRecheck, hp, hh, hfl], by simp [setPpc]⟩

/-- A caller never starts waiting after the failure event is set. -/
theorem C06_no_new_waiter {cfg : Cfg} {s s' : St} (h : Reach cfg s) (hfl : s.failed = true)
    (a : Act) (hs : step s a = some s') (i : Nat) (hw : s'.ppc i = .waiting) :
    s.ppc i = .waiting := by
  have _ := h  -- holds in every state, reachable or not
  cases a with
  | pCheck x =>
    obtain ⟨_, rfl⟩ := pCheck_some hs
    simp only [hfl] at hw
    by_cases hi : i = x.id <;> simp_all
  | pPut x =>
    obtain ⟨_, rfl⟩ := pPut_some hs
    by_cases hi : i = x.id <;> simp_all
  | pRecheck x =>
    obtain ⟨_, _, rfl⟩ := pRecheck_some hs
    simp only [hfl] at hw
    by_cases hi : i = x.id <;> simp_all
  | pWake x =>
    obtain ⟨_, b, _, rfl⟩ := pWake_some hs
    by_cases hi : i = x.id
    · cases b <;> simp_all
    · simp_all
  | drainTake => obtain ⟨x, r, _, _, _, _, rfl⟩ := drainTake_some hs; exact hw
  | drainPutBack => obtain ⟨x, r, _, _, _, _, _, _, rfl⟩ := drainPutBack_some hs; exact hw
  | drainEnd => obtain ⟨_, _, ⟨_, rfl⟩ | ⟨_, _, rfl⟩⟩ := drainEnd_some hs <;> exact hw
  | firstGet => obtain ⟨x, r, _, _, rfl⟩ := firstGet_some hs; exact hw
  | firstStop => obtain ⟨_, _, rfl⟩ := firstStop_some hs; exact hw
  | windowGet =>
    obtain ⟨x, r, _, _, _, ⟨_, rfl⟩ | ⟨_, rfl⟩⟩ := windowGet_some hs <;> exact hw
  | windowEnd => obtain ⟨_, rfl⟩ := windowEnd_some hs; exact hw
  | apiOk => obtain ⟨_, rfl⟩ := apiOk_some hs; exact hw
  | apiFail => obtain ⟨_, rfl⟩ := apiFail_some hs; exact hw
  | apiFailAfterApply => obtain ⟨_, rfl⟩ := apiFailAfterApply_some hs; exact hw
  | releaseAll => obtain ⟨_, rfl⟩ := releaseAll_some hs; exact hw
  | loopAgain => obtain ⟨_, _, rfl⟩ := loopAgain_some hs; exact hw
  | loopStop => obtain ⟨_, _, rfl⟩ := loopStop_some hs; exact hw
  | failFlag => obtain ⟨_, rfl⟩ := failFlag_some hs; exact hw
  | failBatch => obtain ⟨_, rfl⟩ := failBatch_some hs; exact hw
  | failOvOne => obtain ⟨x, r, _, _, rfl⟩ := failOvOne_some hs; exact hw
  | failOvEnd => obtain ⟨_, _, rfl⟩ := failOvEnd_some hs; exact hw
  | failMainOne => obtain ⟨x, r, _, _, rfl⟩ := failMainOne_some hs; exact hw
  | failMainEnd => obtain ⟨_, _, rfl⟩ := failMainEnd_some hs; exact hw
  | stop => obtain rfl := stop_some hs; exact hw

/-- The failure path itself is never stuck … -/
theorem C06_fail_not_stuck {cfg : Cfg} {s : St} (h : Reach cfg s) (hp : s.phase.isFail = true) :
    ∃ a, a.isConsumer = true ∧ (step s a).isSome = true := by
  have _ := h  -- holds in every state, reachable or not
  cases hph : s.phase <;> simp [hph, Phase.isFail] at hp
  · exact ⟨.failFlag, rfl, by simp [step, failFlag, hph]⟩
  · exact ⟨.failBatch, rfl, by simp [step, failBatch, hph]⟩
  · cases ho : s.overflow with
    | nil => exact ⟨.failOvEnd, rfl, by simp [step, failOvEnd, hph, ho]⟩
    | cons x r => exact ⟨.failOvOne, rfl, by simp [step, failOvOne, hph, ho]⟩
  · cases hq : s.mainQ with
    | nil => exact ⟨.failMainEnd, rfl, by simp [step, failMainEnd, hph, hq]⟩
    | cons x r => exact ⟨.failMainOne, rfl, by simp [step, failMainOne, hph, hq]⟩

/-- … and terminates: each of its steps decreases the measure. -/
theorem C06_fail_measure {cfg : Cfg} {s s' : St} (h : Reach cfg s) (a : Act)
    (ha : a.isConsumer = true) (hp : s.phase.isFail = true) (hs : step s a = some s') :
    mu s' < mu s := by
  have P := reach_invP h
  refine mu_decreases P a ha hs ?_ ?_
  · rintro rfl
    obtain ⟨hc, _⟩ := apiFail_some hs
    simp [hc, Phase.isFail] at hp
  · rintro rfl
    obtain ⟨hc, _⟩ := apiFailAfterApply_some hs
    simp [hc, Phase.isFail] at hp

/-! ## Non-vacuity -/

def cfg0 : Cfg := { maxBytes := 300, maxOps := 10 }
def a0 : Item := { id := 0, size := 10, sync := false }
def big : Item := { id := 1, size := 1000, sync := true }
def c0 : Item := { id := 2, size := 10, sync := false }

/-- The former starvation scenario (F3): an oversize synchronous update arriving behind a non-empty
batch is now delivered alone, in order, and its caller is released. -/
example : ∃ s, runActs (init cfg0)
    [.pCheck a0, .pPut a0, .pRecheck a0, .drainEnd, .firstGet, .pCheck big, .pPut big, .pRecheck big,
     .windowGet, .apiOk, .releaseAll, .pCheck c0, .pPut c0, .pRecheck c0, .loopAgain, .drainTake,
     .drainEnd, .windowGet, .apiOk, .releaseAll, .pWake big] = some s ∧
    s.calls = [(0, [a0]), (1, [big])] ∧ s.ppc 1 = .retOk ∧ s.overflow = [c0] ∧ s.mainQ = [] :=
  ⟨_, rfl, by decide, by decide, by decide, by decide⟩

def p1 : Item := { id := 0, size := 10, sync := true }
def p2 : Item := { id := 1, size := 10, sync := true }

/-- The former lost wake-up (F4): a producer that passed the first check before the failure and
enqueues after the queues were drained now raises at its re-check. -/
example : ∃ s, runActs (init cfg0)
    [.pCheck p1, .pPut p1, .pRecheck p1, .drainEnd, .firstGet, .windowEnd, .pCheck p2, .apiFail,
     .failFlag, .failBatch, .failOvEnd, .failMainEnd, .pPut p2, .pRecheck p2, .pWake p1] = some s ∧
    s.ppc 0 = .retErr ∧ s.ppc 1 = .retErr ∧ s.phase = .done ∧ s.calls = [] :=
  ⟨_, rfl, by decide, by decide, by decide, by decide⟩

end C05
