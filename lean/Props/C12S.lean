import DurableModel.Strategy
import Proofs.Strategy
/-!
# C12 / C13 — packaged retry and wait strategies: bounds, back-off, jitter, cut-off
(the engine part — attempts counted, retries recorded — is in Props/C12.lean / Props/C13.lean)
All statements are for arbitrary configurations, attempt numbers and jitter draws `jn/jd ∈ [0,1)`.
-/
namespace C12S
open Strategy StrategyProofs

/-- Delays are always at least one second. -/
theorem C12_delay_ge_one (c : Cfg) (a jn jd : Nat) : 1 ≤ delay c a jn jd := by
  unfold delay
  cases c.jitter <;> exact Nat.le_max_left _ _

/-- Delays never exceed the configured maximum (or 1 s if the maximum is below 1 s). -/
theorem C12_delay_le_max (c : Cfg) (a jn jd : Nat) (hr : 0 < c.rateDen) (hj : jn < jd) :
    delay c a jn jd ≤ max 1 c.maxDelay := by
  have hB := baseNum_le_max c a
  have h0 := base_le_max c a hr
  have h1 := full_le (jn := jn) (jd := jd) hr hj hB
  have h2 := half_le (jn := jn) (jd := jd) hr hj hB
  unfold delay
  cases c.jitter <;> simp only <;> omega

/-- Without jitter the delay is exactly ⌈min(initial·rate^(a-1), max)⌉, at least 1. -/
theorem C12_no_jitter_exact (c : Cfg) (a jn jd : Nat) (hj : c.jitter = .none) :
    delay c a jn jd = max 1 (ceilDiv (baseNum c a) (baseDen c a)) := by
  simp [delay, hj]

/-- Without jitter and with an integer rate the delay is `min(initial·rate^(a-1), max)` (≥ 1). -/
theorem C12_no_jitter_integer_rate (c : Cfg) (a jn jd : Nat) (hj : c.jitter = .none)
    (hd : c.rateDen = 1) :
    delay c a jn jd = max 1 (min (c.initial * c.rateNum ^ (a - 1)) c.maxDelay) := by
  simp [delay, hj, baseNum, baseDen, hd, ceilDiv_one]

/-- Full jitter never exceeds the un-jittered delay. -/
theorem C12_full_le_base (c : Cfg) (a jn jd : Nat) (hr : 0 < c.rateDen) (hj : jn < jd)
    (hf : c.jitter = .full) :
    delay c a jn jd ≤ max 1 (ceilDiv (baseNum c a) (baseDen c a)) := by
  have hB := le_ceilDiv_mul (baseNum c a) (baseDen_pos c a hr)
  have h1 := full_le (jn := jn) (jd := jd) hr hj hB
  simp only [delay, hf]
  omega

/-- Half jitter stays between half of the base delay and the base delay. -/
theorem C12_half_bounds (c : Cfg) (a jn jd : Nat) (hr : 0 < c.rateDen) (hj : jn < jd)
    (hh : c.jitter = .half) :
    ceilDiv (baseNum c a) (2 * baseDen c a) ≤ delay c a jn jd ∧
    delay c a jn jd ≤ max 1 (ceilDiv (baseNum c a) (baseDen c a)) := by
  have hB := le_ceilDiv_mul (baseNum c a) (baseDen_pos c a hr)
  have h1 := half_le (jn := jn) (jd := jd) hr hj hB
  have h2 := half_ge (c := c) (a := a) hr hj
  simp only [delay, hh]
  omega

/-- The base delay follows the configured back-off: it is non-decreasing in the attempt number
when the rate is at least 1. -/
theorem C12_backoff_monotone (c : Cfg) (a : Nat) (ha : 1 ≤ a) (hr : 0 < c.rateDen)
    (hge : c.rateDen ≤ c.rateNum) :
    baseNum c a * baseDen c (a + 1) ≤ baseNum c (a + 1) * baseDen c a := by
  have _ := hr -- (not needed: the inequality holds for every `rateDen`)
  obtain ⟨k, rfl⟩ : ∃ k, a = k + 1 := ⟨a - 1, by omega⟩
  simpa [baseNum, baseDen] using backoff_step c k hge

/-- Cut-off: no retry is granted once `maxAttempts` attempts were made, and non-retryable errors
are never retried. -/
theorem C12_cutoff (c : Cfg) (r : Bool) (a jn jd : Nat) :
    (c.maxAttempts ≤ a → retryDecision c r a jn jd = none) ∧
    (r = false → retryDecision c r a jn jd = none) ∧
    (a < c.maxAttempts → r = true → retryDecision c r a jn jd = some (delay c a jn jd)) := by
  refine ⟨fun h => by simp [retryDecision, h], fun h => by simp [retryDecision, h], fun h hr => ?_⟩
  have : ¬ c.maxAttempts ≤ a := by omega
  simp [retryDecision, this, hr]

/-- Hence a step consulted with 1, 2, 3, … is granted at most `maxAttempts - 1` retries. -/
theorem C12_retry_budget (c : Cfg) (r : Nat → Bool) (jn jd : Nat → Nat) (k : Nat)
    (h : ∀ a, 1 ≤ a → a ≤ k → (retryDecision c (r a) a (jn a) (jd a)).isSome = true) :
    k ≤ c.maxAttempts - 1 := by
  rcases Nat.eq_zero_or_pos k with rfl | hk
  · exact Nat.zero_le _
  · have h1 := h k hk (Nat.le_refl k)
    by_cases hm : c.maxAttempts ≤ k
    · simp [retryDecision, hm] at h1
    · omega

/-- Wait strategy: stops exactly when the predicate says stop or the attempts are used up. -/
theorem C13_wait_decision (c : Cfg) (cont : Bool) (a jn jd : Nat) :
    (waitDecision c cont a jn jd = none ↔ (cont = false ∨ c.maxAttempts ≤ a)) ∧
    (∀ d, waitDecision c cont a jn jd = some d → 1 ≤ d ∧ d = delay c a jn jd) := by
  refine ⟨?_, ?_⟩
  · cases cont <;> by_cases hm : c.maxAttempts ≤ a <;> simp [waitDecision, hm]
  · intro d hd
    have hd' : d = delay c a jn jd := by
      cases cont <;> by_cases hm : c.maxAttempts ≤ a <;> simp [waitDecision, hm] at hd
      exact hd.symm
    exact ⟨hd' ▸ C12_delay_ge_one c a jn jd, hd'⟩

/-- The presets instantiate the bounds (delays in [1 s, max delay]; retries ≤ max attempts − 1). -/
theorem C12_presets (a jn jd : Nat) (hj : jn < jd) :
    (1 ≤ delay presetDefault a jn jd ∧ delay presetDefault a jn jd ≤ 60) ∧
    (1 ≤ delay presetTransient a jn jd ∧ delay presetTransient a jn jd ≤ 300) ∧
    (1 ≤ delay presetResource a jn jd ∧ delay presetResource a jn jd ≤ 300) ∧
    (1 ≤ delay presetCritical a jn jd ∧ delay presetCritical a jn jd ≤ 60) ∧
    (∀ r, retryDecision presetNone r a jn jd = none ∨ a = 0) := by
  refine ⟨⟨C12_delay_ge_one _ _ _ _, ?_⟩, ⟨C12_delay_ge_one _ _ _ _, ?_⟩,
    ⟨C12_delay_ge_one _ _ _ _, ?_⟩, ⟨C12_delay_ge_one _ _ _ _, ?_⟩, ?_⟩
  · exact C12_delay_le_max presetDefault a jn jd (by decide) hj
  · exact C12_delay_le_max presetTransient a jn jd (by decide) hj
  · exact C12_delay_le_max presetResource a jn jd (by decide) hj
  · exact C12_delay_le_max presetCritical a jn jd (by decide) hj
  · intro r
    rcases Nat.eq_zero_or_pos a with h | h
    · exact Or.inr h
    · left
      have : presetNone.maxAttempts ≤ a := h
      simp [retryDecision, this]

/-- Non-vacuity: the critical preset's third delay is ⌈1·1.5²⌉ = 3 s; default preset, attempt 2,
jitter draw 1/2: ⌈0.5·10⌉ = 5 s. -/
example : delay presetCritical 3 0 1 = 3 ∧ delay presetDefault 2 1 2 = 5 ∧
    retryDecision presetDefault true 6 1 2 = none := by decide

/-! ## error filters: a plain string filter is a substring test -/

theorem isInfix_append_left (p : List Char) (pre s : List Char) (h : isInfix p s = true) :
    isInfix p (pre ++ s) = true := by
  induction pre with
  | nil => simpa using h
  | cons c cs ih => simp [isInfix, ih]

theorem isInfix_prefix (p post : List Char) : isInfix p (p ++ post) = true := by
  cases hp : p ++ post with
  | nil =>
    have : p = [] := by
      cases p with
      | nil => rfl
      | cons a as => simp at hp
    simp [isInfix, this]
  | cons c cs =>
    have : p.isPrefixOf (c :: cs) = true := by
      rw [← hp]; exact List.isPrefixOf_iff_prefix.mpr (List.prefix_append p post)
    simp [isInfix, this]

/-- `isInfix` is exactly "occurs as a contiguous piece". -/
theorem C12_isInfix_iff (p s : List Char) :
    isInfix p s = true ↔ ∃ pre post, s = pre ++ p ++ post := by
  constructor
  · intro h
    induction s with
    | nil =>
      have : p = [] := by simpa [isInfix] using h
      exact ⟨[], [], by simp [this]⟩
    | cons c cs ih =>
      simp only [isInfix, Bool.or_eq_true] at h
      rcases h with h | h
      · obtain ⟨post, hpost⟩ := List.isPrefixOf_iff_prefix.mp h
        exact ⟨[], post, by simp [hpost]⟩
      · obtain ⟨pre, post, e⟩ := ih h
        exact ⟨c :: pre, post, by simp [e]⟩
  · rintro ⟨pre, post, rfl⟩
    rw [List.append_assoc]
    exact isInfix_append_left p pre _ (isInfix_prefix p post)

/-- **C12, string filters are literal.** A plain string filter makes every error retryable whose message contains the
filter text as it stands - whatever characters it is made of (parentheses, dots, brackets, ...) - ... -/
theorem C12_text_filter_literal (p pre post : String) (others : List MsgFilter) (ts : Option (List Bool)) :
    retryable (some (.text p :: others)) ts (pre ++ p ++ post) = true := by
  have h : isInfix p.toList (pre.toList ++ (p.toList ++ post.toList)) = true :=
    (C12_isInfix_iff _ _).mpr ⟨pre.toList, post.toList, by simp⟩
  simp [retryable, msgHit, h]

/-- ... and, on its own, no error whose message does not contain it. -/
theorem C12_text_filter_only (p msg : String) (h : ¬ ∃ pre post, msg.toList = pre ++ p.toList ++ post) :
    retryable (some [.text p]) (some []) msg = false := by
  have : isInfix p.toList msg.toList = false := by
    cases hh : isInfix p.toList msg.toList with
    | false => rfl
    | true => exact absurd ((C12_isInfix_iff _ _).mp hh) h
  simp [retryable, msgHit, this]

/-- Explicitly empty filters: nothing is retried; no filter given at all: everything is (the default pattern `.*`);
a type filter alone does not bring the default message pattern back. -/
theorem C12_filter_defaults (msg : String) (ts : List Bool) :
    retryable (some []) (some []) msg = false ∧ retryable none none msg = true ∧
    retryable none (some ts) msg = ts.any id := by
  simp [retryable, msgHit]

/-- The filters only decide *whether* to retry; with a retryable error the decision is the delay of the attempt. -/
theorem C12_retryable_gives_delay (c : Cfg) (fs : Option (List MsgFilter)) (ts : Option (List Bool)) (msg : String)
    (a jn jd : Nat) (ha : a < c.maxAttempts) (hr : retryable fs ts msg = true) :
    retryDecision c (retryable fs ts msg) a jn jd = some (delay c a jn jd) := by
  simp [retryDecision, hr, Nat.not_le.mpr ha]

example : retryable (some [.text "HTTP 503 (Service Unavailable)"]) none "upstream said: HTTP 503 (Service Unavailable)" = true ∧
    retryable (some [.text "v1.5"]) (some []) "model v105 done" = false ∧
    retryable (some [.text ""]) (some []) "" = true ∧
    retryable (some [.text "a"]) (some []) "" = false := by decide

/-! ## first delay and saturation -/

/-- The first retry (one attempt made), no jitter: `min(initial, max)` seconds, at least 1 - the rate plays no part. -/
theorem C12_first_delay (c : Cfg) (jn jd : Nat) (hj : c.jitter = .none) :
    delay c 1 jn jd = max 1 (min c.initial c.maxDelay) := by
  simp [delay, hj, baseNum, baseDen, ceilDiv]

/-- Saturation: once `initial·rate^(a-1)` has reached the maximum, the un-jittered delay is exactly the
maximum (≥ 1), for every rational rate - no overshoot from the ceiling. -/
theorem C12_no_jitter_saturates (c : Cfg) (a jn jd : Nat) (hj : c.jitter = .none) (hr : 0 < c.rateDen)
    (hs : c.maxDelay * c.rateDen ^ (a - 1) ≤ c.initial * c.rateNum ^ (a - 1)) :
    delay c a jn jd = max 1 c.maxDelay := by
  have hp : 0 < c.rateDen ^ (a - 1) := Nat.pow_pos hr
  have : ceilDiv (c.maxDelay * c.rateDen ^ (a - 1)) (c.rateDen ^ (a - 1)) = c.maxDelay := by
    unfold ceilDiv
    generalize c.rateDen ^ (a - 1) = D at hp
    have h0 : (D - 1) / D = 0 := Nat.div_eq_of_lt (by omega)
    rw [Nat.add_sub_assoc hp, Nat.mul_comm, Nat.mul_add_div hp, h0, Nat.add_zero]
  simp [delay, hj, baseNum, baseDen, Nat.min_eq_right hs, this]

example : delay presetCritical 1 0 1 = 1 ∧ delay presetCritical 30 0 1 = 60 := by decide

/-! ## decisions carry bounded delays -/

/-- Every continue decision of the wait strategy carries a delay between 1 s and the configured maximum
(or 1 s when the maximum is below 1 s), for every jitter draw in [0, 1). -/
theorem C13_wait_delay_bounds (c : Cfg) (cont : Bool) (a jn jd d : Nat) (hr : 0 < c.rateDen) (hj : jn < jd)
    (h : waitDecision c cont a jn jd = some d) : 1 ≤ d ∧ d ≤ max 1 c.maxDelay := by
  obtain ⟨h1, h2⟩ := (C13_wait_decision c cont a jn jd).2 d h
  exact ⟨h1, h2 ▸ C12_delay_le_max c a jn jd hr hj⟩

/-- The same for a granted retry. -/
theorem C12_retry_delay_bounds (c : Cfg) (r : Bool) (a jn jd d : Nat) (hr : 0 < c.rateDen) (hj : jn < jd)
    (h : retryDecision c r a jn jd = some d) : 1 ≤ d ∧ d ≤ max 1 c.maxDelay ∧ a < c.maxAttempts ∧ r = true := by
  unfold retryDecision at h
  split at h
  · cases h
  · split at h
    · cases h
    · injection h with h
      subst h
      exact ⟨C12_delay_ge_one c a jn jd, C12_delay_le_max c a jn jd hr hj, by omega, by simp_all⟩

example : retryDecision presetDefault true 3 1 2 = some 10 ∧ waitDecision presetCritical true 2 0 1 = some 2 := by decide

end C12S
