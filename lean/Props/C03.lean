import DurableModel.EngineSpec
import Proofs.EngineRun
/-!
# C03 — write-ahead: results reach user code only after the backend accepted them

`St.syncTbl` is the backend table as of the last *synchronous* checkpoint call.  The invariant
`EngineRun.WAL` (Proofs/EngineRun.lean) says: every delivered outcome is backed by a terminal
record in `syncTbl`; every terminal or parking record of the working table `tbl` is in `syncTbl`;
only asynchronous STARTs (step / wait-for-condition / context) are in flight.
-/
namespace C03
open Engine EngineRun

/-- The invariant holds initially … -/
theorem C03_wal_init (t : Tbl) (b : Nat) (f : Option Nat) (imm : Pos → Backend.Immediate) :
    WAL (initSt t b f imm) := wal_init t b f imm

/-- … and is preserved by one invocation of any workflow from any state (any crash budget,
checkpoint fault, immediate-completion oracle). -/
theorem C03_wal_preserved (p : Prog) (ctx : Pos) (n : Nat) (s : St) : WAL s → WAL (run p ctx n s).2 :=
  wal_run p ctx n s

/-- The required statement with `o ≠ .ok "cb"` as only exclusion.  It is **false**:
`Callback.result()` on an unknown operation raises `CallbackError("Callback operation must exist")`
to user code although no record exists at all. -/
def C03_deliver_after_accept_full : Prop :=
  ∀ (p : Prog) (t : Tbl) (budget : Nat) (failAt : Option Nat) (imm : Pos → Backend.Immediate)
    (q : Pos) (o : Outcome),
    (.deliver q o) ∈ (invoke p t budget failAt imm).2.trace → o ≠ .ok "cb" →
    ∃ r, lookup (invoke p t budget failAt imm).2.syncTbl q = some r ∧ r.status.terminal = true

theorem C03_deliver_after_accept_full_false : ¬ C03_deliver_after_accept_full := by
  intro h
  have := h (.cbRes [7] (fun _ => .ret "x")) [] 5 none (fun _ => .none) [7] (.err mustExist)
    (by decide) (by decide)
  revert this
  decide

/-- **Write-ahead for results.**  Every outcome delivered to user code — other than the handle
token of `create_callback` and the "Callback operation must exist" error, which are not backed by
an outcome — has a terminal record in the table the backend acknowledged *synchronously*. -/
theorem C03_deliver_after_accept_partial (p : Prog) (t : Tbl) (budget : Nat) (failAt : Option Nat)
    (imm : Pos → Backend.Immediate) (q : Pos) (o : Outcome) :
    (.deliver q o) ∈ (invoke p t budget failAt imm).2.trace → o ≠ .ok "cb" → o ≠ .err mustExist →
    ∃ r, lookup (invoke p t budget failAt imm).2.syncTbl q = some r ∧ r.status.terminal = true :=
  (wal_run p [] 0 _ (wal_init t budget failAt imm)).deliver q o

/-- When the handler returns, every outcome it observed is recorded: the only updates still in
flight are asynchronous STARTs of step / wait-for-condition / child context (observability only).
(True for every end of the invocation, in particular `.returned v`.) -/
theorem C03_returned_all_recorded (p : Prog) (t : Tbl) (budget : Nat) (failAt : Option Nat)
    (imm : Pos → Backend.Immediate) (v : Val) :
    (invoke p t budget failAt imm).1 = .returned v →
    ∀ u ∈ (invoke p t budget failAt imm).2.pending,
      u.sync = false ∧ u.action = .start ∧ (u.kind = .step ∨ u.kind = .wfc ∨ u.kind = .context) :=
  fun _ => (wal_run p [] 0 _ (wal_init t budget failAt imm)).pending

/-- … and every terminal record of the working table is acknowledged. -/
theorem C03_returned_terminal_acked (p : Prog) (t : Tbl) (budget : Nat) (failAt : Option Nat)
    (imm : Pos → Backend.Immediate) (q : Pos) (r : OpRec) :
    lookup (invoke p t budget failAt imm).2.tbl q = some r → r.status.terminal = true →
    lookup (invoke p t budget failAt imm).2.syncTbl q = some r :=
  fun h ht => (wal_run p [] 0 _ (wal_init t budget failAt imm)).acked q r h (Or.inl ht)

/-- Acknowledged terminal records never change during an invocation (the `syncTbl` counterpart of
`C01_terminal_persist`; it needs the invariant, which ties `syncTbl` to `tbl`). -/
theorem C03_sync_terminal_persist (p : Prog) (ctx : Pos) (n : Nat) (s : St) (hw : WAL s) (q : Pos) (r : OpRec)
    (h : lookup s.syncTbl q = some r) (ht : r.status.terminal = true) :
    lookup (run p ctx n s).2.syncTbl q = some r :=
  (wal_run p ctx n s hw).acked q r ((fr_run p ctx n s).term q r (hw.back q r h ht) ht) (Or.inl ht)

/-! ## Parking -/

/-- The required statement without side condition.  It is **false**, for three independent reasons
(counterexamples below): the handlers `wait`, `invoke` and `Callback.result()` suspend on whatever
non-finished record they *find* at their position / handle, and `wait` suspends on a fresh record
the backend completed abnormally. -/
def C03_pending_after_park_full : Prop :=
  ∀ (p : Prog) (t : Tbl) (budget : Nat) (failAt : Option Nat) (imm : Pos → Backend.Immediate)
    (d : Option Nat), (invoke p t budget failAt imm).1 = .suspended d →
    ∃ q r, lookup (invoke p t budget failAt imm).2.syncTbl q = some r ∧ Parked r = true

/-- Counterexample 1 (first invocation, empty history, benign oracle): `Callback.result()` on a
handle that is not a callback — here the position of the enclosing child context, whose START is
still in flight.  The invocation ends `suspended` with an *empty* acknowledged table. -/
theorem C03_pending_after_park_counterexample_handle :
    (invoke (.child {} (.cbRes [1] (fun _ => .ret "x")) (fun _ => .ret "y")) [] 10 none (fun _ => .none)).1
      = .suspended none ∧
    (invoke (.child {} (.cbRes [1] (fun _ => .ret "x")) (fun _ => .ret "y")) [] 10 none (fun _ => .none)).2.syncTbl
      = [] := by decide

theorem C03_pending_after_park_full_false : ¬ C03_pending_after_park_full := by
  intro h
  obtain ⟨q, r, h1, _⟩ := h _ [] 10 none (fun _ => .none) none C03_pending_after_park_counterexample_handle.1
  rw [C03_pending_after_park_counterexample_handle.2] at h1
  cases h1

/-- Counterexample 2 (ill-kinded history): `wait` called at a position whose record is a STARTED
step suspends on it; the only record is not a parking record. -/
theorem C03_pending_after_park_counterexample_kind :
    (invoke (.wait 5 (.ret "x")) [([1], { kind := .step, status := .started })] 10 none (fun _ => .none)).1
      = .suspended (some 5) ∧
    (invoke (.wait 5 (.ret "x")) [([1], { kind := .step, status := .started })] 10 none (fun _ => .none)).2.syncTbl
      = [([1], { kind := .step, status := .started })] ∧
    Parked { kind := .step, status := .started } = false := by decide

/-- Counterexample 3 (oracle): the backend answers the START of a fresh wait with FAILED; the SDK
suspends all the same (`wait.py` only looks for SUCCEEDED), on a terminal record. -/
theorem C03_pending_after_park_counterexample_imm :
    (invoke (.wait 5 (.ret "x")) [] 10 none (fun _ => .failed none)).1 = .suspended (some 5) ∧
    (invoke (.wait 5 (.ret "x")) [] 10 none (fun _ => .failed none)).2.syncTbl
      = [([1], { kind := .wait, status := .failed })] ∧
    Parked { kind := .wait, status := .failed } = false := by decide

/-- **Write-ahead for suspension.**  If every `wait` / `invoke` / `Callback.result()` the run performs
is *well-placed* (`EngineRun.Respects`: the record it finds is finished or parking — implied by
"it has the handler's kind and is in that kind's lifecycle", `waitSane_of_kind` … — and a fresh
wait is not completed abnormally), then an invocation that ends `suspended` leaves a parking record
(retry timer, wait timer, awaited callback / invoke) in the *synchronously acknowledged* table.
`step`, `wait_for_condition`, `create_callback`, `run_in_child_context` need no hypothesis. -/
theorem C03_pending_after_park_partial (p : Prog) (t : Tbl) (budget : Nat) (failAt : Option Nat)
    (imm : Pos → Backend.Immediate) (d : Option Nat)
    (hk : Respects p [] 0 (initSt t budget failAt imm) = true) :
    (invoke p t budget failAt imm).1 = .suspended d →
    ∃ q r, lookup (invoke p t budget failAt imm).2.syncTbl q = some r ∧ Parked r = true :=
  park_run p [] 0 _ (wal_init t budget failAt imm) hk d

/-- The same from any state satisfying the invariant. -/
theorem C03_pending_after_park_run (p : Prog) (ctx : Pos) (n : Nat) (s : St) (d : Option Nat)
    (hw : WAL s) (hk : Respects p ctx n s = true) :
    (run p ctx n s).1 = .suspended d →
    ∃ q r, lookup (run p ctx n s).2.syncTbl q = some r ∧ Parked r = true :=
  park_run p ctx n s hw hk d

/-- Handler level, no hypothesis on kinds: a step (and likewise `handleWfc`) that suspends does so
on a PENDING record the backend acknowledged synchronously. -/
theorem C03_step_parks (s : St) (hw : WAL s) (p : Pos) (spec : StepSpec) (d : Option Nat) (s' : St) :
    handleStep s p spec = .stop (.suspended d) s' →
    ∃ q r, lookup s'.syncTbl q = some r ∧ Parked r = true := by
  intro h
  have := ppost_handleStep hw p spec
  rw [h] at this
  exact this d rfl

/-- Non-vacuity: a well-placed run that parks on a wait timer. -/
example :
    let p : Prog := .step { body := fun _ => .ok "b", strategy := fun _ _ => none } fun _ => .wait 5 (.ret "done")
    Respects p [] 0 (initSt [] 10 none (fun _ => .none)) = true ∧
    (invoke p [] 10 none (fun _ => .none)).1 = .suspended (some 5) ∧
    lookup (invoke p [] 10 none (fun _ => .none)).2.syncTbl [2] = some { kind := .wait, status := .started } := by
  decide

/-- **A failing checkpoint call ends the invocation at once.**  Let the fault plan say that the
synchronous call with index `k` fails, and let the run start at call index `≤ k`.  Then

* the plan is never altered;
* fewer than `k + 1 - s.syncCalls` synchronous updates are applied by the backend during the run
  (`syncApplied` counts the `applied u` events with `u.sync`): nothing is applied at or after call
  index `k`;
* either the failing call was not reached (`syncCalls ≤ k`), or the run ended `ckptFailed`, call `k`
  was the last one (`syncCalls = k + 1`), and the *last event of the trace* is the hand-over
  `upd u` of that very (synchronous) update: no `applied`, no `deliver`, no `enter`, nothing at all
  happens after the failing call. -/
theorem C03_fault_stops (p : Prog) (ctx : Pos) (n : Nat) (s : St) (k : Nat)
    (hf : s.failAt = some k) (hk : s.syncCalls ≤ k) :
    (run p ctx n s).2.failAt = some k ∧
    syncApplied (newEvents s (run p ctx n s).2) + s.syncCalls ≤ k ∧
    ((run p ctx n s).2.syncCalls ≤ k ∨
      ((run p ctx n s).1 = .ckptFailed ∧ (run p ctx n s).2.syncCalls = k + 1 ∧
        ∃ u, (run p ctx n s).2.trace.getLast? = some (.upd u) ∧ u.sync = true)) := by
  rcases fi_run k p ctx n s hf hk with h | ⟨h1, h2, h3, evs, u, h4, h5, h6⟩
  · obtain ⟨evs, h4, h5⟩ := h.applied
    refine ⟨h.failAt, ?_, Or.inl h.calls⟩
    have := h.calls
    simp only [newEvents, h4, List.drop_left]
    omega
  · refine ⟨h2, ?_, Or.inr ⟨h1, h3, u, by simp [h4], h5⟩⟩
    simp only [newEvents, h4, List.append_assoc, List.drop_left, syncApplied_append]
    simpa [syncApplied, isSyncApplied] using h6

/-- Contrapositive reading: if the run does not end `ckptFailed`, the failing call was never made. -/
theorem C03_fault_not_reached (p : Prog) (ctx : Pos) (n : Nat) (s : St) (k : Nat)
    (hf : s.failAt = some k) (hk : s.syncCalls ≤ k) (he : (run p ctx n s).1 ≠ .ckptFailed) :
    (run p ctx n s).2.syncCalls ≤ k := by
  rcases (C03_fault_stops p ctx n s k hf hk).2.2 with h | ⟨h, _⟩
  · exact h
  · exact absurd h he

/-- If the (k+1)-th synchronous call is made, the run ends `ckptFailed`. -/
theorem C03_fault_reached (p : Prog) (ctx : Pos) (n : Nat) (s : St) (k : Nat)
    (hf : s.failAt = some k) (hk : s.syncCalls ≤ k) (hc : k < (run p ctx n s).2.syncCalls) :
    (run p ctx n s).1 = .ckptFailed := by
  rcases (C03_fault_stops p ctx n s k hf hk).2.2 with h | ⟨h, _⟩
  · omega
  · exact h

end C03
