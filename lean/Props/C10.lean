import Proofs.Orphan
/-!
# C10 — Nothing is recorded under a context after that context has completed

Theorems about `Orphan.step` / `Orphan.runAll` of `DurableModel/Orphan.lean`, the model of the
orphan filter in `ExecutionState.create_checkpoint` / `_mark_orphans` (state.py:432-482, 553-603).

* `upd i p ctx completes` below abbreviates an `Upd`.
* `Desc links c x` (`Proofs/Orphan.lean`): `x` is reachable from `c` by ≥ 1 `(parent, child)` link.
* `links s = s.recorded ++ s.edges`, `linkOf u` the link announced by `u`, `linksOf us` all links
  announced by `us` (accepted or not).
* `(runAll s us).2[k]? = some true` : the `k`-th update is accepted (enqueued);
  `= some false`: it raises `OrphanedChildException`.

Result: the full-strength statement (`C10_nothing_after_completion_full`, only "parent-first"
assumed) is **false** (`C10_nothing_after_completion_full_false` and two further witnesses); it is
proved under two step-wise conditions (`lbcFrom`: *link before children*, `stableFrom`: *parent stable*), each
of which is shown necessary by a witness, and, as a corollary, under three natural global
conditions (parent-first, consistent parents, recorded links closed under "parent of").
-/
namespace C10
open Orphan OrphanProofs

/-- Shorthand for an update. -/
def upd (i : Id) (p : Option Id) (ctx completes : Bool) : Upd :=
  { id := i, parent := p, isContext := ctx, completes := completes }

/-! ## Known descendants are rejected -/

/-- **C10_known_descendants_rejected.** After an accepted completing CONTEXT update `u` (context
`c = u.id`), every id `x ≠ c` reachable from `c` through the parent→child links known at that time
(`_parent_to_children` including `u`'s own link, plus the recorded links) is in `_parent_done`;
`_parent_done` only grows; hence every later update (after arbitrary further updates `us`) for such
an id is rejected. (`x = c` itself is exempt: `_mark_orphans` discards the root even on a cycle,
see `known_descendants_root_exempt`.) -/
theorem C10_known_descendants_rejected (s : St) (u : Upd) (hc : u.isCompletion = true)
    (_hacc : (step s u).2 = true) (x : Id) (hx : Desc (links (step s u).1) u.id x)
    (hne : x ≠ u.id) :
    x ∈ (step s u).1.done ∧
    (∀ us : List Upd, x ∈ (runAll (step s u).1 us).1.done) ∧
    (∀ (us : List Upd) (k : Nat) (uk : Upd), us[k]? = some uk → uk.id = x →
      (runAll (step s u).1 us).2[k]? = some false) := by
  have hx' : x ∈ (step s u).1.done := by
    rw [links_step] at hx
    exact (mem_step_done s u x).2 (.inl ((mem_done1 s u x).2 (.inr ⟨hc, hx, hne⟩)))
  exact ⟨hx', fun us => done_subset_runAll us _ hx',
    fun us k uk hk hid => rejected_of_mem_done_runAll us _ hx' k uk hk hid⟩

/-- `_parent_done` and `_completed_contexts` only grow, whatever the updates. -/
theorem C10_done_completed_monotone (s : St) (us : List Upd) (x : Id) :
    (x ∈ s.done → x ∈ (runAll s us).1.done) ∧
    (x ∈ s.completed → x ∈ (runAll s us).1.completed) :=
  ⟨done_subset_runAll us s, completed_subset_runAll us s⟩

/-- Witness that the root is exempt: recorded links `1 → 2 → 1`; context `1` completes (accepted,
although `1` is reachable from `1`), only `2` is orphaned, and `1` is accepted again. -/
theorem known_descendants_root_exempt :
    let r := runAll (fresh [(1, 2), (2, 1)]) [upd 1 none true true, upd 1 none true true]
    r.2 = [true, true] ∧ r.1.done.eraseDups = [2] ∧ r.1.completed.eraseDups = [1] ∧
    Desc (links r.1) 1 1 := by
  refine ⟨by decide, by decide, by decide, ?_⟩
  exact .step (p := 2) (.child (by decide)) (by decide)

/-! ## Nothing after completion -/

/-- The conclusion of C10 for an initial state and a sequence: if the `j`-th update is an accepted
completing CONTEXT update for `c`, no later accepted update has an id that descends from `c` through
the recorded links and the links announced by all updates up to and including itself. -/
def NothingAfterCompletion (s0 : St) (us : List Upd) : Prop :=
  ∀ (j k : Nat) (uj uk : Upd), j < k → us[j]? = some uj → uj.isCompletion = true →
    (runAll s0 us).2[j]? = some true → us[k]? = some uk → (runAll s0 us).2[k]? = some true →
    ¬ Desc (s0.recorded ++ linksOf (us.take (k + 1))) uj.id uk.id

/-- The full-strength statement: fresh invocation, parent-first sequence. **False**, see
`C10_nothing_after_completion_full_false`. -/
def C10_nothing_after_completion_full : Prop :=
  ∀ (s0 : St) (us : List Upd), s0.done = [] → s0.completed = [] → s0.edges = [] →
    parentFirst s0.recorded us = true → NothingAfterCompletion s0 us

/-- Counterexample sequence 1: operation `6` is recorded with parent `5`, but `5` has no recorded
parent link. Context `1` completes; then `5` shows up for the first time as a child of `1`
(rejected, orphaned), but its recorded child `6` is never orphaned, so a new operation `7` under `6`
is accepted although `1 → 5 → 6 → 7`. -/
def ce1 : List Upd := [upd 1 none true true, upd 5 (some 1) true false, upd 7 (some 6) false false]

theorem ce1_run : parentFirst [(5, 6)] ce1 = true ∧
    (runAll (fresh [(5, 6)]) ce1).2 = [true, false, true] := by decide

/-- **The full statement is false** (witness `ce1`). -/
theorem C10_nothing_after_completion_full_false : ¬ C10_nothing_after_completion_full := by
  intro h
  have := h (fresh [(5, 6)]) ce1 rfl rfl rfl (by decide) 0 2 (upd 1 none true true)
    (upd 7 (some 6) false false) (by decide) rfl (by decide) (by decide) rfl (by decide)
  apply this
  exact .step (p := 6) (.step (p := 5) (.child (by decide)) (by decide)) (by decide)

/-- Counterexample sequence 2 (nothing recorded): `3` first appears without a parent and gets the
child `4`; context `1` (with child `2`) completes; then `3` is re-announced with parent `2`
(rejected, orphaned), but its existing child `4` is not orphaned, so a new operation `5` under `4`
is accepted although `1 → 2 → 3 → 4 → 5`. Only *link before children* is violated. -/
def ce2 : List Upd :=
  [upd 1 none true false, upd 2 (some 1) true false, upd 3 none true false,
   upd 4 (some 3) true false, upd 1 none true true, upd 3 (some 2) true false,
   upd 5 (some 4) false false]

theorem ce2_run : parentFirst [] ce2 = true ∧
    (runAll (fresh []) ce2).2 = [true, true, true, true, true, false, true] ∧
    ¬ NothingAfterCompletion (fresh []) ce2 := by
  refine ⟨by decide, by decide, fun h => ?_⟩
  apply h 4 6 (upd 1 none true true) (upd 5 (some 4) false false) (by decide) rfl (by decide)
    (by decide) rfl (by decide)
  exact .step (p := 4) (.step (p := 3) (.step (p := 2) (.child (by decide)) (by decide))
    (by decide)) (by decide)

/-- Counterexample sequence 3: recorded links form the cycle `1 → 2 → 1`; context `1` completes
twice without naming its recorded parent `2`; both are accepted although `1 → 2 → 1`. Only *parent
stable* is violated (link before children holds). -/
def ce3 : List Upd := [upd 1 none true true, upd 1 none true true]

theorem ce3_run : parentFirst [(1, 2), (2, 1)] ce3 = true ∧
    (runAll (fresh [(1, 2), (2, 1)]) ce3).2 = [true, true] ∧
    ¬ NothingAfterCompletion (fresh [(1, 2), (2, 1)]) ce3 := by
  refine ⟨by decide, by decide, fun h => ?_⟩
  apply h 0 1 (upd 1 none true true) (upd 1 none true true) (by decide) rfl (by decide)
    (by decide) rfl (by decide)
  exact .step (p := 2) (.child (by decide)) (by decide)

/-- **C10_nothing_after_completion_partial** (strongest version proved). Fresh invocation
(`recorded` arbitrary), any update sequence — parent-first is *not* needed — such that every
update, relative to the links known when it arrives (`recorded` plus the links announced by earlier
updates), satisfies
* *link before children* (`lbcFrom`, step-wise `lbcAt`): if it announces a parent link `(p, x)` not known yet, then no
  link `(x, y)` is known yet, and
* *parent stable* (`stableFrom`, step-wise `stableAt`): every known parent link `(q, x)` of its id `x` names the parent it
  carries (`parent = some q`).

Then after an accepted completion of context `c` no update whose id descends from `c` (through
recorded links and all links announced so far, by accepted or rejected updates) is accepted.
Cycles in the links are allowed. -/
theorem C10_nothing_after_completion_partial (s0 : St) (us : List Upd) (hd : s0.done = [])
    (hc : s0.completed = []) (he : s0.edges = []) (hlbc : lbcFrom s0.recorded us = true)
    (hst : stableFrom s0.recorded us = true) :
    NothingAfterCompletion s0 us := by
  have hwf : wfFrom s0.recorded us = true := by rw [wfFrom_eq, hlbc, hst]; rfl
  have hl : links s0 = s0.recorded := by simp [links, he]
  have hI : Inv s0 := by
    intro q y _ h
    rw [hd, hc] at h
    rcases h with h | h <;> cases h
  intro j k uj uk hjk hj hcomp hjacc hk hkacc
  have := nothing_after_completion_from us s0 hI (hl ▸ hwf) j k uj uk hjk hj hcomp hjacc hk hkacc
  rwa [hl] at this

/-- **C10_nothing_after_completion_wellformed.** The same conclusion under three global
conditions on the scenario:
* parent-first (`parentFirst`): every parent is the id of an earlier update or occurs in `recorded`;
* consistent parents (`consistent`): every update carries the parent that any link for its id —
  recorded or announced anywhere in the sequence — names (so an updated id has one parent, always
  the same, and never drops or gains it);
* recorded links are closed under "parent of" (`recordedRooted`): an updated id that occurs in
  `recorded` as a parent and carries a parent has that parent link recorded too. -/
theorem C10_nothing_after_completion_wellformed (s0 : St) (us : List Upd) (hd : s0.done = [])
    (hc : s0.completed = []) (he : s0.edges = []) (hpf : parentFirst s0.recorded us = true)
    (hcons : consistent s0.recorded us = true) (hroot : recordedRooted s0.recorded us = true) :
    NothingAfterCompletion s0 us := by
  have h := wfFrom_of_parentFirst hpf hcons hroot
  rw [wfFrom_eq, Bool.and_eq_true] at h
  exact C10_nothing_after_completion_partial s0 us hd hc he h.1 h.2

/-- Which condition each witness violates: `ce1` is consistent and parent-first but its recorded
links are not parent-closed; `ce2` violates consistency (`3` changes from no parent to parent `2`)
and, step-wise, only link-before-children; `ce3` violates consistency and, step-wise, only
parent-stability. -/
theorem witnesses_classified :
    (consistent [(5, 6)] ce1 = true ∧ recordedRooted [(5, 6)] ce1 = false ∧
      lbcFrom [(5, 6)] ce1 = false ∧ stableFrom [(5, 6)] ce1 = true) ∧
    (consistent [] ce2 = false ∧ recordedRooted [] ce2 = true ∧
      lbcFrom [] ce2 = false ∧ stableFrom [] ce2 = true) ∧
    (consistent [(1, 2), (2, 1)] ce3 = false ∧ recordedRooted [(1, 2), (2, 1)] ce3 = true ∧
      lbcFrom [(1, 2), (2, 1)] ce3 = true ∧ stableFrom [(1, 2), (2, 1)] ce3 = false) := by decide

/-! ## What a single update can change -/

/-- **C10_rejected_updates_change_nothing_observable.** Exactly what one pass through the locked
section changes:
1. the announced parent link is always registered, `recorded` never changes (also when rejected);
2. a rejected update never adds to `_completed_contexts`;
3. an accepted update adds its id to `_completed_contexts` iff it is a completing CONTEXT update;
4. an accepted non-completing update leaves `_parent_done` unchanged;
5. a non-completing update (accepted or not) adds at most its own id to `_parent_done`, and only if
   it is rejected;
6. in general every id added to `_parent_done` is the update's own id (then it is rejected) or, for
   a completing CONTEXT update, a proper descendant of its id. -/
theorem C10_rejected_updates_change_nothing_observable (s : St) (u : Upd) :
    ((step s u).1.edges = s.edges ++ linkOf u ∧ (step s u).1.recorded = s.recorded) ∧
    ((step s u).2 = false → (step s u).1.completed = s.completed) ∧
    ((step s u).2 = true → (step s u).1.completed =
      if u.isCompletion then s.completed ++ [u.id] else s.completed) ∧
    ((step s u).2 = true → u.isCompletion = false → (step s u).1.done = s.done) ∧
    (u.isCompletion = false → (step s u).1.done = s.done ∨
      ((step s u).2 = false ∧ (step s u).1.done = s.done ++ [u.id])) ∧
    (∀ x, x ∈ (step s u).1.done → x ∈ s.done ∨ (x = u.id ∧ (step s u).2 = false) ∨
      (u.isCompletion = true ∧ Desc (links s ++ linkOf u) u.id x ∧ x ≠ u.id)) := by
  have hdone2 : u.isCompletion = false →
      done2 s u = s.done ∨ (u.id ∉ s.done ∧ done2 s u = s.done ++ [u.id]) := by
    intro hnc
    have h1 : done1 s u = s.done := by simp [done1, hnc]
    unfold done2
    rw [h1]
    cases u.parent with
    | none => exact .inl rfl
    | some p =>
      simp only
      split
      · rename_i hcnd
        simp at hcnd
        exact .inr ⟨hcnd.1, rfl⟩
      · exact .inl rfl
  refine ⟨⟨step_edges s u, step_recorded s u⟩, ?_, ?_, ?_, ?_, ?_⟩
  · intro h; rw [step_completed]; simp [h]
  · intro h; rw [step_completed]; simp [h]
  · intro hacc hnc
    have hx := (step_accepted_iff s u).1 hacc
    rw [step_done] at hx ⊢
    rcases hdone2 hnc with h | ⟨_, h⟩
    · exact h
    · rw [h] at hx; simp at hx
  · intro hnc
    rw [step_done]
    rcases hdone2 hnc with h | ⟨_, h⟩
    · exact .inl h
    · refine .inr ⟨?_, h⟩
      rw [step_rejected_iff, step_done, h]; simp
  · intro x hx
    rcases (mem_step_done s u x).1 hx with h1 | ⟨rfl, _⟩
    · rcases (mem_done1 s u x).1 h1 with h0 | h
      · exact .inl h0
      · exact .inr (.inr h)
    · exact .inr (.inl ⟨rfl, (step_rejected_iff s u).2 hx⟩)

/-! ## The fixed defect: operations first seen after the completion -/

/-- Any update whose parent is orphaned or is a completed context is rejected and orphaned itself,
in every state (state.py:453-475). -/
theorem C10_child_of_dead_parent_rejected (s : St) (u : Upd) (p : Id) (hp : u.parent = some p)
    (hdead : p ∈ s.done ∨ p ∈ s.completed) :
    (step s u).2 = false ∧ u.id ∈ (step s u).1.done :=
  rejected_of_parent_dead hp hdead

/-- **C10_first_seen_after_completion_rejected**, variant "branch known at completion". Context
`c = uc.id` completes (accepted) in any state `s`; `b ≠ c` is a child of `c` known at that moment
(from `recorded`, from an earlier update, or from `uc` itself). Then, after arbitrary further
updates `m1`, an update `ux` with parent `b` — in particular a brand-new operation — is rejected;
and after arbitrary further updates `m2`, an update `uy` with parent `ux.id` is rejected too. -/
theorem C10_first_seen_after_completion_rejected (s : St) (uc : Upd)
    (hc : uc.isCompletion = true) (hacc : (step s uc).2 = true) (b : Id)
    (hb : (uc.id, b) ∈ links (step s uc).1) (hbc : b ≠ uc.id)
    (m1 m2 : List Upd) (ux uy : Upd) (hx : ux.parent = some b) (hy : uy.parent = some ux.id) :
    let s1 := (runAll (step s uc).1 m1).1
    let s2 := (runAll (step s1 ux).1 m2).1
    (step s1 ux).2 = false ∧ (step s2 uy).2 = false := by
  intro s1 s2
  have hbdone : b ∈ s1.done :=
    ((C10_known_descendants_rejected s uc hc hacc b (.child hb) hbc).2.1 m1)
  have h1 := rejected_of_parent_dead (s := s1) hx (.inl hbdone)
  have hxdone : ux.id ∈ s2.done := done_subset_runAll m2 _ h1.2
  exact ⟨h1.1, (rejected_of_parent_dead (s := s2) hy (.inl hxdone)).1⟩

/-- Variant "branch itself first appears after the completion": after the accepted completion of
`c`, an update `ub` with parent `c` is rejected, then `ux` with parent `ub.id`, then `uy` with
parent `ux.id`, with arbitrary updates `m0`, `m1`, `m2` in between. -/
theorem C10_first_seen_after_completion_rejected_late_branch (s : St) (uc : Upd)
    (hc : uc.isCompletion = true) (hacc : (step s uc).2 = true)
    (m0 m1 m2 : List Upd) (ub ux uy : Upd) (hb : ub.parent = some uc.id)
    (hx : ux.parent = some ub.id) (hy : uy.parent = some ux.id) :
    let s0 := (runAll (step s uc).1 m0).1
    let s1 := (runAll (step s0 ub).1 m1).1
    let s2 := (runAll (step s1 ux).1 m2).1
    (step s0 ub).2 = false ∧ (step s1 ux).2 = false ∧ (step s2 uy).2 = false := by
  intro s0 s1 s2
  have hcc : uc.id ∈ s0.completed :=
    completed_subset_runAll m0 _ ((mem_step_completed s uc _).2 (.inr ⟨rfl, hc, hacc⟩))
  have h0 := rejected_of_parent_dead (s := s0) hb (.inr hcc)
  have hbdone : ub.id ∈ s1.done := done_subset_runAll m1 _ h0.2
  have h1 := rejected_of_parent_dead (s := s1) hx (.inl hbdone)
  have hxdone : ux.id ∈ s2.done := done_subset_runAll m2 _ h1.2
  exact ⟨h0.1, h1.1, (rejected_of_parent_dead (s := s2) hy (.inl hxdone)).1⟩

/-! ## Non-vacuity -/

/-- A replay invocation: branch `2` of map `1` and its step `3` are recorded from an earlier
invocation (links `1 → 2 → 3`), nothing has passed through `create_checkpoint` yet. The map
completes; the recorded step `3`, a brand-new step `4` under branch `2`, a step `5` under `4`, a
late new branch `6` of `1` and its step `7` are all rejected; the unrelated operation `8` and its
child `9` are accepted. -/
def demo : List Upd :=
  [upd 1 none true true, upd 3 (some 2) false true, upd 4 (some 2) false false,
   upd 5 (some 4) false false, upd 6 (some 1) true false, upd 7 (some 6) false false,
   upd 8 none true false, upd 9 (some 8) false true]

example : (runAll (fresh [(1, 2), (2, 3)]) demo).2 =
    [true, false, false, false, false, false, true, true] := by decide

example : parentFirst [(1, 2), (2, 3)] demo = true ∧ consistent [(1, 2), (2, 3)] demo = true ∧
    recordedRooted [(1, 2), (2, 3)] demo = true ∧ lbcFrom [(1, 2), (2, 3)] demo = true ∧
    stableFrom [(1, 2), (2, 3)] demo = true := by decide

/-- The hypotheses of the partial/well-formed theorem are satisfiable with an accepted completion
followed by accepted and rejected updates, and its conclusion is then non-trivial. -/
example : NothingAfterCompletion (fresh [(1, 2), (2, 3)]) demo :=
  C10_nothing_after_completion_wellformed _ _ rfl rfl rfl (by decide) (by decide) (by decide)

/-- Same-invocation scenario (nothing recorded): parallel `1` with branches `2`, `3`; branch `2`
has step `4`. `1` completes early; afterwards `4` (known), the new step `5` under the still-running
branch `3`, and `6` under `5` are rejected; a second completion of `1` is accepted (it is not its
own descendant). -/
def demo2 : List Upd :=
  [upd 1 none true false, upd 2 (some 1) true false, upd 3 (some 1) true false,
   upd 4 (some 2) false false, upd 1 none true true, upd 4 (some 2) false true,
   upd 5 (some 3) false false, upd 6 (some 5) false false, upd 1 none true true]

example : (runAll (fresh []) demo2).2 =
    [true, true, true, true, true, false, false, false, true] ∧
    lbcFrom [] demo2 = true ∧ stableFrom [] demo2 = true ∧
    (runAll (fresh []) demo2).1.done.eraseDups = [2, 3, 4, 5, 6] ∧
    (runAll (fresh []) demo2).1.completed.eraseDups = [1] := by decide

/-- The descendant search on a cyclic link list terminates and finds exactly the reachable nodes. -/
example : (reachable [(1, 2), (2, 3), (3, 1), (4, 5)] 1).eraseDups = [2, 3, 1] ∧
    (descendants [(1, 2), (2, 3), (3, 1), (4, 5)] 1).eraseDups = [2, 3] ∧
    reachable [(1, 2), (2, 3), (3, 1), (4, 5)] 5 = [] := by decide

end C10
