import Proofs.EngineH
/-!
# C13 — wait_for_condition threads its state through polls and stops when told to (engine part)

Handler-level theorems about `handleWfc` / `wfcExecute` of `DurableModel/Engine.lean`.
Notation (from `Proofs/EngineH.lean`): `att r` = recorded attempts + 1 = the poll number;
`pollState w r` = the state handed to the check function when the record is `r`;
`wfcStartUpd p` (asynchronous START), `wfcRetryUpd p ns d` (synchronous RETRY, `payload = some ns`,
`delay = some (max 1 d)`), `wfcSucceedUpd p ns`, `wfcFailUpd p e`; `ckAsync s u` = state after an
asynchronous checkpoint; `ckOk s u t'` = state after an accepted synchronous checkpoint;
`ticked s` = `s` after a crash point was passed.
-/
namespace C13
open Engine EngineH

/-- The state right after the check function was entered and its crash point passed. -/
abbrev entered (s : St) (p : Pos) (w : WfcSpec) (r : Option OpRec) : St :=
  ticked (emit s (.enter p .wfc (att r) (some (pollState w r))))

/-! ## Which state and which poll number the check function gets -/

/-- **C13_state_threaded (general form).** `wfcExecute` first emits
`enter p wfc (att r) (some (pollState w r))`, enters no other user function, and evaluates the check
function and the wait strategy at exactly that state / poll number (second conjunct: the function
*is* this expression). -/
theorem C13_poll_shape (s : St) (p : Pos) (w : WfcSpec) (r : Option OpRec) :
    (∃ rest, newEvents s (wfcExecute s p w r).st =
        .enter p .wfc (att r) (some (pollState w r)) :: rest ∧ ∀ ev ∈ rest, isEnter ev = false) ∧
    wfcExecute s p w r =
      match tick (emit s (.enter p .wfc (att r) (some (pollState w r)))) with
      | none => .stop .crashed (emit s (.enter p .wfc (att r) (some (pollState w r))))
      | some s₁ =>
        match w.check (pollState w r) (att r) with
        | .ok ns =>
          (match w.decide ns (att r) with
           | none =>
             (match checkpoint s₁ (wfcSucceedUpd p ns) with
              | .error (en, s) => .stop en s
              | .ok s => deliverAt s p (.ok ns))
           | some d =>
             (match checkpoint s₁ (wfcRetryUpd p ns d) with
              | .error (en, s) => .stop en s
              | .ok s => .stop (.suspended (some d)) s))
        | .err e =>
          (match checkpoint s₁ (wfcFailUpd p e) with
           | .error (en, s) => .stop en s
           | .ok s => deliverAt s p (.err e)) :=
  ⟨newEvents_cons_of_grows
      (wfcExecute_grows_after (P := fun ev => isEnter ev = false) s p w r (fun _ h _ => h)
        (fun _ _ _ _ => rfl)),
   wfcExecute_eq s p w r⟩

/-- The recorded state is what the next poll gets: record STARTED/READY with a non-empty recorded
state `v`. -/
theorem pollState_recorded (w : WfcSpec) (r : OpRec) (v : Val)
    (hs : r.status = .started ∨ r.status = .ready) (hr : r.result = some v) (hv : v ≠ "") :
    pollState w (some r) = v := by
  unfold pollState
  rcases hs with hs | hs <;> simp [hs, hr, hv]

/-- No record, or no recorded state, or an empty recorded state: the configured initial state. -/
theorem pollState_initial (w : WfcSpec) (r : Option OpRec)
    (h : r = none ∨ ∃ r₀, r = some r₀ ∧ (r₀.result = none ∨ r₀.result = some "")) :
    pollState w r = w.init := by
  unfold pollState
  rcases h with rfl | ⟨r₀, rfl, hr | hr⟩
  · rfl
  · simp [hr]
  · simp [hr]

/-- **C13_first_poll.** No record: the handler sends the asynchronous START and then enters the
check function with poll number 1 and the configured initial state (and evaluates
`w.check w.init 1`); the START is applied whenever the parent context exists. -/
theorem C13_first_poll (s : St) (p : Pos) (w : WfcSpec) (hl : lookup s.tbl p = none) :
    handleWfc s p w = wfcExecute (ckAsync s (wfcStartUpd p)) p w none ∧
    (wfcStartUpd p).sync = false ∧ pollState w none = w.init ∧ att none = 1 ∧
    (∃ ev rest, newEvents s (handleWfc s p w).st =
        .upd (wfcStartUpd p) :: ev :: .enter p .wfc 1 (some w.init) :: rest ∧
        (ev = .applied (wfcStartUpd p) ∨ ev = .rejected (wfcStartUpd p)) ∧
        (Backend.parentOk s.tbl p = true → ev = .applied (wfcStartUpd p)) ∧
        ∀ x ∈ rest, isEnter x = false) := by
  have heq := handleWfc_absent w hl
  refine ⟨heq, rfl, rfl, rfl, ?_⟩
  rw [heq]
  obtain ⟨rest, htr, hrest⟩ := wfcExecute_grows_after (P := fun ev => isEnter ev = false)
    (ckAsync s (wfcStartUpd p)) p w none (fun _ h _ => h) (fun _ _ _ _ => rfl)
  have happ : Backend.parentOk s.tbl p = true →
      Backend.apply s.tbl (wfcStartUpd p) (s.imm p) =
        some (upsert s.tbl p (Backend.startRec .wfc (s.imm p))) :=
    fun hp => apply_start_absent (u := wfcStartUpd p) hl rfl hp
  rcases ckAsync_trace s (wfcStartUpd p) with h | h
  · refine ⟨.applied (wfcStartUpd p), rest, ?_, .inl rfl, fun _ => rfl, hrest⟩
    apply newEvents_of_trace_eq
    rw [htr, emit_trace, h]; simp [att, pollState]
  · refine ⟨.rejected (wfcStartUpd p), rest, ?_, .inr rfl, ?_, hrest⟩
    · apply newEvents_of_trace_eq
      rw [htr, emit_trace, h]; simp [att, pollState]
    · intro hp
      have := (ckAsync_trace_of_apply (happ hp)).1
      rw [this] at h
      simp at h

example : ∃ (s : St) (p : Pos), lookup s.tbl p = none ∧ Backend.parentOk s.tbl p = true :=
  ⟨{ tbl := [], syncTbl := [], budget := 0 }, [1], by decide, by decide⟩

/-- **C13_state_threaded.** Record STARTED with recorded state `v ≠ ""`: the handler sends nothing
and enters the check function with poll number `r.attempt + 1` and exactly `v`.  Record READY (a
recorded poll whose delay elapsed): the same after an asynchronous START.  With no recorded state
(`none` or `""`) the check function gets the initial state. -/
theorem C13_state_threaded (s : St) (p : Pos) (w : WfcSpec) (r : OpRec)
    (hl : lookup s.tbl p = some r) :
    (r.status = .started → ∀ v, r.result = some v → v ≠ "" →
      ∃ rest, newEvents s (handleWfc s p w).st = .enter p .wfc (r.attempt + 1) (some v) :: rest ∧
        ∀ x ∈ rest, isEnter x = false) ∧
    (r.status = .ready → ∀ v, r.result = some v → v ≠ "" →
      ∃ ev rest, newEvents s (handleWfc s p w).st =
          .upd (wfcStartUpd p) :: ev :: .enter p .wfc (r.attempt + 1) (some v) :: rest ∧
        (ev = .applied (wfcStartUpd p) ∨ ev = .rejected (wfcStartUpd p)) ∧
        ∀ x ∈ rest, isEnter x = false) ∧
    (r.status = .started → (r.result = none ∨ r.result = some "") →
      ∃ rest, newEvents s (handleWfc s p w).st = .enter p .wfc (r.attempt + 1) (some w.init) :: rest ∧
        ∀ x ∈ rest, isEnter x = false) := by
  refine ⟨?_, ?_, ?_⟩
  · intro hs v hr hv
    rw [handleWfc_started w hl hs]
    have := (C13_poll_shape s p w (some r)).1
    rwa [pollState_recorded w r v (.inl hs) hr hv] at this
  · intro hs v hr hv
    rw [handleWfc_ready w hl hs]
    obtain ⟨rest, htr, hrest⟩ := wfcExecute_grows_after (P := fun ev => isEnter ev = false)
      (ckAsync s (wfcStartUpd p)) p w (some r) (fun _ h _ => h) (fun _ _ _ _ => rfl)
    rw [pollState_recorded w r v (.inr hs) hr hv] at htr
    rcases ckAsync_trace s (wfcStartUpd p) with h | h
    · refine ⟨_, rest, ?_, .inl rfl, hrest⟩
      apply newEvents_of_trace_eq
      rw [htr, emit_trace, h]; simp
    · refine ⟨_, rest, ?_, .inr rfl, hrest⟩
      apply newEvents_of_trace_eq
      rw [htr, emit_trace, h]; simp
  · intro hs hr
    rw [handleWfc_started w hl hs]
    have := (C13_poll_shape s p w (some r)).1
    rwa [pollState_initial w (some r) (.inr ⟨r, rfl, hr⟩)] at this

example : ∃ (s : St) (p : Pos) (r : OpRec) (v : Val),
    lookup s.tbl p = some r ∧ r.status = .ready ∧ r.result = some v ∧ v ≠ "" :=
  ⟨{ tbl := [([1], { kind := .wfc, status := .ready, attempt := 1, result := some "7" })],
     syncTbl := [], budget := 0 }, [1],
   { kind := .wfc, status := .ready, attempt := 1, result := some "7" }, "7",
   by decide, rfl, rfl, by decide⟩

/-! ## Continue: recorded with state and delay before suspending -/

/-- **C13_continue_recorded.** The check returns `ns`, the strategy says "continue after `d`", and
nothing goes wrong (`3 ≤ budget`: the crash point in the check function and the two around the
call): exactly one update is sent — the synchronous RETRY with `payload = some ns` and
`delay = some (max 1 d)` (≥ 1 s) — the backend applies it, the record (an existing STARTED/READY
wait_for_condition) becomes PENDING with one more attempt and `result = some ns`, and the handler
suspends with the strategy's delay. -/
theorem C13_continue_recorded (s : St) (p : Pos) (w : WfcSpec) (r : Option OpRec) (ns : Val)
    (d : Nat) (t' : Tbl)
    (hc : w.check (pollState w r) (att r) = .ok ns) (hd : w.decide ns (att r) = some d)
    (hb : 3 ≤ s.budget) (hf : s.failAt ≠ some s.syncCalls)
    (ha : Backend.apply s.tbl (wfcRetryUpd p ns d) (s.imm p) = some t') :
    wfcExecute s p w r = .stop (.suspended (some d)) (ckOk (entered s p w r) (wfcRetryUpd p ns d) t') ∧
    newEvents s (wfcExecute s p w r).st =
      [.enter p .wfc (att r) (some (pollState w r)), .upd (wfcRetryUpd p ns d),
       .applied (wfcRetryUpd p ns d)] ∧
    (wfcRetryUpd p ns d).sync = true ∧ (wfcRetryUpd p ns d).action = .retry ∧
    (wfcRetryUpd p ns d).payload = some ns ∧
    (wfcRetryUpd p ns d).delay = some (max 1 d) ∧ 1 ≤ max 1 d ∧
    ∃ r₀, lookup s.tbl p = some r₀ ∧ r₀.kind = .wfc ∧ (r₀.status = .started ∨ r₀.status = .ready) ∧
      lookup t' p = some { r₀ with status := .pending, attempt := r₀.attempt + 1,
                                   result := some ns, error := none } := by
  have heq : wfcExecute s p w r =
      .stop (.suspended (some d)) (ckOk (entered s p w r) (wfcRetryUpd p ns d) t') := by
    rw [wfcExecute_eq, tick_pos (by simp; omega), hc]
    simp only [hd]
    rw [checkpoint_sync_ok (s := entered s p w r) rfl (by simp; omega) hf ha]
  refine ⟨heq, ?_, rfl, rfl, rfl, rfl, Nat.le_max_left _ _, ?_⟩
  · rw [heq]; apply newEvents_of_trace_eq; simp [HRes.st]
  · obtain ⟨r₀, hl, hk, _, hst, rfl⟩ := apply_retry_inv (u := wfcRetryUpd p ns d) rfl ha
    exact ⟨r₀, hl, hk, hst, lookup_upsert_self _ _ _⟩

example : ∃ (s : St) (p : Pos) (w : WfcSpec) (r : Option OpRec) (ns : Val) (d : Nat) (t' : Tbl),
    w.check (pollState w r) (att r) = .ok ns ∧ w.decide ns (att r) = some d ∧ 3 ≤ s.budget ∧
    s.failAt ≠ some s.syncCalls ∧ Backend.apply s.tbl (wfcRetryUpd p ns d) (s.imm p) = some t' :=
  ⟨{ tbl := [([1], { kind := .wfc, status := .started })], syncTbl := [], budget := 3 }, [1],
   { init := "0", check := fun _ _ => .ok "1", decide := fun _ _ => some 5 },
   some { kind := .wfc, status := .started }, "1", 5,
   [([1], { kind := .wfc, status := .pending, attempt := 1, result := some "1" })],
   rfl, rfl, by decide, by decide, by decide⟩

/-! ## Stop exactly when the strategy says so -/

/-- **C13_stop_exactly (stop).** The strategy says stop and nothing goes wrong: a synchronous
SUCCEED with the last returned state as payload is applied, the record is SUCCEEDED with that
state, and the call returns exactly that state. -/
theorem C13_stop_recorded (s : St) (p : Pos) (w : WfcSpec) (r : Option OpRec) (ns : Val) (t' : Tbl)
    (hc : w.check (pollState w r) (att r) = .ok ns) (hd : w.decide ns (att r) = none)
    (hb : 3 ≤ s.budget) (hf : s.failAt ≠ some s.syncCalls)
    (ha : Backend.apply s.tbl (wfcSucceedUpd p ns) (s.imm p) = some t') :
    wfcExecute s p w r = deliverAt (ckOk (entered s p w r) (wfcSucceedUpd p ns) t') p (.ok ns) ∧
    (∃ s', wfcExecute s p w r = .deliver (.ok ns) s' ∧ s'.tbl = t') ∧
    newEvents s (wfcExecute s p w r).st =
      [.enter p .wfc (att r) (some (pollState w r)), .upd (wfcSucceedUpd p ns),
       .applied (wfcSucceedUpd p ns), .deliver p (.ok ns)] ∧
    (wfcSucceedUpd p ns).sync = true ∧ (wfcSucceedUpd p ns).payload = some ns ∧
    ∃ r₀, lookup s.tbl p = some r₀ ∧ r₀.kind = .wfc ∧
      lookup t' p = some { r₀ with status := .succeeded, result := some ns, error := none,
                                   replayChildren := false } := by
  have heq : wfcExecute s p w r =
      deliverAt (ckOk (entered s p w r) (wfcSucceedUpd p ns) t') p (.ok ns) := by
    rw [wfcExecute_eq, tick_pos (by simp; omega), hc]
    simp only [hd]
    rw [checkpoint_sync_ok (s := entered s p w r) rfl (by simp; omega) hf ha]
  obtain ⟨s', hdl, htr, htb⟩ :=
    deliverAt_eq (ckOk (entered s p w r) (wfcSucceedUpd p ns) t') p (.ok ns)
  refine ⟨heq, ⟨s', heq.trans hdl, htb⟩, ?_, rfl, rfl, ?_⟩
  · rw [heq, hdl]; apply newEvents_of_trace_eq
    show s'.trace = _
    rw [htr]; simp
  · obtain ⟨r₀, hl, hk, _, rfl⟩ := apply_succeed_inv (u := wfcSucceedUpd p ns) rfl ha
    exact ⟨r₀, hl, hk, lookup_upsert_self _ _ _⟩

example : ∃ (s : St) (p : Pos) (w : WfcSpec) (r : Option OpRec) (ns : Val) (t' : Tbl),
    w.check (pollState w r) (att r) = .ok ns ∧ w.decide ns (att r) = none ∧ 3 ≤ s.budget ∧
    s.failAt ≠ some s.syncCalls ∧ Backend.apply s.tbl (wfcSucceedUpd p ns) (s.imm p) = some t' :=
  ⟨{ tbl := [([1], { kind := .wfc, status := .started })], syncTbl := [], budget := 3 }, [1],
   { init := "0", check := fun _ _ => .ok "1", decide := fun _ _ => none },
   some { kind := .wfc, status := .started }, "1",
   [([1], { kind := .wfc, status := .succeeded, result := some "1" })],
   rfl, rfl, by decide, by decide, by decide⟩

/-- **C13_stop_exactly.** In every outcome (crashes and faults included):
(1) the call delivers a state `v` only if the check returned `v` and the strategy said stop on it;
(2) if the strategy says continue, the call never delivers anything (it suspends, or the invocation
dies); (3) it suspends only if the strategy said continue (with that delay). -/
theorem C13_stop_exactly (s : St) (p : Pos) (w : WfcSpec) (r : Option OpRec) :
    (∀ v s', wfcExecute s p w r = .deliver (.ok v) s' →
      w.check (pollState w r) (att r) = .ok v ∧ w.decide v (att r) = none) ∧
    (∀ ns d, w.check (pollState w r) (att r) = .ok ns → w.decide ns (att r) = some d →
      ∀ o s', wfcExecute s p w r ≠ .deliver o s') ∧
    (∀ dl s', wfcExecute s p w r = .stop (.suspended dl) s' →
      ∃ ns, w.check (pollState w r) (att r) = .ok ns ∧ w.decide ns (att r) = dl ∧ dl ≠ none) := by
  have hcrash : ∀ (s₁ : St) (u : Upd) en s'', checkpoint s₁ u = .error (en, s'') →
      en = .crashed ∨ en = .ckptFailed := by
    intro s₁ u en s'' hc
    have := checkpoint_grows (P := fun _ => True) s₁ u trivial trivial trivial
    rw [hc] at this; exact this.2
  refine ⟨?_, ?_, ?_⟩
  · intro v s' h
    rw [wfcExecute_eq] at h
    split at h
    · cases h
    · split at h
      · next ns hns =>
        split at h
        · next hd =>
          split at h
          · cases h
          · obtain ⟨s'', hdl, _⟩ := deliverAt_eq ‹St› p (.ok ns)
            rw [hdl] at h
            cases h
            exact ⟨hns, hd⟩
        · split at h <;> cases h
      · split at h
        · cases h
        · obtain ⟨s'', hdl, _⟩ := deliverAt_eq ‹St› p (.err ‹Exc›)
          rw [hdl] at h
          cases h
  · intro ns d hc hd o s' h
    rw [wfcExecute_eq] at h
    split at h
    · cases h
    · rw [hc] at h
      simp only [hd] at h
      split at h <;> cases h
  · intro dl s' h
    rw [wfcExecute_eq] at h
    split at h
    · cases h
    · split at h
      · next ns hns =>
        split at h
        · split at h
          · next hc =>
            cases h
            rcases hcrash _ _ _ _ hc with h | h <;> cases h
          · exact absurd h (deliverAt_ne_stop _ _ _ _ _)
        · next d hd =>
          split at h
          · next hc =>
            cases h
            rcases hcrash _ _ _ _ hc with h | h <;> cases h
          · cases h
            exact ⟨ns, hns, hd, by simp⟩
      · split at h
        · next hc =>
          cases h
          rcases hcrash _ _ _ _ hc with h | h <;> cases h
        · exact absurd h (deliverAt_ne_stop _ _ _ _ _)

/-! ## The next poll gets the recorded state and the next poll number -/

/-- **C13_next_poll_gets_recorded_state.** Composition: the current record is `r₀`; the RETRY of
this poll (new state `ns ≠ ""`) is applied by the backend, giving `t'`; the retry timer fires,
giving `t''`.  Then on any state `s₂` whose table shows that record (a later invocation), for any
spec, `handleWfc` sends the asynchronous START and enters the check function with poll number
`r₀.attempt + 2` (one more than this poll's `r₀.attempt + 1`) and **exactly** the recorded state
`ns`; the check function is evaluated at `(ns, r₀.attempt + 2)`. -/
theorem C13_next_poll_gets_recorded_state (s : St) (p : Pos) (r₀ : OpRec) (ns : Val) (d : Nat)
    (t' t'' : Tbl) (hl : lookup s.tbl p = some r₀)
    (ha : Backend.apply s.tbl (wfcRetryUpd p ns d) (s.imm p) = some t')
    (hfire : Backend.fire t' (.retryReady p) = some t'') (hns : ns ≠ "")
    (s₂ : St) (h₂ : lookup s₂.tbl p = lookup t'' p) (w₂ : WfcSpec) :
    ∃ r₂, lookup t'' p = some r₂ ∧ r₂.status = .ready ∧ r₂.attempt = r₀.attempt + 1 ∧
      r₂.result = some ns ∧
      handleWfc s₂ p w₂ = wfcExecute (ckAsync s₂ (wfcStartUpd p)) p w₂ (some r₂) ∧
      pollState w₂ (some r₂) = ns ∧ att (some r₂) = r₀.attempt + 2 ∧
      ∃ ev rest, newEvents s₂ (handleWfc s₂ p w₂).st =
          .upd (wfcStartUpd p) :: ev :: .enter p .wfc (r₀.attempt + 2) (some ns) :: rest ∧
        (ev = .applied (wfcStartUpd p) ∨ ev = .rejected (wfcStartUpd p)) ∧
        ∀ x ∈ rest, isEnter x = false := by
  obtain ⟨r₁, hl₁, _, _, _, rfl⟩ := apply_retry_inv (u := wfcRetryUpd p ns d) rfl ha
  have : r₁ = r₀ := by
    have hl₂ : lookup s.tbl p = some r₁ := hl₁
    rw [hl] at hl₂; cases hl₂; rfl
  subst this
  obtain ⟨r', hl', _, _, rfl⟩ := fire_retryReady_inv hfire
  have hr' := Option.some.inj ((lookup_upsert_self _ _ _).symm.trans hl')
  subst hr'
  have hlk := lookup_upsert_self (upsert s.tbl p
      { r₁ with status := .pending, attempt := r₁.attempt + 1, result := some ns, error := none })
    p { kind := r₁.kind, status := .ready, attempt := r₁.attempt + 1, result := some ns, error := none,
        replayChildren := r₁.replayChildren }
  refine ⟨_, hlk, rfl, rfl, rfl, ?_⟩
  have h₂' : lookup s₂.tbl p = some
      { kind := r₁.kind, status := .ready, attempt := r₁.attempt + 1, result := some ns, error := none,
        replayChildren := r₁.replayChildren } := h₂.trans hlk
  have hps : pollState w₂ (some
      { kind := r₁.kind, status := .ready, attempt := r₁.attempt + 1, result := some ns, error := none,
        replayChildren := r₁.replayChildren }) = ns := pollState_recorded w₂ _ ns (.inr rfl) rfl hns
  refine ⟨handleWfc_ready w₂ h₂' rfl, hps, rfl, ?_⟩
  obtain ⟨_, h, _⟩ := C13_state_threaded s₂ p w₂ _ h₂'
  exact h rfl ns rfl hns

example : ∃ (s : St) (p : Pos) (r₀ : OpRec) (ns : Val) (d : Nat) (t' t'' : Tbl) (s₂ : St),
    lookup s.tbl p = some r₀ ∧ Backend.apply s.tbl (wfcRetryUpd p ns d) (s.imm p) = some t' ∧
    Backend.fire t' (.retryReady p) = some t'' ∧ ns ≠ "" ∧ lookup s₂.tbl p = lookup t'' p :=
  ⟨{ tbl := [([1], { kind := .wfc, status := .started })], syncTbl := [], budget := 3 }, [1],
   { kind := .wfc, status := .started }, "1", 5,
   [([1], { kind := .wfc, status := .pending, attempt := 1, result := some "1" })],
   [([1], { kind := .wfc, status := .ready, attempt := 1, result := some "1" })],
   { tbl := [([1], { kind := .wfc, status := .ready, attempt := 1, result := some "1" })],
     syncTbl := [], budget := 3 },
   by decide, by decide, by decide, by decide, by decide⟩

/-- The side condition `ns ≠ ""` above is necessary (transcribed SDK behaviour: an empty recorded
payload is treated as "no state"): after recording the state `""`, the next poll gets the
**initial** state, not `""`. -/
theorem C13_empty_state_falls_back_to_init (w : WfcSpec) (r : OpRec) (hr : r.result = some "") :
    pollState w (some r) = w.init :=
  pollState_initial w (some r) (.inr ⟨r, rfl, .inr hr⟩)

/-- The unconditional statement ("the next poll always gets exactly the recorded state"), without
the side condition `ns ≠ ""`.  **False.** -/
def C13_next_poll_gets_recorded_state_full : Prop :=
  ∀ (s : St) (p : Pos) (r₀ : OpRec) (ns : Val) (d : Nat) (t' t'' : Tbl) (w₂ : WfcSpec),
    lookup s.tbl p = some r₀ →
    Backend.apply s.tbl (wfcRetryUpd p ns d) (s.imm p) = some t' →
    Backend.fire t' (.retryReady p) = some t'' →
    ∃ r₂, lookup t'' p = some r₂ ∧ pollState w₂ (some r₂) = ns

/-- Witness: a poll that returns the state `""` (strategy: continue); the next poll is handed the
configured initial state `"0"` instead of `""`. -/
theorem C13_next_poll_empty_state_witness : ¬ C13_next_poll_gets_recorded_state_full := by
  intro h
  obtain ⟨r₂, hl, hps⟩ := h
    { tbl := [([1], { kind := .wfc, status := .started })], syncTbl := [], budget := 3 } [1]
    { kind := .wfc, status := .started } "" 5
    [([1], { kind := .wfc, status := .pending, attempt := 1, result := some "" })]
    [([1], { kind := .wfc, status := .ready, attempt := 1, result := some "" })]
    { init := "0", check := fun _ _ => .ok "", decide := fun _ _ => some 5 }
    (by decide) (by decide) (by decide)
  have : r₂ = { kind := .wfc, status := .ready, attempt := 1, result := some "" } := by
    have h' : lookup [([1], ({ kind := .wfc, status := .ready, attempt := 1, result := some "" } : OpRec))] [1] =
        some { kind := .wfc, status := .ready, attempt := 1, result := some "" } := by decide
    rw [h'] at hl; cases hl; rfl
  subst this
  exact absurd hps (by decide)

/-! ## A completed / failed condition is never polled again; a pending one is not polled yet -/

/-- **C13_never_polled_again.** Record SUCCEEDED or FAILED: the handler delivers the recorded outcome;
its only event is that delivery (no `enter`, no update). -/
theorem C13_never_polled_again (s : St) (p : Pos) (w : WfcSpec) (r : OpRec)
    (hl : lookup s.tbl p = some r) (hd : Done r = true) :
    handleWfc s p w = deliverAt s p (outcomeOf r) ∧
    newEvents s (handleWfc s p w).st = [.deliver p (outcomeOf r)] ∧
    ∀ ev ∈ newEvents s (handleWfc s p w).st, isEnter ev = false ∧ isUpd ev = false := by
  have h := handleWfc_done w hl hd
  have hn : newEvents s (handleWfc s p w).st = [.deliver p (outcomeOf r)] := by
    rw [h]; exact deliverAt_newEvents _ _ _
  refine ⟨h, hn, ?_⟩
  rw [hn]
  intro ev hev
  simp only [List.mem_singleton] at hev
  subst hev
  exact ⟨rfl, rfl⟩

example : ∃ (s : St) (p : Pos) (r : OpRec), lookup s.tbl p = some r ∧ Done r = true :=
  ⟨{ tbl := [([1], { kind := .wfc, status := .succeeded, result := some "1" })], syncTbl := [],
     budget := 0 }, [1], { kind := .wfc, status := .succeeded, result := some "1" },
   by decide, by decide⟩

/-- Record PENDING (delay not elapsed): suspended at once, no event. -/
theorem C13_pending_not_polled (s : St) (p : Pos) (w : WfcSpec) (r : OpRec)
    (hl : lookup s.tbl p = some r) (hp : r.status = .pending) :
    handleWfc s p w = .stop (.suspended (some 0)) s ∧ newEvents s (handleWfc s p w).st = [] := by
  have h := handleWfc_pending w hl hp
  exact ⟨h, by rw [h]; exact newEvents_self s⟩

example : ∃ (s : St) (p : Pos) (r : OpRec), lookup s.tbl p = some r ∧ r.status = .pending :=
  ⟨{ tbl := [([1], { kind := .wfc, status := .pending, attempt := 1 })], syncTbl := [], budget := 0 },
   [1], { kind := .wfc, status := .pending, attempt := 1 }, by decide, rfl⟩

/-! ## A raising check function -/

/-- **C13_failure_recorded.** The check raises `e` and nothing goes wrong: a synchronous FAIL carrying
`ErrObj.ofExc e` is applied, the record is FAILED with that error, and the call raises the
**original** exception `e` (not a CallableRuntimeError — see `C02.C02_wfc_failure_divergence_witness`). -/
theorem C13_failure_recorded (s : St) (p : Pos) (w : WfcSpec) (r : Option OpRec) (e : Exc) (t' : Tbl)
    (hc : w.check (pollState w r) (att r) = .err e)
    (hb : 3 ≤ s.budget) (hf : s.failAt ≠ some s.syncCalls)
    (ha : Backend.apply s.tbl (wfcFailUpd p e) (s.imm p) = some t') :
    wfcExecute s p w r = deliverAt (ckOk (entered s p w r) (wfcFailUpd p e) t') p (.err e) ∧
    (∃ s', wfcExecute s p w r = .deliver (.err e) s' ∧ s'.tbl = t') ∧
    newEvents s (wfcExecute s p w r).st =
      [.enter p .wfc (att r) (some (pollState w r)), .upd (wfcFailUpd p e),
       .applied (wfcFailUpd p e), .deliver p (.err e)] ∧
    (wfcFailUpd p e).sync = true ∧ (wfcFailUpd p e).error = some (ErrObj.ofExc e) ∧
    ∃ r₀, lookup s.tbl p = some r₀ ∧ r₀.kind = .wfc ∧
      lookup t' p = some { r₀ with status := .failed, error := some (ErrObj.ofExc e) } := by
  have heq : wfcExecute s p w r =
      deliverAt (ckOk (entered s p w r) (wfcFailUpd p e) t') p (.err e) := by
    rw [wfcExecute_eq, tick_pos (by simp; omega), hc]
    simp only
    rw [checkpoint_sync_ok (s := entered s p w r) rfl (by simp; omega) hf ha]
  obtain ⟨s', hdl, htr, htb⟩ :=
    deliverAt_eq (ckOk (entered s p w r) (wfcFailUpd p e) t') p (.err e)
  refine ⟨heq, ⟨s', heq.trans hdl, htb⟩, ?_, rfl, rfl, ?_⟩
  · rw [heq, hdl]; apply newEvents_of_trace_eq
    show s'.trace = _
    rw [htr]; simp
  · obtain ⟨r₀, hl, hk, _, rfl⟩ := apply_fail_inv (u := wfcFailUpd p e) rfl ha
    exact ⟨r₀, hl, hk, lookup_upsert_self _ _ _⟩

example : ∃ (s : St) (p : Pos) (w : WfcSpec) (r : Option OpRec) (e : Exc) (t' : Tbl),
    w.check (pollState w r) (att r) = .err e ∧ 3 ≤ s.budget ∧
    s.failAt ≠ some s.syncCalls ∧ Backend.apply s.tbl (wfcFailUpd p e) (s.imm p) = some t' :=
  ⟨{ tbl := [([1], { kind := .wfc, status := .started })], syncTbl := [], budget := 3 }, [1],
   { init := "0", check := fun _ _ => .err { cls := "ValueError", msg := "boom" }, decide := fun _ _ => none },
   some { kind := .wfc, status := .started }, { cls := "ValueError", msg := "boom" },
   [([1], { kind := .wfc, status := .failed,
            error := some { message := some "boom", type := some "ValueError" } })],
   rfl, by decide, by decide, by decide⟩

end C13
