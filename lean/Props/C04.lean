import Proofs.EngineExec
/-!
# C04 — at-most-once steps start their function at most once per attempt

* handler level (one call of `handleStep`): `C04_start_before_enter`, `C04_started_means_interrupted`,
  `C04_no_enter_when_pending_or_done`;
* the lifecycle rank: `C04_rank_monotone`;
* whole executions (every program all of whose steps are at-most-once, every list of rounds):
  `C04_amo_exec` and corollaries;
* `C04_amo_exec_unconditional_is_false`: without the side condition on the records at `q` the
  statement is FALSE in the model (concrete witness);
* non-vacuity: `example`s at the end.
-/
namespace C04
open Engine EngineExec

/-- The synchronous START an at-most-once step sends before running its function. -/
def startUpd (q : Pos) : Upd := { pos := q, kind := .step, action := .start, sync := true }

theorem newEvents_handleStep_amo {s : St} {q : Pos} {spec : StepSpec} (hamo : spec.amo = true)
    (hnb : ∀ r, lookup s.tbl q = some r → badSt r.status = false) :
    (∀ e ∈ newEvents s (handleStep s q spec).st, UpdAt q e) ∨
    ∃ (t' : Tbl) (rec : OpRec) (l2 : List Ev),
      newEvents s (handleStep s q spec).st =
        [.upd (startUpd q), .applied (startUpd q), .enter q .step (rec.attempt + 1) none] ++ l2 ∧
      (∀ e ∈ l2, UpdAt q e) ∧
      Backend.apply s.tbl (startUpd q) (s.imm q) = some t' ∧
      lookup t' q = some rec ∧ rec.status = .started ∧ rec.kind = .step ∧
      (match lookup s.tbl q with
        | none => rec.attempt = 0
        | some r0 => r0.status = .ready ∧ r0.kind = .step ∧ rec.attempt = r0.attempt) := by
  rcases handleStep_amo hamo hnb with h | ⟨s1, rec, hck, hl1, hst, hk, hmatch, hm⟩
  · left
    obtain ⟨l, hl, hall⟩ := h.trace_eq
    rw [newEvents_of_trace hl]; exact hall
  · right
    obtain ⟨t', ha, ht1, _, _, _, htr⟩ := checkpoint_ok_sync rfl hck
    obtain ⟨l2, hl2, hall2⟩ := hm.trace_eq
    refine ⟨t', rec, l2, ?_, hall2, ha, ht1 ▸ hl1, hst, hk, hmatch⟩
    apply newEvents_of_trace
    rw [hl2]; simp only [Engine.emit]; rw [htr]
    simp only [List.append_assoc, List.cons_append, List.nil_append, startUpd]

/-- **C04 (1a).** One call of the handler of an at-most-once step (record at `q`: anything but
CANCELLED / TIMED_OUT / STOPPED).  If a user function is entered at all, then the new events are
exactly `upd START(sync), applied START, enter q step a, …` with no further `enter`: the START was
applied by the backend in this same call *before* the function was entered, it left the record
STARTED with `a - 1` attempts made in the table that is at that moment both the current and the
durable (synchronously acknowledged) one, and the function is entered once. -/
theorem C04_start_before_enter (s : St) (q : Pos) (spec : StepSpec) (hamo : spec.amo = true)
    (hnb : ∀ r, lookup s.tbl q = some r → badSt r.status = false)
    (q' : Pos) (k : Kind) (a : Nat) (st : Option Val)
    (hin : Ev.enter q' k a st ∈ newEvents s (handleStep s q spec).st) :
    q' = q ∧ k = .step ∧ st = none ∧
    ∃ (t' : Tbl) (rec : OpRec) (l2 : List Ev),
      newEvents s (handleStep s q spec).st =
        [.upd (startUpd q), .applied (startUpd q), .enter q .step a none] ++ l2 ∧
      (∀ e ∈ l2, ∀ p k b st, e ≠ Ev.enter p k b st) ∧
      Backend.apply s.tbl (startUpd q) (s.imm q) = some t' ∧
      lookup t' q = some rec ∧ rec.status = .started ∧ rec.kind = .step ∧ rec.attempt + 1 = a := by
  have hne : ∀ l : List Ev, (∀ e ∈ l, UpdAt q e) → ∀ e ∈ l, ∀ p k b st, e ≠ Ev.enter p k b st := by
    intro l hl e he p k b st h
    subst h
    exact hl _ he
  rcases newEvents_handleStep_amo hamo hnb with h | ⟨t', rec, l2, hl, hall, ha, hl1, hst, hk, _⟩
  · exact absurd rfl (hne _ h _ hin q' k a st)
  · rw [hl] at hin
    simp only [List.cons_append, List.nil_append, List.mem_cons, reduceCtorEq, false_or] at hin
    rcases hin with hin | hin
    · injection hin with h1 h2 h3 h4
      subst h1 h2 h3 h4
      exact ⟨rfl, rfl, rfl, t', rec, l2, hl, hne _ hall, ha, hl1, hst, hk, rfl⟩
    · exact absurd rfl (hne _ hall _ hin q' k a st)

/-- What an interrupted at-most-once attempt may emit. -/
def IntrE (q : Pos) : Ev → Prop
  | .enter _ _ _ _ => False
  | .upd u => u.pos = q ∧ u.kind = .step ∧ (u.action = .retry ∨ u.action = .fail) ∧
      u.error = some (ErrObj.ofExc (StepInterrupted q)) ∧ u.sync = true
  | .deliver p o => p = q ∧ o = .err (StepInterrupted q)
  | _ => True

theorem ckE_intr {q : Pos} {u : Upd} (h : IntrE q (.upd u)) : ∀ e, CkE u e → IntrE q e := by
  intro e he
  rcases he with rfl | rfl | rfl
  · exact h
  · trivial
  · trivial

theorem retryHandler_intr (s : St) (q : Pos) (spec : StepSpec) (r : Option OpRec) :
    Mv (IntrE q) s (retryHandler s q spec r (StepInterrupted q)).st := by
  unfold retryHandler
  simp only []
  split
  · split
    · rename_i hck
      exact (checkpoint_err_mv (by issued) hck).mono (ckE_intr ⟨rfl, rfl, Or.inl rfl, rfl, rfl⟩)
    · rename_i hck
      exact (checkpoint_ok_mv (by issued) hck).mono (ckE_intr ⟨rfl, rfl, Or.inl rfl, rfl, rfl⟩)
  · split
    · rename_i hck
      exact (checkpoint_err_mv (by issued) hck).mono (ckE_intr ⟨rfl, rfl, Or.inr rfl, rfl, rfl⟩)
    · rename_i hck
      have h1 := (checkpoint_ok_mv (by issued) hck).mono
        (ckE_intr (q := q) ⟨rfl, rfl, Or.inr rfl, rfl, rfl⟩)
      have hinv : (StepInterrupted q).inv = true := rfl
      simp only [hinv, if_true]
      exact h1.trans (deliverAt_mv _ _ _ ⟨rfl, rfl⟩)

/-- **C04 (1b).** An at-most-once step found STARTED on replay is treated as interrupted: the
handler is `retry_handler` on `StepInterruptedError`; no user function is entered, and the only
updates handed over are a synchronous RETRY or FAIL carrying that error. -/
theorem C04_started_means_interrupted (s : St) (q : Pos) (spec : StepSpec) (r : OpRec)
    (hamo : spec.amo = true) (hl : lookup s.tbl q = some r) (hst : r.status = .started) :
    handleStep s q spec = retryHandler s q spec (some r) (StepInterrupted q) ∧
    ∀ e ∈ newEvents s (handleStep s q spec).st, IntrE q e := by
  have heq : handleStep s q spec = retryHandler s q spec (some r) (StepInterrupted q) := by
    unfold handleStep
    rw [hl]
    simp only [hst, hamo, beq_iff_eq, reduceCtorEq, ↓reduceIte, Bool.and_true]
  refine ⟨heq, ?_⟩
  rw [heq]
  obtain ⟨l, hl', hall⟩ := (retryHandler_intr s q spec (some r)).trace_eq
  rw [newEvents_of_trace hl']; exact hall

/-- **C04 (1c).** PENDING / SUCCEEDED / FAILED: the handler neither enters a user function nor
hands over any update. -/
theorem C04_no_enter_when_pending_or_done (s : St) (q : Pos) (spec : StepSpec) (r : OpRec)
    (hl : lookup s.tbl q = some r)
    (hst : r.status = .pending ∨ r.status = .succeeded ∨ r.status = .failed) :
    ∀ e ∈ newEvents s (handleStep s q spec).st, QuietE e := by
  have hm : Mv QuietE s (handleStep s q spec).st := by
    rcases hst with h | h | h
    · unfold handleStep
      rw [hl]
      simp only [h, beq_iff_eq, reduceCtorEq, ↓reduceIte]
      exact .refl _
    · exact handleStep_quiet spec hl (by simp [Done, h])
    · exact handleStep_quiet spec hl (by simp [Done, h])
  obtain ⟨l, hl', hall⟩ := hm.trace_eq
  rw [newEvents_of_trace hl']; exact hall

/-- **C04 (2): the lifecycle rank** (`rankO`: absent 0; PENDING(k) 3k+1, READY(k) 3k+2, STARTED(k)
3k+3, terminal(k) 3k+4).  Every accepted update and every backend event strictly raises the rank of
exactly one cell and leaves all other cells alone; and across a whole round (an invocation with any
crash point / `keep`, or an event) the rank of a position that is not hidden never decreases. -/
theorem C04_rank_monotone :
    (∀ t u imm t', Backend.apply t u imm = some t' →
        rankO (lookup t u.pos) < rankO (lookup t' u.pos) ∧ ∀ q, u.pos ≠ q → lookup t' q = lookup t q) ∧
    (∀ t ev t', Backend.fire t ev = some t' →
        ∃ p, rankO (lookup t p) < rankO (lookup t' p) ∧ ∀ q, p ≠ q → lookup t' q = lookup t q) ∧
    (∀ (p : Prog) (t : Tbl) (rd : Exec.Round) (q : Pos), Exec.hidden t q = false →
        rankO (lookup t q) ≤ rankO (lookup (Exec.runRound p t rd).tbl q)) := by
  have hstep : ∀ t t' p r', t' = upsert t p r' →
      (∀ r, lookup t p = some r → r'.kind = r.kind ∧ r.status.terminal = false ∧ rank r < rank r') →
      rankO (lookup t p) < rankO (lookup t' p) ∧ ∀ q, p ≠ q → lookup t' q = lookup t q := by
    intro t t' p r' ht' hc
    subst ht'
    refine ⟨?_, fun q hq => lookup_upsert_ne _ _ _ _ hq⟩
    rw [lookup_upsert_self]
    cases hl : lookup t p with
    | none => simp [rankO]
    | some r => have := (hc r hl).2.2; simp only [rankO]; omega
  refine ⟨?_, ?_, ?_⟩
  · intro t u imm t' ha
    obtain ⟨r', ht', hc⟩ := apply_tblStep_pos ha
    exact hstep t t' u.pos r' ht' hc
  · intro t ev t' hf
    obtain ⟨p, r', ht', hc⟩ := fire_tblStep hf
    exact ⟨p, hstep t t' p r' ht' hc⟩
  · intro p t rd q hh
    exact round_stableT' (stable_rank q (rankO (lookup t q))) p q t rd hh (Nat.le_refl _)
      (fun h => by rw [lookup_visible, hh]; simp only [Bool.false_eq_true, if_false]; exact h)


/-! ## Whole executions -/

theorem count_enter_eq (q : Pos) (a : Nat) (l : List Ev) :
    l.count (.enter q .step a none) = cntE q a l := by
  rw [List.count_eq_countP, cntE]
  congr 1
  funext e
  exact (isEnt_eq q a e).symm

/-- **C04 (3), main theorem.**  `p`: any program all of whose `step` nodes (through every
continuation) are at-most-once; `t0`: any well-formed start table (e.g. `[]`); `rounds`: any list of
invocations (any crash budget, failing call, `keep`, immediate outcomes) and backend events; `q`, `a`:
any position and attempt number.  Side condition `hq`: in the tables the rounds produce, the record
at `q` is never CANCELLED / TIMED_OUT / STOPPED (such records only come from wait / callback / invoke
operations, i.e. `q` would have to be used for a different kind of operation in another replay).
Then in the concatenated traces of all rounds the user function of `q` is entered for attempt `a`
at most once. -/
theorem C04_amo_exec (p : Prog) (hp : AllAmo p) (t0 : Tbl) (hwf : WF t0) (rounds : List Exec.Round)
    (q : Pos) (a : Nat)
    (hq : ∀ o ∈ Exec.runRounds p t0 rounds, ∀ r, lookup o.tbl q = some r → badSt r.status = false) :
    ((Exec.runRounds p t0 rounds).flatMap (·.trace)).count (.enter q .step a none) ≤ 1 := by
  rw [count_enter_eq]
  refine (amo_rounds p hp q a rounds t0 hwf ?_).1
  intro o ho ⟨r, hl, hb⟩
  rw [hq o ho r hl] at hb; cases hb

/-- Corollary: positions that only ever hold step records (the deterministic-replay situation). -/
theorem C04_amo_exec_stepPos (p : Prog) (hp : AllAmo p) (rounds : List Exec.Round) (q : Pos) (a : Nat)
    (hq : ∀ o ∈ Exec.runRounds p [] rounds, ∀ r, lookup o.tbl q = some r → r.kind = .step) :
    ((Exec.runRounds p [] rounds).flatMap (·.trace)).count (.enter q .step a none) ≤ 1 := by
  refine C04_amo_exec p hp [] wf_nil rounds q a ?_
  intro o ho r hl
  have hwf : WF o.tbl := runRounds_inv p WF (fun t rd ht => round_wf p t rd ht) rounds [] wf_nil o ho
  have hk := hq o ho r hl
  cases hb : badSt r.status with
  | false => rfl
  | true =>
    rcases (hwf _ _ hl).1 hb with h | h | h <;> rw [hk] at h <;> cases h

/-- Once attempt `a` of `q` has been started (or `q` is beyond it / hidden), it is never entered again. -/
theorem C04_amo_exec_past (p : Prog) (hp : AllAmo p) (t0 : Tbl) (hwf : WF t0) (rounds : List Exec.Round)
    (q : Pos) (a : Nat)
    (hq : ∀ o ∈ Exec.runRounds p t0 rounds, ∀ r, lookup o.tbl q = some r → badSt r.status = false)
    (hpast : PastR a q t0) :
    ((Exec.runRounds p t0 rounds).flatMap (·.trace)).count (.enter q .step a none) = 0 := by
  rw [count_enter_eq]
  refine (amo_rounds p hp q a rounds t0 hwf ?_).2 hpast
  intro o ho ⟨r, hl, hb⟩
  rw [hq o ho r hl] at hb; cases hb

/-! ## A sufficient condition on the environment

If the backend never reports TIMED_OUT / STOPPED (neither as the immediate outcome of a START nor
through a callback / invoke completion event), no record is ever CANCELLED / TIMED_OUT / STOPPED and
the side condition of `C04_amo_exec` holds for every position. -/

def GoodImm (i : Backend.Immediate) : Prop := i ≠ .timedOut ∧ i ≠ .stopped

def GoodRound : Exec.Round → Prop
  | .invoke _ _ _ imm => ∀ e ∈ imm, GoodImm e.2
  | .event (.callbackDone _ o) => GoodImm o
  | .event (.invokeDone _ o) => GoodImm o
  | .event _ => True

def NoBadT (t : Tbl) : Prop := ∀ p r, lookup t p = some r → badSt r.status = false

theorem noBad_upsert {t : Tbl} {p : Pos} {r' : OpRec} (h : NoBadT t) (hr : badSt r'.status = false) :
    NoBadT (upsert t p r') := by
  intro q r hl
  rw [lookup_upsert] at hl
  split at hl
  · cases hl; exact hr
  · exact h q r hl

theorem noBad_apply {t t' : Tbl} {u : Upd} {imm : Backend.Immediate} (hg : GoodImm imm)
    (ha : Backend.apply t u imm = some t') (h : NoBadT t) : NoBadT t' := by
  obtain ⟨r', rfl, _, hc⟩ := apply_cases ha
  refine noBad_upsert h ?_
  rcases hc with ⟨_, _, rfl⟩ | ⟨r0, _, _, _, _, rfl⟩ | ⟨r0, _, _, _, _, rfl⟩ | ⟨r0, _, _, _, _, rfl⟩ |
    ⟨r0, _, _, _, _, rfl⟩
  · obtain ⟨h1, h2⟩ := hg
    cases u.kind <;> cases imm <;> simp_all [Backend.startRec, badSt]
  all_goals simp [badSt]

theorem noBad_fire {t t' : Tbl} {ev : Backend.Event} (hg : GoodRound (.event ev))
    (hf : Backend.fire t ev = some t') (h : NoBadT t) : NoBadT t' := by
  cases ev with
  | retryReady p =>
    simp only [Backend.fire] at hf
    split at hf
    · split at hf
      · cases hf; exact noBad_upsert h (by simp [badSt])
      · cases hf
    · cases hf
  | waitDone p =>
    simp only [Backend.fire] at hf
    split at hf
    · split at hf
      · cases hf; exact noBad_upsert h (by simp [badSt])
      · cases hf
    · cases hf
  | callbackDone p o =>
    simp only [Backend.fire] at hf
    split at hf
    · rename_i r hl
      split at hf
      · rename_i hc
        cases hf
        simp only [Bool.and_eq_true, beq_iff_eq] at hc
        refine noBad_upsert h ?_
        obtain ⟨h1, h2⟩ : GoodImm o := hg
        cases o <;> simp_all [Backend.finish, badSt]
      · cases hf
    · cases hf
  | invokeDone p o =>
    simp only [Backend.fire] at hf
    split at hf
    · rename_i r hl
      split at hf
      · rename_i hc
        cases hf
        simp only [Bool.and_eq_true, beq_iff_eq] at hc
        refine noBad_upsert h ?_
        obtain ⟨h1, h2⟩ : GoodImm o := hg
        cases o <;> simp_all [Backend.finish, badSt]
      · cases hf
    · cases hf

theorem noBad_mv {E : Ev → Prop} {a b : St} (h : Mv E a b) :
    (∀ pos, GoodImm (a.imm pos)) → NoBadT a.tbl ∧ NoBadT a.syncTbl → NoBadT b.tbl ∧ NoBadT b.syncTbl := by
  induction h with
  | refl => exact fun _ h => h
  | silent e1 _ e3 e4 _ _ ih => intro hg h; exact ih (by rw [e4]; exact hg) (by rw [e1, e3]; exact h)
  | emit e _ _ ih => intro hg h; exact ih hg h
  | async u _ _ ha _ e3 e4 _ _ ih =>
    intro hg h; exact ih (by rw [e4]; exact hg) ⟨noBad_apply (hg _) ha h.1, by rw [e3]; exact h.2⟩
  | asyncRej _ _ e1 _ e3 e4 _ _ ih => intro hg h; exact ih (by rw [e4]; exact hg) (by rw [e1, e3]; exact h)
  | sync u _ ha e2 _ e4 _ _ ih =>
    intro hg h
    have := noBad_apply (hg _) ha h.1
    exact ih (by rw [e4]; exact hg) ⟨this, by rw [e2]; exact this⟩

theorem noBad_applyPrefix (imm : Pos → Backend.Immediate) (hg : ∀ pos, GoodImm (imm pos)) :
    ∀ (l : List Upd) (k : Nat) (t : Tbl), NoBadT t → NoBadT (applyPrefix t imm l k) := by
  intro l
  induction l with
  | nil => intro k t h; simpa [applyPrefix] using h
  | cons u us ih =>
    intro k t h
    cases k with
    | zero => simpa [applyPrefix] using h
    | succ k =>
      simp only [applyPrefix]
      split
      · rename_i t' ha; exact ih k t' (noBad_apply (hg _) ha h)
      · exact ih k t h

theorem goodImm_immOf (l : List (Pos × Backend.Immediate)) (h : ∀ e ∈ l, GoodImm e.2) (pos : Pos) :
    GoodImm (Exec.immOf l pos) := by
  unfold Exec.immOf
  cases hf : l.find? (fun e => e.1 == pos) with
  | none => exact ⟨by simp, by simp⟩
  | some e => exact h e (List.mem_of_find?_eq_some hf)

theorem noBad_visible {t : Tbl} (h : NoBadT t) : NoBadT (Exec.visible t) := by
  intro p r hl
  rw [lookup_visible] at hl
  split at hl
  · cases hl
  · exact h p r hl

theorem noBad_round (p : Prog) (t : Tbl) (rd : Exec.Round) (hg : GoodRound rd) (h : NoBadT t) :
    NoBadT (Exec.runRound p t rd).tbl := by
  cases rd with
  | event ev =>
    rcases runRound_event_tbl p t ev with h1 | h1
    · rw [h1]; exact h
    · exact noBad_fire hg h1 h
  | invoke b fa keep imm =>
    rw [runRound_invoke]
    simp only []
    have hgi := goodImm_immOf imm hg
    have hm := invoke_mv p (Exec.visible t) b fa (Exec.immOf imm)
    have hv := noBad_visible h
    have hb := noBad_mv hm hgi ⟨hv, hv⟩
    have himm := hm.imm_eq
    unfold finalTbl
    exact noBad_applyPrefix _ (by rw [himm]; exact hgi) _ _ _ hb.2

theorem noBad_rounds (p : Prog) : ∀ (rounds : List Exec.Round) (t : Tbl), (∀ rd ∈ rounds, GoodRound rd) →
    NoBadT t → ∀ o ∈ Exec.runRounds p t rounds, NoBadT o.tbl := by
  intro rounds
  induction rounds with
  | nil => intro t _ _ o ho; cases ho
  | cons rd rs ih =>
    intro t hg ht o ho
    simp only [Exec.runRounds, List.mem_cons] at ho
    have h1 := noBad_round p t rd (hg rd (List.mem_cons_self ..)) ht
    rcases ho with rfl | ho
    · exact h1
    · exact ih _ (fun r hr => hg r (List.mem_cons_of_mem _ hr)) h1 o ho

/-- **C04 (3), from the empty table, in an environment without TIMED_OUT / STOPPED**: no side
condition on the execution. -/
theorem C04_amo_exec_goodEnv (p : Prog) (hp : AllAmo p) (rounds : List Exec.Round)
    (hg : ∀ rd ∈ rounds, GoodRound rd) (q : Pos) (a : Nat) :
    ((Exec.runRounds p [] rounds).flatMap (·.trace)).count (.enter q .step a none) ≤ 1 :=
  C04_amo_exec p hp [] wf_nil rounds q a
    (fun o ho r hl => noBad_rounds p rounds [] hg (by intro _ _ h; cases h) o ho q r hl)

/-! ## The side condition cannot be dropped -/

namespace Witness

def stepA : StepSpec := { body := fun _ => .ok "v", amo := true, strategy := fun _ _ => none }
def stepB : StepSpec := { body := fun _ => .ok "w", amo := true, strategy := fun _ _ => none }

/-- All steps are at-most-once, but the program uses position `[2]` for an invoke when the first
step raised StepInterruptedError, and for a step when (on replay) it raised the recorded
CallableRuntimeError. -/
def prog : Prog :=
  .step stepA (fun o =>
    match o with
    | .ok v => .ret v
    | .err e => if e.inv then .invoke "x" (fun _ => .ret "r") else .step stepB (fun _ => .ret "r"))

def rounds : List Exec.Round :=
  [ .invoke 2 none 0 [],                         -- dies inside attempt 1 of [1]
    .invoke 100 none 0 [([2], .timedOut)],       -- [1] interrupted -> FAIL, then invoke [2] times out
    .invoke 100 none 0 [],                       -- replay: [1] FAILED (callable error) -> step at [2]
    .invoke 100 none 0 [] ]                      -- … and again

theorem allAmo : AllAmo prog := by
  refine ⟨rfl, fun o => ?_⟩
  cases o with
  | ok v => trivial
  | err e =>
    by_cases h : e.inv = true
    · simp only [h, if_true]; exact fun _ => trivial
    · simp only [h]; exact ⟨rfl, fun _ => trivial⟩

end Witness

/-- **The unconditional form of `C04_amo_exec` is false in the model**: the record at `[2]` is a
TIMED_OUT invoke, `handleStep` falls through to `execute` without a START, and every replay enters
attempt 1 again. -/
theorem C04_amo_exec_unconditional_is_false :
    AllAmo Witness.prog ∧
    ((Exec.runRounds Witness.prog [] Witness.rounds).flatMap (·.trace)).countP (isEnt [2] 1) = 2 :=
  ⟨Witness.allAmo, by decide⟩

/-! ## Non-vacuity -/

namespace Example

def exc0 : Exc := { cls := "E", msg := "m" }

/-- An at-most-once step whose attempt 1 fails (retried after 5 s) and whose attempt 2 succeeds. -/
def sp : StepSpec :=
  { body := fun a => if a = 1 then .err exc0 else .ok "v", amo := true,
    strategy := fun _ made => if made < 3 then some 5 else none }

def prog : Prog := .step sp (fun o => match o with | .ok v => .ret v | .err e => .raise e)

def rounds : List Exec.Round :=
  [ .invoke 100 none 0 [],          -- attempt 1 fails: RETRY, suspend
    .event (.retryReady [1]),       -- the retry timer fires: PENDING -> READY
    .invoke 2 none 0 [],            -- START (sync) applied, the invocation dies inside attempt 2
    .invoke 100 none 0 [] ]         -- replay: the record is STARTED -> StepInterruptedError -> RETRY

def outs : List Exec.RoundOut := Exec.runRounds prog [] rounds

theorem allAmo : AllAmo prog := ⟨rfl, fun o => by cases o <;> trivial⟩

/-- attempt 2 is entered exactly once in the whole execution (and so is attempt 1) … -/
example : (outs.flatMap (·.trace)).countP (isEnt [1] 2) = 1 := by decide
example : (outs.flatMap (·.trace)).countP (isEnt [1] 1) = 1 := by decide
/-- … in the third round, which crashed … -/
example : outs.map (·.ending) =
    [some (.suspended (some 5)), none, some .crashed, some (.suspended (some 5))] := by decide
example : (outs.map (fun o => o.trace.countP (isEnt [1] 2))) = [0, 0, 1, 0] := by decide
/-- … and the re-invocation does not enter anything: it sends a RETRY for StepInterruptedError. -/
example : (outs.getD 3 default).trace.map Ev.updOf =
    [some { pos := [1], kind := .step, action := .retry,
            error := some (ErrObj.ofExc (StepInterrupted [1])), delay := some 5 }, none] := by decide
example : (outs.getD 3 default).trace.any (fun e => e.isEnterAt [1]) = false := by decide
/-- The general theorem applies to this execution. -/
example : (outs.flatMap (·.trace)).count (.enter [1] .step 2 none) ≤ 1 :=
  C04_amo_exec_stepPos prog allAmo rounds [1] 2 (by decide)

end Example

end C04
