import Proofs.EngineH
/-!
# C02 — Replay transparency, handler level: outcome fidelity

Whenever a handler completes an operation in this invocation (applies SUCCEED / FAIL and delivers
`o` to user code), the record `r'` it just wrote satisfies `outcomeOf r' = o`; a later replay
short-circuits on that record and (C01) delivers `outcomeOf r'`, i.e. the same `o`.  Each positive
theorem states both halves: the fidelity equation and the replay short-circuit on any state whose
table shows `r'`.

The property **fails** for a failing wait_for_condition check (known finding F2): the first run
re-raises the original exception while the replay raises a CallableRuntimeError —
`C02_wfc_failure_divergence_witness`.

Notation from `Proofs/EngineH.lean`: `att`, `pollState`, `ticked`, `ckOk`, and the update
abbreviations `stepSucceedUpd`, `stepFailUpd`, `ctxFullUpd`, `ctxFailUpd`, `wfcSucceedUpd`,
`wfcFailUpd`.  Crash budget: 3 for `stepExecute` / `wfcExecute` (the crash point inside the user
function, and the two around the synchronous call), 2 for `childAfter` / `retryHandler`.
-/
namespace C02
open Engine EngineH

/-! ## Steps -/

/-- **C02_step_success_fidelity.** The body returns `v` and the SUCCEED goes through: the call
returns `v`, the record is SUCCEEDED with `outcomeOf r' = .ok v`, and on any state showing that
record `handleStep` (any spec) returns `v` again without running anything. -/
theorem C02_step_success_fidelity (s : St) (p : Pos) (spec : StepSpec) (r : Option OpRec) (v : Val)
    (t' : Tbl) (hbody : spec.body (att r) = .ok v)
    (hb : 3 ≤ s.budget) (hf : s.failAt ≠ some s.syncCalls)
    (ha : Backend.apply s.tbl (stepSucceedUpd p v) (s.imm p) = some t') :
    ∃ s' r', stepExecute s p spec r = .deliver (.ok v) s' ∧ s'.tbl = t' ∧
      lookup t' p = some r' ∧ Done r' = true ∧ outcomeOf r' = .ok v ∧
      ∀ (s₂ : St) (spec₂ : StepSpec), lookup s₂.tbl p = some r' →
        handleStep s₂ p spec₂ = deliverAt s₂ p (.ok v) := by
  have heq : stepExecute s p spec r =
      deliverAt (ckOk (ticked (emit s (.enter p .step (att r) none))) (stepSucceedUpd p v) t') p (.ok v) := by
    rw [stepExecute_eq, tick_pos (by simp; omega), hbody]
    simp only
    rw [checkpoint_sync_ok (s := ticked (emit s (.enter p .step (att r) none))) rfl
      (by simp; omega) hf ha]
  obtain ⟨s', hdl, _, htb⟩ := deliverAt_eq
    (ckOk (ticked (emit s (.enter p .step (att r) none))) (stepSucceedUpd p v) t') p (.ok v)
  obtain ⟨r₀, _, _, _, rfl⟩ := apply_succeed_inv (u := stepSucceedUpd p v) rfl ha
  refine ⟨s', _, heq.trans hdl, htb, lookup_upsert_self _ _ _, rfl, rfl, ?_⟩
  intro s₂ spec₂ hl₂
  exact handleStep_done spec₂ hl₂ rfl

example : ∃ (s : St) (p : Pos) (spec : StepSpec) (r : Option OpRec) (v : Val) (t' : Tbl),
    spec.body (att r) = .ok v ∧ 3 ≤ s.budget ∧ s.failAt ≠ some s.syncCalls ∧
    Backend.apply s.tbl (stepSucceedUpd p v) (s.imm p) = some t' :=
  ⟨{ tbl := [([1], { kind := .step, status := .started })], syncTbl := [], budget := 3 }, [1],
   { body := fun _ => .ok "v", strategy := fun _ _ => none }, none, "v",
   [([1], { kind := .step, status := .succeeded, result := some "v" })],
   rfl, by decide, by decide, by decide⟩

/-- **C02_step_failure_fidelity.** The body raises a non-invocation error `e`, the strategy declines
and the FAIL goes through: the call raises `CallableRuntimeError(e.msg, e.cls)`, the record is FAILED
with `outcomeOf r'` equal to exactly that, and a replay raises the same. -/
theorem C02_step_failure_fidelity (s : St) (p : Pos) (spec : StepSpec) (r : Option OpRec) (e : Exc)
    (t' : Tbl) (hbody : spec.body (att r) = .err e) (hs : spec.strategy e (att r) = none)
    (hinv : e.inv = false)
    (hb : 3 ≤ s.budget) (hf : s.failAt ≠ some s.syncCalls)
    (ha : Backend.apply s.tbl (stepFailUpd p e) (s.imm p) = some t') :
    ∃ s' r', stepExecute s p spec r = .deliver (.err (ErrObj.ofExc e).toCallable) s' ∧ s'.tbl = t' ∧
      lookup t' p = some r' ∧ Done r' = true ∧ outcomeOf r' = .err (ErrObj.ofExc e).toCallable ∧
      ∀ (s₂ : St) (spec₂ : StepSpec), lookup s₂.tbl p = some r' →
        handleStep s₂ p spec₂ = deliverAt s₂ p (.err (ErrObj.ofExc e).toCallable) := by
  have heq : stepExecute s p spec r =
      deliverAt (ckOk (ticked (emit s (.enter p .step (att r) none))) (stepFailUpd p e) t') p
        (.err (ErrObj.ofExc e).toCallable) := by
    rw [stepExecute_eq, tick_pos (by simp; omega), hbody]
    simp only
    rw [retryHandler_eq, hs]
    simp only
    rw [checkpoint_sync_ok (s := ticked (emit s (.enter p .step (att r) none))) rfl
      (by simp; omega) hf ha]
    simp [hinv]
  obtain ⟨s', hdl, _, htb⟩ := deliverAt_eq
    (ckOk (ticked (emit s (.enter p .step (att r) none))) (stepFailUpd p e) t') p
    (.err (ErrObj.ofExc e).toCallable)
  obtain ⟨r₀, _, _, _, rfl⟩ := apply_fail_inv (u := stepFailUpd p e) rfl ha
  refine ⟨s', _, heq.trans hdl, htb, lookup_upsert_self _ _ _, rfl, rfl, ?_⟩
  intro s₂ spec₂ hl₂
  exact handleStep_done spec₂ hl₂ rfl

example : ∃ (s : St) (p : Pos) (spec : StepSpec) (r : Option OpRec) (e : Exc) (t' : Tbl),
    spec.body (att r) = .err e ∧ spec.strategy e (att r) = none ∧ e.inv = false ∧ 3 ≤ s.budget ∧
    s.failAt ≠ some s.syncCalls ∧ Backend.apply s.tbl (stepFailUpd p e) (s.imm p) = some t' :=
  ⟨{ tbl := [([1], { kind := .step, status := .started })], syncTbl := [], budget := 3 }, [1],
   { body := fun _ => .err { cls := "ValueError", msg := "boom" }, strategy := fun _ _ => none }, none,
   { cls := "ValueError", msg := "boom" },
   [([1], { kind := .step, status := .failed,
            error := some { message := some "boom", type := some "ValueError" } })],
   rfl, rfl, rfl, by decide, by decide, by decide⟩

/-- **C02_step_interrupted_shape.** Invocation-level errors (`e.inv = true`, i.e.
StepInterruptedError) are *meant* to propagate, so the property does not constrain them; for the
record: when the strategy declines such an error the first run re-raises `e` itself, the FAILED
record holds `ErrObj.ofExc e`, and a replay raises `CallableRuntimeError(e.msg, e.cls)`.  The
at-most-once handler produces exactly this situation for an interrupted step (third conjunct). -/
theorem C02_step_interrupted_shape (s : St) (p : Pos) (spec : StepSpec) (r : Option OpRec) (e : Exc)
    (t' : Tbl) (hs : spec.strategy e (att r) = none) (hinv : e.inv = true)
    (hb : 2 ≤ s.budget) (hf : s.failAt ≠ some s.syncCalls)
    (ha : Backend.apply s.tbl (stepFailUpd p e) (s.imm p) = some t') :
    (∃ s' r', retryHandler s p spec r e = .deliver (.err e) s' ∧ s'.tbl = t' ∧
      lookup t' p = some r' ∧
      outcomeOf r' = .err { cls := "CallableRuntimeError", msg := e.msg, etype := some e.cls } ∧
      outcomeOf r' ≠ .err e ∧
      ∀ (s₂ : St) (spec₂ : StepSpec), lookup s₂.tbl p = some r' →
        handleStep s₂ p spec₂ =
          deliverAt s₂ p (.err { cls := "CallableRuntimeError", msg := e.msg, etype := some e.cls })) ∧
    (StepInterrupted p).inv = true ∧
    (∀ (s₀ : St) (r₀ : OpRec), lookup s₀.tbl p = some r₀ → r₀.status = .started → spec.amo = true →
      handleStep s₀ p spec = retryHandler s₀ p spec (some r₀) (StepInterrupted p)) := by
  refine ⟨?_, rfl, fun s₀ r₀ hl hst hamo => handleStep_interrupted spec hl hst hamo⟩
  have heq : retryHandler s p spec r e = deliverAt (ckOk s (stepFailUpd p e) t') p (.err e) := by
    rw [retryHandler_eq, hs]
    simp only
    rw [checkpoint_sync_ok rfl hb hf ha]
    simp [hinv]
  obtain ⟨s', hdl, _, htb⟩ := deliverAt_eq (ckOk s (stepFailUpd p e) t') p (.err e)
  obtain ⟨r₀, _, _, _, rfl⟩ := apply_fail_inv (u := stepFailUpd p e) rfl ha
  refine ⟨s', _, heq.trans hdl, htb, lookup_upsert_self _ _ _, rfl, ?_, ?_⟩
  · intro h
    have h' : ({ cls := "CallableRuntimeError", msg := e.msg, etype := some e.cls } : Exc) = e := by
      simpa [outcomeOf, callableOf, ErrObj.toCallable, ErrObj.ofExc] using h
    have : (false : Bool) = e.inv := congrArg Exc.inv h'
    rw [hinv] at this; cases this
  · intro s₂ spec₂ hl₂
    exact handleStep_done spec₂ hl₂ rfl

example : ∃ (s : St) (p : Pos) (spec : StepSpec) (r : Option OpRec) (e : Exc) (t' : Tbl),
    spec.strategy e (att r) = none ∧ e.inv = true ∧ 2 ≤ s.budget ∧
    s.failAt ≠ some s.syncCalls ∧ Backend.apply s.tbl (stepFailUpd p e) (s.imm p) = some t' :=
  ⟨{ tbl := [([1], { kind := .step, status := .started })], syncTbl := [], budget := 2 }, [1],
   { body := fun _ => .ok "v", amo := true, strategy := fun _ _ => none },
   some { kind := .step, status := .started }, { cls := "StepInterruptedError", msg := "m", inv := true },
   [([1], { kind := .step, status := .failed,
            error := some { message := some "m", type := some "StepInterruptedError" } })],
   rfl, rfl, by decide, by decide, by decide⟩

/-! ## Child contexts -/

/-- **C02_child_success_fidelity.** The body returned `v`, not too large, SUCCEED goes through: the call
returns `v`, `outcomeOf r' = .ok v`, and on any state showing `r'` `childBefore` short-circuits with
`.ok v` (the body is not run again). -/
theorem C02_child_success_fidelity (s : St) (p : Pos) (c : ChildSpec) (v : Val) (t' : Tbl)
    (hsm : c.large v = false) (hb : 2 ≤ s.budget) (hf : s.failAt ≠ some s.syncCalls)
    (ha : Backend.apply s.tbl (ctxFullUpd p v) (s.imm p) = some t') :
    ∃ s' r', childAfter s p c false (.returned v) = .deliver (.ok v) s' ∧ s'.tbl = t' ∧
      lookup t' p = some r' ∧ Done r' = true ∧ outcomeOf r' = .ok v ∧
      ∀ (s₂ : St), lookup s₂.tbl p = some r' → childBefore s₂ p = .inl (deliverAt s₂ p (.ok v)) := by
  have heq : childAfter s p c false (.returned v) =
      deliverAt (ckOk s (ctxFullUpd p v) t') p (.ok v) := by
    rw [childAfter_returned_small s p c v hsm, checkpoint_sync_ok rfl hb hf ha]
  obtain ⟨s', hdl, _, htb⟩ := deliverAt_eq (ckOk s (ctxFullUpd p v) t') p (.ok v)
  obtain ⟨r₀, _, _, _, rfl⟩ := apply_succeed_inv (u := ctxFullUpd p v) rfl ha
  refine ⟨s', _, heq.trans hdl, htb, lookup_upsert_self _ _ _, rfl, rfl, ?_⟩
  intro s₂ hl₂
  exact childBefore_done hl₂ rfl rfl

example : ∃ (s : St) (p : Pos) (c : ChildSpec) (v : Val) (t' : Tbl), c.large v = false ∧
    2 ≤ s.budget ∧ s.failAt ≠ some s.syncCalls ∧
    Backend.apply s.tbl (ctxFullUpd p v) (s.imm p) = some t' :=
  ⟨{ tbl := [([1], { kind := .context, status := .started })], syncTbl := [], budget := 2 }, [1],
   {}, "v", [([1], { kind := .context, status := .succeeded, result := some "v" })],
   rfl, by decide, by decide, by decide⟩

/-- **C02_child_failure_fidelity.** The body raised a non-invocation error `ex`, FAIL goes through: the
call raises `CallableRuntimeError(ex.msg, ex.cls)`, `outcomeOf r'` is exactly that, and `childBefore`
short-circuits with it on replay (given the record was not marked ReplayChildren). -/
theorem C02_child_failure_fidelity (s : St) (p : Pos) (c : ChildSpec) (m : Bool) (ex : Exc) (t' : Tbl)
    (hinv : ex.inv = false) (hb : 2 ≤ s.budget) (hf : s.failAt ≠ some s.syncCalls)
    (ha : Backend.apply s.tbl (ctxFailUpd p ex) (s.imm p) = some t') :
    ∃ s' r', childAfter s p c m (.raised ex) = .deliver (.err (ErrObj.ofExc ex).toCallable) s' ∧
      s'.tbl = t' ∧ lookup t' p = some r' ∧ Done r' = true ∧
      outcomeOf r' = .err (ErrObj.ofExc ex).toCallable ∧
      ∀ (s₂ : St), lookup s₂.tbl p = some r' →
        childBefore s₂ p = .inl (deliverAt s₂ p (.err (ErrObj.ofExc ex).toCallable)) := by
  have heq : childAfter s p c m (.raised ex) =
      deliverAt (ckOk s (ctxFailUpd p ex) t') p (.err (ErrObj.ofExc ex).toCallable) := by
    rw [childAfter_raised, checkpoint_sync_ok rfl hb hf ha]
    simp [hinv]
  obtain ⟨s', hdl, _, htb⟩ := deliverAt_eq (ckOk s (ctxFailUpd p ex) t') p
    (.err (ErrObj.ofExc ex).toCallable)
  obtain ⟨r₀, _, _, _, rfl⟩ := apply_fail_inv (u := ctxFailUpd p ex) rfl ha
  refine ⟨s', _, heq.trans hdl, htb, lookup_upsert_self _ _ _, rfl, rfl, ?_⟩
  intro s₂ hl₂
  -- FAILED records short-circuit whatever `replayChildren` says
  unfold childBefore
  simp [hl₂, callableOf]

example : ∃ (s : St) (p : Pos) (ex : Exc) (t' : Tbl), ex.inv = false ∧
    2 ≤ s.budget ∧ s.failAt ≠ some s.syncCalls ∧
    Backend.apply s.tbl (ctxFailUpd p ex) (s.imm p) = some t' :=
  ⟨{ tbl := [([1], { kind := .context, status := .started })], syncTbl := [], budget := 2 }, [1],
   { cls := "ValueError", msg := "boom" },
   [([1], { kind := .context, status := .failed,
            error := some { message := some "boom", type := some "ValueError" } })],
   rfl, by decide, by decide, by decide⟩

/-! ## wait_for_condition -/

/-- **C02_wfc_success_fidelity.** The check returned `ns`, the strategy said stop, SUCCEED goes through:
the call returns `ns`, `outcomeOf r' = .ok ns`, and a replay returns `ns` without polling. -/
theorem C02_wfc_success_fidelity (s : St) (p : Pos) (w : WfcSpec) (r : Option OpRec) (ns : Val)
    (t' : Tbl) (hc : w.check (pollState w r) (att r) = .ok ns) (hd : w.decide ns (att r) = none)
    (hb : 3 ≤ s.budget) (hf : s.failAt ≠ some s.syncCalls)
    (ha : Backend.apply s.tbl (wfcSucceedUpd p ns) (s.imm p) = some t') :
    ∃ s' r', wfcExecute s p w r = .deliver (.ok ns) s' ∧ s'.tbl = t' ∧
      lookup t' p = some r' ∧ Done r' = true ∧ outcomeOf r' = .ok ns ∧
      ∀ (s₂ : St) (w₂ : WfcSpec), lookup s₂.tbl p = some r' →
        handleWfc s₂ p w₂ = deliverAt s₂ p (.ok ns) := by
  have heq : wfcExecute s p w r =
      deliverAt (ckOk (ticked (emit s (.enter p .wfc (att r) (some (pollState w r)))))
        (wfcSucceedUpd p ns) t') p (.ok ns) := by
    rw [wfcExecute_eq, tick_pos (by simp; omega), hc]
    simp only [hd]
    rw [checkpoint_sync_ok (s := ticked (emit s (.enter p .wfc (att r) (some (pollState w r)))))
      rfl (by simp; omega) hf ha]
  obtain ⟨s', hdl, _, htb⟩ := deliverAt_eq
    (ckOk (ticked (emit s (.enter p .wfc (att r) (some (pollState w r)))))
      (wfcSucceedUpd p ns) t') p (.ok ns)
  obtain ⟨r₀, _, _, _, rfl⟩ := apply_succeed_inv (u := wfcSucceedUpd p ns) rfl ha
  refine ⟨s', _, heq.trans hdl, htb, lookup_upsert_self _ _ _, rfl, rfl, ?_⟩
  intro s₂ w₂ hl₂
  exact handleWfc_done w₂ hl₂ rfl

example : ∃ (s : St) (p : Pos) (w : WfcSpec) (r : Option OpRec) (ns : Val) (t' : Tbl),
    w.check (pollState w r) (att r) = .ok ns ∧ w.decide ns (att r) = none ∧ 3 ≤ s.budget ∧
    s.failAt ≠ some s.syncCalls ∧ Backend.apply s.tbl (wfcSucceedUpd p ns) (s.imm p) = some t' :=
  ⟨{ tbl := [([1], { kind := .wfc, status := .started })], syncTbl := [], budget := 3 }, [1],
   { init := "0", check := fun _ _ => .ok "1", decide := fun _ _ => none },
   some { kind := .wfc, status := .started }, "1",
   [([1], { kind := .wfc, status := .succeeded, result := some "1" })],
   rfl, rfl, by decide, by decide, by decide⟩

/-- **C02_wfc_failure_replay_shape** (the positive fact behind F2).  The check raises `e`, FAIL goes
through: the first run raises the **original** `e`; the record is FAILED with `ErrObj.ofExc e`; its
`outcomeOf` — what every replay raises — is `CallableRuntimeError(e.msg, error_type = e.cls)`. -/
theorem C02_wfc_failure_replay_shape (s : St) (p : Pos) (w : WfcSpec) (r : Option OpRec) (e : Exc)
    (t' : Tbl) (hc : w.check (pollState w r) (att r) = .err e)
    (hb : 3 ≤ s.budget) (hf : s.failAt ≠ some s.syncCalls)
    (ha : Backend.apply s.tbl (wfcFailUpd p e) (s.imm p) = some t') :
    ∃ s' r', wfcExecute s p w r = .deliver (.err e) s' ∧ s'.tbl = t' ∧
      lookup t' p = some r' ∧ Done r' = true ∧
      outcomeOf r' = .err { cls := "CallableRuntimeError", msg := e.msg, etype := some e.cls } ∧
      ∀ (s₂ : St) (w₂ : WfcSpec), lookup s₂.tbl p = some r' →
        handleWfc s₂ p w₂ =
          deliverAt s₂ p (.err { cls := "CallableRuntimeError", msg := e.msg, etype := some e.cls }) := by
  have heq : wfcExecute s p w r =
      deliverAt (ckOk (ticked (emit s (.enter p .wfc (att r) (some (pollState w r)))))
        (wfcFailUpd p e) t') p (.err e) := by
    rw [wfcExecute_eq, tick_pos (by simp; omega), hc]
    simp only
    rw [checkpoint_sync_ok (s := ticked (emit s (.enter p .wfc (att r) (some (pollState w r)))))
      rfl (by simp; omega) hf ha]
  obtain ⟨s', hdl, _, htb⟩ := deliverAt_eq
    (ckOk (ticked (emit s (.enter p .wfc (att r) (some (pollState w r)))))
      (wfcFailUpd p e) t') p (.err e)
  obtain ⟨r₀, _, _, _, rfl⟩ := apply_fail_inv (u := wfcFailUpd p e) rfl ha
  refine ⟨s', _, heq.trans hdl, htb, lookup_upsert_self _ _ _, rfl, rfl, ?_⟩
  intro s₂ w₂ hl₂
  exact handleWfc_done w₂ hl₂ rfl

/-- The statement analogous to `C02_step_failure_fidelity` for a failing wait_for_condition check:
the record written has `outcomeOf r' =` the outcome delivered in the first run.  **False** (F2). -/
def C02_wfc_failure_fidelity_full : Prop :=
  ∀ (s : St) (p : Pos) (w : WfcSpec) (r : Option OpRec) (e : Exc) (t' : Tbl),
    w.check (pollState w r) (att r) = .err e → e.inv = false →
    3 ≤ s.budget → s.failAt ≠ some s.syncCalls →
    Backend.apply s.tbl (wfcFailUpd p e) (s.imm p) = some t' →
    ∃ s' r' o, wfcExecute s p w r = .deliver o s' ∧ lookup t' p = some r' ∧ outcomeOf r' = o

/-- **C02_wfc_failure_divergence_witness** (known finding F2).  Concrete instance: a STARTED
wait_for_condition whose check raises `ValueError("boom")`.  The first run delivers
`.err ValueError("boom")`, but the FAILED record's `outcomeOf` is
`.err CallableRuntimeError("boom", error_type = "ValueError")`: replay raises a different exception
class than the original run. -/
theorem C02_wfc_failure_divergence_witness : ¬ C02_wfc_failure_fidelity_full := by
  intro h
  let e : Exc := { cls := "ValueError", msg := "boom" }
  let s : St := { tbl := [([1], { kind := .wfc, status := .started })], syncTbl := [], budget := 3 }
  let w : WfcSpec := { init := "0", check := fun _ _ => .err e, decide := fun _ _ => none }
  let t' : Tbl := [([1], { kind := .wfc, status := .failed,
                           error := some { message := some "boom", type := some "ValueError" } })]
  have ha : Backend.apply s.tbl (wfcFailUpd [1] e) (s.imm [1]) = some t' := by decide
  obtain ⟨s₁, r₁, o, hrun, hl, hout⟩ :=
    h s [1] w (some { kind := .wfc, status := .started }) e t' rfl rfl (by decide) (by decide) ha
  obtain ⟨s₂, r₂, hrun₂, _, hl₂, _, hout₂, _⟩ :=
    C02_wfc_failure_replay_shape s [1] w (some { kind := .wfc, status := .started }) e t' rfl
      (by decide) (by decide) ha
  rw [hrun₂] at hrun
  rw [hl₂] at hl
  cases hl
  cases hrun
  rw [hout₂] at hout
  exact absurd hout (by decide)

/-- The divergence is not peculiar to the witness: it occurs for **every** raised `e` (no exception
the check function can raise is a fixed point of "wrap into CallableRuntimeError with
`error_type = cls`", unless its class is already CallableRuntimeError with that very error_type). -/
theorem C02_wfc_failure_diverges_iff (e : Exc) :
    (Outcome.err { cls := "CallableRuntimeError", msg := e.msg, etype := some e.cls } = .err e) ↔
      (e.cls = "CallableRuntimeError" ∧ e.etype = some "CallableRuntimeError" ∧ e.inv = false) := by
  obtain ⟨cls, msg, etype, inv⟩ := e
  constructor
  · intro h
    simp only [Outcome.err.injEq, Exc.mk.injEq] at h
    obtain ⟨h1, _, h3, h4⟩ := h
    subst h1
    exact ⟨rfl, h3.symm, h4.symm⟩
  · rintro ⟨h1, h2, h3⟩
    simp only at h1 h2 h3
    subst h1 h2 h3
    rfl

end C02
