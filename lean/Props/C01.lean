import DurableModel.EngineSpec
import Proofs.EngineRun
/-!
# C01 — completed operations are never re-executed; their recorded outcome is returned

Statements about one invocation `Engine.run` of an arbitrary workflow `Prog` from an arbitrary
state (any table, crash budget, checkpoint fault, immediate-completion oracle).
-/
namespace C01
open Engine EngineRun

/-- The trace of an invocation extends the initial trace. -/
theorem C01_trace_grows (p : Prog) (ctx : Pos) (n : Nat) (s : St) :
    ∃ evs, (run p ctx n s).2.trace = s.trace ++ evs := (fr_run p ctx n s).trace

/-! ## Handler-level short-circuits: a `Done` record makes the handler deliver and do nothing else -/

theorem Done_cases {r : OpRec} (hd : Done r = true) : r.status = .succeeded ∨ r.status = .failed := by
  simpa [Done] using hd

theorem C01_step_shortcircuit (s : St) (q : Pos) (spec : StepSpec) (r : OpRec)
    (h : lookup s.tbl q = some r) (hd : Done r = true) :
    handleStep s q spec = deliverAt s q (outcomeOf r) := by
  unfold handleStep outcomeOf
  rw [h]
  rcases Done_cases hd with hd | hd <;> simp [hd]

theorem C01_wfc_shortcircuit (s : St) (q : Pos) (w : WfcSpec) (r : OpRec)
    (h : lookup s.tbl q = some r) (hd : Done r = true) :
    handleWfc s q w = deliverAt s q (outcomeOf r) := by
  unfold handleWfc outcomeOf
  rw [h]
  rcases Done_cases hd with hd | hd <;> simp [hd]

theorem C01_invoke_shortcircuit (s : St) (q : Pos) (payload : Val) (r : OpRec)
    (h : lookup s.tbl q = some r) (hd : Done r = true) :
    handleInvoke s q payload = deliverAt s q (outcomeOf r) := by
  unfold handleInvoke invokeTerminal outcomeOf
  rw [h]
  rcases Done_cases hd with hd | hd <;> simp [hd]

/-- A chained invoke that timed out / was stopped raises the recorded error as well. -/
theorem C01_invoke_shortcircuit_timedOut (s : St) (q : Pos) (payload : Val) (r : OpRec)
    (h : lookup s.tbl q = some r) (hd : r.status = .timedOut ∨ r.status = .stopped) :
    handleInvoke s q payload = deliverAt s q (.err (callableOf r.error)) := by
  unfold handleInvoke invokeTerminal
  rw [h]
  rcases hd with hd | hd <;> simp [hd]

theorem C01_wait_shortcircuit (s : St) (q : Pos) (secs : Nat) (r : OpRec)
    (h : lookup s.tbl q = some r) (hd : r.status = .succeeded) :
    handleWait s q secs = deliverAt s q (.ok noneVal) := by
  unfold handleWait
  rw [h]
  simp [hd]

theorem C01_wait_existing_no_update (s : St) (q : Pos) (secs : Nat) (r : OpRec)
    (h : lookup s.tbl q = some r) (hd : r.status ≠ .succeeded) :
    handleWait s q secs = .stop (.suspended (some secs)) s := by
  unfold handleWait
  rw [h]
  simp [hd]

/-- `ReplayCtx r = false` is the right side condition for a record of kind `context`; for a
record of another kind (the table is arbitrary here) what `childBefore` looks at is the
`replayChildren` flag alone, hence the hypothesis `hr` (see `C01_child_shortcircuit_full_false`). -/
theorem C01_child_shortcircuit_partial (s : St) (q : Pos) (r : OpRec)
    (h : lookup s.tbl q = some r) (hd : Done r = true)
    (hr : (r.status == .succeeded && r.replayChildren) = false) :
    childBefore s q = .inl (deliverAt s q (outcomeOf r)) := by
  unfold childBefore outcomeOf
  rw [h]
  rcases Done_cases hd with hd | hd
  · have : r.replayChildren = false := by simpa [hd] using hr
    simp [hd, this]
  · simp [hd]

theorem C01_child_shortcircuit (s : St) (q : Pos) (r : OpRec)
    (h : lookup s.tbl q = some r) (hk : r.kind = .context) (hd : Done r = true) (hr : ReplayCtx r = false) :
    childBefore s q = .inl (deliverAt s q (outcomeOf r)) :=
  C01_child_shortcircuit_partial s q r h hd (by simpa [ReplayCtx, hk] using hr)

/-- The short-circuit with `ReplayCtx r = false` alone is false when the record is not a context. -/
def C01_child_shortcircuit_full : Prop :=
  ∀ (s : St) (q : Pos) (r : OpRec), lookup s.tbl q = some r → Done r = true → ReplayCtx r = false →
    childBefore s q = .inl (deliverAt s q (outcomeOf r))

theorem C01_child_shortcircuit_full_false : ¬ C01_child_shortcircuit_full := by
  intro h
  have := h (initSt [([1], { kind := .step, status := .succeeded, replayChildren := true })] 10 none
    (fun _ => .none)) [1] { kind := .step, status := .succeeded, replayChildren := true }
    (by decide) (by decide) (by decide)
  simp [childBefore, initSt, lookup, deliverAt] at this

theorem C01_callback_existing (s : St) (q : Pos) (r : OpRec) (h : lookup s.tbl q = some r) :
    handleCbNew s q = .ok (trackReplay (emit s (.deliver q (.ok "cb"))) q) := by
  unfold handleCbNew
  rw [h]

/-! ## Terminal records never change during an invocation -/

theorem C01_terminal_persist (p : Prog) (ctx : Pos) (n : Nat) (s : St) (q : Pos) (r : OpRec)
    (h : lookup s.tbl q = some r) (ht : r.status.terminal = true) :
    lookup (run p ctx n s).2.tbl q = some r := (fr_run p ctx n s).term q r h ht

/-! ## No re-entry, recorded outcome -/

theorem Done_terminal {r : OpRec} (hd : Done r = true) : r.status.terminal = true := by
  rcases Done_cases hd with h | h <;> simp [h, Status.terminal]

section handlers
variable {q : Pos} {r : OpRec} {s0 s : St} (hd : Done r = true)
  (hr : (r.status == .succeeded && r.replayChildren) = false)
include hd

theorem quiet_handleStep (p : Pos) (spec : StepSpec) (h : Quiet q r s0 s) :
    Quiet q r s0 (handleStep s p spec).st := by
  by_cases hp : p = q
  · subst hp
    rw [C01_step_shortcircuit s p spec r h.recd hd]
    exact quiet_deliverAt h (Or.inl rfl)
  · exact quiet_frame h (frame_handleStep (Frame.refl p s)) hp (Done_terminal hd)

theorem quiet_handleWfc (p : Pos) (w : WfcSpec) (h : Quiet q r s0 s) :
    Quiet q r s0 (handleWfc s p w).st := by
  by_cases hp : p = q
  · subst hp
    rw [C01_wfc_shortcircuit s p w r h.recd hd]
    exact quiet_deliverAt h (Or.inl rfl)
  · exact quiet_frame h (frame_handleWfc (Frame.refl p s)) hp (Done_terminal hd)

theorem quiet_handleInvoke (p : Pos) (v : Val) (h : Quiet q r s0 s) :
    Quiet q r s0 (handleInvoke s p v).st := by
  by_cases hp : p = q
  · subst hp
    rw [C01_invoke_shortcircuit s p v r h.recd hd]
    exact quiet_deliverAt h (Or.inl rfl)
  · exact quiet_frame h (frame_handleInvoke (Frame.refl p s)) hp (Done_terminal hd)

theorem quiet_handleWait (p : Pos) (secs : Nat) (h : Quiet q r s0 s) :
    Quiet q r s0 (handleWait s p secs).st := by
  by_cases hp : p = q
  · subst hp
    rcases Done_cases hd with h1 | h1
    · rw [C01_wait_shortcircuit s p secs r h.recd h1]
      exact quiet_deliverAt h (Or.inr (Or.inr (Or.inl ⟨h1, rfl⟩)))
    · rw [C01_wait_existing_no_update s p secs r h.recd (by simp [h1])]
      exact h
  · exact quiet_frame h (frame_handleWait (Frame.refl p s)) hp (Done_terminal hd)

theorem quiet_handleCbNew (p : Pos) (h : Quiet q r s0 s) :
    Quiet q r s0 (Except.st (handleCbNew s p)) := by
  by_cases hp : p = q
  · subst hp
    rw [C01_callback_existing s p r h.recd]
    exact quiet_track (quiet_deliver h (Or.inr (Or.inl rfl)))
  · exact quiet_frame h (frame_handleCbNew (Frame.refl p s)) hp (Done_terminal hd)

theorem quiet_handleCbRes (p : Pos) (h : Quiet q r s0 s) :
    Quiet q r s0 (handleCbRes s p).st := by
  by_cases hp : p = q
  · subst hp
    unfold handleCbRes
    rw [h.recd]
    rcases Done_cases hd with h1 | h1
    · simp only [h1, HRes.st]
      exact quiet_deliver h (Or.inl (by simp [outcomeOf, h1]))
    · simp only [h1, HRes.st]
      exact quiet_deliver h (Or.inr (Or.inr (Or.inr ⟨h1, _, rfl⟩)))
  · exact quiet_frame h (frame_handleCbRes (Frame.refl p s)) hp (Done_terminal hd)

include hr

theorem quiet_childBefore (p : Pos) (h : Quiet q r s0 s) :
    Quiet q r s0 (childSt (childBefore s p)) := by
  by_cases hp : p = q
  · subst hp
    rw [C01_child_shortcircuit_partial s p r h.recd hd hr]
    exact quiet_deliverAt h (Or.inl rfl)
  · exact quiet_frame h (frame_childBefore (Frame.refl p s)) hp (Done_terminal hd)

theorem quiet_childAfter {s1 s2 : St} {m : Bool} (p : Pos) (c : ChildSpec) (e : End)
    (h1 : Quiet q r s0 s1) (hb : childBefore s1 p = .inr (s2, m)) (h : Quiet q r s0 s) :
    Quiet q r s0 (childAfter s p c m e).st := by
  have hp : p ≠ q := by
    rintro rfl
    rw [C01_child_shortcircuit_partial s1 p r h1.recd hd hr] at hb
    cases hb
  exact quiet_frame h (frame_childAfter (Frame.refl p s)) hp (Done_terminal hd)

end handlers

theorem quiet_run (p : Prog) (ctx : Pos) (n : Nat) (s : St) (q : Pos) (r : OpRec)
    (h : lookup s.tbl q = some r) (hd : Done r = true)
    (hr : (r.status == .succeeded && r.replayChildren) = false) :
    Quiet q r s (run p ctx n s).2 :=
  run_inv (Quiet q r s)
    (fun _ _ _ h => quiet_log h)
    (fun _ p spec h => quiet_handleStep hd p spec h)
    (fun _ p secs h => quiet_handleWait hd p secs h)
    (fun _ p h => quiet_handleCbNew hd p h)
    (fun _ p h => quiet_handleCbRes hd p h)
    (fun _ p v h => quiet_handleInvoke hd p v h)
    (fun _ p w h => quiet_handleWfc hd p w h)
    (fun _ p h => quiet_childBefore hd hr p h)
    (fun _ _ _ p c _ e _ h1 hb _ h => quiet_childAfter hd hr p c e h1 hb h)
    p ctx n s ⟨h, [], by simp, rfl, by simp⟩

theorem newEvents_of_append {s s' : St} {evs : List Ev} (h : s'.trace = s.trace ++ evs) :
    newEvents s s' = evs := by
  simp [newEvents, h]

/-- The statement with `ReplayCtx r = false` as only side condition.  It is **false** for an
ill-kinded table: `childBefore` re-traverses the body of any succeeded record whose
`replayChildren` flag is set, whatever its kind, while `ReplayCtx` also looks at the kind. -/
def C01_no_reentry_full : Prop :=
  ∀ (p : Prog) (ctx : Pos) (n : Nat) (s : St) (q : Pos) (r : OpRec),
    lookup s.tbl q = some r → Done r = true → ReplayCtx r = false →
    noTouch q (newEvents s (run p ctx n s).2) = true

/-- Witness: a *step* record carrying the ReplayChildren flag, visited by `run_in_child_context`. -/
theorem C01_no_reentry_full_false : ¬ C01_no_reentry_full := by
  intro h
  have := h (.child {} (.ret "x") (fun _ => .ret "y")) [] 0
    (initSt [([1], { kind := .step, status := .succeeded, replayChildren := true })] 10 none (fun _ => .none))
    [1] { kind := .step, status := .succeeded, replayChildren := true } (by decide) (by decide) (by decide)
  revert this
  decide

/-- **C01, no re-entry.**  If the table holds a succeeded / failed record at `q` that does not carry
the ReplayChildren mark, then *no* invocation — any workflow, any crash budget, checkpoint fault
and immediate-completion oracle in `s` — enters a user function at `q` or sends an update for `q`.
The hypothesis `hr` is necessary (see `C01_no_reentry_full_false`) and sufficient. -/
theorem C01_no_reentry_partial (p : Prog) (ctx : Pos) (n : Nat) (s : St) (q : Pos) (r : OpRec)
    (h : lookup s.tbl q = some r) (hd : Done r = true)
    (hr : (r.status == .succeeded && r.replayChildren) = false) :
    noTouch q (newEvents s (run p ctx n s).2) = true := by
  obtain ⟨evs, ht, hn, _⟩ := (quiet_run p ctx n s q r h hd hr).trace
  rw [newEvents_of_append ht]; exact hn

/-- The required statement holds as soon as the record has the kind `ReplayCtx` speaks about … -/
theorem C01_no_reentry (p : Prog) (ctx : Pos) (n : Nat) (s : St) (q : Pos) (r : OpRec)
    (h : lookup s.tbl q = some r) (hd : Done r = true) (hr : ReplayCtx r = false)
    (hk : r.kind = .context ∨ r.replayChildren = false) :
    noTouch q (newEvents s (run p ctx n s).2) = true := by
  refine C01_no_reentry_partial p ctx n s q r h hd ?_
  rcases hk with hk | hk
  · simpa [ReplayCtx, hk] using hr
  · simp [hk]

/-- **C01, recorded outcome.**  Under the hypotheses of `C01_no_reentry_partial`, whatever is
delivered at `q` during the invocation is determined by the record `r` alone:

* `outcomeOf r` — what `step`, `wait_for_condition`, `invoke`, `run_in_child_context` deliver
  (handler-level: `C01_step_shortcircuit` … `C01_child_shortcircuit`), and `Callback.result()` on a
  succeeded record;
* `.ok "cb"` — `create_callback` returns the handle for any existing record (`C01_callback_existing`);
* `.ok noneVal` — `wait` returns `None` on a succeeded record (`C01_wait_shortcircuit`);
* a `CallbackError` — `Callback.result()` on a failed record wraps the recorded message in a
  `CallbackError` rather than a `CallableRuntimeError`.

The last three cases cannot be excluded at this level: the table is arbitrary, so nothing relates
the kind of the record at `q` to the kind of the operation the program calls at `q`. -/
theorem C01_recorded_outcome (p : Prog) (ctx : Pos) (n : Nat) (s : St) (q : Pos) (r : OpRec)
    (h : lookup s.tbl q = some r) (hd : Done r = true)
    (hr : (r.status == .succeeded && r.replayChildren) = false) (o : Outcome)
    (ho : Ev.deliver q o ∈ newEvents s (run p ctx n s).2) :
    o = outcomeOf r ∨ o = .ok "cb" ∨ (r.status = .succeeded ∧ o = .ok noneVal) ∨
    (r.status = .failed ∧ ∃ m, o = .err { cls := "CallbackError", msg := m }) := by
  obtain ⟨evs, ht, _, hs⟩ := (quiet_run p ctx n s q r h hd hr).trace
  rw [newEvents_of_append ht] at ho
  exact hs o ho

/-- The record is still there, unchanged, when the invocation ends. -/
theorem C01_record_kept (p : Prog) (ctx : Pos) (n : Nat) (s : St) (q : Pos) (r : OpRec)
    (h : lookup s.tbl q = some r) (hd : Done r = true) :
    lookup (run p ctx n s).2.tbl q = some r :=
  C01_terminal_persist p ctx n s q r h (Done_terminal hd)

/-! ## Within one invocation -/

/-- **C01, same invocation.**  Split the events of an invocation (any workflow, any start state) at
an `applied u` where `u` is a terminal update (SUCCEED / FAIL) other than a ReplayChildren success:
no user function is entered at `u.pos` afterwards.  (No hypothesis on the start state is needed: the
statement is about the events appended by this invocation.) -/
theorem C01_same_invocation (p : Prog) (ctx : Pos) (n : Nat) (s : St) (pre post : List Ev) (u : Upd)
    (hdec : newEvents s (run p ctx n s).2 = pre ++ .applied u :: post)
    (ht : u.isTerminal = true) (hr : (u.action == .succeed && u.replayChildren) = false) :
    ∀ e ∈ post, e.isEnterAt u.pos = false := by
  obtain ⟨evs, h1, h2, _⟩ := (si_run p ctx n s).trace
  rw [newEvents_of_append h1] at hdec
  rw [hdec] at h2
  exact good_decomp h2 (by simp [TermU, ht, hr])

/-- … and the record written by that update is still there, finished, when the invocation ends. -/
theorem C01_same_invocation_record (p : Prog) (ctx : Pos) (n : Nat) (s : St) (u : Upd)
    (hu : Ev.applied u ∈ newEvents s (run p ctx n s).2)
    (ht : u.isTerminal = true) (hr : (u.action == .succeed && u.replayChildren) = false) :
    ∃ r, lookup (run p ctx n s).2.tbl u.pos = some r ∧ Done r = true := by
  obtain ⟨evs, h1, _, h3⟩ := (si_run p ctx n s).trace
  rw [newEvents_of_append h1] at hu
  obtain ⟨r, hl, hd⟩ := h3 u hu (by simp [TermU, ht, hr])
  exact ⟨r, hl, by simp only [DoneNR, Bool.and_eq_true] at hd; exact hd.1⟩

/-! ## Non-vacuity: a concrete replay -/

section demo

def noRetry : RetryStrategy := fun _ _ => none

/-- `a = step(...); b = step(...); wait(5); return "done"` -/
def demo : Prog :=
  .step { body := fun _ => .ok "a-fresh", strategy := noRetry } fun _ =>
  .step { body := fun _ => .ok "b", strategy := noRetry } fun _ =>
  .wait 5 (.ret "done")

/-- History: the first step succeeded with "a". -/
def demoTbl : Tbl := [([1], { kind := .step, status := .succeeded, result := some "a" })]
def demoSt : St := initSt demoTbl 10 none (fun _ => .none)

/-- The replay delivers the *recorded* value "a" (not "a-fresh") without entering step 1, then
runs step 2 (async START, enter, synchronous SUCCEED, deliver) and parks on the wait. -/
example : newEvents demoSt (run demo [] 0 demoSt).2 =
    [ .deliver [1] (.ok "a"),
      .upd { pos := [2], kind := .step, action := .start, sync := false },
      .applied { pos := [2], kind := .step, action := .start, sync := false },
      .enter [2] .step 1 none,
      .upd { pos := [2], kind := .step, action := .succeed, payload := some "b" },
      .applied { pos := [2], kind := .step, action := .succeed, payload := some "b" },
      .deliver [2] (.ok "b"),
      .upd { pos := [3], kind := .wait, action := .start, delay := some 5 },
      .applied { pos := [3], kind := .wait, action := .start, delay := some 5 } ] := by decide

example : (run demo [] 0 demoSt).1 = .suspended (some 5) := by decide

/-- The hypotheses of `C01_no_reentry_partial` / `C01_recorded_outcome` are satisfiable … -/
example : lookup demoSt.tbl [1] = some { kind := .step, status := .succeeded, result := some "a" } ∧
    Done { kind := .step, status := .succeeded, result := some "a" } = true := by decide

/-- … and the conclusion is not vacuous: something *is* delivered at `[1]`, namely `outcomeOf r`. -/
example : Ev.deliver [1] (outcomeOf { kind := .step, status := .succeeded, result := some "a" })
    ∈ newEvents demoSt (run demo [] 0 demoSt).2 := by decide

/-- From the empty history the same program does enter step 1: `noTouch` is a real constraint. -/
example : noTouch [1] (newEvents (initSt [] 10 none (fun _ => .none))
    (run demo [] 0 (initSt [] 10 none (fun _ => .none))).2) = false := by decide

/-- `C01_same_invocation` is not vacuous: from the empty history step 1's SUCCEED is applied. -/
example : Ev.applied { pos := [1], kind := .step, action := .succeed, payload := some "a-fresh" }
    ∈ newEvents (initSt [] 10 none (fun _ => .none))
        (run demo [] 0 (initSt [] 10 none (fun _ => .none))).2 := by decide

end demo

end C01
