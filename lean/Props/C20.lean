import DurableModel.Wire
import Proofs.Wire
/-!
# C20 — wire round trips of updates, operations, invocation input and output

Model: `DurableModel/Wire.lean` (branch-by-branch mirror of `lambda_service.py` / `execution.py`).
Decoders return `Option`; `none` = Python raises **or** silently builds an ill-typed object (see the
header of `Wire.lean`).

State of the code: after the fixes to `Operation.to_dict` (ContextDetails now carries
`ReplayChildren` and `Error`), `Operation.from_dict` (ChainedInvokeDetails read through its own
variable) and `TimestampConverter.to_unix_millis` (exact integer floor division).

The property as stated is still **false** for the code, but only through harmless losses:

| statement                                   | status                                             |
|---------------------------------------------|----------------------------------------------------|
| ErrorObject, the five Options               | full round trip (`C20_error_roundtrip`, `C20_options_roundtrip`) |
| update has all options on the wire          | full (`C20_update_has_all_options`)                 |
| dict decode of an encoded operation/input   | always succeeds (`C20_operation_roundtrip_total`, `C20_input_roundtrip_total`) |
| `replay_children` preserved                 | full, dict and JSON (`C20_replay_children_preserved`, `_json`) |
| context result / non-all-None context error | full (`C20_context_details_preserved`, `C20_context_error_preserved`) |
| OperationUpdate dict round trip             | FALSE (`_witness`: all-None error); `_iff`/`_partial` |
| Operation dict round trip                   | FALSE (3 witnesses: empty WaitDetails, empty ChainedInvokeDetails, all-None error in details); `_iff`/`_partial` |
| Operation JSON round trip                   | FALSE (dict witnesses + epoch-ms-0); `_partial`     |
| replay fields preserved                     | `_partial` corollary                                |
| invocation input dict/JSON round trip       | FALSE (witness); `_partial`                         |
| invocation output round trip                | FALSE (`_witness`: all-None error); `_iff`/`_partial` |

For every decoder∘encoder the *exact image* is also given (`C20_*_exact`), with no hypotheses.
-/
namespace C20
open Wire

/-! ## The two permitted changes -/

/-- Permitted change 1: an empty optional string becomes `None` (where the wire form omits it). -/
def normStr : Option String → Option String
  | some s => if s = "" then none else some s
  | none => none

/-- Permitted change 2 (JSON variants only): truncation of a microsecond timestamp to milliseconds. -/
def truncMs (micros : Int) : Int := (micros / 1000) * 1000

/-- Updates: `ParentId`, `Name`, `Payload` are omitted when empty (lambda_service.py:369-376). -/
def normUpdate (u : OperationUpdate) : OperationUpdate :=
  { u with parent_id := normStr u.parent_id, name := normStr u.name, payload := normStr u.payload }

/-- StepDetails: `Result` is omitted when empty (lambda_service.py:842). -/
def normStep (d : StepDetails) : StepDetails := { d with result := normStr d.result }
/-- CallbackDetails: `Result` is omitted when empty (lambda_service.py:857). -/
def normCallback (d : CallbackDetails) : CallbackDetails := { d with result := normStr d.result }
/-- ChainedInvokeDetails: `Result` is omitted when empty (lambda_service.py:864). -/
def normChained (d : ChainedInvokeDetails) : ChainedInvokeDetails :=
  { d with result := normStr d.result }

/-- Operations: `ParentId`, `Name` and the three `Result`s above are omitted when empty.
(`ContextDetails.result` and `ExecutionDetails.input_payload` are emitted even when empty/None, so
they are NOT normalised; `ContextDetails.replay_children`/`error` are not touched either.) -/
def normOperation (o : Operation) : Operation :=
  { o with parent_id := normStr o.parent_id, name := normStr o.name,
           step_details := o.step_details.map normStep,
           callback_details := o.callback_details.map normCallback,
           chained_invoke_details := o.chained_invoke_details.map normChained }

/-- Millisecond truncation of the four timestamps of an operation. -/
def truncOperation (o : Operation) : Operation :=
  { o with start_timestamp := o.start_timestamp.map truncMs,
           end_timestamp := o.end_timestamp.map truncMs,
           step_details := o.step_details.map
             (fun d => { d with next_attempt_timestamp := d.next_attempt_timestamp.map truncMs }),
           wait_details := o.wait_details.map
             (fun d => { scheduled_end_timestamp := d.scheduled_end_timestamp.map truncMs }) }

/-- JSON variant: both permitted changes. -/
def normOperationJson (o : Operation) : Operation := normOperation (truncOperation o)

/-- Invocation input: every operation normalised. -/
def normInput (i : DurableExecutionInvocationInput) : DurableExecutionInvocationInput :=
  { i with initial_execution_state :=
      { i.initial_execution_state with
        operations := i.initial_execution_state.operations.map normOperation } }

/-- Invocation input, JSON variant. -/
def normInputJson (i : DurableExecutionInvocationInput) : DurableExecutionInvocationInput :=
  { i with initial_execution_state :=
      { i.initial_execution_state with
        operations := i.initial_execution_state.operations.map normOperationJson } }

/-- Invocation output: nothing is normalised (`Result` is kept even when empty, execution.py:220). -/
def normOutput (o : DurableExecutionInvocationOutput) : DurableExecutionInvocationOutput := o

/-! ## Shapes that do not survive -/

/-- At least one field of the error is not `None`. -/
def errNonEmpty (e : ErrorObject) : Prop :=
  e.message ≠ none ∨ e.type ≠ none ∨ e.data ≠ none ∨ e.stack_trace ≠ none

/-- The optional error is absent or has at least one non-`None` field. -/
def errOk (e : Option ErrorObject) : Prop := ∀ x, e = some x → errNonEmpty x

/-- ContextDetails survives unless its error is all-None. -/
def ctxOk (d : Option ContextDetails) : Prop := ∀ x, d = some x → errOk x.error
/-- StepDetails survives unless its error is all-None. -/
def stepOk (d : Option StepDetails) : Prop := ∀ x, d = some x → errOk x.error
/-- WaitDetails survives only with a timestamp (an empty one comes back as `None`). -/
def waitOk (d : Option WaitDetails) : Prop := ∀ x, d = some x → x.scheduled_end_timestamp ≠ none
/-- CallbackDetails survives unless its error is all-None. -/
def callbackOk (d : Option CallbackDetails) : Prop := ∀ x, d = some x → errOk x.error
/-- ChainedInvokeDetails survives unless its error is all-None or it has neither a non-empty result
nor an error (the empty one comes back as `None`). -/
def chainedOk (d : Option ChainedInvokeDetails) : Prop :=
  ∀ x, d = some x → errOk x.error ∧ (normStr x.result ≠ none ∨ x.error ≠ none)

/-- The operations for which the dict round trip is exact up to `normOperation`. -/
def opOk (o : Operation) : Prop :=
  ctxOk o.context_details ∧ stepOk o.step_details ∧ waitOk o.wait_details ∧
  callbackOk o.callback_details ∧ chainedOk o.chained_invoke_details

/-- No present timestamp lies in epoch millisecond 0, i.e. in `[0 µs, 1000 µs)`. -/
def tsOk (t : Option Int) : Prop := ∀ m, t = some m → toMs m ≠ 0

/-- No timestamp of the operation is at epoch millisecond 0. -/
def opTsOk (o : Operation) : Prop :=
  tsOk o.start_timestamp ∧ tsOk o.end_timestamp ∧
  (∀ d, o.step_details = some d → tsOk d.next_attempt_timestamp) ∧
  (∀ d, o.wait_details = some d → tsOk d.scheduled_end_timestamp)

/-! ### Bridges to the helper file -/

theorem normStr_eq (s : Option String) : normStr s = truthyStr s := by
  cases s <;> rfl
theorem truncMs_eq : truncMs = WireProofs.truncMs := rfl
theorem truncOperation_eq (o : Operation) : truncOperation o = WireProofs.truncOperation o := rfl
theorem opTsOk_iff (o : Operation) : opTsOk o ↔ WireProofs.opNoEpoch o := Iff.rfl

theorem errOk_iff (e : Option ErrorObject) : WireProofs.imgError e = e ↔ errOk e := by
  cases e with
  | none => simp [WireProofs.imgError, errOk]
  | some x =>
    obtain ⟨m, t, d, s⟩ := x
    cases m <;> cases t <;> cases d <;> cases s <;>
      simp [WireProofs.imgError, WireProofs.allNone, errOk, errNonEmpty]

/-! ## ErrorObject and Options: full round trips -/

/-- Every ErrorObject (including the all-None one, *as a standalone object*) round-trips exactly. -/
theorem C20_error_roundtrip (e : ErrorObject) : ErrorObject.fromDict e.toDict = some e :=
  WireProofs.error_rt e

theorem C20_options_roundtrip_step (o : StepOptions) : StepOptions.fromDict o.toDict = some o :=
  WireProofs.stepOptions_rt o
theorem C20_options_roundtrip_wait (o : WaitOptions) : WaitOptions.fromDict o.toDict = some o :=
  WireProofs.waitOptions_rt o
theorem C20_options_roundtrip_callback (o : CallbackOptions) :
    CallbackOptions.fromDict o.toDict = some o :=
  WireProofs.callbackOptions_rt o
theorem C20_options_roundtrip_chained_invoke (o : ChainedInvokeOptions) :
    ChainedInvokeOptions.fromDict o.toDict = some o :=
  WireProofs.chainedInvokeOptions_rt o
theorem C20_options_roundtrip_context (o : ContextOptions) :
    ContextOptions.fromDict o.toDict = some o :=
  WireProofs.contextOptions_rt o

/-- All five Options classes round-trip exactly (no normalisation at all: `tenant_id = ""` is kept). -/
theorem C20_options_roundtrip :
    (∀ o : StepOptions, StepOptions.fromDict o.toDict = some o) ∧
    (∀ o : WaitOptions, WaitOptions.fromDict o.toDict = some o) ∧
    (∀ o : CallbackOptions, CallbackOptions.fromDict o.toDict = some o) ∧
    (∀ o : ChainedInvokeOptions, ChainedInvokeOptions.fromDict o.toDict = some o) ∧
    (∀ o : ContextOptions, ContextOptions.fromDict o.toDict = some o) :=
  ⟨C20_options_roundtrip_step, C20_options_roundtrip_wait, C20_options_roundtrip_callback,
   C20_options_roundtrip_chained_invoke, C20_options_roundtrip_context⟩

/-! ## OperationUpdate -/

/-- Exact image, no hypotheses: besides `normUpdate`, an all-None error becomes `None`. -/
theorem C20_update_roundtrip_exact (u : OperationUpdate) :
    OperationUpdate.fromDict u.toDict
      = some { normUpdate u with error := WireProofs.imgError u.error } := by
  rw [WireProofs.update_rt]
  simp [WireProofs.imgUpdate, normUpdate, normStr_eq]

/-- The full-strength statement. It is FALSE, see the witness. -/
def C20_update_roundtrip_full : Prop :=
  ∀ u : OperationUpdate, OperationUpdate.fromDict u.toDict = some (normUpdate u)

/-- The update carrying an all-None ErrorObject: `to_dict` emits `"Error": {}`, which `from_dict`'s
`if data.get("Error")` treats as absent. -/
def updateWitness : OperationUpdate :=
  { operation_id := "1", operation_type := .step, action := .fail,
    error := some { message := none, type := none, data := none, stack_trace := none } }

theorem C20_update_roundtrip_witness : ¬ C20_update_roundtrip_full := by
  intro h
  have := h updateWitness
  rw [C20_update_roundtrip_exact] at this
  revert this
  decide

/-- The round trip is exact (up to `normUpdate`) **iff** the error is absent or not all-None. -/
theorem C20_update_roundtrip_iff (u : OperationUpdate) :
    OperationUpdate.fromDict u.toDict = some (normUpdate u) ↔ errOk u.error := by
  rw [C20_update_roundtrip_exact, ← errOk_iff]
  simp [normUpdate]

theorem C20_update_roundtrip_partial (u : OperationUpdate) (h : errOk u.error) :
    OperationUpdate.fromDict u.toDict = some (normUpdate u) :=
  (C20_update_roundtrip_iff u).2 h

/-- Non-vacuity: an update with every option, empty strings and a real error. -/
example :
    let u : OperationUpdate :=
      { operation_id := "1-2", operation_type := .chainedInvoke, action := .retry,
        parent_id := some "", name := some "n", sub_type := some .waitForCondition,
        payload := some "", error := some ⟨some "boom", none, none, some []⟩,
        context_options := some ⟨true⟩, step_options := some ⟨3⟩, wait_options := some ⟨1⟩,
        callback_options := some ⟨0, 5⟩, chained_invoke_options := some ⟨"f", some ""⟩ }
    errOk u.error ∧ normUpdate u ≠ u := by
  constructor
  · intro x hx; cases hx; simp [errNonEmpty]
  · decide

/-- The wire form of an update contains every option the update was created with, as that option's
own dict, under the backend's key. -/
theorem C20_update_has_all_options (u : OperationUpdate) :
    (∀ o, u.context_options = some o → u.toDict.get "ContextOptions" = some o.toDict) ∧
    (∀ o, u.step_options = some o → u.toDict.get "StepOptions" = some o.toDict) ∧
    (∀ o, u.wait_options = some o → u.toDict.get "WaitOptions" = some o.toDict) ∧
    (∀ o, u.callback_options = some o → u.toDict.get "CallbackOptions" = some o.toDict) ∧
    (∀ o, u.chained_invoke_options = some o →
      u.toDict.get "ChainedInvokeOptions" = some o.toDict) := by
  refine ⟨?_, ?_, ?_, ?_, ?_⟩ <;> intro o h <;>
    simp [OperationUpdate.toDict, DV.get, WireProofs.lkU_ContextOptions, WireProofs.lkU_StepOptions,
      WireProofs.lkU_WaitOptions, WireProofs.lkU_CallbackOptions,
      WireProofs.lkU_ChainedInvokeOptions, h]

/-- … and conversely no option key appears that the update was not created with. -/
theorem C20_update_has_only_its_options (u : OperationUpdate) :
    (u.context_options = none → u.toDict.get "ContextOptions" = none) ∧
    (u.step_options = none → u.toDict.get "StepOptions" = none) ∧
    (u.wait_options = none → u.toDict.get "WaitOptions" = none) ∧
    (u.callback_options = none → u.toDict.get "CallbackOptions" = none) ∧
    (u.chained_invoke_options = none → u.toDict.get "ChainedInvokeOptions" = none) := by
  refine ⟨?_, ?_, ?_, ?_, ?_⟩ <;> intro h <;>
    simp [OperationUpdate.toDict, DV.get, WireProofs.lkU_ContextOptions, WireProofs.lkU_StepOptions,
      WireProofs.lkU_WaitOptions, WireProofs.lkU_CallbackOptions,
      WireProofs.lkU_ChainedInvokeOptions, h]

example :
    let u : OperationUpdate :=
      { operation_id := "1", operation_type := .callback, action := .start,
        callback_options := some ⟨0, 5⟩ }
    u.callback_options = some ⟨0, 5⟩ ∧
    u.toDict.get "CallbackOptions"
      = some (.dict [("TimeoutSeconds", .int 0), ("HeartbeatTimeoutSeconds", .int 5)]) := by
  refine ⟨rfl, ?_⟩
  simp [OperationUpdate.toDict, DV.get, WireProofs.lkU_CallbackOptions, CallbackOptions.toDict]

/-! ## Operation — dict round trip -/

/-- Exact result of `from_dict ∘ to_dict`, no hypotheses: the decode always succeeds and yields
`WireProofs.imgOperation o` (empty strings dropped where omitted, all-None errors inside details
dropped, empty WaitDetails / ChainedInvokeDetails dropped; everything else — in particular the whole
ContextDetails up to an all-None error — unchanged). -/
theorem C20_operation_roundtrip_exact (o : Operation) :
    Operation.fromDict o.toDict = some (WireProofs.imgOperation o) :=
  WireProofs.operation_rt o

/-- The dict decode of an encoded operation never fails and never yields an ill-typed object. -/
theorem C20_operation_roundtrip_total (o : Operation) :
    ∃ o', Operation.fromDict o.toDict = some o' :=
  ⟨_, C20_operation_roundtrip_exact o⟩

/-- The full-strength statement. It is FALSE, see the three witnesses (all harmless losses). -/
def C20_operation_roundtrip_full : Prop :=
  ∀ o : Operation, Operation.fromDict o.toDict = some (normOperation o)

/-- Cause 1: a WaitDetails without timestamp is emitted as `{}` and read back as `None`. -/
def opWitnessWait : Operation :=
  { operation_id := "1", operation_type := .wait, status := .started, wait_details := some {} }

/-- Cause 2: a ChainedInvokeDetails with neither result nor error is emitted as `{}` and read back
as `None`. -/
def opWitnessChained : Operation :=
  { operation_id := "1", operation_type := .chainedInvoke, status := .started,
    chained_invoke_details := some {} }

/-- Cause 3: an all-None error inside a details object is emitted as `"Error": {}` and read back as
`None` (here in StepDetails; the same holds in Context-, Callback- and ChainedInvokeDetails). -/
def opWitnessStepError : Operation :=
  { operation_id := "1", operation_type := .step, status := .failed,
    step_details := some { attempt := 2, error := some ⟨none, none, none, none⟩ } }

/-- Cause 3 again, in the (now emitted) ContextDetails error. -/
def opWitnessContextAllNoneError : Operation :=
  { operation_id := "1", operation_type := .context, status := .failed,
    context_details := some { replay_children := true, error := some ⟨none, none, none, none⟩ } }

/-- What the code returns for the first two witnesses: the details come back as `None`. -/
theorem C20_operation_roundtrip_witness_wait_value :
    Operation.fromDict opWitnessWait.toDict = some { opWitnessWait with wait_details := none } := by
  rw [C20_operation_roundtrip_exact]; decide
theorem C20_operation_roundtrip_witness_chained_value :
    Operation.fromDict opWitnessChained.toDict
      = some { opWitnessChained with chained_invoke_details := none } := by
  rw [C20_operation_roundtrip_exact]; decide

theorem C20_operation_roundtrip_witness_wait :
    Operation.fromDict opWitnessWait.toDict ≠ some (normOperation opWitnessWait) := by
  rw [C20_operation_roundtrip_exact]; decide
theorem C20_operation_roundtrip_witness_chained :
    Operation.fromDict opWitnessChained.toDict ≠ some (normOperation opWitnessChained) := by
  rw [C20_operation_roundtrip_exact]; decide
theorem C20_operation_roundtrip_witness_step_error :
    Operation.fromDict opWitnessStepError.toDict ≠ some (normOperation opWitnessStepError) := by
  rw [C20_operation_roundtrip_exact]; decide
theorem C20_operation_roundtrip_witness_context_allnone_error :
    Operation.fromDict opWitnessContextAllNoneError.toDict
      ≠ some (normOperation opWitnessContextAllNoneError) := by
  rw [C20_operation_roundtrip_exact]; decide

theorem C20_operation_roundtrip_witness : ¬ C20_operation_roundtrip_full :=
  fun h => C20_operation_roundtrip_witness_wait (h opWitnessWait)

/-! ### per-field characterisations -/

theorem ctxOk_iff (d : Option ContextDetails) : d.map WireProofs.imgContext = d ↔ ctxOk d := by
  cases d with
  | none => simp [ctxOk]
  | some x =>
    obtain ⟨rc, r, e⟩ := x
    simp only [Option.map_some, Option.some.injEq, WireProofs.imgContext, ContextDetails.mk.injEq,
      ctxOk, true_and, forall_eq', errOk_iff]

theorem stepOk_iff (d : Option StepDetails) : d.map WireProofs.imgStep = d.map normStep ↔ stepOk d := by
  cases d with
  | none => simp [stepOk]
  | some x =>
    simp only [Option.map_some, Option.some.injEq, WireProofs.imgStep, normStep, stepOk,
      StepDetails.mk.injEq, normStr_eq, true_and, forall_eq', errOk_iff]

theorem waitOk_iff (d : Option WaitDetails) : WireProofs.imgWait d = d ↔ waitOk d := by
  cases d with
  | none => simp [waitOk, WireProofs.imgWait]
  | some x =>
    obtain ⟨t⟩ := x
    cases t <;> simp [WireProofs.imgWait, waitOk]

theorem callbackOk_iff (d : Option CallbackDetails) :
    d.map WireProofs.imgCallback = d.map normCallback ↔ callbackOk d := by
  cases d with
  | none => simp [callbackOk]
  | some x =>
    simp only [Option.map_some, Option.some.injEq, WireProofs.imgCallback, normCallback, callbackOk,
      CallbackDetails.mk.injEq, normStr_eq, true_and, forall_eq', errOk_iff]

theorem chainedOk_iff (d : Option ChainedInvokeDetails) :
    WireProofs.imgChainedOpt d = d.map normChained ↔ chainedOk d := by
  cases d with
  | none => simp [chainedOk, WireProofs.imgChainedOpt]
  | some x =>
    obtain ⟨r, e⟩ := x
    have key : chainedOk (some ⟨r, e⟩)
        ↔ (WireProofs.imgError e = e ∧ (truthyStr r ≠ none ∨ e ≠ none)) := by
      simp [chainedOk, errOk_iff, normStr_eq]
    rw [key]
    cases h : truthyStr r <;> cases e <;>
      simp [WireProofs.imgChainedOpt, WireProofs.imgChained, normChained, normStr_eq, h,
        WireProofs.imgError]

/-- **Operation dict round trip, exact characterisation**: `from_dict (to_dict o)` equals `o` up to
the permitted omission of empty strings **iff** `o` has none of the three failing shapes (all-None
error inside a details object, empty WaitDetails, empty ChainedInvokeDetails). -/
theorem C20_operation_roundtrip_iff (o : Operation) :
    Operation.fromDict o.toDict = some (normOperation o) ↔ opOk o := by
  rw [C20_operation_roundtrip_exact, opOk, ← ctxOk_iff, ← stepOk_iff, ← waitOk_iff,
    ← callbackOk_iff, ← chainedOk_iff]
  simp [WireProofs.imgOperation, normOperation, normStr_eq]

theorem C20_operation_roundtrip_partial (o : Operation) (h : opOk o) :
    Operation.fromDict o.toDict = some (normOperation o) :=
  (C20_operation_roundtrip_iff o).2 h

/-- A non-trivial operation satisfying every hypothesis (`opOk` and `opTsOk`): all six details
present, empty strings that get normalised, pre-epoch and sub-millisecond timestamps. -/
def opExample : Operation :=
  { operation_id := "1-2", operation_type := .step, status := .pending,
    parent_id := some "", name := some "n",
    start_timestamp := some 1700000000123456, end_timestamp := some (-1500),
    sub_type := some .waitForCondition,
    execution_details := some { input_payload := some "" },
    context_details := some { replay_children := true, result := some "",
                              error := some ⟨some "ctx failed", some "E", none, none⟩ },
    step_details := some { attempt := 3, next_attempt_timestamp := some 1700000001000999,
                           result := some "", error := some ⟨some "boom", none, none, some []⟩ },
    wait_details := some { scheduled_end_timestamp := some 1234567 },
    callback_details := some { callback_id := "cb", result := some "x",
                               error := some ⟨none, some "T", none, none⟩ },
    chained_invoke_details := some { result := some "", error := some ⟨none, none, some "d", none⟩ } }

theorem opExample_ok : opOk opExample := by
  simp [opOk, ctxOk, stepOk, waitOk, callbackOk, chainedOk, errOk, errNonEmpty, opExample]

theorem opExample_tsOk : opTsOk opExample := by
  simp [opTsOk, tsOk, opExample, toMs]

example : opOk opExample ∧ normOperation opExample ≠ opExample := ⟨opExample_ok, by decide⟩

/-! ## Operation — JSON round trip -/

/-- The full-strength statement. It is FALSE. -/
def C20_operation_json_roundtrip_full : Prop :=
  ∀ o : Operation, Operation.fromJsonDict o.toJsonDict = some (normOperationJson o)

/-- JSON-specific cause: a timestamp in epoch millisecond 0 becomes the integer `0`, which
`from_json_dict`'s `if ms := …` treats as absent and leaves unconverted; the resulting Operation has
the *integer* 0 in a datetime field (ill-typed: `none`). -/
def opWitnessEpoch : Operation :=
  { operation_id := "1", operation_type := .step, status := .started, start_timestamp := some 0 }

theorem C20_operation_json_roundtrip_witness_epoch :
    Operation.fromJsonDict opWitnessEpoch.toJsonDict ≠ some (normOperationJson opWitnessEpoch) := by
  decide

/-- The wire form that causes it: `StartTimestamp` is the integer 0. -/
theorem C20_operation_json_witness_epoch_wire :
    opWitnessEpoch.toJsonDict.get "StartTimestamp" = some (.int 0) := by
  simp [Operation.toJsonDict, DV.get, Operation.jsonifyKVs, WireProofs.lookup_toMillisNested,
    WireProofs.lookup_toMillisField, WireProofs.lkO_Start, WireProofs.tsToMsDV, opWitnessEpoch,
    toMs]

/-- The empty WaitDetails is lost by the JSON round trip as well. -/
theorem C20_operation_json_roundtrip_witness_wait :
    Operation.fromJsonDict opWitnessWait.toJsonDict ≠ some (normOperationJson opWitnessWait) := by
  decide

theorem C20_operation_json_roundtrip_witness : ¬ C20_operation_json_roundtrip_full :=
  fun h => C20_operation_json_roundtrip_witness_epoch (h opWitnessEpoch)

theorem opOk_trunc (o : Operation) (h : opOk o) : opOk (truncOperation o) := by
  obtain ⟨h1, h2, h3, h4, h5⟩ := h
  refine ⟨h1, ?_, ?_, h4, h5⟩
  · intro x hx
    cases hs : o.step_details with
    | none => simp [truncOperation, hs] at hx
    | some d =>
      simp [truncOperation, hs] at hx
      subst hx
      exact h2 d hs
  · intro x hx
    cases hs : o.wait_details with
    | none => simp [truncOperation, hs] at hx
    | some d =>
      simp [truncOperation, hs] at hx
      subst hx
      have := h3 d hs
      cases hd : d.scheduled_end_timestamp <;> simp_all

/-- **Operation JSON round trip** (millisecond timestamps): for operations with none of the three
failing shapes and no timestamp in epoch millisecond 0, `from_json_dict (to_json_dict o)` is `o`
with timestamps truncated to milliseconds and the permitted empty strings dropped. -/
theorem C20_operation_json_roundtrip_partial (o : Operation) (hok : opOk o) (hts : opTsOk o) :
    Operation.fromJsonDict o.toJsonDict = some (normOperationJson o) := by
  have h1 := WireProofs.operation_json_rt o ((opTsOk_iff o).1 hts)
  have h2 := C20_operation_roundtrip_partial _ (opOk_trunc o hok)
  rw [C20_operation_roundtrip_exact] at h2
  rw [h1]
  exact h2

/-- Under the timestamp hypothesis alone the JSON decode succeeds, with the exact image. -/
theorem C20_operation_json_roundtrip_exact (o : Operation) (hts : opTsOk o) :
    Operation.fromJsonDict o.toJsonDict
      = some (WireProofs.imgOperation (truncOperation o)) :=
  WireProofs.operation_json_rt o ((opTsOk_iff o).1 hts)

example : opOk opExample ∧ opTsOk opExample ∧ normOperationJson opExample ≠ normOperation opExample :=
  ⟨opExample_ok, opExample_tsOk, by decide⟩

/-! ## Replay-relevant fields -/

/-- Corollary: for operations satisfying the partial hypotheses, every field that influences replay —
step result / error / attempt / next-attempt time (ms-truncated), callback id / result / error,
context result and replay-children flag, chained-invoke result / error, execution input payload,
status — survives the JSON round trip. -/
theorem C20_replay_fields_preserved_partial (o : Operation) (hok : opOk o) (hts : opTsOk o) :
    ∃ o', Operation.fromJsonDict o.toJsonDict = some o' ∧
      o'.status = o.status ∧ o'.operation_id = o.operation_id ∧
      o'.operation_type = o.operation_type ∧
      o'.execution_details = o.execution_details ∧
      o'.context_details = o.context_details ∧
      o'.step_details.map (·.attempt) = o.step_details.map (·.attempt) ∧
      o'.step_details.map (·.next_attempt_timestamp)
        = o.step_details.map (fun d => d.next_attempt_timestamp.map truncMs) ∧
      o'.step_details.map (·.result) = o.step_details.map (fun d => normStr d.result) ∧
      o'.step_details.map (·.error) = o.step_details.map (·.error) ∧
      o'.callback_details.map (·.callback_id) = o.callback_details.map (·.callback_id) ∧
      o'.callback_details.map (·.result) = o.callback_details.map (fun d => normStr d.result) ∧
      o'.callback_details.map (·.error) = o.callback_details.map (·.error) ∧
      o'.chained_invoke_details.map (·.result)
        = o.chained_invoke_details.map (fun d => normStr d.result) ∧
      o'.chained_invoke_details.map (·.error) = o.chained_invoke_details.map (·.error) ∧
      o'.wait_details.map (·.scheduled_end_timestamp)
        = o.wait_details.map (fun d => d.scheduled_end_timestamp.map truncMs) := by
  refine ⟨_, C20_operation_json_roundtrip_partial o hok hts, ?_⟩
  simp [normOperationJson, normOperation, truncOperation, normStep, normCallback, normChained,
    Function.comp_def]

/-- **`replay_children` survives the dict round trip of EVERY operation** (no hypotheses): the
decode succeeds and the ContextDetails is present iff it was, with the same flag. -/
theorem C20_replay_children_preserved (o : Operation) :
    ∃ o', Operation.fromDict o.toDict = some o' ∧
      o'.context_details.map (·.replay_children) = o.context_details.map (·.replay_children) := by
  refine ⟨_, C20_operation_roundtrip_exact o, ?_⟩
  simp [WireProofs.imgOperation, WireProofs.imgContext, Function.comp_def]

/-- **`replay_children` survives the JSON round trip of EVERY operation**: whenever
`from_json_dict (to_json_dict o)` yields an Operation at all — it always does unless a timestamp
lies in epoch millisecond 0, see `C20_replay_children_preserved_json_total` — the flag is the
original one.  No hypothesis on `o`. -/
theorem C20_replay_children_preserved_json (o o' : Operation)
    (h : Operation.fromJsonDict o.toJsonDict = some o') :
    o'.context_details.map (·.replay_children) = o.context_details.map (·.replay_children) := by
  rw [WireProofs.operation_json_context o o' h]
  simp [WireProofs.imgContext, Function.comp_def]

theorem C20_replay_children_preserved_json_total (o : Operation) (hts : opTsOk o) :
    ∃ o', Operation.fromJsonDict o.toJsonDict = some o' ∧
      o'.context_details.map (·.replay_children) = o.context_details.map (·.replay_children) :=
  ⟨_, C20_operation_json_roundtrip_exact o hts,
    C20_replay_children_preserved_json o _ (C20_operation_json_roundtrip_exact o hts)⟩

/-- The whole ContextDetails of every operation: flag and result (also `""`/`None`) unchanged, and
the details object itself unchanged unless its error is all-None.  Dict round trip, no hypotheses. -/
theorem C20_context_details_preserved (o : Operation) :
    ∃ o', Operation.fromDict o.toDict = some o' ∧
      o'.context_details.map (·.replay_children) = o.context_details.map (·.replay_children) ∧
      o'.context_details.map (·.result) = o.context_details.map (·.result) ∧
      (ctxOk o.context_details → o'.context_details = o.context_details) := by
  refine ⟨_, C20_operation_roundtrip_exact o, ?_, ?_, ?_⟩
  · simp [WireProofs.imgOperation, WireProofs.imgContext, Function.comp_def]
  · simp [WireProofs.imgOperation, WireProofs.imgContext, Function.comp_def]
  · intro h
    exact (ctxOk_iff _).2 h

/-- Same for the JSON round trip: whenever it yields an Operation, the ContextDetails is the
original one up to an all-None error. -/
theorem C20_context_details_preserved_json (o o' : Operation)
    (h : Operation.fromJsonDict o.toJsonDict = some o') :
    o'.context_details.map (·.result) = o.context_details.map (·.result) ∧
    (ctxOk o.context_details → o'.context_details = o.context_details) := by
  rw [WireProofs.operation_json_context o o' h]
  refine ⟨?_, fun hc => (ctxOk_iff _).2 hc⟩
  simp [WireProofs.imgContext, Function.comp_def]

/-- **A context error with at least one non-None field survives** the dict round trip of every
operation, together with the flag and the result of its ContextDetails. -/
theorem C20_context_error_preserved (o : Operation) (d : ContextDetails) (e : ErrorObject)
    (hd : o.context_details = some d) (he : d.error = some e) (hne : errNonEmpty e) :
    ∃ o', Operation.fromDict o.toDict = some o' ∧ o'.context_details = some d := by
  obtain ⟨o', h1, -, -, h4⟩ := C20_context_details_preserved o
  refine ⟨o', h1, ?_⟩
  rw [← hd]
  apply h4
  intro x hx
  rw [hd] at hx
  cases hx
  intro y hy
  rw [he] at hy
  cases hy
  exact hne

/-- … and the JSON round trip (whenever it yields an Operation). -/
theorem C20_context_error_preserved_json (o o' : Operation) (d : ContextDetails) (e : ErrorObject)
    (h : Operation.fromJsonDict o.toJsonDict = some o')
    (hd : o.context_details = some d) (he : d.error = some e) (hne : errNonEmpty e) :
    o'.context_details = some d := by
  rw [← hd]
  apply (C20_context_details_preserved_json o o' h).2
  intro x hx
  rw [hd] at hx
  cases hx
  intro y hy
  rw [he] at hy
  cases hy
  exact hne

/-- Non-vacuity: `opExample` has `replay_children = true` and a real context error. -/
example :
    ∃ d e, opExample.context_details = some d ∧ d.error = some e ∧ errNonEmpty e ∧
      d.replay_children = true :=
  ⟨_, _, rfl, rfl, by simp [errNonEmpty], rfl⟩

/-- Non-vacuity of the JSON statements: the JSON round trip of `opExample` does yield an Operation. -/
example : ∃ o', Operation.fromJsonDict opExample.toJsonDict = some o' :=
  ⟨_, C20_operation_json_roundtrip_exact opExample opExample_tsOk⟩

/-! ## Invocation input -/

/-- Exact result, no hypotheses: the decode always succeeds. -/
theorem C20_input_roundtrip_exact (i : DurableExecutionInvocationInput) :
    DurableExecutionInvocationInput.fromDict i.toDict = some (WireProofs.imgInput i) :=
  WireProofs.input_rt i

theorem C20_input_roundtrip_total (i : DurableExecutionInvocationInput) :
    ∃ i', DurableExecutionInvocationInput.fromDict i.toDict = some i' :=
  ⟨_, C20_input_roundtrip_exact i⟩

/-- The full-strength statement. It is FALSE. -/
def C20_input_roundtrip_full : Prop :=
  ∀ i : DurableExecutionInvocationInput,
    DurableExecutionInvocationInput.fromDict i.toDict = some (normInput i)

/-- An invocation input whose only operation is the empty-WaitDetails witness. -/
def inputWitness : DurableExecutionInvocationInput :=
  { durable_execution_arn := "arn", checkpoint_token := "t",
    initial_execution_state := { operations := [opWitnessWait], next_marker := "" } }

theorem C20_input_roundtrip_witness : ¬ C20_input_roundtrip_full := by
  intro h
  have := h inputWitness
  rw [C20_input_roundtrip_exact] at this
  revert this
  decide

theorem opOk_img (o : Operation) (h : opOk o) : WireProofs.imgOperation o = normOperation o := by
  have := C20_operation_roundtrip_partial o h
  rw [C20_operation_roundtrip_exact] at this
  simpa using this

/-- **Invocation input dict round trip** when every operation is `opOk`. -/
theorem C20_input_roundtrip_partial (i : DurableExecutionInvocationInput)
    (h : ∀ o ∈ i.initial_execution_state.operations, opOk o) :
    DurableExecutionInvocationInput.fromDict i.toDict = some (normInput i) := by
  rw [C20_input_roundtrip_exact]
  have hm : i.initial_execution_state.operations.map WireProofs.imgOperation
      = i.initial_execution_state.operations.map normOperation :=
    List.map_congr_left (fun o ho => opOk_img o (h o ho))
  simp [WireProofs.imgInput, WireProofs.imgState, normInput, hm]

/-- The full-strength JSON statement. It is FALSE (same witness). -/
def C20_input_json_roundtrip_full : Prop :=
  ∀ i : DurableExecutionInvocationInput,
    DurableExecutionInvocationInput.fromJsonDict i.toJsonDict = some (normInputJson i)

theorem C20_input_json_roundtrip_witness : ¬ C20_input_json_roundtrip_full := by
  intro h
  have := h inputWitness
  revert this
  decide

/-- **Invocation input JSON round trip** when every operation is `opOk` and `opTsOk`. -/
theorem C20_input_json_roundtrip_partial (i : DurableExecutionInvocationInput)
    (h : ∀ o ∈ i.initial_execution_state.operations, opOk o)
    (hts : ∀ o ∈ i.initial_execution_state.operations, opTsOk o) :
    DurableExecutionInvocationInput.fromJsonDict i.toJsonDict = some (normInputJson i) := by
  rw [WireProofs.input_json_rt i (fun o ho => (opTsOk_iff o).1 (hts o ho))]
  have hm : (i.initial_execution_state.operations.map WireProofs.truncOperation).map
        WireProofs.imgOperation
      = i.initial_execution_state.operations.map normOperationJson := by
    rw [List.map_map]
    exact List.map_congr_left (fun o ho => opOk_img _ (opOk_trunc o (h o ho)))
  simp [WireProofs.imgInput, WireProofs.imgState, normInputJson, hm]

/-- Non-vacuity: an input with two operations (one of them `opExample`) satisfies both hypotheses. -/
example :
    let i : DurableExecutionInvocationInput :=
      { durable_execution_arn := "arn", checkpoint_token := "tok",
        initial_execution_state :=
          { operations := [{ operation_id := "0", operation_type := .execution, status := .started,
                             execution_details := some { input_payload := some "{}" } },
                           opExample],
            next_marker := "m" } }
    (∀ o ∈ i.initial_execution_state.operations, opOk o) ∧
    (∀ o ∈ i.initial_execution_state.operations, opTsOk o) := by
  refine ⟨?_, ?_⟩
  · intro o ho
    simp only [List.mem_cons, List.mem_nil_iff, or_false] at ho
    rcases ho with rfl | rfl
    · simp [opOk, ctxOk, stepOk, waitOk, callbackOk, chainedOk]
    · exact opExample_ok
  · intro o ho
    simp only [List.mem_cons, List.mem_nil_iff, or_false] at ho
    rcases ho with rfl | rfl
    · simp [opTsOk, tsOk]
    · exact opExample_tsOk

/-! ## Invocation output -/

/-- Exact image, no hypotheses: only an all-None error changes (it becomes `None`). -/
theorem C20_output_roundtrip_exact (o : DurableExecutionInvocationOutput) :
    DurableExecutionInvocationOutput.fromDict o.toDict
      = some { o with error := WireProofs.imgError o.error } :=
  WireProofs.output_rt o

/-- The full-strength statement. It is FALSE. -/
def C20_output_roundtrip_full : Prop :=
  ∀ o : DurableExecutionInvocationOutput,
    DurableExecutionInvocationOutput.fromDict o.toDict = some (normOutput o)

/-- A FAILED output carrying an all-None error comes back with no error at all. -/
def outputWitness : DurableExecutionInvocationOutput :=
  { status := .failed, error := some ⟨none, none, none, none⟩ }

theorem C20_output_roundtrip_witness : ¬ C20_output_roundtrip_full := by
  intro h
  have := h outputWitness
  revert this
  decide

/-- The output round trip is the identity **iff** the error is absent or not all-None. -/
theorem C20_output_roundtrip_iff (o : DurableExecutionInvocationOutput) :
    DurableExecutionInvocationOutput.fromDict o.toDict = some (normOutput o) ↔ errOk o.error := by
  rw [C20_output_roundtrip_exact, ← errOk_iff]
  obtain ⟨s, r, e⟩ := o
  simp [normOutput]

theorem C20_output_roundtrip_partial (o : DurableExecutionInvocationOutput) (h : errOk o.error) :
    DurableExecutionInvocationOutput.fromDict o.toDict = some (normOutput o) :=
  (C20_output_roundtrip_iff o).2 h

example :
    let o : DurableExecutionInvocationOutput :=
      { status := .failed, result := some "", error := some ⟨some "boom", some "E", none, some ["l1"]⟩ }
    errOk o.error := by
  intro o x hx; cases hx; simp [errNonEmpty]

end C20
