import DurableModel.Par
import Proofs.Par
import Props.C09
/-!
# C09 / C07 / C06 at executor level — the concurrent executor of map / parallel

Everything here is about `DurableModel/Par.lean` (the transition system of `ConcurrentExecutor`) and
holds in **every reachable state** `Par.Reach n maxConc cfg s`: any number of branches, any
concurrency limit (`maxConc = 0` = no limit), any completion config, any interleaving of pool workers,
timer thread and main thread (which submits the initial tasks one by one while workers, callbacks and
the timer thread already run), any way each task ends, any clock behaviour.

The proofs go through the single inductive invariant `ParProofs.Inv` (`Proofs/Par.lean`).

Two findings of the first round (the main thread raising a timed suspend while the timer thread had
re-started a branch; "suspend" reported although the policy had meanwhile become decided) are closed by
the fix modelled in `Par.resubmit` (the resubmitter does not start a branch once the completion event
is set): their witnesses are no longer runs of the model, and the statements they refuted are now
proved at full strength (`C07X_suspend_means_idle`, `C09X_suspend_excludes_policy`,
`C07X_no_start_after_decision`).

Findings recorded as `decide`d witnesses (statements that turned out FALSE are not bent):
* `C06X_late_fatal_ignored_witness` — a fatal failure recorded after the main thread has read the
  flags (`wake`) but before it builds the result (`snapshot`) is ignored: a result is returned;
* `C07X_early_orphan_stuck_witness` — the wanted "never stuck" statement is false *in the model* when
  a task ends with `OrphanedChildException` before the completion event is set; it is proved for all
  runs in which that exception is only raised after the event is set (`ParProofs.ReachO`).
-/
namespace C09X
open Par ParProofs

variable {n maxConc : Nat} {cfg : Policy.Cfg} {s s' : St}

/-- The invariant holds in every reachable state (all fields of `ParProofs.Inv` / `ParProofs.Book`). -/
theorem C09X_inv (h : Reach n maxConc cfg s) : Inv n maxConc cfg s := Inv.of_reach h

/-! ## 1. concurrency bound -/

/-- **C09, concurrency bound.** Never more tasks executing than the configured limit; the high-water
mark `maxActive` (ghost) never exceeds it either. -/
theorem C09X_concurrency_bound (h : Reach n maxConc cfg s) :
    s.active.length ≤ s.maxWorkers ∧ s.maxActive ≤ s.maxWorkers ∧
    s.maxWorkers = if maxConc = 0 then n else maxConc :=
  have hI := Inv.of_reach h
  ⟨hI.act_le, hI.max_le, hI.hmw⟩

/-! ## 2. bookkeeping -/

theorem cnt_eq_filter (f : Nat → BSt) (n : Nat) :
    cnt isCompleted f n = ((List.range n).filter (fun i => f i == .completed)).length ∧
    cnt isFailed f n = ((List.range n).filter (fun i => f i == .failed)).length := by
  unfold cnt
  rw [List.countP_map, List.countP_map, List.countP_eq_length_filter, List.countP_eq_length_filter]
  constructor <;> congr 2 <;> funext i <;> simp only [Function.comp] <;>
    cases f i <;> simp [isCompleted, isFailed]

theorem nodup_fst {α β : Type} (l : List (α × β)) (hn : l.Nodup)
    (hu : ∀ a b b', (a, b) ∈ l → (a, b') ∈ l → b = b') : (l.map Prod.fst).Nodup := by
  induction l with
  | nil => exact List.nodup_nil
  | cons x t ih =>
    obtain ⟨a, b⟩ := x
    have hn' := List.nodup_cons.1 hn
    rw [List.map_cons, List.nodup_cons]
    refine ⟨?_, ih hn'.2 (fun a b b' h1 h2 =>
      hu a b b' (List.mem_cons_of_mem _ h1) (List.mem_cons_of_mem _ h2))⟩
    intro hm
    rcases List.mem_map.1 hm with ⟨⟨a', b'⟩, hm', e⟩
    simp only at e
    subst e
    have := hu a' b b' (by simp) (List.mem_cons_of_mem _ hm')
    subst this
    exact hn'.1 hm'

/-- **Bookkeeping.** Work queue and active set are duplicate-free, disjoint, in range and RUNNING; the
success / failure counters agree with the statuses at all times; timer entries are in range; nothing
outside `0..n-1` is ever touched; a branch the main thread has not submitted yet is PENDING and has
no task and no timer entry; a task whose function has ended but whose done-callback is still due
belongs to a distinct branch that is still RUNNING, neither queued nor executing, without timer entry
or refresh in flight. -/
theorem C09X_bookkeeping (h : Reach n maxConc cfg s) :
    s.n = n ∧ s.cfg = cfg ∧ s.active.Nodup ∧ s.queue.Nodup ∧ (∀ i, i ∈ s.active → i ∉ s.queue) ∧
    (∀ i, i ∈ s.active ∨ i ∈ s.queue → i < n ∧ s.status i = .running) ∧
    s.succ = ((List.range n).filter (fun i => s.status i == .completed)).length ∧
    s.fail = ((List.range n).filter (fun i => s.status i == .failed)).length ∧
    s.succ + s.fail ≤ n ∧
    (∀ t i, (t, i) ∈ s.timers → i < n ∧ s.status i = .suspendedUntil t) ∧
    (∀ t i, s.status i = .suspendedUntil t → (t, i) ∈ s.timers) ∧
    (∀ i, n ≤ i → s.status i = (init n maxConc cfg).status i) ∧
    s.submitted ≤ n ∧
    (∀ i, s.submitted ≤ i → i < n →
      s.status i = .pending ∧ i ∉ s.queue ∧ i ∉ s.active ∧ ∀ t, (t, i) ∉ s.timers) ∧
    (∀ i, s.refreshing = some i → i < s.submitted ∧ s.status i = .pending) ∧
    (s.ended.map Prod.fst).Nodup ∧
    (∀ i f, (i, f) ∈ s.ended → i < s.submitted ∧ i < n ∧ s.status i = .running ∧ i ∉ s.queue ∧
      i ∉ s.active ∧ (∀ t, (t, i) ∉ s.timers) ∧ s.refreshing ≠ some i) := by
  have hI := Inv.of_reach h
  refine ⟨hI.hn, hI.hcfg, hI.act_nodup, hI.q_nodup, hI.disj, ?_, ?_, ?_, hI.toBook.succ_fail_le, ?_,
    hI.tim_has, ?_, hI.sub_le, ?_, hI.refr, nodup_fst _ hI.end_nodup hI.end_uniq, ?_⟩
  · intro i hi
    exact ⟨hi.elim (hI.act_lt i) (hI.q_lt i), hI.run i hi⟩
  · rw [hI.hsucc]; exact (cnt_eq_filter _ _).1
  · rw [hI.hfail]; exact (cnt_eq_filter _ _).2
  · intro t i hm; exact ⟨hI.toBook.tim_lt t i hm, hI.tim_live t i hm⟩
  · intro i hi
    rw [hI.out_n i hi]
    simp only [Par.init]
    rw [if_neg (by omega)]
  · intro i hi hin
    have hp := hI.unsub i hi hin
    refine ⟨hp, fun hq => ?_, fun ha => ?_, fun t hm => ?_⟩
    · have := hI.run i (Or.inr hq); rw [hp] at this; cases this
    · have := hI.run i (Or.inl ha); rw [hp] at this; cases this
    · have := hI.tim_live t i hm; rw [hp] at this; cases this
  · intro i f hm
    have ho := hI.end_ok i f hm
    refine ⟨?_, ho.2.1, ho.1, ho.2.2.2, ho.2.2.1, fun t ht => ?_, fun hr => ?_⟩
    · apply Decidable.byContradiction
      intro hlt
      have := hI.unsub i (by omega) ho.2.1
      rw [ho.1] at this; cases this
    · have := hI.tim_live t i ht; rw [ho.1] at this; cases this
    · have := (hI.refr i hr).2; rw [ho.1] at this; cases this

/-! ## 3. the return decision -/

/-- **C09, "returns exactly when the policy is decided" — event level.** The completion event is set
iff a fatal failure was recorded, or a suspend decision was taken, or the completion policy is decided
on the current counters (which agree with the statuses, `C09X_bookkeeping`). -/
theorem C09X_event_iff (h : Reach n maxConc cfg s) (hn : 0 < n) :
    s.evt = true ↔ (s.fatal = true ∨ s.suspendExc.isSome = true ∨
      Policy.shouldComplete cfg s.succ s.fail n = true) := by
  have hI := Inv.of_reach h
  constructor
  · exact hI.evt_sound
  · rintro (hf | hk | hc)
    · exact hI.fatal_evt hf
    · exact hI.susp_evt hk
    · cases he : s.evt
      · rw [(hI.undecided hn he).1] at hc; cases hc
      · rfl

/-- **C09, decision soundness (a).** A returned result was built when the completion policy was
decided — in terms of the numbers of items reported completed / failed. -/
theorem C09X_decision_sound (h : Reach n maxConc cfg s) {items : List BSt}
    (ho : s.out = some (.result items)) :
    items.length = n ∧
    Policy.shouldComplete cfg (items.countP isCompleted) (items.countP isFailed) n = true :=
  have hr := (Inv.of_reach h).out_res items ho
  ⟨hr.1, hr.2.1⟩

/-- **C09, decision soundness (b)**, via `C09_decide_iff_policy`: all reported finished, or the
(effective) minimum of successes is reached, or the failure tolerance is exceeded. -/
theorem C09X_decision_reason (h : Reach n maxConc cfg s) {items : List BSt}
    (ho : s.out = some (.result items)) :
    items.countP isCompleted + items.countP isFailed = n ∨
    Policy.minEff cfg n ≤ items.countP isCompleted ∨
    Policy.toleranceExceeded cfg (items.countP isFailed) n = true :=
  (C09.C09_decide_iff_policy cfg _ _ n).1 (C09X_decision_sound h ho).2

/-- What the main thread does when it wakes and reads the flags: fatal has priority, then suspend (in
both cases the queue is cleared and the outcome fixed at once); if neither flag is set it goes on to
build a result (`returning`) — and then the policy is decided.  It wakes only after it has submitted
every branch, and only once. -/
theorem C09X_wake_outcome (h : Reach n maxConc cfg s) (hs : step s .wake = some s') :
    s.evt = true ∧ s.out = none ∧ s.returning = false ∧
    (s.fatal = true → s'.out = some .fatal) ∧
    (s.fatal = false → ∀ k, s.suspendExc = some k → s'.out = some (.suspend k)) ∧
    (s.fatal = false → s.suspendExc = none →
      s'.out = none ∧ s'.returning = true ∧ s'.queue = s.queue ∧ s'.status = s.status ∧
      Policy.shouldComplete cfg s.succ s.fail n = true) ∧
    s.submitted = n := by
  have hI := Inv.of_reach h
  have hI' := hI.step hs
  have hsn : s.submitted = n := by
    rcases wake_spec hs with ⟨_, _, hsub, _, _⟩
    exact Nat.le_antisymm hI.sub_le (by rw [← hI.hn]; exact hsub)
  rcases wake_spec hs with ⟨he, ho, hsub, hret, ⟨hf, rfl⟩ | ⟨hf, k, hk, rfl⟩ | ⟨hf, hk, rfl⟩⟩
  · exact ⟨he, ho, hret, fun _ => rfl, (fun hf' => by rw [hf] at hf'; cases hf'),
      (fun hf' => by rw [hf] at hf'; cases hf'), hsn⟩
  · exact ⟨he, ho, hret, (fun hf' => by rw [hf] at hf'; cases hf'),
      (fun _ k' hk' => by rw [hk] at hk'; cases hk'; rfl),
      (fun _ hk' => by rw [hk] at hk'; cases hk'), hsn⟩
  · exact ⟨he, ho, hret, (fun hf' => by rw [hf] at hf'; cases hf'),
      (fun _ k' hk' => by rw [hk] at hk'; cases hk'),
      (fun _ _ => ⟨ho, rfl, rfl, rfl, (hI'.ret_inv rfl).2.2.2⟩), hsn⟩

/-- While the main thread is about to build the result (`returning`): the event is set, everything is
submitted, no suspend decision exists or is taken any more, and the policy is and stays decided.  The
fatal flag may still become set in this window — it is no longer looked at
(`C06X_late_fatal_ignored_witness`). -/
theorem C09X_returning (h : Reach n maxConc cfg s) (hr : s.returning = true) :
    s.evt = true ∧ s.submitted = n ∧ s.suspendExc = none ∧
    Policy.shouldComplete cfg s.succ s.fail n = true ∧
    (∀ o, s.out = some o → ∃ items, o = .result items) :=
  have hI := Inv.of_reach h
  have h0 := hI.ret_inv hr
  ⟨h0.1, h0.2.1, h0.2.2.1, h0.2.2.2, hI.ret_out hr⟩

/-- A result is only ever built by `snapshot`, on the `returning` path. -/
theorem C09X_result_only_by_snapshot (h : Reach n maxConc cfg s) {a : Act} (hs : step s a = some s')
    {items : List BSt} (ho : s.out = none) (ho' : s'.out = some (.result items)) :
    a = .snapshot ∧ s.returning = true := by
  have hI := Inv.of_reach h
  have hI' := hI.step hs
  rcases out_step hI.toBook hs with e | rfl | rfl
  · rw [e, ho] at ho'; cases ho'
  · have hw := C09X_wake_outcome h hs
    cases hf : s.fatal
    · cases hk : s.suspendExc
      · have := (hw.2.2.2.2.2.1 hf hk).1
        rw [ho'] at this; cases this
      · have := hw.2.2.2.2.1 hf _ hk
        rw [ho'] at this; cases this
    · have := hw.2.2.2.1 hf
      rw [ho'] at this; cases this
  · exact ⟨rfl, (snapshot_spec hs).1⟩

/-- Once the policy is decided it stays decided (`C09_decision_stable`) and no suspend decision is
taken afterwards: "event set by the policy, suspend exception set later" is impossible
(for the converse order see `C09X_suspend_excludes_policy`). -/
theorem C09X_policy_decided_stable (h : Reach n maxConc cfg s) {a : Act} (hs : step s a = some s')
    (hd : Policy.shouldComplete cfg s.succ s.fail n = true) :
    Policy.shouldComplete cfg s'.succ s'.fail n = true ∧ s'.suspendExc = s.suspendExc :=
  policy_decided_step (Inv.of_reach h) hs hd

/-- **The converse order is impossible too** (since the fix: the timer thread starts nothing once the
event is set).  From the moment a suspend decision is taken nothing finishes any more, the counters
do not move, and the policy stays undecided: "suspend" and "policy decided" exclude each other in
every reachable state — in particular when the main thread reports the suspension. -/
theorem C09X_suspend_excludes_policy (h : Reach n maxConc cfg s) :
    (s.suspendExc.isSome = true → Policy.shouldComplete cfg s.succ s.fail n = false) ∧
    (∀ k, s.out = some (.suspend k) → Policy.shouldComplete cfg s.succ s.fail n = false) :=
  have hI := Inv.of_reach h
  ⟨hI.susp_undecided, fun k ho => hI.susp_undecided (hI.out_susp k ho)⟩

/-! ## 4. the reported items -/

/-- The result built by `snapshot` (a moment after the flags were read): tasks still queued are
cancelled (reported SUSPENDED), everything else is reported with the status it has at this very step —
callbacks that ran since `wake` are accounted; no branch is unsubmitted. -/
theorem C09X_result_snapshot (h : Reach n maxConc cfg s) (hs : step s .snapshot = some s') :
    s.returning = true ∧ s.out = none ∧
    s'.out = some (.result ((List.range n).map s'.status)) ∧
    (∀ i, s'.status i = if i ∈ s.queue then .suspended else s.status i) ∧
    (∀ items, s'.out = some (.result items) →
      ∀ i, i < n → items[i]? = some (if i ∈ s.queue then .suspended else s.status i)) ∧
    s'.queue = [] ∧ s.submitted = n ∧
    Policy.shouldComplete cfg s'.succ s'.fail n = true := by
  have hI := Inv.of_reach h
  have hI' := hI.step hs
  rcases snapshot_spec hs with ⟨hret, ho0, hs'⟩
  have hst : ∀ i, s'.status i = if i ∈ s.queue then .suspended else s.status i := by
    intro i; rw [hs']
  have hout : s'.out = some (.result ((List.range n).map s'.status)) := by
    rw [hs', hI.hn]
  refine ⟨hret, ho0, hout, hst, fun items hit i hi => ?_, by rw [hs'], (hI.ret_inv hret).2.1, ?_⟩
  · rw [hout] at hit
    cases hit
    rw [getElem?_range_map, if_pos hi, hst]
  · have : s'.returning = true := by rw [hs']; exact hret
    exact (hI'.ret_inv this).2.2.2

/-- The branch a status stands for (payloads abstracted), as in `Par.itemsOf`. -/
def toBranch : BSt → Policy.Branch Unit Unit
  | .completed => .completed ()
  | .failed => .failed ()
  | .pending => .pending
  | .running => .running
  | .suspended => .suspended
  | .suspendedUntil t => .suspendedUntil t

theorem itemsOf_eq (sts : List BSt) : itemsOf sts = Policy.createItems (sts.map toBranch) := by
  unfold itemsOf
  congr 2

/-- **C09, items.** One item per input, in input order, index = position; an item is `succeeded` /
`failed` exactly for a branch reported COMPLETED / FAILED, every other branch is reported `started`
(`C09_items_shape`, `C09_items_faithful` applied to `Par.itemsOf`). -/
theorem C09X_items_faithful (h : Reach n maxConc cfg s) {items : List BSt}
    (ho : s.out = some (.result items)) :
    items.length = n ∧ (itemsOf items).length = n ∧
    (itemsOf items).map Policy.Item.idx = List.range n ∧
    ∀ i (hi : i < items.length),
      (items[i] = .completed → (itemsOf items)[i]? = some (.succeeded i ())) ∧
      (items[i] = .failed → (itemsOf items)[i]? = some (.failed i ())) ∧
      (items[i] ≠ .completed → items[i] ≠ .failed → (itemsOf items)[i]? = some (.started i)) := by
  have hlen := (C09X_decision_sound h ho).1
  rw [itemsOf_eq]
  have hshape := C09.C09_items_shape (items.map toBranch)
  rw [List.length_map, hlen] at hshape
  refine ⟨hlen, hshape.1, hshape.2, fun i hi => ?_⟩
  have hf := C09.C09_items_faithful (items.map toBranch) i (by rw [List.length_map]; exact hi)
  rw [hf, List.getElem_map]
  cases hb : items[i] <;> simp [Policy.itemOf, toBranch]

/-- A done-callback occurring in a run is preceded by the end of the matching task function. -/
theorem taskEnd_before_finish {pre post : List Act} {i : Nat} {f : Fin}
    (hr : runActs (init n maxConc cfg) (pre ++ Act.finish i f :: post) = some s) :
    Act.taskEnd i f ∈ pre := by
  have hp : (pre ++ [Act.finish i f]) <+: (pre ++ Act.finish i f :: post) :=
    ⟨post, by simp⟩
  have h := callback_after_taskEnd _ _ hr hp i f
  rw [List.count_append, List.count_append] at h
  have h1 : List.count (Act.finish i f) [Act.finish i f] = 1 := by simp
  have h2 : List.count (Act.taskEnd i f) [Act.finish i f] = 0 := by simp
  rw [h1, h2] at h
  exact List.count_pos_iff.1 (by omega)

/-- **C09, items are truthful.** What a returned result reports as COMPLETED / FAILED is (still) the
branch's status, and — along any run from the initial state — the done-callback of a task of that branch
that returned / raised really ran (`finish i .ok` / `finish i .err` occurs in the run), after that
task's function had ended that way (`taskEnd i .ok` / `taskEnd i .err` occurs before it). -/
theorem C09X_reported_really_finished (acts : List Act)
    (hr : runActs (init n maxConc cfg) acts = some s) {items : List BSt}
    (ho : s.out = some (.result items)) (i : Nat) :
    (items[i]? = some .completed → s.status i = .completed ∧ Act.finish i .ok ∈ acts ∧
      ∃ pre post, acts = pre ++ Act.finish i .ok :: post ∧ Act.taskEnd i .ok ∈ pre) ∧
    (items[i]? = some .failed → s.status i = .failed ∧ Act.finish i .err ∈ acts ∧
      ∃ pre post, acts = pre ++ Act.finish i .err :: post ∧ Act.taskEnd i .err ∈ pre) := by
  have hR : Reach n maxConc cfg s := reach_of_runActs Reach.init acts hr
  have hres := ((Inv.of_reach hR).out_res items ho)
  have hlen := hres.1
  have hi : ∀ b, items[i]? = some b → i < n := by
    intro b hb
    have := (List.getElem?_eq_some_iff.1 hb).1
    omega
  have htr := trace_final (n := n) (maxConc := maxConc) (cfg := cfg) Reach.init acts hr i
  have hsplit : ∀ f, Act.finish i f ∈ acts →
      ∃ pre post, acts = pre ++ Act.finish i f :: post ∧ Act.taskEnd i f ∈ pre := by
    intro f hm
    rcases List.append_of_mem hm with ⟨pre, post, e⟩
    refine ⟨pre, post, e, ?_⟩
    rw [e] at hr
    exact taskEnd_before_finish hr
  constructor
  · intro hb
    have hst := (hres.2.2 i).1 hb
    have hm : Act.finish i .ok ∈ acts := by
      rcases htr.1 hst with h0 | h0
      · simp only [Par.init] at h0
        rw [if_pos (hi _ hb)] at h0; cases h0
      · exact h0
    exact ⟨hst, hm, hsplit _ hm⟩
  · intro hb
    have hst := (hres.2.2 i).2 hb
    have hm : Act.finish i .err ∈ acts := by
      rcases htr.2 hst with h0 | h0
      · simp only [Par.init] at h0
        split at h0 <;> cases h0
      · exact h0
    exact ⟨hst, hm, hsplit _ hm⟩

/-- **A done-callback runs after its task function ended.** In every prefix of a run from the initial
state, the callbacks `finish i f` that have run are at most as many as the task ends `taskEnd i f`; and
exactly: (callbacks run) + [callback of `(i, f)` still due] = (task ends). -/
theorem C09X_callback_after_task_end (acts : List Act)
    (hr : runActs (init n maxConc cfg) acts = some s) (i : Nat) (f : Fin) :
    (∀ pre, pre <+: acts → pre.count (.finish i f) ≤ pre.count (.taskEnd i f)) ∧
    acts.count (.finish i f) + (if (i, f) ∈ s.ended then 1 else 0) = acts.count (.taskEnd i f) := by
  refine ⟨fun pre hp => callback_after_taskEnd acts pre hr hp i f, ?_⟩
  have := callbacks_run (n := n) (maxConc := maxConc) (cfg := cfg) Reach.init acts hr i f
  simpa [Par.init] using this

/-- Step form: `finish i f` is enabled exactly when the task function of branch `i` has ended with `f`
and its callback has not run yet; it consumes that entry. -/
theorem C09X_finish_needs_task_end (hs : step s (.finish i f) = some s') :
    (i, f) ∈ s.ended ∧ s'.ended = s.ended.erase (i, f) := finish_ended hs

/-- **The worker is free before the callback runs.** `taskEnd i f` removes the task from the executing
set (one worker more is free) and makes the callback due — nothing else: status, counters, event,
decisions, queue, timers are untouched. -/
theorem C09X_worker_free_before_callback (h : Reach n maxConc cfg s) {i : Nat} {f : Fin}
    (hs : step s (.taskEnd i f) = some s') :
    i ∈ s.active ∧ s'.active = s.active.erase i ∧ s'.active.length + 1 = s.active.length ∧
    i ∉ s'.active ∧ s'.ended = s.ended ++ [(i, f)] ∧
    s'.status = s.status ∧ s'.succ = s.succ ∧ s'.fail = s.fail ∧ s'.evt = s.evt ∧
    s'.suspendExc = s.suspendExc ∧ s'.fatal = s.fatal ∧ s'.out = s.out ∧ s'.queue = s.queue ∧
    s'.timers = s.timers ∧ s'.submitted = s.submitted ∧ s'.refreshing = s.refreshing := by
  have hI := Inv.of_reach h
  rcases taskEnd_spec hs with ⟨hi, rfl⟩
  refine ⟨hi, rfl, ?_, ?_, rfl, rfl, rfl, rfl, rfl, rfl, rfl, rfl, rfl, rfl, rfl, rfl⟩
  · have := List.length_erase_of_mem hi
    have : 0 < s.active.length := List.length_pos_of_mem hi
    simp only
    omega
  · exact fun hm => ((hI.act_nodup.mem_erase_iff).1 hm).1 rfl

/-- Step form: COMPLETED / FAILED are only written by the done-callback of a task that returned /
raised, and are never overwritten. -/
theorem C09X_status_final_only_by_finish (h : Reach n maxConc cfg s) {a : Act}
    (hs : step s a = some s') (i : Nat) :
    (s.status i ≠ .completed → s'.status i = .completed → a = .finish i .ok) ∧
    (s.status i ≠ .failed → s'.status i = .failed → a = .finish i .err) ∧
    (s.status i = .completed ∨ s.status i = .failed → s'.status i = s.status i) :=
  have hB := (Inv.of_reach h).toBook
  ⟨completed_step hB hs, failed_step hB hs, final_step hB hs⟩

/-! ## 4b. cancellation by the woken main thread -/

/-- **Cancellation.** A `cancel i` step is only enabled after the completion event is set and every
branch has been submitted (and before the main thread has left `execute`), and only for a task no worker has started (`i` queued, hence
`i < n` and RUNNING in the executor's eyes).  Afterwards branch `i` is SUSPENDED, has no task (neither
queued nor executing) and no timer entry; and this is final: along **every** continuation of the run
its status stays SUSPENDED, it never gets a task again, and any result built later reports it as
SUSPENDED — i.e. `started`, never succeeded / failed. -/
theorem C09X_cancel_only_after_decision (h : Reach n maxConc cfg s) {i : Nat}
    (hs : step s (.cancel i) = some s') :
    (s.evt = true ∧ s.out = none ∧ s.submitted = n ∧ i ∈ s.queue ∧ i < n ∧ s.status i = .running) ∧
    (s'.status i = .suspended ∧ i ∉ s'.queue ∧ i ∉ s'.active ∧ (∀ t, (t, i) ∉ s'.timers) ∧
      s'.out = none ∧ s'.succ = s.succ ∧ s'.fail = s.fail ∧ s'.suspendExc = s.suspendExc) ∧
    ∀ acts s'', runActs s' acts = some s'' →
      s''.status i = .suspended ∧ i ∉ s''.queue ∧ i ∉ s''.active ∧ (∀ t, (t, i) ∉ s''.timers) ∧
      ∀ items, s''.out = some (.result items) →
        items[i]? = some .suspended ∧ (itemsOf items)[i]? = some (.started i) := by
  have hI := Inv.of_reach h
  have hR' : Reach n maxConc cfg s' := Reach.step _ h hs
  rcases cancel_spec hs with ⟨he, ho, hi, hsub, hs'⟩
  have hin : i < n := hI.q_lt i hi
  have hst' : s'.status i = .suspended := by rw [hs']; simp
  have hout' : s'.out = none := by rw [hs']; exact ho
  -- what SUSPENDED implies in any reachable state
  have hidle : ∀ {u : St}, Reach n maxConc cfg u → u.status i = .suspended →
      i ∉ u.queue ∧ i ∉ u.active ∧ ∀ t, (t, i) ∉ u.timers := by
    intro u hu hsu
    have hB := (Inv.of_reach hu).toBook
    refine ⟨fun hq => ?_, fun ha => ?_, fun t hm => ?_⟩
    · have := hB.run i (Or.inr hq); rw [hsu] at this; cases this
    · have := hB.run i (Or.inl ha); rw [hsu] at this; cases this
    · have := hB.tim_live t i hm; rw [hsu] at this; cases this
  have hid' := hidle hR' hst'
  refine ⟨⟨he, ho, Nat.le_antisymm hI.sub_le (by rw [← hI.hn]; exact hsub), hi, hin,
      hI.run i (Or.inr hi)⟩,
    ⟨hst', hid'.1, hid'.2.1, hid'.2.2, hout', by rw [hs'], by rw [hs'], by rw [hs']⟩, ?_⟩
  -- the continuation: induction over the run with the invariant
  -- "status i = suspended ∧ any result reports it suspended"
  have key : ∀ (acts : List Act) (u u' : St), Reach n maxConc cfg u → u.status i = .suspended →
      (∀ items, u.out = some (.result items) → items[i]? = some .suspended) →
      runActs u acts = some u' →
      Reach n maxConc cfg u' ∧ u'.status i = .suspended ∧
      (∀ items, u'.out = some (.result items) → items[i]? = some .suspended) := by
    intro acts
    induction acts with
    | nil => intro u u' hu h1 h2 hr; cases hr; exact ⟨hu, h1, h2⟩
    | cons a as ih =>
      intro u u' hu h1 h2 hr
      simp only [runActs] at hr
      split at hr
      · cases hr
      · rename_i u1 hs1
        have hB := (Inv.of_reach hu).toBook
        have hu1 : Reach n maxConc cfg u1 := Reach.step a hu hs1
        have h1' : u1.status i = .suspended := suspended_step hB hs1 h1
        refine ih u1 u' hu1 h1' ?_ hr
        intro items hit
        cases hou : u.out with
        | some o =>
          have := (mono_step hB hs1).2.2.1 o hou
          rw [this] at hit
          rw [hou] at h2
          exact h2 items hit
        | none =>
          have hsn := (C09X_result_only_by_snapshot hu hs1 hou hit).1
          subst hsn
          have := (C09X_result_snapshot hu hs1).2.2.1
          rw [this] at hit
          cases hit
          rw [getElem?_range_map, if_pos hin, h1']
  intro acts s'' hr
  have hk := key acts s' s'' hR' hst' (fun items hit => by rw [hout'] at hit; cases hit) hr
  have hid'' := hidle hk.1 hk.2.1
  refine ⟨hk.2.1, hid''.1, hid''.2.1, hid''.2.2, fun items hit => ?_⟩
  have hsus := hk.2.2 items hit
  refine ⟨hsus, ?_⟩
  have hlt : i < items.length := (List.getElem?_eq_some_iff.1 hsus).1
  have hget : items[i] = .suspended := (List.getElem?_eq_some_iff.1 hsus).2
  exact ((C09X_items_faithful hk.1 hit).2.2.2 i hlt).2.2
    (by rw [hget]; intro e; cases e) (by rw [hget]; intro e; cases e)

/-! ## 5. no waiting for running branches -/

/-- **C09, "without waiting".** As soon as the completion event is set — and the main thread is done
submitting — it can read the flags (`wake`) and then, if it is returning a result, build it
(`snapshot`), whatever is still executing. -/
theorem C09X_returns_without_waiting (he : s.evt = true) (ho : s.out = none)
    (hsub : s.submitted = s.n) :
    (s.returning = false → (step s .wake).isSome = true) ∧
    (s.returning = true → (step s .snapshot).isSome = true) :=
  ⟨fun hr => wake_enabled he ho (Nat.le_of_eq hsub.symm) hr, fun hr => snapshot_enabled hr ho⟩

/-- **The main thread returns only after it has submitted every branch.** -/
theorem C09X_all_submitted_before_return (h : Reach n maxConc cfg s) (ho : s.out.isSome = true) :
    s.submitted = s.n := by
  have hI := Inv.of_reach h
  rw [hI.hn]; exact hI.out_sub ho

/-- **Submission order.** Along any run from the initial state the `submit` steps occur for
`i = 0, 1, 2, …` in index order, each exactly once: the indices of the `submit` actions of the run are
exactly `List.range s.submitted` (so the initial tasks enter the work queue in input order; a
re-submitted branch may be queued in between, see the last example). -/
theorem C09X_submission_order (acts : List Act) (hr : runActs (init n maxConc cfg) acts = some s) :
    submitsOf acts = List.range s.submitted ∧ s.submitted ≤ n := by
  have h := submits_run (n := n) (maxConc := maxConc) (cfg := cfg) Reach.init acts hr
  have hR : Reach n maxConc cfg s := reach_of_runActs Reach.init acts hr
  refine ⟨?_, (Inv.of_reach hR).sub_le⟩
  rw [h.2, List.range_eq_range']
  rfl

/-- Step form of the submission order: `submit i` is enabled exactly for the next index. -/
theorem C09X_submit_next_only (h : Reach n maxConc cfg s) {i : Nat} (hs : step s (.submit i) = some s') :
    i = s.submitted ∧ i < n ∧ s.status i = .pending ∧ s'.status i = .running ∧
    s'.queue = s.queue ++ [i] ∧ s'.submitted = s.submitted + 1 := by
  have hI := Inv.of_reach h
  rcases submit_spec hs with ⟨hi, hin, rfl⟩
  rw [hI.hn] at hin
  exact ⟨hi, hin, hI.unsub i (by omega) hin, by simp, rfl, rfl⟩

/-! ## 6. suspension -/

/-- When no branch is RUNNING, no done-callback is due. -/
theorem ended_nil_of_idle (hI : Inv n maxConc cfg s) (hidle : ∀ i, i < n → s.status i ≠ .running) :
    s.ended = [] := by
  cases he : s.ended with
  | nil => rfl
  | cons x xs =>
    obtain ⟨i, f⟩ := x
    have ho := hI.end_ok i f (by rw [he]; simp)
    exact absurd ho.1 (hidle i ho.2.1)

/-- **C07, the suspend decision.** `_suspend_exception` is written only by the done-callback of a task
that ended with a status change, and at that moment: the policy is undecided, no branch is PENDING or
RUNNING, nothing is queued or executing, no other done-callback is due, and the decision is the minimum resume time of the
timed-suspended branches if there is one, else "indefinite" with some branch SUSPENDED
(`ParProofs.SuspendSpec`). -/
theorem C07X_suspend_only_when_idle (h : Reach n maxConc cfg s) {a : Act}
    (hs : step s a = some s') (hne : s'.suspendExc ≠ s.suspendExc) :
    (∃ i f, a = .finish i f ∧ f ≠ .orphan ∧ f ≠ .fatal) ∧
    ∃ k, s'.suspendExc = some k ∧ s'.evt = true ∧
      Policy.shouldComplete cfg s'.succ s'.fail n = false ∧
      (∀ i, i < n → s'.status i ≠ .pending ∧ s'.status i ≠ .running) ∧
      s'.active = [] ∧ s'.queue = [] ∧ s'.ended = [] ∧
      SuspendSpec n s'.status k := by
  have hI := Inv.of_reach h
  have hI' := hI.step hs
  rcases suspend_decision hI.toBook hs hne with ⟨⟨i, f, b, ha, hfb⟩, k, hk, hss, hc⟩
  refine ⟨⟨i, f, ha, ?_, ?_⟩, k, hk, hI'.susp_evt (by rw [hk]; rfl), hc, ?_⟩
  · intro e; rw [e] at hfb; cases hfb
  · intro e; rw [e] at hfb; cases hfb
  · have h1 := shouldSuspend_some hss
    rw [hI'.hn] at h1
    have h2 := idle_of_shouldSuspend hI'.toBook hss
    exact ⟨h1.1, h2.1, h2.2, ended_nil_of_idle hI' (fun i hi => (h1.1 i hi).2), h1.2⟩

/-- **C07, indefinite suspension is stable.** While `_suspend_exception` is the *indefinite* suspend,
no branch is PENDING / RUNNING / timed-suspended and nothing is queued or executing — in particular
this holds when the main thread raises it. -/
theorem C07X_indefinite_suspend_idle (h : Reach n maxConc cfg s) (hk : s.suspendExc = some none) :
    (∀ i, i < n → s.status i ≠ .running ∧ s.status i ≠ .pending ∧ ∀ t, s.status i ≠ .suspendedUntil t) ∧
    s.active = [] ∧ s.queue = [] := by
  have hI := Inv.of_reach h
  have h1 := hI.indef hk
  refine ⟨h1, ?_, ?_⟩
  · cases ha : s.active with
    | nil => rfl
    | cons x xs =>
      have hx : x ∈ s.active := by rw [ha]; simp
      exact absurd (hI.run x (Or.inl hx)) (h1 x (hI.act_lt x hx)).1
  · cases hq : s.queue with
    | nil => rfl
    | cons x xs =>
      have hx : x ∈ s.queue := by rw [hq]; simp
      exact absurd (hI.run x (Or.inr hx)) (h1 x (hI.q_lt x hx)).1

/-- **C07, a suspend decision is final.** From the step that writes `_suspend_exception` onwards — in
every reachable state in which it is set, hence until and including the main thread's wake-up and
after it — nothing is executing, nothing is queued, no branch is RUNNING, the policy is undecided and
the event is set, and every branch has been submitted (an unsubmitted branch is PENDING, which
`should_execution_suspend` treats as not idle).  (When the decision is taken all branches are idle, `C07X_suspend_only_when_idle`;
afterwards nothing can begin: the queue is empty and the timer thread's resubmitter, seeing the event, leaves a due
branch PENDING instead of starting it.  PENDING statuses may therefore appear; RUNNING never.) -/
theorem C07X_suspend_decision_idle (h : Reach n maxConc cfg s) (hk : s.suspendExc.isSome = true) :
    s.active = [] ∧ s.queue = [] ∧ (∀ i, i < n → s.status i ≠ .running) ∧
    Policy.shouldComplete cfg s.succ s.fail n = false ∧ s.evt = true ∧ s.submitted = n ∧
    s.ended = [] :=
  have hI := Inv.of_reach h
  have h0 := hI.susp_idle hk
  ⟨h0.1, h0.2.1, h0.2.2, hI.susp_undecided hk, hI.susp_evt hk, hI.susp_sub hk,
    ended_nil_of_idle hI h0.2.2⟩

/-- **C07, "suspended" means idle.** Whenever the main thread has raised the suspend exception, no
branch is RUNNING, no task is executing and none is queued — the statement refuted before the fix by
the run `[begin 0, finish 0 (suspUntil 0), timerFire 0 (ok), begin 0, wake]`, which is no longer a run
of the model (see the last example of this file). -/
theorem C07X_suspend_means_idle (h : Reach n maxConc cfg s) {k : Option Nat}
    (ho : s.out = some (.suspend k)) :
    s.active = [] ∧ s.queue = [] ∧ (∀ i, i < n → s.status i ≠ .running) ∧
    s.suspendExc.isSome = true ∧ Policy.shouldComplete cfg s.succ s.fail n = false ∧
    s.ended = [] :=
  have hk := (Inv.of_reach h).out_susp k ho
  have h0 := C07X_suspend_decision_idle h hk
  ⟨h0.1, h0.2.1, h0.2.2.1, hk, h0.2.2.2.1, h0.2.2.2.2.2.2⟩

/-- A branch becomes RUNNING **only** by its initial submission (`submit i` for the next unsubmitted
index, from PENDING), or — again — by the resubmitter, the second half of a resumption
(`resubmit i true`: refresh checkpoint ok), for the branch whose refresh is in flight, and that only
while the completion event is not set, hence before any decision (no suspend decision taken, main
thread not returned).  For the first half see `C07X_refresh_only_by_timer`. -/
theorem C07X_running_again_only_by_timer (h : Reach n maxConc cfg s) {a : Act}
    (hs : step s a = some s') {i : Nat} (h0 : s.status i ≠ .running) (h1 : s'.status i = .running) :
    (a = .submit i ∧ i = s.submitted ∧ s.status i = .pending) ∨
    (a = .resubmit i true ∧ s.evt = false ∧ s.out = none ∧ s.suspendExc = none ∧
      s.refreshing = some i ∧ s.status i = .pending) := by
  have hI := Inv.of_reach h
  rcases running_step hI.toBook hs h0 h1 with hr | hr
  · exact Or.inl hr
  · refine Or.inr ⟨hr.1, hr.2.1, ?_, ?_, hr.2.2⟩
    · cases ho : s.out
      · rfl
      · have := (hI.out_evt (by rw [ho]; rfl)).1; rw [hr.2.1] at this; cases this
    · cases hk : s.suspendExc
      · rfl
      · have := hI.susp_evt (by rw [hk]; rfl); rw [hr.2.1] at this; cases this

/-- … in particular a branch that was already submitted becomes RUNNING *again* only by the
resubmitter. -/
theorem C07X_running_again_only_by_timer' (h : Reach n maxConc cfg s) {a : Act}
    (hs : step s a = some s') {i : Nat} (hsub : i < s.submitted)
    (h0 : s.status i ≠ .running) (h1 : s'.status i = .running) :
    a = .resubmit i true ∧ s.evt = false ∧ s.out = none ∧ s.suspendExc = none ∧
      s.refreshing = some i ∧ s.status i = .pending := by
  rcases C07X_running_again_only_by_timer h hs h0 h1 with ⟨_, hi, _⟩ | hr
  · omega
  · exact hr

/-- … and a refresh is in flight for branch `i` only because the timer thread popped the due entry of
the timed-suspended branch `i` (`timerFire i`, the first half of the resumption), when no other
resumption was in flight. -/
theorem C07X_refresh_only_by_timer (h : Reach n maxConc cfg s) {a : Act}
    (hs : step s a = some s') {i : Nat} (h0 : s.refreshing ≠ some i) (h1 : s'.refreshing = some i) :
    a = .timerFire i ∧ s.refreshing = none ∧
    (∃ t, s.status i = .suspendedUntil t ∧ t ≤ s.clock ∧ (t, i) ∈ s.timers) ∧
    s'.status i = .pending := by
  have hI := Inv.of_reach h
  have hI' := hI.step hs
  rcases refreshing_step hI.toBook hs with e | ⟨j, t, ha, hn, hj, hst, hle⟩ | ⟨j, ok, _, _, hj⟩
  · rw [e] at h1; exact absurd h1 h0
  · rw [hj] at h1
    have hji : j = i := Option.some.inj h1
    subst hji
    exact ⟨ha, hn, ⟨t, hst, hle, hI.tim_has t j hst⟩, (hI'.refr j hj).2⟩
  · rw [hj] at h1; cases h1

/-- **One resumption at a time.** While a refresh is in flight the timer thread pops nothing. -/
theorem C09X_one_refresh_at_a_time (hr : s.refreshing.isSome = true) (i : Nat) :
    step s (.timerFire i) = none := timerFire_disabled hr i

/-- **The refresh window.** The branch whose refresh is in flight was submitted, is PENDING and has no
task and no timer entry; and from the `timerFire i` that opened the window, along every continuation of
the run that contains no `resubmit i _`, the window stays open and the branch stays PENDING (no other
action changes its status) — the main thread's `submit`s, workers and callbacks run in between. -/
theorem C09X_refresh_window (h : Reach n maxConc cfg s) {i : Nat} (hr : s.refreshing = some i) :
    (i < s.submitted ∧ i < n ∧ s.status i = .pending ∧ i ∉ s.queue ∧ i ∉ s.active ∧
      ∀ t, (t, i) ∉ s.timers) ∧
    ∀ acts s'', runActs s acts = some s'' → (∀ ok, Act.resubmit i ok ∉ acts) →
      s''.refreshing = some i ∧ s''.status i = .pending := by
  have hI := Inv.of_reach h
  have hp := (hI.refr i hr).2
  refine ⟨⟨(hI.refr i hr).1, Nat.lt_of_lt_of_le (hI.refr i hr).1 hI.sub_le, hp,
    fun hq => ?_, fun ha => ?_, fun t hm => ?_⟩, fun acts s'' hrun hno => refresh_window h hr acts hrun hno⟩
  · have := hI.run i (Or.inr hq); rw [hp] at this; cases this
  · have := hI.run i (Or.inl ha); rw [hp] at this; cases this
  · have := hI.tim_live t i hm; rw [hp] at this; cases this

/-- **C07, nothing is started after the decision.** Once the completion event is set, along every
continuation of the run the only additions to the work queue are the main thread's remaining initial
submissions (indices `s.submitted ≤ x < s'.submitted ≤ n`); no branch is re-submitted by the timer, and
only tasks that were queued or are so submitted can still become active. -/
theorem C07X_no_start_after_decision_general (h : Reach n maxConc cfg s) (he : s.evt = true)
    (acts : List Act) (hr : runActs s acts = some s') :
    s'.evt = true ∧ s.submitted ≤ s'.submitted ∧ s'.submitted ≤ n ∧
    (∀ x, x ∈ s'.queue → x ∈ s.queue ∨ (s.submitted ≤ x ∧ x < s'.submitted)) ∧
    (∀ x, x ∈ s'.active → x ∈ s.active ∨ x ∈ s.queue ∨ (s.submitted ≤ x ∧ x < s'.submitted)) :=
  queue_run h he acts hr

/-- … hence once the event is set **and everything is submitted** the work queue only shrinks and
only tasks that were already queued can still become active (the cancellation race of
`C09X_cancel_only_after_decision`). -/
theorem C07X_no_start_after_decision (h : Reach n maxConc cfg s) (he : s.evt = true)
    (hsub : s.submitted = n) (acts : List Act) (hr : runActs s acts = some s') :
    s'.evt = true ∧ s'.submitted = n ∧ s'.queue ⊆ s.queue ∧ s'.active ⊆ s.active ++ s.queue := by
  have hq := queue_run h he acts hr
  refine ⟨hq.1, by omega, fun x hx => ?_, fun x hx => ?_⟩
  · rcases hq.2.2.2.1 x hx with h1 | ⟨h1, h2⟩
    · exact h1
    · omega
  · rcases hq.2.2.2.2 x hx with h1 | h1 | ⟨h1, h2⟩
    · exact List.mem_append_left _ h1
    · exact List.mem_append_right _ h1
    · omega

/-- After the main thread returned nothing is queued any more and nothing is ever resubmitted. -/
theorem C07X_after_return_nothing_queued (h : Reach n maxConc cfg s) (ho : s.out.isSome = true) :
    s.evt = true ∧ s.queue = [] ∧ s.submitted = n :=
  have hI := Inv.of_reach h
  ⟨(hI.out_evt ho).1, (hI.out_evt ho).2, hI.out_sub ho⟩

/-- **C01 at executor level.** Once the main thread has left `execute()` - with a result (the map/parallel completion
record is written only after that), a suspension or a fatal error - no pool worker takes a branch task any more: whatever
was still queued, including re-submissions by the timer thread, has been cancelled, and `Reach` being closed under
steps this holds at every later point as well (`out` is never reset, `C01X_out_stable`). -/
theorem C01X_no_branch_start_after_return (h : Reach n maxConc cfg s) (ho : s.out.isSome = true) (i : Nat) :
    step s (.begin i) = none := by
  have hq := (C07X_after_return_nothing_queued h ho).2.1
  simp [step, begin_, hq]

/-- ... and it stays that way: the outcome is never rewritten (`wake` and `snapshot` are disabled once it is set) and
nothing is queued again - the resubmitter returns without submitting once the completion event is set. -/
theorem C01X_no_requeue_after_return (h : Reach n maxConc cfg s) (ho : s.out.isSome = true) {a : Act}
    (hs : step s a = some s') : s'.out = s.out ∧ s'.queue = [] := by
  have hout : s'.out = s.out := by
    rcases out_step (Inv.of_reach h).toBook hs with e | rfl | rfl
    · exact e
    · simp [step, wake, ho] at hs
    · simp [step, snapshot, ho] at hs
  have ho' : s'.out.isSome = true := by rw [hout]; exact ho
  exact ⟨hout, (C07X_after_return_nothing_queued (Reach.step a h hs) ho').2.1⟩

/-! ## 7. the main thread never waits forever -/

/-- **C07, never stuck (general form).** While the completion event is not set, the main thread is
still submitting, or a resumption is in flight (its `resubmit` is enabled), or the executor still
regards some branch as RUNNING: it can never be that every
branch is submitted and finished / suspended / waiting for a timer while the main thread keeps
waiting. -/
theorem C07X_waiting_implies_running (h : Reach n maxConc cfg s) (hn : 0 < n) (he : s.evt = false) :
    s.submitted < n ∨ s.refreshing.isSome = true ∨ ∃ i, i < n ∧ s.status i = .running :=
  running_of_not_evt (Inv.of_reach h) hn he

set_option synthInstance.maxSize 4096 in
/-- The wanted statement `evt = false → active ≠ [] ∨ queue ≠ [] ∨ (a live timer entry exists)` is
FALSE in the model: a task may end with `OrphanedChildException` *before* the event is set
(`finish 0 .orphan`, the callback of a task that ended that way, is not guarded); it returns without touching status or counters, the
branch stays RUNNING without a task, and from then on only `tick` is enabled — forever.
(`OrphanedChildException` means "the parent already completed", i.e. in the real code it is raised
only after the executor returned; the model over-approximates.) -/
theorem C07X_early_orphan_stuck_witness :
    (runActs (init 1 0 ⟨none, none, none⟩)
      [.submit 0, .begin 0, .taskEnd 0 .orphan, .finish 0 .orphan]).map
      (fun s => (s.evt, s.active, s.queue, s.timers, s.status 0, s.submitted, s.refreshing, s.ended))
      = some (false, [], [], [], .running, 1, none, []) := by decide

/-- … and such a state is stuck for good: only time passes. -/
theorem C07X_stuck_forever (ha : s.active = []) (hq : s.queue = []) (ht : s.timers = [])
    (he : s.evt = false) (hsub : s.n ≤ s.submitted) (hrf : s.refreshing = none)
    (hen : s.ended = []) (hret : s.returning = false) {a : Act} (hs : step s a = some s') :
    (∃ d, a = .tick d) ∧ s'.active = [] ∧ s'.queue = [] ∧ s'.timers = [] ∧ s'.evt = false ∧
    s'.n ≤ s'.submitted ∧ s'.refreshing = none ∧ s'.ended = [] ∧ s'.returning = false := by
  cases a with
  | submit i =>
    simp only [Par.step, Par.submit_] at hs
    split at hs
    · cases hs
    · rename_i h1
      have h1 : i = s.submitted := Decidable.not_not.1 h1
      rw [if_pos (by omega)] at hs; cases hs
  | begin i => simp [Par.step, Par.begin_, hq] at hs
  | taskEnd i f => simp [Par.step, Par.taskEnd, ha] at hs
  | finish i f => simp [Par.step, Par.finish, hen] at hs
  | timerFire i => simp [Par.step, Par.timerFire, ht] at hs
  | resubmit i ok => simp [Par.step, Par.resubmit, hrf] at hs
  | tick d => cases hs; exact ⟨⟨d, rfl⟩, ha, hq, ht, he, hsub, hrf, hen, hret⟩
  | cancel i => simp [Par.step, Par.cancel_, he] at hs
  | wake => simp [Par.step, Par.wake, he] at hs
  | snapshot => simp [Par.step, Par.snapshot, hret] at hs

/-- **C07, never stuck.** In every run in which the callback of a task that ended with
`OrphanedChildException` only runs after the completion event is set (`ReachO`: the restriction is on
`finish i .orphan`; `taskEnd i .orphan` is unrestricted), a waiting main thread (`evt = false`) always
has a task that is executing or queued, or a done-callback that is due, or is itself still submitting,
or a resumption is in flight; the timer disjunct of the wanted statement is never needed (when all
branches are idle the suspend decision itself sets the event). -/
theorem C07X_never_stuck (h : ReachO n maxConc cfg s) (hn : 0 < n) (he : s.evt = false) :
    s.active ≠ [] ∨ s.queue ≠ [] ∨ s.submitted < n ∨ s.refreshing.isSome = true ∨ s.ended ≠ [] := by
  rcases running_of_not_evt (Inv.of_reach h.reach) hn he with hsub | hrf | ⟨i, hi, hr⟩
  · exact Or.inr (Or.inr (Or.inl hsub))
  · exact Or.inr (Or.inr (Or.inr (Or.inl hrf)))
  rcases NoOrphan.of_reachO h he i hi hr with hm | hm | ⟨f, hm⟩
  · left; intro e; rw [e] at hm; cases hm
  · right; left; intro e; rw [e] at hm; cases hm
  · right; right; right; right; intro e; rw [e] at hm; cases hm

/-- … and then an action is enabled that makes progress: the function of an executing task can end (in
any way), or a due done-callback can run, or nothing is executing and a worker is free to start the
head of the queue (`0 < maxWorkers`), or the main thread can submit the next branch, or the timer
thread's resubmitter can finish the resumption in flight (either way). -/
theorem C07X_progress_enabled (h : ReachO n maxConc cfg s) (hn : 0 < n) (he : s.evt = false) :
    (∃ i, i ∈ s.active ∧ ∀ f, (step s (.taskEnd i f)).isSome = true) ∨
    (∃ i f, (i, f) ∈ s.ended ∧ (step s (.finish i f)).isSome = true) ∨
    (∃ i, s.queue.head? = some i ∧ (step s (.begin i)).isSome = true) ∨
    (s.submitted < n ∧ (step s (.submit s.submitted)).isSome = true) ∨
    (∃ i, s.refreshing = some i ∧ ∀ ok, (step s (.resubmit i ok)).isSome = true) := by
  have hB := (Inv.of_reach h.reach).toBook
  cases ha : s.active with
  | cons x xs =>
    left
    have hx : x ∈ s.active := by rw [ha]; simp
    exact ⟨x, by rw [← ha]; exact hx, fun f => taskEnd_enabled hx f⟩
  | nil =>
    right
    rcases C07X_never_stuck h hn he with h1 | h1 | h1 | h1 | h1
    · exact absurd ha h1
    · right; left
      cases hq : s.queue with
      | nil => exact absurd hq h1
      | cons x xs =>
        refine ⟨x, rfl, begin_enabled hq ?_⟩
        rw [ha]; exact maxWorkers_pos hB hn
    · right; right; left
      exact ⟨h1, submit_enabled (by rw [hB.hn]; exact h1)⟩
    · right; right; right
      cases hr : s.refreshing with
      | none => rw [hr] at h1; cases h1
      | some j => exact ⟨j, rfl, fun ok => resubmit_enabled hr ok⟩
    · left
      cases hen : s.ended with
      | nil => exact absurd hen h1
      | cons x xs =>
        obtain ⟨i, f⟩ := x
        have hm : (i, f) ∈ s.ended := by rw [hen]; simp
        exact ⟨i, f, by rw [← hen]; exact hm, finish_enabled hm⟩

/-- Enabledness in general: the function of an executing task can always end; a due done-callback can
always run; the head of the queue can start whenever
a worker is free; the main thread can always submit the next branch; once it has submitted everything
and the event is set it can cancel any queued task; the resubmitter can always finish the resumption
in flight, and meanwhile the timer thread pops nothing. -/
theorem C07X_enabled (s : St) :
    (∀ i f, i ∈ s.active → (step s (.taskEnd i f)).isSome = true) ∧
    (∀ i f, (i, f) ∈ s.ended → (step s (.finish i f)).isSome = true) ∧
    (∀ i rest, s.queue = i :: rest → s.active.length < s.maxWorkers →
      (step s (.begin i)).isSome = true) ∧
    (∀ d, (step s (.tick d)).isSome = true) ∧
    (∀ i, s.evt = true → s.out = none → s.n ≤ s.submitted → i ∈ s.queue →
      (step s (.cancel i)).isSome = true) ∧
    (s.submitted < s.n → (step s (.submit s.submitted)).isSome = true) ∧
    (∀ i ok, s.refreshing = some i → (step s (.resubmit i ok)).isSome = true) ∧
    (∀ i, s.refreshing.isSome = true → step s (.timerFire i) = none) ∧
    (s.evt = true → s.out = none → s.n ≤ s.submitted → s.returning = false →
      (step s .wake).isSome = true) ∧
    (s.returning = true → s.out = none → (step s .snapshot).isSome = true) :=
  ⟨fun _ f hi => taskEnd_enabled hi f, fun _ _ hm => finish_enabled hm,
    fun _ _ hq hw => begin_enabled hq hw, tick_enabled s,
    fun _ he ho hsub hi => cancel_enabled he ho hsub hi, submit_enabled,
    fun _ ok hr => resubmit_enabled hr ok, fun i hr => timerFire_disabled hr i,
    fun he ho hsub hr => wake_enabled he ho hsub hr, fun hr ho => snapshot_enabled hr ho⟩

/-! ## 8. fatal failures -/

/-- **C06/C07, a fatal failure wakes the main thread, which raises it** — provided the flag is set
before the main thread reads the flags (`returning = false`); once it is done submitting.  A fatal
failure recorded after that is ignored: `C06X_late_fatal_ignored_witness`. -/
theorem C06X_fatal_wakes (h : Reach n maxConc cfg s) :
    (∀ i, finish s i .fatal = some s' → s'.fatal = true ∧ s'.evt = true) ∧
    (∀ i, resubmit s i false = some s' →
      s'.fatal = true ∧ s'.evt = true ∧ s'.status i = .pending ∧ s'.refreshing = none) ∧
    (s.fatal = true → s.evt = true) ∧
    (∀ a, step s a = some s' → s.fatal = true → s'.fatal = true) ∧
    (s.fatal = true → wake s = some s' → s'.out = some .fatal) ∧
    (s.fatal = true → s.out = none → s.submitted = n → s.returning = false →
      ∃ s'', step s .wake = some s'' ∧ s''.out = some .fatal) ∧
    (s.out = some .fatal → s.fatal = true) := by
  have hI := Inv.of_reach h
  refine ⟨fun i hs => finish_fatal hs, fun i hs => resubmit_false_fatal hI.toBook hs,
    hI.fatal_evt, fun a hs => (mono_step hI.toBook hs).1, fun hf hs => wake_fatal hf hs, ?_,
    hI.out_fatal⟩
  intro hf ho hsub hret
  have hen := wake_enabled (hI.fatal_evt hf) ho (by rw [hI.hn, hsub]; exact Nat.le_refl _) hret
  cases hw : step s .wake with
  | none => rw [hw] at hen; cases hen
  | some s'' => exact ⟨s'', rfl, wake_fatal hf hw⟩

set_option synthInstance.maxSize 4096 in
/-- **Finding (late fatal is ignored).** Reading the flags (`wake`) and building the result
(`snapshot`) are two instants.  n = 3, two workers, `min_successful = 1`: branch 1 succeeds, the policy
is decided, the main thread wakes and finds neither flag set (`returning`); only now branch 0's task
dies with a fatal failure (failed checkpoint) and its callback sets the fatal flag — and the main
thread nevertheless returns a **result** (branch 0 reported RUNNING, i.e. started; `fatal = true` is
left behind unread).  Had the callback run before `wake`, the outcome would be `fatal` (second
component).  What the model allows exactly: `out = some (.result _) ∧ fatal = true` is reachable iff the
fatal flag is set after `wake`; before `wake` it always wins (`C06X_fatal_wakes`). -/
theorem C06X_late_fatal_ignored_witness :
    (runActs (init 3 2 ⟨some 1, none, none⟩)
      [.submit 0, .submit 1, .submit 2, .begin 0, .begin 1, .taskEnd 1 .ok, .finish 1 .ok, .begin 2,
       .wake, .taskEnd 0 .fatal, .finish 0 .fatal, .snapshot]).map
      (fun s => (s.out, s.fatal, s.active))
      = some (some (.result [.running, .completed, .running]), true, [2]) ∧
    (runActs (init 3 2 ⟨some 1, none, none⟩)
      [.submit 0, .submit 1, .submit 2, .begin 0, .begin 1, .taskEnd 1 .ok, .finish 1 .ok, .begin 2,
       .taskEnd 0 .fatal, .finish 0 .fatal, .wake]).map (fun s => (s.out, s.fatal))
      = some (some .fatal, true) ∧
    (runActs (init 3 2 ⟨some 1, none, none⟩)
      [.submit 0, .submit 1, .submit 2, .begin 0, .begin 1, .taskEnd 1 .ok, .finish 1 .ok, .begin 2,
       .wake]).map (fun s => (s.out, s.returning, s.fatal, s.active))
      = some (none, true, false, [0, 2]) ∧
    (runActs (init 3 2 ⟨some 1, none, none⟩)
      [.submit 0, .submit 1, .submit 2, .begin 0, .begin 1, .taskEnd 1 .ok, .finish 1 .ok, .begin 2,
       .wake, .wake]).isNone = true := by decide

/-- The strongest true statement about a returned result and the fatal flag: when the main thread read
the flags (the `wake` step that set `returning`) the flag was not set; every reachable state with a
result is on that path. -/
theorem C06X_result_means_no_fatal_at_wake (h : Reach n maxConc cfg s) {a : Act}
    (hs : step s a = some s') (hr : s.returning = false) (hr' : s'.returning = true) :
    a = .wake ∧ s.fatal = false ∧ s.suspendExc = none ∧ s.evt = true ∧ s.out = none ∧
    Policy.shouldComplete cfg s.succ s.fail n = true := by
  have hI := Inv.of_reach h
  have hw : a = .wake := by
    cases a with
    | submit i => rcases submit_spec hs with ⟨_, _, rfl⟩; rw [hr] at hr'; cases hr'
    | begin i => rcases begin_spec hs with ⟨_, _, _, rfl⟩; rw [hr] at hr'; cases hr'
    | taskEnd i f => rcases taskEnd_spec hs with ⟨_, rfl⟩; rw [hr] at hr'; cases hr'
    | finish i f =>
      exfalso
      rcases finish_spec hs with ⟨_, ⟨b, _, _, rfl⟩ | ⟨_, rfl⟩ | ⟨_, rfl⟩⟩
      · rcases decide_cases { s with
          ended := s.ended.erase (i, f),
          status := fun x => if x = i then b else s.status x,
          succ := s.succ + (if isCompleted b then 1 else 0),
          fail := s.fail + (if isFailed b then 1 else 0),
          timers := finTimers f s.timers i } with ⟨_, e⟩ | ⟨_, k, _, e⟩ | ⟨_, _, e⟩ <;>
          rw [e] at hr' <;> rw [hr] at hr' <;> cases hr'
      · rw [hr] at hr'; cases hr'
      · rw [hr] at hr'; cases hr'
    | timerFire i =>
      rcases timerFire_spec hI.toBook hs with ⟨_, t, _, _, _, rfl⟩; rw [hr] at hr'; cases hr'
    | resubmit i ok =>
      rcases resubmit_spec hs with ⟨_, ⟨_, _, rfl⟩ | ⟨_, _, rfl⟩ | ⟨_, rfl⟩⟩ <;>
        rw [hr] at hr' <;> cases hr'
    | tick d => cases hs; rw [hr] at hr'; cases hr'
    | cancel i => rcases cancel_spec hs with ⟨_, _, _, _, rfl⟩; rw [hr] at hr'; cases hr'
    | wake => rfl
    | snapshot => rcases snapshot_spec hs with ⟨_, _, rfl⟩; rw [hr] at hr'; cases hr'
  subst hw
  rcases wake_spec hs with ⟨he, ho, _, _, ⟨_, rfl⟩ | ⟨_, k, _, rfl⟩ | ⟨hf, hk, rfl⟩⟩
  · rw [hr] at hr'; cases hr'
  · rw [hr] at hr'; cases hr'
  · exact ⟨rfl, hf, hk, he, ho, ((hI.step hs).ret_inv rfl).2.2.2⟩

/-- Flags never go back: `fatal`, the event, the main thread's outcome and the presence of a suspend
decision are monotone along every step. -/
theorem C06X_flags_monotone (h : Reach n maxConc cfg s) {a : Act} (hs : step s a = some s') :
    (s.fatal = true → s'.fatal = true) ∧ (s.evt = true → s'.evt = true) ∧
    (∀ o, s.out = some o → s'.out = some o) ∧
    (s.suspendExc.isSome = true → s'.suspendExc.isSome = true) :=
  mono_step (Inv.of_reach h).toBook hs

/-! ## 9. a progress measure -/

/-- Every task that returns or raises strictly decreases the number of unfinished branches
`n - (succ + fail)` (which is well defined: `succ + fail ≤ n`). -/
theorem C09X_progress_measure (h : Reach n maxConc cfg s) {i : Nat} {f : Fin}
    (hf : f = .ok ∨ f = .err) (hs : step s (.finish i f) = some s') :
    n - (s'.succ + s'.fail) < n - (s.succ + s.fail) ∧ s'.succ + s'.fail ≤ n := by
  have hI := Inv.of_reach h
  have hle := (hI.step hs).toBook.succ_fail_le
  refine ⟨?_, hle⟩
  rcases counters_step hI.toBook hs with ⟨e1, e2⟩ | ⟨j, _, e1, e2⟩ | ⟨j, _, e1, e2⟩
  · exfalso
    rcases finish_spec hs with ⟨hi, ⟨b, hfb, hb, hs'⟩ | ⟨hf', _⟩ | ⟨hf', _⟩⟩
    · have d := decide_fields { s with
          ended := s.ended.erase (i, f),
          status := fun x => if x = i then b else s.status x,
          succ := s.succ + (if isCompleted b then 1 else 0),
          fail := s.fail + (if isFailed b then 1 else 0),
          timers := finTimers f s.timers i }
      rw [← hs'] at d
      have d1 := d.2.2.2.2.2.1
      have d2 := d.2.2.2.2.2.2.1
      simp only at d1 d2
      rcases hf with rfl | rfl <;> cases hfb <;> simp [isCompleted, isFailed] at d1 d2 <;> omega
    · rcases hf with rfl | rfl <;> cases hf'
    · rcases hf with rfl | rfl <;> cases hf'
  · rw [e1, e2] at hle ⊢; omega
  · rw [e1, e2] at hle ⊢; omega

/-! ## 10. non-vacuity -/

/-- (i) n = 3, at most 2 at once, `min_successful = 1`: the third branch cannot start; the first
success sets the event; the main thread returns at once, reporting branch 1 still RUNNING (not waited
for) and the never-started branch 2 as cancelled. -/
example :
    (runActs (init 3 2 ⟨some 1, none, none⟩)
      [.submit 0, .submit 1, .submit 2, .begin 0, .begin 1, .begin 2]).isNone = true ∧
    (runActs (init 3 2 ⟨some 1, none, none⟩)
      [.submit 0, .submit 1, .submit 2, .begin 0, .begin 1, .taskEnd 0 .ok, .finish 0 .ok]).map
      (fun s => (s.evt, s.active, s.queue, s.maxActive)) = some (true, [1], [2], 2) ∧
    (runActs (init 3 2 ⟨some 1, none, none⟩)
      [.submit 0, .submit 1, .submit 2, .begin 0, .begin 1, .taskEnd 0 .ok, .finish 0 .ok, .wake, .snapshot]).map
      (fun s => (s.out, s.active)) =
        some (some (.result [.completed, .running, .suspended]), [1]) := by decide

/-- (ii) fail-fast: no tolerance configured, one worker; the first failure decides the policy. -/
example :
    (runActs (init 3 1 ⟨none, none, none⟩) [.submit 0, .submit 1, .submit 2, .begin 0, .taskEnd 0 .err, .finish 0 .err, .wake, .snapshot]).map
      (fun s => (s.out, s.succ, s.fail)) =
        some (some (.result [.failed, .suspended, .suspended]), 0, 1) := by decide

/-- (iii) suspension with timers: both branches wait → the decision is the earliest resume time; and
a run in which the timer thread resumes a branch before everything is idle, ending in a result. -/
example :
    (runActs (init 2 0 ⟨none, none, none⟩)
      [.submit 0, .submit 1, .begin 0, .begin 1, .taskEnd 0 (.suspUntil 5), .finish 0 (.suspUntil 5), .taskEnd 1 (.suspUntil 3), .finish 1 (.suspUntil 3), .wake]).map
      (fun s => (s.out, s.timers)) = some (some (.suspend (some 3)), [(5, 0), (3, 1)]) ∧
    (runActs (init 2 0 ⟨none, none, none⟩)
      [.submit 0, .submit 1, .begin 0, .begin 1, .taskEnd 0 (.suspUntil 5), .finish 0 (.suspUntil 5), .timerFire 0, .resubmit 0 true]).isNone = true ∧
    (runActs (init 2 0 ⟨none, none, none⟩)
      [.submit 0, .submit 1, .begin 0, .begin 1, .taskEnd 0 (.suspUntil 5), .finish 0 (.suspUntil 5), .tick 5, .timerFire 0, .resubmit 0 true, .begin 0,
       .taskEnd 0 .ok, .finish 0 .ok, .taskEnd 1 .ok, .finish 1 .ok, .wake, .snapshot]).map (fun s => s.out)
      = some (some (.result [.completed, .completed])) := by decide

/-- (iv) fatal: a failed checkpoint in a branch, or in the timer thread's resubmission, wakes the main
thread, which raises it although another branch is still executing. -/
example :
    (runActs (init 2 0 ⟨none, none, none⟩) [.submit 0, .submit 1, .begin 0, .begin 1, .taskEnd 0 .fatal, .finish 0 .fatal, .wake]).map
      (fun s => (s.out, s.active)) = some (some .fatal, [1]) ∧
    (runActs (init 2 0 ⟨none, none, none⟩)
      [.submit 0, .submit 1, .begin 0, .begin 1, .taskEnd 0 (.suspUntil 1), .finish 0 (.suspUntil 1), .tick 1, .timerFire 0, .resubmit 0 false, .wake]).map
      (fun s => (s.out, s.status 0)) = some (some .fatal, .pending) := by decide


/-- (v) cancellation is not atomic with the wake-up: n = 5, two workers, no tolerance.  Branch 1
suspends until time 0, branch 2 suspends, the timer thread resubmits branch 1 behind the still queued
branch 4, the failure of branch 3 decides the policy; the woken main thread cancels branch 4, a worker
still begins the resubmitted branch 1, and only then `wake` fixes the result: branches 0 and 1 are
reported RUNNING (not waited for), 2 and the cancelled 4 SUSPENDED, 3 FAILED — and never more than two
tasks were executing. `cancel` is not enabled before the event is set. -/
example :
    (runActs (init 5 2 ⟨none, none, none⟩)
      [.submit 0, .submit 1, .submit 2, .submit 3, .submit 4,
       .begin 0, .begin 1, .taskEnd 1 (.suspUntil 0), .finish 1 (.suspUntil 0), .begin 2, .taskEnd 2 .susp, .finish 2 .susp, .begin 3,
       .timerFire 1, .resubmit 1 true, .cancel 4]).isNone = true ∧
    (runActs (init 5 2 ⟨none, none, none⟩)
      [.submit 0, .submit 1, .submit 2, .submit 3, .submit 4,
       .begin 0, .begin 1, .taskEnd 1 (.suspUntil 0), .finish 1 (.suspUntil 0), .begin 2, .taskEnd 2 .susp, .finish 2 .susp, .begin 3,
       .timerFire 1, .resubmit 1 true, .taskEnd 3 .err, .finish 3 .err, .cancel 4]).map
      (fun s => (s.evt, s.queue, s.status 4)) = some (true, [1], .suspended) ∧
    (runActs (init 5 2 ⟨none, none, none⟩)
      [.submit 0, .submit 1, .submit 2, .submit 3, .submit 4,
       .begin 0, .begin 1, .taskEnd 1 (.suspUntil 0), .finish 1 (.suspUntil 0), .begin 2, .taskEnd 2 .susp, .finish 2 .susp, .begin 3,
       .timerFire 1, .resubmit 1 true, .taskEnd 3 .err, .finish 3 .err, .cancel 4, .begin 1, .wake, .snapshot]).map
      (fun s => (s.out, s.active, s.maxActive)) =
        some (some (.result [.running, .running, .suspended, .failed, .suspended]), [0, 1], 2) := by
  decide

set_option synthInstance.maxSize 1024 in
/-- (vi) the timer thread bails out after the decision: the only branch suspends until time 0 → the
suspend decision sets the event; the timer thread pops the due entry but, seeing the event, leaves the
branch PENDING and queues nothing; the main thread raises the timed suspend with everything idle.  The
pre-fix witness runs (a worker beginning the resubmitted branch) are no longer runs of the model. -/
example :
    (runActs (init 1 0 ⟨none, none, none⟩)
      [.submit 0, .begin 0, .taskEnd 0 (.suspUntil 0), .finish 0 (.suspUntil 0), .timerFire 0, .resubmit 0 true, .wake]).map
      (fun s => (s.out, s.status 0, s.queue, s.active, s.timers, s.fatal))
      = some (some (.suspend (some 0)), .pending, [], [], [], false) ∧
    (runActs (init 1 0 ⟨none, none, none⟩)
      [.submit 0, .begin 0, .taskEnd 0 (.suspUntil 0), .finish 0 (.suspUntil 0), .timerFire 0, .resubmit 0 true, .begin 0]).isNone = true ∧
    (runActs (init 2 0 ⟨some 1, none, none⟩)
      [.submit 0, .submit 1, .begin 0, .begin 1, .taskEnd 0 (.suspUntil 0), .finish 0 (.suspUntil 0), .taskEnd 1 .susp, .finish 1 .susp, .timerFire 0, .resubmit 0 true,
       .begin 0]).isNone = true := by decide

set_option synthInstance.maxSize 1024 in
/-- (vii) sequential submission (the run that motivated it): n = 4, three workers.  Branch 0 parks and
is re-submitted by the timer thread *before* the main thread has submitted branches 2 and 3: the work
queue is `[1, 0]` with 2 and 3 still PENDING, later `[0, 2, 3]` — so the re-submitted `begin 0` comes
before `begin 2` (which is disabled until then).  `submit` is only enabled for the next index.  And
the main thread does not wake before it has submitted everything, even though a failure has already
decided the policy; once it has, the never-started branches are reported cancelled. -/
example :
    (runActs (init 4 3 ⟨none, none, none⟩)
      [.submit 0, .submit 1, .begin 0, .taskEnd 0 (.suspUntil 0), .finish 0 (.suspUntil 0), .timerFire 0, .resubmit 0 true]).map
      (fun s => (s.queue, s.status 2, s.status 3, s.submitted))
      = some ([1, 0], .pending, .pending, 2) ∧
    (runActs (init 4 3 ⟨none, none, none⟩)
      [.submit 0, .submit 1, .begin 0, .taskEnd 0 (.suspUntil 0), .finish 0 (.suspUntil 0), .timerFire 0, .resubmit 0 true, .begin 1,
       .submit 2, .submit 3]).map (fun s => (s.queue, s.active)) = some ([0, 2, 3], [1]) ∧
    (runActs (init 4 3 ⟨none, none, none⟩)
      [.submit 0, .submit 1, .begin 0, .taskEnd 0 (.suspUntil 0), .finish 0 (.suspUntil 0), .timerFire 0, .resubmit 0 true, .begin 1,
       .submit 2, .submit 3, .begin 2]).isNone = true ∧
    (runActs (init 4 3 ⟨none, none, none⟩)
      [.submit 0, .submit 1, .begin 0, .taskEnd 0 (.suspUntil 0), .finish 0 (.suspUntil 0), .timerFire 0, .resubmit 0 true, .begin 1,
       .submit 2, .submit 3, .begin 0, .begin 2]).map (fun s => (s.queue, s.active, s.maxActive))
      = some ([3], [1, 0, 2], 3) ∧
    (runActs (init 4 3 ⟨none, none, none⟩) [.submit 1]).isNone = true ∧
    (runActs (init 4 3 ⟨none, none, none⟩)
      [.submit 0, .submit 1, .begin 0, .taskEnd 0 (.suspUntil 0), .finish 0 (.suspUntil 0), .timerFire 0, .resubmit 0 true, .begin 1,
       .taskEnd 1 .err, .finish 1 .err, .wake]).isNone = true ∧
    (runActs (init 4 3 ⟨none, none, none⟩)
      [.submit 0, .submit 1, .begin 0, .taskEnd 0 (.suspUntil 0), .finish 0 (.suspUntil 0), .timerFire 0, .resubmit 0 true, .begin 1,
       .taskEnd 1 .err, .finish 1 .err, .submit 2, .submit 3, .wake, .snapshot]).map (fun s => s.out)
      = some (some (.result [.suspended, .failed, .suspended, .suspended])) := by decide

set_option synthInstance.maxSize 1024 in
/-- (viii) the resumption has two halves (the run that motivated the split): n = 3.  The timer thread
pops branch 1's due entry and resets it to PENDING (`timerFire 1`: refresh in flight, nothing queued);
the main thread's `submit 2` gets in between; only then the resubmitter queues branch 1: the work
queue is `[2, 1]` — whereas with the resubmitter first it is `[1, 2]`.  While a refresh is in flight
the timer thread pops no further due entry.  The main thread may read the flags and build the result
while a refresh is in flight: the resubmitter then bails out (branch reported PENDING, i.e. started),
or records a fatal failure that nobody reads any more. -/
example :
    (runActs (init 3 0 ⟨none, none, none⟩)
      [.submit 0, .begin 0, .submit 1, .begin 1, .taskEnd 1 (.suspUntil 0), .finish 1 (.suspUntil 0), .timerFire 1]).map
      (fun s => (s.queue, s.status 1, s.status 2, s.refreshing, s.timers))
      = some ([], .pending, .pending, some 1, []) ∧
    (runActs (init 3 0 ⟨none, none, none⟩)
      [.submit 0, .begin 0, .submit 1, .begin 1, .taskEnd 1 (.suspUntil 0), .finish 1 (.suspUntil 0), .timerFire 1, .submit 2,
       .resubmit 1 true]).map (fun s => (s.queue, s.refreshing)) = some ([2, 1], none) ∧
    (runActs (init 3 0 ⟨none, none, none⟩)
      [.submit 0, .begin 0, .submit 1, .begin 1, .taskEnd 1 (.suspUntil 0), .finish 1 (.suspUntil 0), .timerFire 1,
       .resubmit 1 true, .submit 2]).map (fun s => (s.queue, s.refreshing)) = some ([1, 2], none) ∧
    (runActs (init 3 0 ⟨none, none, none⟩)
      [.submit 0, .begin 0, .submit 1, .begin 1, .taskEnd 1 (.suspUntil 0), .finish 1 (.suspUntil 0), .taskEnd 0 (.suspUntil 0), .finish 0 (.suspUntil 0),
       .timerFire 1, .timerFire 0]).isNone = true ∧
    (runActs (init 3 0 ⟨none, none, none⟩)
      [.submit 0, .begin 0, .submit 1, .begin 1, .taskEnd 1 (.suspUntil 0), .finish 1 (.suspUntil 0), .taskEnd 0 (.suspUntil 0), .finish 0 (.suspUntil 0),
       .timerFire 1, .resubmit 1 true, .timerFire 0]).map (fun s => (s.queue, s.refreshing))
      = some ([1], some 0) ∧
    (runActs (init 2 0 ⟨none, none, none⟩)
      [.submit 0, .submit 1, .begin 0, .begin 1, .taskEnd 0 (.suspUntil 0), .finish 0 (.suspUntil 0), .timerFire 0,
       .taskEnd 1 .err, .finish 1 .err, .wake, .resubmit 0 true, .snapshot]).map (fun s => (s.out, s.queue, s.status 0, s.fatal))
      = some (some (.result [.pending, .failed]), [], .pending, false) ∧
    (runActs (init 2 0 ⟨none, none, none⟩)
      [.submit 0, .submit 1, .begin 0, .begin 1, .taskEnd 0 (.suspUntil 0), .finish 0 (.suspUntil 0), .timerFire 0,
       .taskEnd 1 .err, .finish 1 .err, .wake, .resubmit 0 false, .snapshot]).map (fun s => (s.out, s.fatal))
      = some (some (.result [.pending, .failed]), true) := by decide

set_option synthInstance.maxSize 4096 in
/-- (ix) the worker is free before the callback runs (the run that motivated the split of `finish`):
n = 2, one worker.  Branch 0 parks and is re-submitted behind branch 1; when branch 1's task function
has ended (`taskEnd 1 ok`) the worker takes the re-submitted branch 0 (`begin 0`) although branch 1's
done-callback has not run yet: branch 1 is still RUNNING with its callback due, the counters have not
moved, and never more than one task is executing (`maxActive = 1`).  Before `taskEnd 1 ok` that
`begin 0` is disabled (the only worker is busy); and a callback cannot run before its task ended. -/
example :
    (runActs (init 2 1 ⟨none, none, none⟩)
      [.submit 0, .begin 0, .taskEnd 0 (.suspUntil 0), .finish 0 (.suspUntil 0), .timerFire 0,
       .submit 1, .begin 1, .resubmit 0 true, .begin 0]).isNone = true ∧
    (runActs (init 2 1 ⟨none, none, none⟩)
      [.submit 0, .begin 0, .taskEnd 0 (.suspUntil 0), .finish 0 (.suspUntil 0), .timerFire 0,
       .submit 1, .begin 1, .resubmit 0 true, .taskEnd 1 .ok, .begin 0]).map
      (fun s => (s.active, s.ended, s.status 1, s.succ, s.evt, s.maxActive))
      = some ([0], [(1, .ok)], .running, 0, false, 1) ∧
    (runActs (init 2 1 ⟨none, none, none⟩)
      [.submit 0, .begin 0, .taskEnd 0 (.suspUntil 0), .finish 0 (.suspUntil 0), .timerFire 0,
       .submit 1, .begin 1, .resubmit 0 true, .taskEnd 1 .ok, .begin 0, .finish 1 .ok,
       .taskEnd 0 .ok, .finish 0 .ok, .wake, .snapshot]).map (fun s => (s.out, s.maxActive, s.succ, s.ended))
      = some (some (.result [.completed, .completed]), 1, 2, []) ∧
    (runActs (init 2 1 ⟨none, none, none⟩) [.submit 0, .begin 0, .finish 0 .ok]).isNone = true := by
  decide

set_option synthInstance.maxSize 4096 in
/-- (x) `C01X_no_branch_start_after_return` is not vacuous (the run behind seeded change C01-6): n = 3, one worker,
`min_successful = 1`.  Branches 0 and 1 park on timers, branch 2 runs; both timers fire and both re-submissions are
queued behind it; branch 2 succeeds and decides the batch.  The worker takes the re-submitted branch 0 (allowed: the main
thread has not returned yet), the main thread wakes up and builds the result - branch 1's queued re-submission is
cancelled with the pool - and from then on `begin 1` is disabled. -/
example :
    (runActs (init 3 1 ⟨some 1, none, none⟩)
      [.submit 0, .begin 0, .taskEnd 0 (.suspUntil 1), .finish 0 (.suspUntil 1),
       .submit 1, .begin 1, .taskEnd 1 (.suspUntil 1), .finish 1 (.suspUntil 1), .submit 2, .begin 2, .tick 1,
       .timerFire 0, .resubmit 0 true, .timerFire 1, .resubmit 1 true,
       .taskEnd 2 .ok, .finish 2 .ok, .begin 0, .wake, .snapshot]).map (fun s => (s.out, s.queue, s.active))
      = some (some (.result [.running, .suspended, .completed]), [], [0]) ∧
    (runActs (init 3 1 ⟨some 1, none, none⟩)
      [.submit 0, .begin 0, .taskEnd 0 (.suspUntil 1), .finish 0 (.suspUntil 1),
       .submit 1, .begin 1, .taskEnd 1 (.suspUntil 1), .finish 1 (.suspUntil 1), .submit 2, .begin 2, .tick 1,
       .timerFire 0, .resubmit 0 true, .timerFire 1, .resubmit 1 true,
       .taskEnd 2 .ok, .finish 2 .ok, .begin 0, .wake, .snapshot, .taskEnd 0 .orphan, .begin 1]).isNone = true := by
  decide

end C09X
