import Proofs.EngineH
import DurableModel.Script
/-!
# C12 — Step retries: attempts counted exactly, bounded, durably scheduled (engine part)

Handler-level theorems about `handleStep` / `stepExecute` / `retryHandler` of
`DurableModel/Engine.lean`.  Notation (from `Proofs/EngineH.lean`):
* `att r = (r.map (·.attempt)).getD 0 + 1` — the number of the attempt about to be made when the
  record handed to `execute` is `r` (1 when there is none);
* `stepRetryUpd p e d`, `stepFailUpd p e`, `stepSucceedUpd p v` — the synchronous RETRY / FAIL /
  SUCCEED updates (`stepRetryUpd` has `delay = some (max 1 d)`, `error = some (ErrObj.ofExc e)`);
* `ckOk s u t'` — the state after a synchronous checkpoint of `u` that the backend accepted with
  table `t'` (trace `++ [upd u, applied u]`, two crash points consumed);
* `ticked s` — `s` after one crash point was passed.
"Nothing goes wrong" hypotheses are explicit: `hb` (enough crash budget), `hf` (this synchronous
call is not the injected fault), `ha` (the backend accepts the update).
-/
namespace C12
open Engine EngineH

theorem att_def (r : Option OpRec) : att r = (r.map (·.attempt)).getD 0 + 1 := rfl

/-! ## Attempt numbering -/

/-- **C12_attempt_numbering.** `stepExecute` first emits `enter p step a none` with
`a = attempts recorded so far + 1`; no other user function is entered by it (so the body runs at
most once per call); and the body, the retry strategy and nothing else are evaluated at exactly
that `a` (second conjunct: the function *is* this expression). -/
theorem C12_attempt_numbering (s : St) (p : Pos) (spec : StepSpec) (r : Option OpRec) :
    (∃ rest, newEvents s (stepExecute s p spec r).st = .enter p .step (att r) none :: rest ∧
        ∀ ev ∈ rest, isEnter ev = false) ∧
    stepExecute s p spec r =
      match tick (emit s (.enter p .step (att r) none)) with
      | none => .stop .crashed (emit s (.enter p .step (att r) none))
      | some s₁ =>
        match spec.body (att r) with
        | .ok v =>
          (match checkpoint s₁ (stepSucceedUpd p v) with
           | .error (en, s) => .stop en s
           | .ok s => deliverAt s p (.ok v))
        | .err e => retryHandler s₁ p spec r e :=
  ⟨newEvents_cons_of_grows
      (stepExecute_grows_after (P := fun ev => isEnter ev = false) s p spec r (fun _ h _ => h)
        (fun _ _ _ _ => rfl)),
   stepExecute_eq s p spec r⟩

/-- First attempt: a step with no record (at-least-once START is asynchronous) runs attempt 1. -/
theorem C12_first_attempt_is_one (s : St) (p : Pos) (spec : StepSpec) :
    ∃ rest, newEvents s (stepExecute s p spec none).st = .enter p .step 1 none :: rest :=
  let ⟨rest, h, _⟩ := (C12_attempt_numbering s p spec none).1
  ⟨rest, h⟩

/-- After `k` recorded retries (`r.attempt = k`) the step runs attempt `k + 1`. -/
theorem C12_attempt_after_retries (s : St) (p : Pos) (spec : StepSpec) (r : OpRec) :
    ∃ rest, newEvents s (stepExecute s p spec (some r)).st = .enter p .step (r.attempt + 1) none :: rest :=
  let ⟨rest, h, _⟩ := (C12_attempt_numbering s p spec (some r)).1
  ⟨rest, h⟩

/-- "One more after each recorded retry", composed: the table's record is `r₀`; the RETRY sent for
attempt `r₀.attempt + 1` is applied (`t'`), the retry timer fires (`t''`).  On any state showing the
resulting record, an at-least-once `handleStep` re-executes the function at once and numbers the
attempt `r₀.attempt + 2`. -/
theorem C12_next_attempt_after_retry (s : St) (p : Pos) (r₀ : OpRec) (e : Exc) (d : Nat)
    (t' t'' : Tbl) (hl : lookup s.tbl p = some r₀)
    (ha : Backend.apply s.tbl (stepRetryUpd p e d) (s.imm p) = some t')
    (hfire : Backend.fire t' (.retryReady p) = some t'')
    (s₂ : St) (h₂ : lookup s₂.tbl p = lookup t'' p) (spec₂ : StepSpec) (hamo : spec₂.amo = false) :
    ∃ r₂, lookup t'' p = some r₂ ∧ r₂.status = .ready ∧ r₂.attempt = r₀.attempt + 1 ∧
      handleStep s₂ p spec₂ = stepExecute s₂ p spec₂ (some r₂) ∧
      ∃ rest, newEvents s₂ (handleStep s₂ p spec₂).st = .enter p .step (r₀.attempt + 2) none :: rest := by
  obtain ⟨r₁, hl₁, _, _, _, rfl⟩ := apply_retry_inv (u := stepRetryUpd p e d) rfl ha
  have : r₁ = r₀ := by
    have hl₂ : lookup s.tbl p = some r₁ := hl₁
    rw [hl] at hl₂; cases hl₂; rfl
  subst this
  obtain ⟨r', hl', _, _, rfl⟩ := fire_retryReady_inv hfire
  have hr' := Option.some.inj ((lookup_upsert_self _ _ _).symm.trans hl')
  subst hr'
  have hlk := lookup_upsert_self (upsert s.tbl p
      { r₁ with status := .pending, attempt := r₁.attempt + 1, error := some (ErrObj.ofExc e) })
    p { kind := r₁.kind, status := .ready, attempt := r₁.attempt + 1, result := r₁.result,
        error := some (ErrObj.ofExc e), replayChildren := r₁.replayChildren }
  refine ⟨_, hlk, rfl, rfl, ?_⟩
  have h₂' : lookup s₂.tbl p = some
      { kind := r₁.kind, status := .ready, attempt := r₁.attempt + 1, result := r₁.result,
        error := some (ErrObj.ofExc e), replayChildren := r₁.replayChildren } := h₂.trans hlk
  have heq := handleStep_run_alo spec₂ h₂' (.inr rfl) hamo
  refine ⟨heq, ?_⟩
  rw [heq]
  exact C12_attempt_after_retries s₂ p spec₂ _

example : ∃ (s : St) (p : Pos) (r₀ : OpRec) (e : Exc) (d : Nat) (t' t'' : Tbl) (s₂ : St),
    lookup s.tbl p = some r₀ ∧ Backend.apply s.tbl (stepRetryUpd p e d) (s.imm p) = some t' ∧
    Backend.fire t' (.retryReady p) = some t'' ∧ lookup s₂.tbl p = lookup t'' p :=
  ⟨{ tbl := [([1], { kind := .step, status := .started })], syncTbl := [], budget := 3 }, [1],
   { kind := .step, status := .started }, { cls := "E", msg := "m" }, 0,
   [([1], { kind := .step, status := .pending, attempt := 1,
            error := some { message := some "m", type := some "E" } })],
   [([1], { kind := .step, status := .ready, attempt := 1,
            error := some { message := some "m", type := some "E" } })],
   { tbl := [([1], { kind := .step, status := .ready, attempt := 1,
                     error := some { message := some "m", type := some "E" } })],
     syncTbl := [], budget := 3 },
   by decide, by decide, by decide, by decide⟩

/-! ## The strategy is consulted with the number of attempts made -/

/-- **C12_strategy_argument.** If the body fails with `e` at attempt `a = att r` and the crash point
inside the body passes (`1 ≤ budget`), `stepExecute` is `retryHandler` on the ticked state with the
same record; `retryHandler` consults `spec.strategy e a` with that same `a` (third conjunct: its
result depends on the strategy only through the value at `(e, a)`). -/
theorem C12_strategy_argument (s : St) (p : Pos) (spec : StepSpec) (r : Option OpRec) (e : Exc)
    (hb : 1 ≤ s.budget) (hbody : spec.body (att r) = .err e) :
    stepExecute s p spec r = retryHandler (ticked (emit s (.enter p .step (att r) none))) p spec r e ∧
    (∀ s₁, retryHandler s₁ p spec r e =
      match spec.strategy e (att r) with
      | some d =>
        (match checkpoint s₁ (stepRetryUpd p e d) with
         | .error (en, s) => .stop en s
         | .ok s => .stop (.suspended (some (max 1 d))) s)
      | none =>
        (match checkpoint s₁ (stepFailUpd p e) with
         | .error (en, s) => .stop en s
         | .ok s => if e.inv then deliverAt s p (.err e)
                    else deliverAt s p (.err (ErrObj.ofExc e).toCallable))) ∧
    (∀ (spec' : StepSpec) s₁, spec'.strategy e (att r) = spec.strategy e (att r) →
      retryHandler s₁ p spec' r e = retryHandler s₁ p spec r e) := by
  refine ⟨?_, fun s₁ => retryHandler_eq s₁ p spec r e, ?_⟩
  · rw [stepExecute_eq, tick_pos (by simpa using hb), hbody]
  · intro spec' s₁ h
    rw [retryHandler_eq, retryHandler_eq, h]

example : ∃ (s : St) (spec : StepSpec) (r : Option OpRec) (e : Exc),
    1 ≤ s.budget ∧ spec.body (att r) = .err e :=
  ⟨{ tbl := [], syncTbl := [], budget := 1 },
   { body := fun _ => .err { cls := "E", msg := "m" }, strategy := fun _ _ => none }, none,
   { cls := "E", msg := "m" }, by decide, rfl⟩

/-! ## A granted retry is recorded before suspending -/

/-- **C12_retry_recorded_then_suspended.** The strategy grants a retry after `d` seconds and the
synchronous checkpoint goes through: the handler sent exactly one update — the synchronous RETRY
with `delay = some (max 1 d)` (≥ 1 s) and `error = ErrObj.ofExc e` — the backend applied it, the
record (necessarily an existing STARTED/READY step) is now PENDING with one more attempt, and the
invocation suspends for `max 1 d` seconds. -/
theorem C12_retry_recorded_then_suspended (s : St) (p : Pos) (spec : StepSpec) (r : Option OpRec)
    (e : Exc) (d : Nat) (t' : Tbl)
    (hs : spec.strategy e (att r) = some d)
    (hb : 2 ≤ s.budget) (hf : s.failAt ≠ some s.syncCalls)
    (ha : Backend.apply s.tbl (stepRetryUpd p e d) (s.imm p) = some t') :
    retryHandler s p spec r e = .stop (.suspended (some (max 1 d))) (ckOk s (stepRetryUpd p e d) t') ∧
    newEvents s (retryHandler s p spec r e).st =
      [.upd (stepRetryUpd p e d), .applied (stepRetryUpd p e d)] ∧
    (stepRetryUpd p e d).sync = true ∧ (stepRetryUpd p e d).action = .retry ∧
    (stepRetryUpd p e d).delay = some (max 1 d) ∧ 1 ≤ max 1 d ∧
    (stepRetryUpd p e d).error = some (ErrObj.ofExc e) ∧
    ∃ r₀, lookup s.tbl p = some r₀ ∧ r₀.kind = .step ∧ (r₀.status = .started ∨ r₀.status = .ready) ∧
      lookup t' p = some { r₀ with status := .pending, attempt := r₀.attempt + 1,
                                   error := some (ErrObj.ofExc e) } := by
  have heq : retryHandler s p spec r e =
      .stop (.suspended (some (max 1 d))) (ckOk s (stepRetryUpd p e d) t') := by
    rw [retryHandler_eq, hs]
    simp only
    rw [checkpoint_sync_ok rfl hb hf ha]
  refine ⟨heq, ?_, rfl, rfl, rfl, Nat.le_max_left _ _, rfl, ?_⟩
  · rw [heq]; exact newEvents_of_trace_eq rfl
  · obtain ⟨r₀, hl, hk, _, hst, rfl⟩ := apply_retry_inv (u := stepRetryUpd p e d) rfl ha
    exact ⟨r₀, hl, hk, hst, lookup_upsert_self _ _ _⟩

example : ∃ (s : St) (p : Pos) (spec : StepSpec) (r : Option OpRec) (e : Exc) (d : Nat) (t' : Tbl),
    spec.strategy e (att r) = some d ∧ 2 ≤ s.budget ∧ s.failAt ≠ some s.syncCalls ∧
    Backend.apply s.tbl (stepRetryUpd p e d) (s.imm p) = some t' :=
  ⟨{ tbl := [([1], { kind := .step, status := .started })], syncTbl := [], budget := 2 }, [1],
   { body := fun _ => .err { cls := "E", msg := "m" }, strategy := fun _ _ => some 0 },
   some { kind := .step, status := .started }, { cls := "E", msg := "m" }, 0,
   [([1], { kind := .step, status := .pending, attempt := 1,
            error := some { message := some "m", type := some "E" } })],
   rfl, by decide, by decide, by decide⟩

/-- **… in all cases** (crash before / after the call, injected fault, backend rejection, success):
once the strategy has granted a retry the handler never enters the user function again and never
delivers anything to user code in this invocation; it stops, and the only way it stops as
"suspended" is with the clamped delay; the only update it can send is that RETRY. -/
theorem C12_retry_never_reenters (s : St) (p : Pos) (spec : StepSpec) (r : Option OpRec)
    (e : Exc) (d : Nat) (hs : spec.strategy e (att r) = some d) :
    (∃ en s', retryHandler s p spec r e = .stop en s' ∧
      (en = .suspended (some (max 1 d)) ∨ en = .crashed ∨ en = .ckptFailed)) ∧
    (∀ ev ∈ newEvents s (retryHandler s p spec r e).st,
      isEnter ev = false ∧ isDeliver ev = false ∧ ∀ u, ev = .upd u → u = stepRetryUpd p e d) := by
  have hg := checkpoint_grows
    (P := fun ev => isEnter ev = false ∧ isDeliver ev = false ∧ ∀ u, ev = .upd u → u = stepRetryUpd p e d)
    s (stepRetryUpd p e d) ⟨rfl, rfl, fun u h => by cases h; rfl⟩
    ⟨rfl, rfl, fun u h => by cases h⟩ ⟨rfl, rfl, fun u h => by cases h⟩
  rw [retryHandler_eq, hs]
  simp only
  cases hc : checkpoint s (stepRetryUpd p e d) with
  | error x =>
    obtain ⟨en, s'⟩ := x
    rw [hc] at hg
    exact ⟨⟨en, s', rfl, .inr hg.2⟩, hg.1.newEvents⟩
  | ok s' =>
    rw [hc] at hg
    exact ⟨⟨_, s', rfl, .inl rfl⟩, hg.newEvents⟩

/-- The retry is scheduled **only after** the RETRY record was accepted: if the handler stops as
"suspended", the synchronous RETRY was applied by the backend. -/
theorem C12_suspended_only_after_recorded (s : St) (p : Pos) (spec : StepSpec) (r : Option OpRec)
    (e : Exc) (dl : Option Nat) (s' : St)
    (h : retryHandler s p spec r e = .stop (.suspended dl) s') :
    ∃ d t', spec.strategy e (att r) = some d ∧ dl = some (max 1 d) ∧
      Backend.apply s.tbl (stepRetryUpd p e d) (s.imm p) = some t' ∧
      s' = ckOk s (stepRetryUpd p e d) t' := by
  rw [retryHandler_eq] at h
  split at h
  · next d hd =>
    split at h
    · next en s'' hc =>
      obtain ⟨_, hen⟩ : _ ∧ (en = .crashed ∨ en = .ckptFailed) := by
        have := checkpoint_grows (P := fun _ => True) s (stepRetryUpd p e d) trivial trivial trivial
        rw [hc] at this; exact this
      cases h
      rcases hen with h | h <;> cases h
    · next s'' hc =>
      obtain ⟨_, _, t', ha, rfl⟩ := checkpoint_sync_ok_inv rfl hc
      cases h
      exact ⟨d, t', hd, rfl, ha, rfl⟩
  · split at h
    · next en s'' hc =>
      obtain ⟨_, hen⟩ : _ ∧ (en = .crashed ∨ en = .ckptFailed) := by
        have := checkpoint_grows (P := fun _ => True) s (stepFailUpd p e) trivial trivial trivial
        rw [hc] at this; exact this
      cases h
      rcases hen with h | h <;> cases h
    · split at h <;> exact absurd h (deliverAt_ne_stop _ _ _ _ _)

/-! ## A declined retry is recorded as FAILED and raised; never attempted again -/

/-- What `retryHandler` raises when the strategy declines: invocation-level errors
(StepInterruptedError) propagate as themselves, anything else as a CallableRuntimeError built from
the recorded ErrorObject. -/
def raisedFor (e : Exc) : Exc := if e.inv then e else (ErrObj.ofExc e).toCallable

/-- **C12_decline_recorded_then_raised.** The strategy declines and the synchronous checkpoint goes
through: exactly one update was sent — the synchronous FAIL carrying `ErrObj.ofExc e` — the record
(an existing running step) is now FAILED with that error, and the handler raises to user code.
Afterwards, on any state whose table holds that record (this invocation or a later replay, any step
spec), `handleStep` delivers the recorded error again, sends no update and does not enter the
function: the step is never attempted again.  For a non-invocation error (`e.inv = false`) the
error raised now and the error raised on replay are the same. -/
theorem C12_decline_recorded_then_raised (s : St) (p : Pos) (spec : StepSpec) (r : Option OpRec)
    (e : Exc) (t' : Tbl)
    (hs : spec.strategy e (att r) = none)
    (hb : 2 ≤ s.budget) (hf : s.failAt ≠ some s.syncCalls)
    (ha : Backend.apply s.tbl (stepFailUpd p e) (s.imm p) = some t') :
    retryHandler s p spec r e = deliverAt (ckOk s (stepFailUpd p e) t') p (.err (raisedFor e)) ∧
    (∃ s', retryHandler s p spec r e = .deliver (.err (raisedFor e)) s' ∧ s'.tbl = t') ∧
    newEvents s (retryHandler s p spec r e).st =
      [.upd (stepFailUpd p e), .applied (stepFailUpd p e), .deliver p (.err (raisedFor e))] ∧
    (stepFailUpd p e).sync = true ∧ (stepFailUpd p e).error = some (ErrObj.ofExc e) ∧
    ∃ r₀ r', lookup s.tbl p = some r₀ ∧ r₀.kind = .step ∧
      r' = { r₀ with status := .failed, error := some (ErrObj.ofExc e) } ∧
      lookup t' p = some r' ∧ Done r' = true ∧
      outcomeOf r' = .err (ErrObj.ofExc e).toCallable ∧
      (e.inv = false → outcomeOf r' = .err (raisedFor e)) ∧
      (∀ (s₂ : St) (spec₂ : StepSpec), lookup s₂.tbl p = some r' →
        handleStep s₂ p spec₂ = deliverAt s₂ p (.err (ErrObj.ofExc e).toCallable) ∧
        newEvents s₂ (handleStep s₂ p spec₂).st = [.deliver p (.err (ErrObj.ofExc e).toCallable)]) := by
  have heq : retryHandler s p spec r e =
      deliverAt (ckOk s (stepFailUpd p e) t') p (.err (raisedFor e)) := by
    rw [retryHandler_eq, hs]
    simp only
    rw [checkpoint_sync_ok rfl hb hf ha]
    simp only [raisedFor]
    split <;> rfl
  obtain ⟨s', hd, htr, htb⟩ := deliverAt_eq (ckOk s (stepFailUpd p e) t') p (.err (raisedFor e))
  refine ⟨heq, ⟨s', heq.trans hd, htb⟩, ?_, rfl, rfl, ?_⟩
  · rw [heq, hd]
    apply newEvents_of_trace_eq
    show s'.trace = _
    rw [htr]; simp
  · obtain ⟨r₀, hl, hk, _, rfl⟩ := apply_fail_inv (u := stepFailUpd p e) rfl ha
    have hout : outcomeOf { r₀ with status := .failed, error := some (ErrObj.ofExc e) } =
        .err (ErrObj.ofExc e).toCallable := rfl
    refine ⟨r₀, _, hl, hk, rfl, lookup_upsert_self _ _ _, rfl, hout, ?_, ?_⟩
    · intro hinv; rw [hout]; simp [raisedFor, hinv]
    · intro s₂ spec₂ hl₂
      have h := handleStep_done spec₂ hl₂ (by rfl)
      rw [hout] at h
      exact ⟨h, by rw [h]; exact deliverAt_newEvents _ _ _⟩

example : ∃ (s : St) (p : Pos) (spec : StepSpec) (r : Option OpRec) (e : Exc) (t' : Tbl),
    spec.strategy e (att r) = none ∧ 2 ≤ s.budget ∧ s.failAt ≠ some s.syncCalls ∧
    Backend.apply s.tbl (stepFailUpd p e) (s.imm p) = some t' ∧ e.inv = false :=
  ⟨{ tbl := [([1], { kind := .step, status := .started })], syncTbl := [], budget := 2 }, [1],
   { body := fun _ => .err { cls := "E", msg := "m" }, strategy := fun _ _ => none },
   some { kind := .step, status := .started }, { cls := "E", msg := "m" },
   [([1], { kind := .step, status := .failed,
            error := some { message := some "m", type := some "E" } })],
   rfl, by decide, by decide, by decide, rfl⟩

/-- When the strategy declines the handler never suspends: it raises, or the invocation dies. -/
theorem C12_decline_never_suspends (s : St) (p : Pos) (spec : StepSpec) (r : Option OpRec)
    (e : Exc) (hs : spec.strategy e (att r) = none) :
    (∃ s', retryHandler s p spec r e = .deliver (.err (raisedFor e)) s') ∨
    (∃ en s', retryHandler s p spec r e = .stop en s' ∧ (en = .crashed ∨ en = .ckptFailed)) := by
  have hg := checkpoint_grows (P := fun _ => True) s (stepFailUpd p e) trivial trivial trivial
  rw [retryHandler_eq, hs]
  simp only
  cases hc : checkpoint s (stepFailUpd p e) with
  | error x =>
    obtain ⟨en, s'⟩ := x
    rw [hc] at hg
    exact .inr ⟨en, s', rfl, hg.2⟩
  | ok s' =>
    obtain ⟨s'', hd, _⟩ := deliverAt_eq s' p (.err (raisedFor e))
    refine .inl ⟨s'', ?_⟩
    rw [← hd]; simp only [raisedFor]; split <;> rfl

/-! ## The retry budget of the packaged strategy -/

/-- **C12_retry_budget** (handler level). With the packaged strategy `Script.Retry.strategy rt`,
`retryHandler` sends a RETRY only if the number of attempts made (`att r`) is `< rt.maxAttempts`
and the error class is not on the no-retry list. -/
theorem C12_retry_budget (s : St) (p : Pos) (spec : StepSpec) (rt : Script.Retry) (r : Option OpRec)
    (e : Exc) (hst : spec.strategy = rt.strategy) (u : Upd)
    (hu : .upd u ∈ newEvents s (retryHandler s p spec r e).st) (hact : u.action = .retry) :
    att r < rt.maxAttempts ∧ rt.noRetry.contains e.cls = false := by
  have hg := retryHandler_grows
    (P := fun ev => ∀ u, ev = .upd u → u.action = .retry →
      att r < rt.maxAttempts ∧ rt.noRetry.contains e.cls = false)
    s p spec r e (fun ev _ hn u hev ha => absurd ha (hn u hev))
    (by
      intro d hd u _ _
      rw [hst] at hd
      unfold Script.Retry.strategy at hd
      split at hd
      · cases hd
      · next h1 =>
        split at hd
        · cases hd
        · next h2 => exact ⟨by omega, by simpa using h2⟩)
  exact hg.newEvents _ hu u rfl hact

/-- **C12_retry_budget** at the level of `handleStep` (every path: at-least-once, at-most-once
interrupted, at-most-once retry attempt, first execution): a RETRY update is sent only if the
attempts recorded in the table the handler started from, plus one, are `< rt.maxAttempts`. -/
theorem C12_retry_budget_handleStep (s : St) (p : Pos) (spec : StepSpec) (rt : Script.Retry)
    (hst : spec.strategy = rt.strategy) (u : Upd)
    (hu : .upd u ∈ newEvents s (handleStep s p spec).st) (hact : u.action = .retry) :
    att (lookup s.tbl p) < rt.maxAttempts := by
  have hg := handleStep_grows
    (P := fun ev => ∀ u, ev = .upd u → u.action = .retry → att (lookup s.tbl p) < rt.maxAttempts)
    s p spec (fun ev _ hn u hev ha => absurd ha (hn u hev)) (fun u h => by cases h)
    (by
      intro e d hd u _ _
      rw [hst] at hd
      unfold Script.Retry.strategy at hd
      split at hd
      · cases hd
      · omega)
  exact hg.newEvents _ hu u rfl hact

/-- Hence the attempt count recorded by any accepted RETRY is `≤ rt.maxAttempts - 1`: whenever the
strategy grants a retry for the table's record `r₀` and the backend applies the RETRY the handler
sends (whether or not the process survives the call), the new record is PENDING with
`attempt = r₀.attempt + 1 ≤ rt.maxAttempts - 1`. -/
theorem C12_recorded_attempts_bounded (s : St) (p : Pos) (spec : StepSpec) (rt : Script.Retry)
    (r₀ : OpRec) (e : Exc) (d : Nat) (t' : Tbl) (hst : spec.strategy = rt.strategy)
    (hl : lookup s.tbl p = some r₀) (hs : spec.strategy e (att (some r₀)) = some d)
    (ha : Backend.apply s.tbl (stepRetryUpd p e d) (s.imm p) = some t') :
    ∃ r', lookup t' p = some r' ∧ r'.status = .pending ∧ r'.attempt = r₀.attempt + 1 ∧
      r'.attempt ≤ rt.maxAttempts - 1 := by
  have hlt : r₀.attempt + 1 < rt.maxAttempts := by
    rw [hst] at hs
    unfold Script.Retry.strategy at hs
    split at hs
    · cases hs
    · simp only [att_some] at *; omega
  obtain ⟨r₁, hl₁, _, _, _, rfl⟩ := apply_retry_inv (u := stepRetryUpd p e d) rfl ha
  have : r₁ = r₀ := by
    have hl₂ : lookup s.tbl p = some r₁ := hl₁
    rw [hl] at hl₂; cases hl₂; rfl
  subst this
  refine ⟨_, lookup_upsert_self _ _ _, rfl, rfl, ?_⟩
  show r₁.attempt + 1 ≤ _
  omega

example : ∃ (s : St) (p : Pos) (spec : StepSpec) (rt : Script.Retry) (r₀ : OpRec) (e : Exc) (d : Nat)
    (t' : Tbl), spec.strategy = rt.strategy ∧ lookup s.tbl p = some r₀ ∧
    spec.strategy e (att (some r₀)) = some d ∧
    Backend.apply s.tbl (stepRetryUpd p e d) (s.imm p) = some t' :=
  ⟨{ tbl := [([1], { kind := .step, status := .started })], syncTbl := [], budget := 2 }, [1],
   { body := fun _ => .err { cls := "E", msg := "m" },
     strategy := Script.Retry.strategy { maxAttempts := 3, delays := [5], noRetry := [] } },
   { maxAttempts := 3, delays := [5], noRetry := [] },
   { kind := .step, status := .started }, { cls := "E", msg := "m" }, 5,
   [([1], { kind := .step, status := .pending, attempt := 1,
            error := some { message := some "m", type := some "E" } })],
   rfl, by decide, by decide, by decide⟩

/-! ## A PENDING step is not executed -/

/-- **C12_pending_not_executed.** While the retry timer has not fired (record PENDING) the handler
suspends at once: state unchanged, no event at all (no `enter`, no update, no delivery). -/
theorem C12_pending_not_executed (s : St) (p : Pos) (spec : StepSpec) (r : OpRec)
    (hl : lookup s.tbl p = some r) (hp : r.status = .pending) :
    handleStep s p spec = .stop (.suspended (some 0)) s ∧
    newEvents s (handleStep s p spec).st = [] := by
  have h := handleStep_pending spec hl hp
  exact ⟨h, by rw [h]; exact newEvents_self s⟩

example : ∃ (s : St) (p : Pos) (r : OpRec), lookup s.tbl p = some r ∧ r.status = .pending :=
  ⟨{ tbl := [([1], { kind := .step, status := .pending, attempt := 1 })], syncTbl := [], budget := 0 },
   [1], { kind := .step, status := .pending, attempt := 1 }, by decide, rfl⟩

/-! ## Every RETRY has a delay of at least one second -/

/-- **C12_all_retry_delays_ge_one** (steps). Any state, any spec, any path (including crashes and
faults): every RETRY update `handleStep` hands to the checkpoint pipeline is synchronous, is for
this step, and carries a delay `≥ 1`. -/
theorem C12_all_retry_delays_ge_one_step (s : St) (p : Pos) (spec : StepSpec) (u : Upd)
    (hu : .upd u ∈ newEvents s (handleStep s p spec).st) (hact : u.action = .retry) :
    (∃ d, u.delay = some d ∧ 1 ≤ d) ∧ u.sync = true ∧ u.pos = p ∧ u.kind = .step := by
  have hg := handleStep_grows
    (P := fun ev => ∀ u, ev = .upd u → u.action = .retry →
      (∃ d, u.delay = some d ∧ 1 ≤ d) ∧ u.sync = true ∧ u.pos = p ∧ u.kind = .step)
    s p spec (fun ev _ hn u hev ha => absurd ha (hn u hev)) (fun u h => by cases h)
    (by
      intro e d _ u hev _
      cases hev
      exact ⟨⟨max 1 d, rfl, Nat.le_max_left _ _⟩, rfl, rfl, rfl⟩)
  exact hg.newEvents _ hu u rfl hact

/-- **C12_all_retry_delays_ge_one** (wait_for_condition). -/
theorem C12_all_retry_delays_ge_one_wfc (s : St) (p : Pos) (w : WfcSpec) (u : Upd)
    (hu : .upd u ∈ newEvents s (handleWfc s p w).st) (hact : u.action = .retry) :
    (∃ d, u.delay = some d ∧ 1 ≤ d) ∧ u.sync = true ∧ u.pos = p ∧ u.kind = .wfc := by
  have hg := handleWfc_grows
    (P := fun ev => ∀ u, ev = .upd u → u.action = .retry →
      (∃ d, u.delay = some d ∧ 1 ≤ d) ∧ u.sync = true ∧ u.pos = p ∧ u.kind = .wfc)
    s p w (fun ev _ hn u hev ha => absurd ha (hn u hev)) (fun u h => by cases h)
    (by
      intro ns d _ _ u hev _
      cases hev
      exact ⟨⟨max 1 d, rfl, Nat.le_max_left _ _⟩, rfl, rfl, rfl⟩)
  exact hg.newEvents _ hu u rfl hact

/-- **C12_all_retry_delays_ge_one.** Both handlers at once. -/
theorem C12_all_retry_delays_ge_one (s : St) (p : Pos) (u : Upd) (hact : u.action = .retry) :
    (∀ spec : StepSpec, .upd u ∈ newEvents s (handleStep s p spec).st → ∃ d, u.delay = some d ∧ 1 ≤ d) ∧
    (∀ w : WfcSpec, .upd u ∈ newEvents s (handleWfc s p w).st → ∃ d, u.delay = some d ∧ 1 ≤ d) :=
  ⟨fun spec hu => (C12_all_retry_delays_ge_one_step s p spec u hu hact).1,
   fun w hu => (C12_all_retry_delays_ge_one_wfc s p w u hu hact).1⟩

/-- Non-vacuity: a STARTED step whose body fails and whose strategy asks for a 0 s delay sends a
RETRY (with delay 1). -/
example :
    let s : St := { tbl := [([1], { kind := .step, status := .started })], syncTbl := [], budget := 3 }
    let spec : StepSpec := { body := fun _ => .err { cls := "E", msg := "m" }, strategy := fun _ _ => some 0 }
    Ev.upd (stepRetryUpd [1] { cls := "E", msg := "m" } 0) ∈ newEvents s (handleStep s [1] spec).st := by
  decide

end C12
