import Proofs.EngineH
/-!
# C14 — Callbacks and invokes: stable identity, faithful outcome, deferred errors (engine part)

Handler-level theorems about `handleCbNew`, `handleCbRes`, `handleInvoke` of
`DurableModel/Engine.lean`.  `ckOk s u t'` is the state after an accepted synchronous checkpoint
(`Proofs/EngineH.lean`).
-/
namespace C14
open Engine EngineH

/-- START of a callback operation; synchronous. -/
abbrev cbStartUpd (q : Pos) : Upd := { pos := q, kind := .callback, action := .start }
/-- START of a chained invoke carrying the payload; synchronous. -/
abbrev invokeStartUpd (p : Pos) (payload : Val) : Upd :=
  { pos := p, kind := .invoke, action := .start, payload := some payload }

/-! ## create_callback -/

/-- **Stable identity.** The handle passed to the user continuation is the position of the
`create_callback` call, whatever the state (first execution or replay, any outcome of the callback). -/
theorem C14_handle_is_position (k : Handle → Prog) (ctx : Pos) (n : Nat) (s s' : St)
    (h : handleCbNew s (ctx ++ [n + 1]) = .ok s') :
    run (.cbNew k) ctx n s = run (k (ctx ++ [n + 1])) ctx (n + 1) s' := by
  rw [run, h]

example : ∃ (ctx : Pos) (n : Nat) (s s' : St), handleCbNew s (ctx ++ [n + 1]) = .ok s' :=
  ⟨[], 0, { tbl := [([1], { kind := .callback, status := .failed })], syncTbl := [], budget := 0 }, _, rfl⟩

/-- **C14_create_never_raises_on_outcome.** Whatever the existing record's status (STARTED,
SUCCEEDED, FAILED, TIMED_OUT, …), `create_callback` returns normally; its only event is the delivery
of the handle; no update is sent and the table is untouched. -/
theorem C14_create_never_raises_on_outcome (s : St) (q : Pos) (r : OpRec)
    (hl : lookup s.tbl q = some r) :
    ∃ s', handleCbNew s q = .ok s' ∧ newEvents s s' = [.deliver q (.ok "cb")] ∧ s'.tbl = s.tbl := by
  refine ⟨trackReplay (emit s (.deliver q (.ok "cb"))) q, ?_, ?_, by simp⟩
  · unfold handleCbNew; simp [hl]
  · apply newEvents_of_trace_eq; simp

example : ∃ (s : St) (q : Pos) (r : OpRec), lookup s.tbl q = some r ∧ r.status = .failed :=
  ⟨{ tbl := [([1], { kind := .callback, status := .failed })], syncTbl := [], budget := 0 }, [1],
   { kind := .callback, status := .failed }, by decide, rfl⟩

/-- **C14_create_starts_once.** No record: exactly one update is sent, the synchronous START; if
nothing goes wrong the backend creates the record (possibly already completed — immediate completion
`s.imm q` — which does not matter) and the handle is returned.  In every other outcome the
invocation dies (crashed / ckptFailed): `create_callback` never raises. -/
theorem C14_create_starts_once (s : St) (q : Pos) (hl : lookup s.tbl q = none) :
    (cbStartUpd q).sync = true ∧
    (∀ t', 2 ≤ s.budget → s.failAt ≠ some s.syncCalls →
      Backend.apply s.tbl (cbStartUpd q) (s.imm q) = some t' →
      t' = upsert s.tbl q (Backend.startRec .callback (s.imm q)) ∧
      ∃ s', handleCbNew s q = .ok s' ∧ s'.tbl = t' ∧
        newEvents s s' = [.upd (cbStartUpd q), .applied (cbStartUpd q), .deliver q (.ok "cb")]) ∧
    (∀ s', handleCbNew s q = .ok s' →
      newEvents s s' = [.upd (cbStartUpd q), .applied (cbStartUpd q), .deliver q (.ok "cb")]) ∧
    (∀ en s', handleCbNew s q = .error (en, s') → (en = .crashed ∨ en = .ckptFailed) ∧
      ∃ rest, newEvents s s' = .upd (cbStartUpd q) :: rest ∧
        ∀ x ∈ rest, isUpd x = false ∧ isDeliver x = false) := by
  have hok : ∀ t', Backend.apply s.tbl (cbStartUpd q) (s.imm q) = some t' →
      t' = upsert s.tbl q (Backend.startRec .callback (s.imm q)) :=
    fun t' ha => apply_start_absent_inv (u := cbStartUpd q) hl rfl ha
  have hrun : ∀ t', checkpoint s (cbStartUpd q) = .ok (ckOk s (cbStartUpd q) t') →
      Backend.apply s.tbl (cbStartUpd q) (s.imm q) = some t' →
      handleCbNew s q = .ok (trackReplay (emit (ckOk s (cbStartUpd q) t') (.deliver q (.ok "cb"))) q) := by
    intro t' hc ha
    have := hok t' ha
    subst this
    unfold handleCbNew
    simp only [hl, hc]
    have : lookup (ckOk s (cbStartUpd q) (upsert s.tbl q (Backend.startRec .callback (s.imm q)))).tbl q =
        some (Backend.startRec .callback (s.imm q)) := lookup_upsert_self _ _ _
    rw [this]
  refine ⟨rfl, ?_, ?_, ?_⟩
  · intro t' hb hf ha
    refine ⟨hok t' ha, _, hrun t' (checkpoint_sync_ok rfl hb hf ha) ha, by simp, ?_⟩
    apply newEvents_of_trace_eq; simp
  · intro s' h
    cases hc : checkpoint s (cbStartUpd q) with
    | error x => unfold handleCbNew at h; simp [hl, hc] at h
    | ok s₁ =>
      obtain ⟨_, _, t', ha, rfl⟩ := checkpoint_sync_ok_inv rfl hc
      rw [hrun t' hc ha] at h
      cases h
      apply newEvents_of_trace_eq; simp
  · intro en s' h
    cases hc : checkpoint s (cbStartUpd q) with
    | error x =>
      obtain ⟨en', s''⟩ := x
      unfold handleCbNew at h
      simp only [hl, hc] at h
      cases h
      rcases checkpoint_sync_error rfl hc with ⟨rfl, ht⟩ | ⟨rfl, ht⟩ | ⟨rfl, ht⟩ | ⟨rfl, ht⟩
      · exact ⟨.inl rfl, [], newEvents_of_trace_eq ht, by simp⟩
      · exact ⟨.inr rfl, [], newEvents_of_trace_eq ht, by simp⟩
      · exact ⟨.inr rfl, [.rejected (cbStartUpd q)], newEvents_of_trace_eq ht, by simp [isUpd, isDeliver]⟩
      · exact ⟨.inl rfl, [.applied (cbStartUpd q)], newEvents_of_trace_eq ht, by simp [isUpd, isDeliver]⟩
    | ok s₁ =>
      obtain ⟨_, _, t', ha, rfl⟩ := checkpoint_sync_ok_inv rfl hc
      rw [hrun t' hc ha] at h
      cases h

example : ∃ (s : St) (q : Pos) (t' : Tbl), lookup s.tbl q = none ∧ 2 ≤ s.budget ∧
    s.failAt ≠ some s.syncCalls ∧ Backend.apply s.tbl (cbStartUpd q) (s.imm q) = some t' :=
  ⟨{ tbl := [], syncTbl := [], budget := 2 }, [1], [([1], { kind := .callback, status := .started })],
   by decide, by decide, by decide, by decide⟩

/-! ## Callback.result() -/

/-- Message of the CallbackError raised for a record: the recorded error message, or
"Callback failed" when there is no error object, no message, or an empty message. -/
def cbMsg (r : OpRec) : String :=
  match r.error with
  | some e => (match e.message with | some m => if m == "" then "Callback failed" else m | none => "Callback failed")
  | none => "Callback failed"

def cbErr (m : String) : Exc := { cls := "CallbackError", msg := m }

/-- The decision table of `Callback.result()`. -/
def cbResTable (s : St) (h : Handle) : HRes :=
  match lookup s.tbl h with
  | none => .deliver (.err (cbErr "Callback operation must exist"))
              (emit s (.deliver h (.err (cbErr "Callback operation must exist"))))
  | some r =>
    match r.status with
    | .started | .pending | .ready => .stop (.suspended none) s
    | .succeeded => .deliver (.ok (r.result.getD noneVal)) (emit s (.deliver h (.ok (r.result.getD noneVal))))
    | .failed | .cancelled | .timedOut | .stopped =>
      .deliver (.err (cbErr (cbMsg r))) (emit s (.deliver h (.err (cbErr (cbMsg r)))))

/-- **C14_result_table.** `result()` is exactly the decision table: outstanding ⇒ suspend
(indefinitely, state unchanged); SUCCEEDED ⇒ the delivered payload; FAILED / CANCELLED / TIMED_OUT /
STOPPED ⇒ CallbackError with the recorded message; no record ⇒ CallbackError. -/
theorem C14_result_table (s : St) (h : Handle) : handleCbRes s h = cbResTable s h := by
  unfold handleCbRes cbResTable
  cases hl : lookup s.tbl h with
  | none => rfl
  | some r =>
    obtain ⟨k, st, a, res, er, rc⟩ := r
    cases st <;> rfl

/-- The rows, one by one, with the events: in no case is an update sent or a function entered;
there is at most one event, the delivery. -/
theorem C14_result_rows (s : St) (h : Handle) :
    (∀ r, lookup s.tbl h = some r → (r.status = .started ∨ r.status = .pending ∨ r.status = .ready) →
      handleCbRes s h = .stop (.suspended none) s ∧ newEvents s (handleCbRes s h).st = []) ∧
    (∀ r, lookup s.tbl h = some r → r.status = .succeeded →
      ∃ s', handleCbRes s h = .deliver (.ok (r.result.getD noneVal)) s' ∧ s'.tbl = s.tbl ∧
        newEvents s s' = [.deliver h (.ok (r.result.getD noneVal))]) ∧
    (∀ r, lookup s.tbl h = some r →
      (r.status = .failed ∨ r.status = .cancelled ∨ r.status = .timedOut ∨ r.status = .stopped) →
      ∃ s', handleCbRes s h = .deliver (.err { cls := "CallbackError", msg := cbMsg r }) s' ∧
        s'.tbl = s.tbl ∧
        newEvents s s' = [.deliver h (.err { cls := "CallbackError", msg := cbMsg r })]) ∧
    (lookup s.tbl h = none →
      ∃ s', handleCbRes s h =
          .deliver (.err { cls := "CallbackError", msg := "Callback operation must exist" }) s' ∧
        s'.tbl = s.tbl ∧
        newEvents s s' = [.deliver h (.err { cls := "CallbackError", msg := "Callback operation must exist" })]) ∧
    (∀ ev ∈ newEvents s (handleCbRes s h).st, isUpd ev = false ∧ isEnter ev = false) := by
  rw [C14_result_table]
  refine ⟨?_, ?_, ?_, ?_, ?_⟩
  · intro r hl hs
    have : cbResTable s h = .stop (.suspended none) s := by
      unfold cbResTable; rcases hs with hs | hs | hs <;> simp [hl, hs]
    rw [this]; exact ⟨rfl, newEvents_self s⟩
  · intro r hl hs
    refine ⟨emit s (.deliver h (.ok (r.result.getD noneVal))), ?_, rfl, newEvents_of_trace_eq rfl⟩
    unfold cbResTable; simp [hl, hs]
  · intro r hl hs
    refine ⟨emit s (.deliver h (.err (cbErr (cbMsg r)))), ?_, rfl, newEvents_of_trace_eq rfl⟩
    unfold cbResTable; rcases hs with hs | hs | hs | hs <;> simp [hl, hs, cbErr]
  · intro hl
    refine ⟨emit s (.deliver h (.err (cbErr "Callback operation must exist"))), ?_, rfl,
      newEvents_of_trace_eq rfl⟩
    unfold cbResTable; simp [hl, cbErr]
  · unfold cbResTable
    cases hl : lookup s.tbl h with
    | none =>
      intro ev hev
      rw [show newEvents s (HRes.deliver _ (emit s _)).st = [_] from newEvents_of_trace_eq rfl] at hev
      simp only [List.mem_singleton] at hev; subst hev; exact ⟨rfl, rfl⟩
    | some r =>
      obtain ⟨k, st, a, res, er, rc⟩ := r
      cases st <;> intro ev hev
      all_goals first
        | (simp only [HRes.st, newEvents_self] at hev; cases hev)
        | (rw [show newEvents s (HRes.deliver _ (emit s _)).st = [_] from newEvents_of_trace_eq rfl] at hev
           simp only [List.mem_singleton] at hev; subst hev; exact ⟨rfl, rfl⟩)

/-- `cbMsg`: the recorded message when there is a non-empty one. -/
theorem cbMsg_recorded (r : OpRec) (eo : ErrObj) (m : String) (he : r.error = some eo)
    (hm : eo.message = some m) (hne : m ≠ "") : cbMsg r = m := by
  simp [cbMsg, he, hm, hne]

/-! ## invoke -/

/-- The decision table of `invoke` on a record. -/
def invokeTable (s : St) (p : Pos) (r : OpRec) : HRes :=
  match r.status with
  | .succeeded => deliverAt s p (.ok (r.result.getD noneVal))
  | .failed | .timedOut | .stopped => deliverAt s p (.err (callableOf r.error))
  | _ => .stop (.suspended (some 0)) s

theorem invokeTable_eq (s : St) (p : Pos) (r : OpRec) :
    (invokeTerminal s p r).getD (.stop (.suspended (some 0)) s) = invokeTable s p r := by
  obtain ⟨k, st, a, res, er, rc⟩ := r
  cases st <;> rfl

/-- Events of the table: nothing, or the single delivery; never an update, never an `enter`. -/
theorem invokeTable_trace (s : St) (p : Pos) (r : OpRec) :
    (invokeTable s p r).st.tbl = s.tbl ∧
    ((invokeTable s p r).st.trace = s.trace ∨
      ∃ o, (invokeTable s p r).st.trace = s.trace ++ [.deliver p o]) := by
  obtain ⟨k, st, a, res, er, rc⟩ := r
  cases st <;> simp only [invokeTable]
  all_goals first
    | exact ⟨rfl, .inl rfl⟩
    | exact ⟨deliverAt_st_tbl _ _ _, .inr ⟨_, deliverAt_st_trace _ _ _⟩⟩

theorem invokeTable_events (s : St) (p : Pos) (r : OpRec) :
    newEvents s (invokeTable s p r).st = [] ∨
      ∃ o, newEvents s (invokeTable s p r).st = [.deliver p o] := by
  rcases (invokeTable_trace s p r).2 with h | ⟨o, h⟩
  · exact .inl (newEvents_of_trace_eq (by rw [h]; simp))
  · exact .inr ⟨o, newEvents_of_trace_eq h⟩

/-- **C14_invoke_table.** Existing record: no START is sent (the payload is never sent again);
SUCCEEDED ⇒ returns the recorded result; FAILED / TIMED_OUT / STOPPED ⇒ raises the recorded error
(as CallableRuntimeError); anything else ⇒ suspends with no event, state unchanged. -/
theorem C14_invoke_table (s : St) (p : Pos) (payload : Val) (r : OpRec)
    (hl : lookup s.tbl p = some r) :
    handleInvoke s p payload = invokeTable s p r ∧
    (r.status = .succeeded → handleInvoke s p payload = deliverAt s p (.ok (r.result.getD noneVal))) ∧
    ((r.status = .failed ∨ r.status = .timedOut ∨ r.status = .stopped) →
      handleInvoke s p payload = deliverAt s p (.err (callableOf r.error))) ∧
    ((r.status = .started ∨ r.status = .pending ∨ r.status = .ready ∨ r.status = .cancelled) →
      handleInvoke s p payload = .stop (.suspended (some 0)) s) ∧
    (∀ ev ∈ newEvents s (handleInvoke s p payload).st, isUpd ev = false ∧ isEnter ev = false) := by
  have heq : handleInvoke s p payload = invokeTable s p r := by
    unfold handleInvoke; simp only [hl]; exact invokeTable_eq s p r
  refine ⟨heq, ?_, ?_, ?_, ?_⟩
  · intro hs; rw [heq]; unfold invokeTable; simp [hs]
  · intro hs; rw [heq]; unfold invokeTable; rcases hs with hs | hs | hs <;> simp [hs]
  · intro hs; rw [heq]; unfold invokeTable; rcases hs with hs | hs | hs | hs <;> simp [hs]
  · rw [heq]
    intro ev hev
    rcases invokeTable_events s p r with h | ⟨o, h⟩
    · rw [h] at hev; cases hev
    · rw [h] at hev; simp only [List.mem_singleton] at hev; subst hev; exact ⟨rfl, rfl⟩

example : ∃ (s : St) (p : Pos) (r : OpRec), lookup s.tbl p = some r ∧ r.status = .timedOut :=
  ⟨{ tbl := [([1], { kind := .invoke, status := .timedOut })], syncTbl := [], budget := 0 }, [1],
   { kind := .invoke, status := .timedOut }, by decide, rfl⟩

/-- **C14_invoke_start_once.** No record: exactly one update is sent — the synchronous START carrying
the payload.  If nothing goes wrong the backend creates the record `startRec invoke (s.imm p)`
(already completed when the backend reports an immediate completion) and the decision table is
applied to that record: suspend while outstanding, return / raise on immediate completion.
In all outcomes the START is the first event and the only update. -/
theorem C14_invoke_start_once (s : St) (p : Pos) (payload : Val) (hl : lookup s.tbl p = none) :
    (invokeStartUpd p payload).sync = true ∧ (invokeStartUpd p payload).payload = some payload ∧
    (∀ t', 2 ≤ s.budget → s.failAt ≠ some s.syncCalls →
      Backend.apply s.tbl (invokeStartUpd p payload) (s.imm p) = some t' →
      t' = upsert s.tbl p (Backend.startRec .invoke (s.imm p)) ∧
      lookup t' p = some (Backend.startRec .invoke (s.imm p)) ∧
      handleInvoke s p payload =
        invokeTable (ckOk s (invokeStartUpd p payload) t') p (Backend.startRec .invoke (s.imm p)) ∧
      (newEvents s (handleInvoke s p payload).st =
          [.upd (invokeStartUpd p payload), .applied (invokeStartUpd p payload)] ∨
       ∃ o, newEvents s (handleInvoke s p payload).st =
          [.upd (invokeStartUpd p payload), .applied (invokeStartUpd p payload), .deliver p o])) ∧
    (∃ rest, newEvents s (handleInvoke s p payload).st = .upd (invokeStartUpd p payload) :: rest ∧
      ∀ x ∈ rest, isUpd x = false ∧ isEnter x = false) := by
  have hrun : ∀ t', checkpoint s (invokeStartUpd p payload) = .ok (ckOk s (invokeStartUpd p payload) t') →
      Backend.apply s.tbl (invokeStartUpd p payload) (s.imm p) = some t' →
      t' = upsert s.tbl p (Backend.startRec .invoke (s.imm p)) ∧
      lookup t' p = some (Backend.startRec .invoke (s.imm p)) ∧
      handleInvoke s p payload =
        invokeTable (ckOk s (invokeStartUpd p payload) t') p (Backend.startRec .invoke (s.imm p)) := by
    intro t' hc ha
    have := apply_start_absent_inv (u := invokeStartUpd p payload) hl rfl ha
    subst this
    have hl' : lookup (ckOk s (invokeStartUpd p payload)
        (upsert s.tbl p (Backend.startRec .invoke (s.imm p)))).tbl p =
        some (Backend.startRec .invoke (s.imm p)) := lookup_upsert_self _ _ _
    refine ⟨rfl, hl', ?_⟩
    unfold handleInvoke
    simp only [hl, hc, hl']
    exact invokeTable_eq _ _ _
  have hev : ∀ t', handleInvoke s p payload =
        invokeTable (ckOk s (invokeStartUpd p payload) t') p (Backend.startRec .invoke (s.imm p)) →
      (newEvents s (handleInvoke s p payload).st =
          [.upd (invokeStartUpd p payload), .applied (invokeStartUpd p payload)] ∨
       ∃ o, newEvents s (handleInvoke s p payload).st =
          [.upd (invokeStartUpd p payload), .applied (invokeStartUpd p payload), .deliver p o]) := by
    intro t' h
    rw [h]
    rcases (invokeTable_trace (ckOk s (invokeStartUpd p payload) t') p
      (Backend.startRec .invoke (s.imm p))).2 with h' | ⟨o, h'⟩
    · left
      apply newEvents_of_trace_eq; rw [h']; rfl
    · right
      refine ⟨o, ?_⟩
      apply newEvents_of_trace_eq; rw [h']; simp
  refine ⟨rfl, rfl, ?_, ?_⟩
  · intro t' hb hf ha
    obtain ⟨h1, h2, h3⟩ := hrun t' (checkpoint_sync_ok rfl hb hf ha) ha
    exact ⟨h1, h2, h3, hev t' h3⟩
  · cases hc : checkpoint s (invokeStartUpd p payload) with
    | error x =>
      obtain ⟨en, s'⟩ := x
      have : handleInvoke s p payload = .stop en s' := by
        unfold handleInvoke; simp only [hl, hc]
      rw [this]
      rcases checkpoint_sync_error rfl hc with ⟨_, ht⟩ | ⟨_, ht⟩ | ⟨_, ht⟩ | ⟨_, ht⟩
      · exact ⟨[], newEvents_of_trace_eq ht, by simp⟩
      · exact ⟨[], newEvents_of_trace_eq ht, by simp⟩
      · exact ⟨[_], newEvents_of_trace_eq ht, by simp [isUpd, isEnter]⟩
      · exact ⟨[_], newEvents_of_trace_eq ht, by simp [isUpd, isEnter]⟩
    | ok s₁ =>
      obtain ⟨_, _, t', ha, rfl⟩ := checkpoint_sync_ok_inv rfl hc
      obtain ⟨_, _, h3⟩ := hrun t' hc ha
      rcases hev t' h3 with h | ⟨o, h⟩
      · exact ⟨[_], h, by simp [isUpd, isEnter]⟩
      · exact ⟨[_, _], h, by simp [isUpd, isEnter]⟩

example : ∃ (s : St) (p : Pos) (payload : Val) (t' : Tbl), lookup s.tbl p = none ∧ 2 ≤ s.budget ∧
    s.failAt ≠ some s.syncCalls ∧
    Backend.apply s.tbl (invokeStartUpd p payload) (s.imm p) = some t' :=
  ⟨{ tbl := [], syncTbl := [], budget := 2 }, [1], "x", [([1], { kind := .invoke, status := .started })],
   by decide, by decide, by decide, by decide⟩

/-- Immediate completion, spelled out: what the first `invoke` call does for each answer the backend
may attach to the START. -/
theorem C14_invoke_immediate (s : St) (p : Pos) (payload : Val) (t' : Tbl)
    (hl : lookup s.tbl p = none) (hb : 2 ≤ s.budget) (hf : s.failAt ≠ some s.syncCalls)
    (ha : Backend.apply s.tbl (invokeStartUpd p payload) (s.imm p) = some t') :
    (s.imm p = .none →
      handleInvoke s p payload = .stop (.suspended (some 0)) (ckOk s (invokeStartUpd p payload) t')) ∧
    (∀ v, s.imm p = .succeeded v →
      handleInvoke s p payload =
        deliverAt (ckOk s (invokeStartUpd p payload) t') p (.ok (v.getD noneVal))) ∧
    (∀ eo, s.imm p = .failed eo →
      handleInvoke s p payload =
        deliverAt (ckOk s (invokeStartUpd p payload) t') p (.err (callableOf eo))) ∧
    ((s.imm p = .timedOut ∨ s.imm p = .stopped) →
      handleInvoke s p payload =
        deliverAt (ckOk s (invokeStartUpd p payload) t') p (.err (callableOf none))) := by
  obtain ⟨_, _, h, _⟩ := (C14_invoke_start_once s p payload hl).2.2.1 t' hb hf ha
  rw [h]
  refine ⟨?_, ?_, ?_, ?_⟩
  · intro hi; rw [hi]; rfl
  · intro v hi; rw [hi]; rfl
  · intro eo hi; rw [hi]; rfl
  · intro hi; rcases hi with hi | hi <;> (rw [hi]; rfl)

end C14
