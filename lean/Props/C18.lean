import DurableModel.Outcome
/-!
# C18 — every invocation ends with exactly one well-formed, correctly classified outcome
-/
namespace C18
open Outcome

/-- The wrapper raises only for a retriable checkpoint error, for an invocation error, or for the
non-checkpoint source of a background failure; every other behaviour becomes a status. -/
theorem C18_raise_only (h : HandlerEnd) (ck : Ckpt) :
    (wrapper h ck = .raiseCheckpoint →
        (∃ c, retriable c = true ∧
          (h = .raisedExc (.bgCheckpoint c) false ∨ h = .raisedExc (.bgCheckpoint c) true ∨
           h = .raisedExc (.checkpoint c) false ∨ h = .raisedExc (.checkpoint c) true ∨
           ck = .failedCheckpoint c))) ∧
    (wrapper h ck = .raiseInvocation → ∃ l, h = .raisedExc .invocation l) ∧
    (wrapper h ck = .raiseSource →
        (∃ l, h = .raisedExc .bgOther l) ∨ ck = .failedOther) := by
  rcases h with ⟨_|_, _|_⟩ | ⟨(_|_)|_|_|(_|_)|_|_|_, _|_⟩ <;> rcases ck with _|(_|_)|_ <;>
    simp [wrapper, onException, handleCheckpointError, retriable]

/-- Ordinary user exceptions and execution errors become FAILED; suspension becomes PENDING;
a JSON-able result becomes SUCCEEDED (with an empty payload exactly when it was oversize and has
been checkpointed). -/
theorem C18_status_table (ck : Ckpt) :
    wrapper (.raisedExc .suspend false) ck = .pending ∧
    wrapper (.raisedExc .execution false) ck = .failed true ∧
    wrapper (.raisedExc .other false) ck = .failed true ∧
    wrapper (.returned false false) ck = .failed true ∧
    wrapper (.returned true false) ck = .succeeded false ∧
    wrapper (.returned true true) .ok = .succeeded true ∧
    wrapper (.raisedExc .other true) .ok = .failed false := by
  cases ck <;> simp [wrapper, onException]

/-- A checkpoint failure never yields SUCCEEDED or PENDING. -/
theorem C18_checkpoint_failure_never_succeeds (h : HandlerEnd) (c : Category) (l : Bool) :
    (h = .raisedExc (.bgCheckpoint c) l ∨ h = .raisedExc (.checkpoint c) l) →
    ∀ ck, wrapper h ck = .raiseCheckpoint ∨ wrapper h ck = .failed true := by
  intro hh ck
  rcases hh with rfl | rfl <;> cases c <;> simp [wrapper, onException, handleCheckpointError, retriable]

/-- An oversize result/error is reported with an empty payload only after its record was
accepted (`ck = ok`); if that checkpoint fails the invocation raises or fails, never succeeds. -/
theorem C18_large_needs_checkpoint (ck : Ckpt) :
    (wrapper (.returned true true) ck = .succeeded true ↔ ck = .ok) ∧
    (wrapper (.raisedExc .other true) ck = .failed false ↔ ck = .ok) ∧
    (ck ≠ .ok → ∀ e, wrapper (.returned true true) ck ≠ .succeeded e) := by
  cases ck <;> simp [wrapper, onException, handleCheckpointError] <;>
    (rename_i c; cases c <;> simp [retriable])

/-- The classification of checkpoint API errors, stated outright: EXECUTION (retriable, raise)
iff a 4xx other than 429 with an error body that is not "InvalidParameterValueException: Invalid
Checkpoint Token…"; everything else INVOCATION (not retriable, FAILED). -/
theorem C18_classification (status : Option Nat) (hasError : Bool) (code : String) (tok : Bool) :
    classify status hasError code tok = .execution ↔
      ∃ st, status = some st ∧ 400 ≤ st ∧ st < 500 ∧ st ≠ 429 ∧ hasError = true ∧
        ¬ (code = "InvalidParameterValueException" ∧ tok = true) := by
  rcases status with _ | _ | n
  · simp [classify]
  · simp [classify]
  · simp only [classify]
    split
    · rename_i hc
      simp only [Bool.and_eq_true, Bool.or_eq_true, decide_eq_true_eq, Bool.not_eq_true',
        ne_eq] at hc
      simp only [true_iff]
      refine ⟨n + 1, rfl, by omega, by omega, by omega, hc.1.2, ?_⟩
      rintro ⟨h1, h2⟩
      rcases hc.2 with h | h
      · exact h h1
      · simp [h2] at h
    · rename_i hc
      simp only [Bool.and_eq_true, Bool.or_eq_true, decide_eq_true_eq, Bool.not_eq_true',
        ne_eq] at hc
      simp only [reduceCtorEq, false_iff]
      rintro ⟨st, hst, h1, h2, h3, h4, h5⟩
      cases hst
      apply hc
      refine ⟨⟨⟨⟨h2, h1⟩, h3⟩, h4⟩, ?_⟩
      by_cases hcode : code = "InvalidParameterValueException"
      · right
        cases tok
        · rfl
        · exact absurd ⟨hcode, rfl⟩ h5
      · left; exact hcode

example : classify (some 400) true "InvalidParameterValueException" true = .invocation ∧
    classify (some 404) true "ResourceNotFoundException" false = .execution ∧
    classify (some 429) true "TooManyRequestsException" false = .invocation ∧
    classify (some 500) true "ServiceException" false = .invocation ∧
    classify none false "" false = .invocation := by decide

/-- **F28 in the model (witness; the statement "a failed checkpoint call never ends in PENDING" is FALSE of the wrapper).**
A handler that ends by suspending is reported PENDING whatever has happened to the checkpoint thread: the wrapper's
`except SuspendExecution` clause does not look at it.  A failure reaches the outcome only through an exception raised in the
handler thread (`bgCheckpoint`, `checkpoint` - `C18_checkpoint_failure_never_succeeds`), i.e. when somebody waited for the
failing call; a call that carried only non-blocking updates is waited for by nobody. -/
theorem C06_suspend_ignores_checkpoint_failure_witness (l : Bool) (ck : Ckpt) :
    wrapper (.raisedExc .suspend l) ck = .pending := by
  cases ck <;> simp [wrapper, onException]

end C18
