import DurableModel.Lock
import Proofs.Lock
/-!
# C19 — ordered lock and counter: FIFO, exclusive, gap-free, never wedged

All theorems quantify over every reachable state of the transition system `Lock.step`, i.e. over
every interleaving of any number of requests (`Lock.Reach`).
-/
namespace C19
open Lock LockProofs

/-- Weight of a request for the progress measure. -/
def weight : PC → Nat
  | .waiting => 3
  | .inCS => 2
  | .breaking => 1
  | _ => 0

/-- Progress measure: total remaining work of all requests that have joined the queue. -/
def measure (s : St) : Nat := (s.arrivals.map (fun r => weight (s.pc r))).sum

/-- Exclusive: at most one request is inside its critical section. -/
theorem C19_mutex {s : St} (h : Reach s) (r1 r2 : Nat)
    (h1 : holds s r1 = true) (h2 : holds s r2 = true) : r1 = r2 := by
  have I := inv_reach h
  have e1 : s.pc r1 = .inCS ∨ s.pc r1 = .breaking := by simpa [holds] using h1
  have e2 : s.pc r2 = .inCS ∨ s.pc r2 = .breaking := by simpa [holds] using h2
  have a1 := I.holder_head r1 e1
  have a2 := I.holder_head r2 e2
  rw [a1] at a2
  exact Option.some.inj a2

/-- The holder is always the head of the deque. -/
theorem C19_holder_is_head {s : St} (h : Reach s) (r : Nat) (hr : holds s r = true) :
    s.waiters.head? = some r := by
  have I := inv_reach h
  exact I.holder_head r (by simpa [holds] using hr)

/-- FIFO: critical sections are entered in the order in which the acquire calls arrived. -/
theorem C19_fifo {s : St} (h : Reach s) : s.entries <+: s.arrivals := by
  exact (inv_reach h).fifo

/-- No lost wake-up: in an unbroken lock whose head is still waiting, the head's event is set
and nobody holds the lock, so `wake` is enabled for it. -/
theorem C19_head_set {s : St} (h : Reach s) (hb : s.broken = false) (hd : Nat) (t : List Nat)
    (hw : s.waiters = hd :: t) (hp : s.pc hd = .waiting) :
    s.isSet hd = true ∧ ∀ r, holds s r = false := by
  have I := inv_reach h
  refine ⟨I.u_head hb hd (by simp [hw]) hp, ?_⟩
  intro r
  cases hh : holds s r with
  | false => rfl
  | true =>
    have e : s.pc r = .inCS ∨ s.pc r = .breaking := by simpa [holds] using hh
    have a := I.holder_head r e
    simp [hw] at a
    subst a
    rw [hp] at e
    simp at e

/-- Break: once broken, every waiting request's event is set, so its `wake` is enabled and
yields the ordered-lock error. -/
theorem C19_break_waiters {s : St} (h : Reach s) (hb : s.broken = true) (r : Nat)
    (hp : s.pc r = .waiting) :
    ∃ s', wake s r = some s' ∧ s'.pc r = .lockErr := by
  have I := inv_reach h
  have hi := I.broken_set hb r hp
  refine ⟨setPc s r .lockErr, ?_, by simp [setPc]⟩
  simp [wake, hp, hi, hb]

/-- Break: every future acquirer gets the ordered-lock error without joining the queue. -/
theorem C19_break_future {s : St} (hb : s.broken = true) (r : Nat) (hp : s.pc r = .idle) :
    ∃ s', enq s r = some s' ∧ s'.pc r = .lockErr ∧ s'.waiters = s.waiters := by
  refine ⟨setPc s r .lockErr, ?_, by simp [setPc], by simp [setPc]⟩
  simp [enq, hp, hb]

/-- Break: the holder that raised sees its own exception (it can always complete its release
and ends in `doneExc`, never in `lockErr`). -/
theorem C19_break_holder {s : St} (h : Reach s) (r : Nat) (hp : s.pc r = .breaking) :
    ∃ s', rel s r = some s' ∧ s'.pc r = .doneExc := by
  have I := inv_reach h
  have a := I.holder_head r (Or.inr hp)
  cases hw : s.waiters with
  | nil => simp [hw] at a
  | cons x rest =>
    simp only [rel, hp, hw]
    exact ⟨_, rfl, by simp [setPc]⟩

/-- Break: a broken lock is never entered again. -/
theorem C19_broken_no_entry {s s' : St} (h : Reach s) (hb : s.broken = true) (a : Act)
    (hs : step s a = some s') : s'.entries = s.entries ∧ s'.broken = true := by
  have _ := h
  cases a with
  | enq r =>
    obtain ⟨_, ⟨_, rfl⟩ | ⟨hb', rfl⟩⟩ := enq_some hs
    · exact ⟨rfl, hb⟩
    · rw [hb] at hb'; cases hb'
  | wake r =>
    obtain ⟨_, _, ⟨_, rfl⟩ | ⟨hb', rfl⟩⟩ := wake_some hs
    · exact ⟨rfl, hb⟩
    · rw [hb] at hb'; cases hb'
  | rel r =>
    obtain ⟨_, _, _, ⟨_, rfl⟩ | ⟨_, rfl⟩⟩ := rel_some hs
    · exact ⟨rfl, hb⟩
    · exact ⟨rfl, hb⟩
  | brk r =>
    obtain ⟨_, rfl⟩ := brk_some hs
    exact ⟨rfl, rfl⟩

/-- Never wedged (1): whenever some request is blocked, an action other than a new `enq` is
enabled. -/
theorem C19_no_deadlock {s : St} (h : Reach s) (r : Nat) (hp : s.pc r = .waiting) :
    ∃ a, (∀ x, a ≠ Act.enq x) ∧ (step s a).isSome = true := by
  have I := inv_reach h
  cases hb : s.broken with
  | true =>
    obtain ⟨s', hs', _⟩ := C19_break_waiters h hb r hp
    exact ⟨.wake r, by simp, by simp [step, hs']⟩
  | false =>
    have hm := I.u_waiting_mem hb r hp
    cases hw : s.waiters with
    | nil => simp [hw] at hm
    | cons x t =>
      rcases I.u_mem_pc hb x (by simp [hw]) with hx | hx
      · have hi := I.u_head hb x (by simp [hw]) hx
        exact ⟨.wake x, by simp, by simp [step, wake, hx, hi, hb]⟩
      · exact ⟨.brk x, by simp, by simp [step, brk, hx]⟩

/-- Never wedged (2): every action other than `enq` strictly decreases the measure, so after
the last acquire call at most `3 * n` further steps are possible, and by `C19_no_deadlock` the
run cannot stop while a request is still blocked. -/
theorem C19_measure_decreases {s s' : St} (h : Reach s) (a : Act) (ha : ∀ x, a ≠ Act.enq x)
    (hs : step s a = some s') : measure s' < measure s := by
  have I := inv_reach h
  unfold measure
  cases a with
  | enq r => exact absurd rfl (ha r)
  | wake r =>
    obtain ⟨hp, _, ⟨_, rfl⟩ | ⟨_, rfl⟩⟩ := wake_some hs
    · apply sum_map_lt (r := r) _ (I.active_arr r (Or.inl hp))
      · simp [hp, weight]
      · intro x _
        by_cases hx : x = r
        · subst hx; simp [hp, weight]
        · simp [hx]
    · apply sum_map_lt (r := r) _ (I.active_arr r (Or.inl hp))
      · simp [hp, weight]
      · intro x _
        by_cases hx : x = r
        · subst hx; simp [hp, weight]
        · simp [hx]
  | rel r =>
    obtain ⟨_, _, _, ⟨hp, rfl⟩ | ⟨hp, rfl⟩⟩ := rel_some hs
    · apply sum_map_lt (r := r) _ (I.active_arr r (Or.inr (Or.inl hp)))
      · simp [hp, weight]
      · intro x _
        by_cases hx : x = r
        · subst hx; simp [hp, weight]
        · simp [hx]
    · apply sum_map_lt (r := r) _ (I.active_arr r (Or.inr (Or.inr hp)))
      · simp [hp, weight]
      · intro x _
        by_cases hx : x = r
        · subst hx; simp [hp, weight]
        · simp [hx]
  | brk r =>
    obtain ⟨hp, rfl⟩ := brk_some hs
    apply sum_map_lt (r := r) _ (I.active_arr r (Or.inr (Or.inl hp)))
    · simp [hp, weight]
    · intro x _
      by_cases hx : x = r
      · subst hx; simp [hp, weight]
      · simp [hx]

/-- Ordered counter: the values handed out are exactly 1, 2, …, in the order in which the
incrementers entered (hence, by `C19_fifo`, in arrival order), each exactly once. -/
theorem C19_counter {s : St} (h : Reach s) :
    s.results.map Prod.snd = List.range' 1 s.results.length ∧
    s.results.map Prod.fst <+: s.entries ∧
    s.counter = s.results.length := by
  have I := inv_reach h
  exact ⟨I.res_snd, I.res_pref, I.counter⟩

/-- With no exception anywhere, n requests that have all finished got exactly 1..n in arrival
order. -/
theorem C19_counter_complete {s : St} (h : Reach s) (hb : s.broken = false)
    (hall : ∀ r ∈ s.arrivals, s.pc r = .doneOk) :
    s.results.map Prod.fst = s.arrivals ∧
    s.results.map Prod.snd = List.range' 1 s.arrivals.length := by
  have I := inv_reach h
  have ha := I.u_arr hb
  have hw : s.waiters = [] := by
    cases hw : s.waiters with
    | nil => rfl
    | cons x t =>
      have hx : x ∈ s.arrivals := by rw [ha, hw]; simp
      have hd := hall x hx
      rcases I.u_mem_pc hb x (by simp [hw]) with e | e <;> (rw [hd] at e; cases e)
  rw [hw, List.append_nil] at ha
  refine ⟨ha.symm, ?_⟩
  rw [I.res_snd, ha, List.length_map]

/-- Non-vacuity: a concrete interleaving of three requests with an exception in the second
critical section is executable and ends with the outcomes the property describes. -/
example : ∃ s, runActs init [.enq 0, .enq 1, .wake 0, .enq 2, .rel 0, .wake 1, .brk 1, .wake 2, .rel 1,
      .enq 3] = some s ∧ [s.pc 0, s.pc 1, s.pc 2, s.pc 3] = [.doneOk, .doneExc, .lockErr, .lockErr] ∧
      s.results = [(0, 1)] ∧ s.entries = [0, 1] ∧ s.arrivals = [0, 1, 2] :=
  ⟨_, rfl, by decide, by decide, by decide, by decide⟩

end C19
