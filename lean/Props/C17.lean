import DurableModel.EngineSpec
import Proofs.EngineLog
/-!
# C17 — The context logger is silent while replaying completed work, audible afterwards

Model: `Engine.St.replaying` (ReplayStatus.REPLAY vs NEW), `St.visited`, `initSt` (REPLAY iff the
history is non-empty), `trackReplay` (called right after every delivery of `deliverAt` — success or
error — and of `create_callback`; *not* by `Callback.result`), and `doLog`, which records every log
call of user code as `Ev.logged ctx msg emitted` with `emitted = !replaying`.

Summary of what is proved (all for every program, crash budget, checkpoint fault and
immediate-completion oracle):

1. `C17_first_invocation_all` — on the empty history every log call is emitted.
2. `C17_once_new_stays_new` (+ index form) — REPLAY is never re-entered: no suppressed line follows
   an emitted one.
3. `C17_silent_before` — every log call made before the first delivery at a position that was
   complete when the invocation began is suppressed.
4. `C17_audible_after` — once every position that was complete when the invocation began has been
   delivered (and at least one delivery happened), every log call is emitted.  Needs: unique keys in
   the history, no `Callback.result` on those positions (both necessary: witnesses below).
   `C17_emitted_iff` combines 3 and 4 into an exact characterisation.
5. `C17_log_position`, `C17_log_context` — a log line carries the position of the context that
   issued it; logging changes nothing but the trace.
6. `C17_replay_until_first_tracked_delivery` — a history without any *completed* operation still
   starts in REPLAY, and log calls before the first operation call are suppressed.
-/
namespace C17
open Engine EngineLog

/-- The log lines of a trace: (context position, message, emitted?). -/
def logs (l : List Ev) : List (Pos × String × Bool) :=
  l.filterMap fun | .logged c m e => some (c, m, e) | _ => none

/-- One invocation is a logger move (`EngineLog.Lm`) whose events are the whole trace. -/
theorem invoke_lm {P : Pos → Prop} (p : Prog) (hp : CbHandles P p) (t : Tbl) (budget : Nat)
    (failAt : Option Nat) (imm : Pos → Backend.Immediate) :
    Lm P (initSt t budget failAt imm) (invoke p t budget failAt imm).2.trace (invoke p t budget failAt imm).2 := by
  obtain ⟨l, hl⟩ := run_lm p hp [] 0 (initSt t budget failAt imm)
  have h : (invoke p t budget failAt imm).2.trace = l := by
    have := hl.trace
    simpa [invoke, initSt] using this
  rw [h]
  exact hl

theorem run_newEvents {P : Pos → Prop} {p : Prog} {ctx : Pos} {n : Nat} {s : St} {l : List Ev}
    (h : Lm P s l (run p ctx n s).2) : newEvents s (run p ctx n s).2 = l :=
  EngineExec.newEvents_of_trace h.trace

/-! ## 1. First invocation -/

/-- **C17_first_invocation_all.** In a first invocation (empty history) every log call is emitted. -/
theorem C17_first_invocation_all (p : Prog) (budget : Nat) (failAt : Option Nat)
    (imm : Pos → Backend.Immediate) (c : Pos) (m : String) (e : Bool)
    (h : Ev.logged c m e ∈ (invoke p [] budget failAt imm).2.trace) : e = true :=
  ((invoke_lm p (cbHandles_true p) [] budget failAt imm).stays_new rfl).2 c m e h

/-- … and the invocation never enters REPLAY. -/
theorem C17_first_invocation_never_replays (p : Prog) (budget : Nat) (failAt : Option Nat)
    (imm : Pos → Backend.Immediate) : (invoke p [] budget failAt imm).2.replaying = false :=
  ((invoke_lm p (cbHandles_true p) [] budget failAt imm).stays_new rfl).1

/-! ## 2. REPLAY is never re-entered -/

/-- `replaying` never goes from false back to true during a run. -/
theorem C17_replaying_never_returns (p : Prog) (ctx : Pos) (n : Nat) (s : St) (h : s.replaying = false) :
    (run p ctx n s).2.replaying = false := by
  obtain ⟨l, hl⟩ := run_lm_any p ctx n s
  exact (hl.stays_new h).1

/-- From a state that is not replaying, every log call of the run is emitted. -/
theorem C17_new_state_all_emitted (p : Prog) (ctx : Pos) (n : Nat) (s : St) (h : s.replaying = false)
    (c : Pos) (m : String) (e : Bool) (hm : Ev.logged c m e ∈ newEvents s (run p ctx n s).2) : e = true := by
  obtain ⟨l, hl⟩ := run_lm_any p ctx n s
  rw [run_newEvents hl] at hm
  exact (hl.stays_new h).2 c m e hm

/-- **C17_once_new_stays_new.** Among the events of any run (from any state), no log line after an
emitted one is suppressed. -/
theorem C17_once_new_stays_new (p : Prog) (ctx : Pos) (n : Nat) (s : St) (pre post : List Ev)
    (c : Pos) (m : String) (c' : Pos) (m' : String) (e' : Bool)
    (hdec : newEvents s (run p ctx n s).2 = pre ++ Ev.logged c m true :: post)
    (hm : Ev.logged c' m' e' ∈ post) : e' = true := by
  obtain ⟨l, hl⟩ := run_lm_any p ctx n s
  rw [run_newEvents hl] at hdec
  exact hl.mono_flags pre c m post hdec c' m' e' hm

/-- Index form: an emitted line at index `i`, any log line at index `j > i` ⇒ it is emitted. -/
theorem C17_once_new_stays_new_index (p : Prog) (ctx : Pos) (n : Nat) (s : St) (i j : Nat)
    (c : Pos) (m : String) (c' : Pos) (m' : String) (e' : Bool)
    (hi : (newEvents s (run p ctx n s).2)[i]? = some (Ev.logged c m true)) (hij : i < j)
    (hj : (newEvents s (run p ctx n s).2)[j]? = some (Ev.logged c' m' e')) : e' = true :=
  C17_once_new_stays_new p ctx n s _ _ c m c' m' e' (decomp_of_getElem? hi) (mem_drop_of_getElem? hij hj)

/-- The same for the whole trace of an invocation. -/
theorem C17_once_new_stays_new_invoke (p : Prog) (t : Tbl) (budget : Nat) (failAt : Option Nat)
    (imm : Pos → Backend.Immediate) (i j : Nat) (c : Pos) (m : String) (c' : Pos) (m' : String) (e' : Bool)
    (hi : (invoke p t budget failAt imm).2.trace[i]? = some (Ev.logged c m true)) (hij : i < j)
    (hj : (invoke p t budget failAt imm).2.trace[j]? = some (Ev.logged c' m' e')) : e' = true :=
  (invoke_lm p (cbHandles_true p) t budget failAt imm).mono_flags _ c m _ (decomp_of_getElem? hi)
    c' m' e' (mem_drop_of_getElem? hij hj)

/-! ## 3. Silent before a completed operation -/

/-- Run-level form: the run starts in REPLAY with a terminal record at an unvisited position `q`. -/
theorem C17_silent_before_run (p : Prog) (ctx : Pos) (n : Nat) (s : St) (q : Pos) (r : OpRec)
    (hr : s.replaying = true) (hv : q ∉ s.visited) (hl : lookup s.tbl q = some r)
    (ht : r.status.terminal = true) (pre post : List Ev) (c : Pos) (m : String) (e : Bool)
    (hdec : newEvents s (run p ctx n s).2 = pre ++ Ev.logged c m e :: post)
    (hpre : ∀ o, Ev.deliver q o ∉ pre) : e = false := by
  obtain ⟨l, hlm⟩ := run_lm_any p ctx n s
  rw [run_newEvents hlm] at hdec
  exact hlm.silent_before ht hr hv hl pre c m e post hdec hpre

theorem replaying_of_lookup {t : Tbl} {q : Pos} {r : OpRec} (hl : lookup t q = some r) (budget : Nat)
    (failAt : Option Nat) (imm : Pos → Backend.Immediate) : (initSt t budget failAt imm).replaying = true := by
  cases t with
  | nil => cases hl
  | cons a t => rfl

/-- **C17_silent_before.** `q` holds a terminal record in the history `t` handed to the invocation.
Every log call that occurs before the first `deliver q _` event (anywhere, if there is none) is
suppressed.  (A `Callback.result` delivery at `q` is a `deliver q _` too: it only shortens the
segment the theorem speaks about.) -/
theorem C17_silent_before (p : Prog) (t : Tbl) (budget : Nat) (failAt : Option Nat)
    (imm : Pos → Backend.Immediate) (q : Pos) (r : OpRec) (hl : lookup t q = some r)
    (ht : r.status.terminal = true) (pre post : List Ev) (c : Pos) (m : String) (e : Bool)
    (hdec : (invoke p t budget failAt imm).2.trace = pre ++ Ev.logged c m e :: post)
    (hpre : ∀ o, Ev.deliver q o ∉ pre) : e = false :=
  (invoke_lm p (cbHandles_true p) t budget failAt imm).silent_before ht
    (replaying_of_lookup hl budget failAt imm) (by simp [initSt]) hl pre c m e post hdec hpre

/-- If the completed operation at `q` is never reached, the logger stays silent throughout. -/
theorem C17_silent_if_never_delivered (p : Prog) (t : Tbl) (budget : Nat) (failAt : Option Nat)
    (imm : Pos → Backend.Immediate) (q : Pos) (r : OpRec) (hl : lookup t q = some r)
    (ht : r.status.terminal = true)
    (hnever : ∀ o, Ev.deliver q o ∉ (invoke p t budget failAt imm).2.trace)
    (c : Pos) (m : String) (e : Bool) (hm : Ev.logged c m e ∈ (invoke p t budget failAt imm).2.trace) :
    e = false := by
  obtain ⟨pre, post, hdec⟩ := List.append_of_mem hm
  refine C17_silent_before p t budget failAt imm q r hl ht pre post c m e hdec ?_
  intro o ho
  exact hnever o (by rw [hdec]; exact List.mem_append_left _ ho)

/-- **Converse reading**: an emitted log line in a resumed invocation has every position that was
complete in the history delivered before it. -/
theorem C17_emitted_only_after_all_completed (p : Prog) (t : Tbl) (budget : Nat) (failAt : Option Nat)
    (imm : Pos → Backend.Immediate) (pre post : List Ev) (c : Pos) (m : String)
    (hdec : (invoke p t budget failAt imm).2.trace = pre ++ Ev.logged c m true :: post)
    (q : Pos) (r : OpRec) (hl : lookup t q = some r) (ht : r.status.terminal = true) :
    ∃ o, Ev.deliver q o ∈ pre := by
  apply Classical.byContradiction
  intro hne
  have := C17_silent_before p t budget failAt imm q r hl ht pre post c m true hdec
    (fun o ho => hne ⟨o, ho⟩)
  cases this

/-! ## 4. Audible afterwards -/

/-- The state-level sketch, with `lookup`.  It is **false** on tables with duplicate keys:
`trackReplay` collects the positions of all *entries* with a terminal status, while `lookup` sees
only the first entry of a key. -/
def C17_new_when_all_visited_full : Prop :=
  ∀ (s : St) (p : Pos), s.replaying = true →
    (∀ q r, lookup s.tbl q = some r → r.status.terminal = true → q ∈ s.visited ∨ q = p) →
    (trackReplay s p).replaying = false

theorem C17_new_when_all_visited_full_false : ¬ C17_new_when_all_visited_full := by
  intro h
  have := h { tbl := [([1], { kind := .step, status := .started }), ([1], { kind := .step, status := .succeeded })],
              syncTbl := [], budget := 0, replaying := true } [2] rfl (by
    intro q r hl ht
    rw [EngineRun.lookup_cons] at hl
    split at hl
    · cases hl; cases ht
    · rw [EngineRun.lookup_cons] at hl
      split at hl
      · rename_i h1 h2; exact absurd h2 h1
      · cases hl)
  revert this
  decide

/-- **C17_new_when_all_visited** (membership form, no hypothesis, exact): while replaying, the call
`trackReplay s p` leaves REPLAY iff every entry with a terminal status is at a visited position or
at `p`. -/
theorem C17_new_when_all_visited_mem (s : St) (p : Pos) (hr : s.replaying = true) :
    (trackReplay s p).replaying = false ↔
      ∀ q r, (q, r) ∈ s.tbl → r.status.terminal = true → q ∈ s.visited ∨ q = p := by
  rw [trackReplay_new_iff hr]
  constructor
  · intro h q r hm ht
    have := h q (mem_completed.2 ⟨r, hm, ht⟩)
    simpa using this
  · intro h q hq
    obtain ⟨r, hm, ht⟩ := mem_completed.1 hq
    have := h q r hm ht
    simpa using this

/-- **C17_new_when_all_visited** (`lookup` form): true on tables with unique keys. -/
theorem C17_new_when_all_visited_partial (s : St) (p : Pos) (hn : (keys s.tbl).Nodup)
    (hr : s.replaying = true)
    (h : ∀ q r, lookup s.tbl q = some r → r.status.terminal = true → q ∈ s.visited ∨ q = p) :
    (trackReplay s p).replaying = false :=
  (C17_new_when_all_visited_mem s p hr).2 (fun q r hm ht => h q r (lookup_of_mem hn hm) ht)

/-- The other direction (any table): an unvisited terminal record elsewhere keeps the engine in
REPLAY. -/
theorem C17_stays_replaying (s : St) (p q : Pos) (r : OpRec) (hr : s.replaying = true)
    (hl : lookup s.tbl q = some r) (ht : r.status.terminal = true) (hv : q ∉ s.visited) (hpq : p ≠ q) :
    (trackReplay s p).replaying = true :=
  (trackReplay_stays hr hl ht hv hpq).1

/-- When not replaying, `trackReplay` is the identity. -/
theorem C17_trackReplay_noop (s : St) (p : Pos) (h : s.replaying = false) : trackReplay s p = s :=
  trackReplay_of_not_replaying h

/-- **C17_audible_after** (general form).  The history `t` has unique keys; every `Callback.result`
of the program is on a handle satisfying `P`.  A log call is emitted if, before it,

* every position holding a terminal record in `t` — every operation that had completed before this
  invocation began — lies outside `P` and has been delivered, and
* at least one delivery outside `P` has happened.

(Records that become terminal *during* the invocation need no hypothesis: they are delivered, hence
tracked, before user code runs again — `EngineLog.Inv.settled`.) -/
theorem C17_audible_after (P : Pos → Prop) (p : Prog) (hp : CbHandles P p) (t : Tbl)
    (hn : (keys t).Nodup) (budget : Nat) (failAt : Option Nat) (imm : Pos → Backend.Immediate)
    (pre post : List Ev) (c : Pos) (m : String) (e : Bool)
    (hdec : (invoke p t budget failAt imm).2.trace = pre ++ Ev.logged c m e :: post)
    (H1 : ∀ q r, lookup t q = some r → r.status.terminal = true → ¬ P q ∧ ∃ o, Ev.deliver q o ∈ pre)
    (H2 : ∃ q o, Ev.deliver q o ∈ pre ∧ ¬ P q) : e = true :=
  run_aud P t p hp [] 0 (initSt t budget failAt imm) (inv_init P t hn budget failAt imm)
    (aud_nil P t) pre c m e post hdec H1 H2

/-- **C17_audible_after** for programs that never call `Callback.result`: once execution has passed
(received the result of) every operation that had completed before the invocation began — and at
least one operation — every log call is emitted. -/
theorem C17_audible_after_noCbRes (p : Prog) (hp : NoCbRes p) (t : Tbl) (hn : (keys t).Nodup)
    (budget : Nat) (failAt : Option Nat) (imm : Pos → Backend.Immediate)
    (pre post : List Ev) (c : Pos) (m : String) (e : Bool)
    (hdec : (invoke p t budget failAt imm).2.trace = pre ++ Ev.logged c m e :: post)
    (H1 : ∀ q r, lookup t q = some r → r.status.terminal = true → ∃ o, Ev.deliver q o ∈ pre)
    (H2 : ∃ q o, Ev.deliver q o ∈ pre) : e = true :=
  C17_audible_after (fun _ => False) p hp t hn budget failAt imm pre post c m e hdec
    (fun q r hl ht => ⟨id, H1 q r hl ht⟩) (let ⟨q, o, h⟩ := H2; ⟨q, o, h, id⟩)

/-- **Exact characterisation** (no `Callback.result`, unique keys, the history contains at least one
completed operation): a log call is emitted iff every operation that had completed before the
invocation began has been delivered before it. -/
theorem C17_emitted_iff (p : Prog) (hp : NoCbRes p) (t : Tbl) (hn : (keys t).Nodup)
    (budget : Nat) (failAt : Option Nat) (imm : Pos → Backend.Immediate)
    (hsome : ∃ q r, lookup t q = some r ∧ r.status.terminal = true)
    (pre post : List Ev) (c : Pos) (m : String) (e : Bool)
    (hdec : (invoke p t budget failAt imm).2.trace = pre ++ Ev.logged c m e :: post) :
    e = true ↔ ∀ q r, lookup t q = some r → r.status.terminal = true → ∃ o, Ev.deliver q o ∈ pre := by
  constructor
  · intro he q r hl ht
    subst he
    exact C17_emitted_only_after_all_completed p t budget failAt imm pre post c m hdec q r hl ht
  · intro H1
    obtain ⟨q, r, hl, ht⟩ := hsome
    obtain ⟨o, ho⟩ := H1 q r hl ht
    exact C17_audible_after_noCbRes p hp t hn budget failAt imm pre post c m e hdec H1 ⟨q, o, ho⟩

/-- A weaker variant in terms of the *final* table only (no reference to `t`): if every position
terminal in the table at the end of the invocation was delivered (outside `P`) before the log call,
and some delivery happened, the line is emitted. -/
theorem C17_audible_after_final (P : Pos → Prop) (p : Prog) (hp : CbHandles P p) (t : Tbl)
    (hn : (keys t).Nodup) (budget : Nat) (failAt : Option Nat) (imm : Pos → Backend.Immediate)
    (pre post : List Ev) (c : Pos) (m : String) (e : Bool)
    (hdec : (invoke p t budget failAt imm).2.trace = pre ++ Ev.logged c m e :: post)
    (H1 : ∀ q r, lookup (invoke p t budget failAt imm).2.tbl q = some r → r.status.terminal = true →
      ¬ P q ∧ ∃ o, Ev.deliver q o ∈ pre)
    (H2 : ∃ q o, Ev.deliver q o ∈ pre ∧ ¬ P q) : e = true :=
  (invoke_lm p hp t budget failAt imm).audible hn pre c m e post hdec
    (fun q r hl ht => Or.inr (H1 q r hl ht)) H2

/-! ### The hypotheses of `C17_audible_after` are necessary -/

/-- `C17_audible_after` without "at least one delivery" (H2). **False** — see item 6 below: a
history with operations but no completed one starts in REPLAY and stays there until the first
tracked delivery, although "every completed operation has been passed" holds vacuously. -/
def C17_audible_after_full : Prop :=
  ∀ (p : Prog), NoCbRes p → ∀ (t : Tbl), (keys t).Nodup → ∀ (budget : Nat) (failAt : Option Nat)
    (imm : Pos → Backend.Immediate) (pre post : List Ev) (c : Pos) (m : String) (e : Bool),
    (invoke p t budget failAt imm).2.trace = pre ++ Ev.logged c m e :: post →
    (∀ q r, lookup t q = some r → r.status.terminal = true → ∃ o, Ev.deliver q o ∈ pre) → e = true

theorem C17_audible_after_full_false : ¬ C17_audible_after_full := by
  intro h
  have := h (.log "a" (.ret "x")) trivial [([1], { kind := .step, status := .ready, attempt := 1 })]
    (by decide) 10 none (fun _ => .none) [] [] [] "a" false (by decide) (by
      intro q r hl ht
      rw [EngineRun.lookup_cons] at hl
      split at hl
      · cases hl; cases ht
      · cases hl)
  cases this

/-- Unique keys are needed: with a duplicated key whose *second* entry is terminal, the step at
`[1]` — the only position `lookup` reports as complete — is delivered, yet the line is suppressed. -/
theorem C17_audible_after_needs_nodup :
    let t : Tbl := [([1], { kind := .step, status := .succeeded, result := some "v" }),
                    ([2], { kind := .wait, status := .started }), ([2], { kind := .wait, status := .succeeded })]
    let p : Prog := .step { body := fun _ => .ok "v", strategy := fun _ _ => none } fun _ => .log "x" (.ret "r")
    NoCbRes p ∧ ¬ (keys t).Nodup ∧
    (∀ q, (∃ r, lookup t q = some r ∧ r.status.terminal = true) ↔ q = [1]) ∧
    (invoke p t 10 none (fun _ => .none)).2.trace = [.deliver [1] (.ok "v"), .logged [] "x" false] := by
  refine ⟨fun _ => trivial, by decide, ?_, by decide⟩
  intro q
  constructor
  · rintro ⟨r, hl, ht⟩
    rw [EngineRun.lookup_cons] at hl
    split at hl
    · rename_i h; exact h.symm
    · rw [EngineRun.lookup_cons] at hl
      split at hl
      · cases hl; cases ht
      · rw [EngineRun.lookup_cons] at hl
        split at hl
        · rename_i h1 h2; exact absurd h2 h1
        · cases hl
  · rintro rfl
    exact ⟨_, rfl, rfl⟩

/-- `Callback.result` deliveries do not count: the completed callback at `[1]` is "delivered" by
`Callback.result` (which does not call `track_replay`), and the following line is suppressed. -/
theorem C17_audible_after_needs_tracking :
    let t : Tbl := [([1], { kind := .callback, status := .succeeded, result := some "r" })]
    let p : Prog := .cbRes [1] fun _ => .log "x" (.ret "r")
    (keys t).Nodup ∧
    (invoke p t 10 none (fun _ => .none)).2.trace = [.deliver [1] (.ok "r"), .logged [] "x" false] := by
  decide

/-! ## 5. Log lines carry the enclosing context; logging changes nothing else -/

/-- **C17_log_position.** A log call in the context at `ctx` records exactly `ctx` (the model's
stand-in for the parent / operation identifiers of the logger's `extra`), with the flag
`!replaying`, and the run continues in that state. -/
theorem C17_log_position (m : String) (k : Prog) (ctx : Pos) (n : Nat) (s : St) :
    run (.log m k) ctx n s = run k ctx n (emit s (.logged ctx m (!s.replaying))) := rfl

/-- Logging changes nothing but the trace. -/
theorem C17_log_keeps_state (s : St) (ctx : Pos) (m : String) :
    (doLog s ctx m).tbl = s.tbl ∧ (doLog s ctx m).syncTbl = s.syncTbl ∧
    (doLog s ctx m).pending = s.pending ∧ (doLog s ctx m).replaying = s.replaying ∧
    (doLog s ctx m).visited = s.visited ∧ (doLog s ctx m).budget = s.budget ∧
    (doLog s ctx m).syncCalls = s.syncCalls ∧
    (doLog s ctx m).trace = s.trace ++ [.logged ctx m (!s.replaying)] :=
  ⟨rfl, rfl, rfl, rfl, rfl, rfl, rfl, rfl⟩

/-- **C17_log_context.** Every log line of a run of the context at `ctx` carries the position of
`ctx` or of a child context nested in it (and handlers never log). -/
theorem C17_log_context (p : Prog) (ctx : Pos) (n : Nat) (s : St) (c : Pos) (m : String) (e : Bool)
    (h : Ev.logged c m e ∈ newEvents s (run p ctx n s).2) : ctx <+: c := by
  obtain ⟨l, hl, hall⟩ := run_logsUnder p ctx n s
  rw [EngineExec.newEvents_of_trace hl] at h
  exact hall c m e h

/-- Non-vacuity: a log call inside a child context carries the child's position. -/
example :
    logs (invoke (.log "top" (.child {} (.log "inner" (.ret "v")) fun _ => .log "after" (.ret "done")))
      [] 10 none (fun _ => .none)).2.trace
      = [([], "top", true), ([1], "inner", true), ([], "after", true)] := by decide

/-! ## 6. REPLAY lasts until the first tracked delivery, even with nothing to replay -/

/-- **C17_replay_until_first_tracked_delivery.** The history holds one operation, a step that is
READY for its retry — no completed operation at all.  The invocation nevertheless starts in REPLAY
(`initSt`: the history is non-empty), so the log call *before* the step is suppressed although no
completed operation follows it; the step then runs for real, its delivery calls `track_replay`,
which finds every completed position (now `[1]` itself) visited, and the log call after it is
emitted.  With a PENDING step, or with no operation call at all, REPLAY is never left. -/
theorem C17_replay_until_first_tracked_delivery :
    let spec : StepSpec := { body := fun _ => .ok "v", strategy := fun _ _ => none }
    let p : Prog := .log "a" (.step spec fun _ => .log "b" (.ret "x"))
    let ready : Tbl := [([1], { kind := .step, status := .ready, attempt := 1 })]
    let pend : Tbl := [([1], { kind := .step, status := .pending, attempt := 1 })]
    (∀ q r, lookup ready q = some r → r.status.terminal = false) ∧
    (initSt ready 10 none (fun _ => .none)).replaying = true ∧
    logs (invoke p ready 10 none (fun _ => .none)).2.trace = [([], "a", false), ([], "b", true)] ∧
    (invoke p ready 10 none (fun _ => .none)).1 = .returned "x" ∧
    logs (invoke p pend 10 none (fun _ => .none)).2.trace = [([], "a", false)] ∧
    logs (invoke (.log "a" (.ret "x")) ready 10 none (fun _ => .none)).2.trace = [([], "a", false)] ∧
    (invoke (.log "a" (.ret "x")) ready 10 none (fun _ => .none)).2.replaying = true := by
  refine ⟨?_, by decide, by decide, by decide, by decide, by decide, by decide⟩
  intro q r hl
  rw [EngineRun.lookup_cons] at hl
  split at hl
  · cases hl; rfl
  · cases hl

/-! ## 7. Non-vacuity: `log L0; step; log L1; wait; log L2` -/

/-- The workflow of the examples. -/
def demo : Prog :=
  .log "L0" (.step { body := fun _ => .ok "v", strategy := fun _ _ => none } fun _ =>
    .log "L1" (.wait 5 (.log "L2" (.ret "done"))))

/-- (i) First invocation: every line reached is emitted (the wait then suspends). -/
example :
    logs (invoke demo [] 10 none (fun _ => .none)).2.trace = [([], "L0", true), ([], "L1", true)] ∧
    (invoke demo [] 10 none (fun _ => .none)).1 = .suspended (some 5) := by decide

/-- (ii) Step succeeded, wait started: `L0` precedes the completed step — silent; `L1` follows the
last completed operation — emitted. -/
example :
    let t : Tbl := [([1], { kind := .step, status := .succeeded, result := some "v" }),
                    ([2], { kind := .wait, status := .started })]
    logs (invoke demo t 10 none (fun _ => .none)).2.trace = [([], "L0", false), ([], "L1", true)] ∧
    (invoke demo t 10 none (fun _ => .none)).1 = .suspended (some 5) := by decide

/-- (iii) Step and wait succeeded: `L0`, `L1` precede the completed wait — silent; `L2` — emitted. -/
example :
    let t : Tbl := [([1], { kind := .step, status := .succeeded, result := some "v" }),
                    ([2], { kind := .wait, status := .succeeded })]
    logs (invoke demo t 10 none (fun _ => .none)).2.trace
      = [([], "L0", false), ([], "L1", false), ([], "L2", true)] ∧
    (invoke demo t 10 none (fun _ => .none)).1 = .returned "done" := by decide

/-- (iv) A consequence of `C17_silent_before` worth seeing once: a child context whose oversized
result was replaced by a summary (ReplayChildren) is re-traversed on replay, and it is itself a
completed operation that is "passed" only when it returns — so log calls inside its body are
suppressed even after the last completed operation *inside* it; the line after it is emitted. -/
example :
    let t : Tbl := [([1], { kind := .context, status := .succeeded, result := some "sum", replayChildren := true }),
                    ([1, 1], { kind := .step, status := .succeeded, result := some "v" })]
    let p : Prog := .child { large := fun _ => true, summary := fun _ => "sum" }
      (.step { body := fun _ => .ok "v", strategy := fun _ _ => none } fun _ => .log "in" (.ret "big"))
      fun _ => .log "out" (.ret "done")
    logs (invoke p t 10 none (fun _ => .none)).2.trace = [([1], "in", false), ([], "out", true)] ∧
    (invoke p t 10 none (fun _ => .none)).1 = .returned "done" := by decide

/-- The hypotheses of `C17_emitted_iff` are satisfiable on (iii), and it decides `L2` vs `L1`. -/
example :
    let t : Tbl := [([1], { kind := .step, status := .succeeded, result := some "v" }),
                    ([2], { kind := .wait, status := .succeeded })]
    NoCbRes demo ∧ (keys t).Nodup ∧ (∃ q r, lookup t q = some r ∧ r.status.terminal = true) ∧
    (invoke demo t 10 none (fun _ => .none)).2.trace =
      [.logged [] "L0" false, .deliver [1] (.ok "v"), .logged [] "L1" false, .deliver [2] (.ok "None")]
        ++ .logged [] "L2" true :: [] :=
  ⟨fun _ => trivial, by decide, ⟨[1], _, rfl, rfl⟩, by decide⟩

end C17
