import DurableModel.Serdes
import Proofs.Serdes
/-!
# C15 — default serialization round-trips every accepted value exactly

`V` is typed (bool ≠ int, list ≠ tuple, datetime ≠ date), so `deser (ser v) = some v` says: equal
value of the same Python type at every nesting level.  The quantifier is over *all* values of the
grammar, to any nesting depth (mutual structural induction).
-/
namespace C15
open Serdes

/-- Every well-formed value (string keys, no duplicate keys, no all-None batch errors) is accepted. -/
theorem C15_ser_total (v : V) (h : wf v = true) : (ser v).isSome = true := by
  exact SerdesProofs.ser_total v h

/-- **Round trip.** Deserializing the serialized form of a well-formed value yields that value. -/
theorem C15_roundtrip (v : V) (h : wf v = true) : (ser v).bind deser = some v := by
  exact SerdesProofs.roundtrip v h

/-- Serialization is injective on well-formed values: two values that differ (in value or in type
at any level) never share a serialized form. -/
theorem C15_ser_injective (v w : V) (hv : wf v = true) (hw : wf w = true) (h : ser v = ser w) :
    v = w := by
  exact SerdesProofs.ser_injective v w hv hw h

/-- Envelope look-alike: user data of the shape `{"t": a, "v": b}` is returned unchanged. -/
theorem C15_lookalike (a b : V) (ha : wf a = true) (hb : wf b = true) :
    (ser (.dict [(.kstr "t", a), (.kstr "v", b)])).bind deser =
      some (.dict [(.kstr "t", a), (.kstr "v", b)]) := by
  apply SerdesProofs.roundtrip
  have hnd : ([Key.kstr "t", Key.kstr "v"] : List Key).Nodup := by decide
  simp [wf, wfKVs, Key.isStr, ha, hb, hnd]

/-- Tuple keys are rejected. -/
theorem C15_tuple_key_rejected (x : V) (rest : List (Key × V)) :
    ser (.dict ((.ktuple, x) :: rest)) = none := by
  simp [ser, isPrim, enc, encKVs, keyText]

/-- The full-strength statement of the last sentence of the property: whatever the serializer
accepts is reproduced exactly. -/
def C15_reject_or_exact_full : Prop :=
  ∀ v : V, ser v = none ∨ (ser v).bind deser = some v

/-- … which is **false** on the unchanged tree (finding F9): a dict with an `int` key is accepted
and comes back with a `str` key. -/
theorem C15_reject_or_exact_witness : ¬ C15_reject_or_exact_full := by
  intro hfull
  have h1 : toString (1 : Int) = "1" := by decide
  have h := hfull (.dict [(.kint 1, .str "a")])
  simp [ser, isPrim, enc, encKVs, keyText, h1, deser, isPrimJ, env, dec, decTag, decKVs] at h

/-- The witness itself, spelled out: `{1: "a"}` serializes and deserializes to `{"1": "a"}`. -/
theorem C15_int_key_witness :
    (ser (.dict [(.kint 1, .str "a")])).bind deser = some (.dict [(.kstr "1", .str "a")]) := by
  have h1 : toString (1 : Int) = "1" := by decide
  simp [ser, isPrim, enc, encKVs, keyText, h1, deser, isPrimJ, env, dec, decTag, decKVs]

/-- What does hold: the statement restricted to well-formed values (string keys). -/
theorem C15_reject_or_exact_partial (v : V) (h : wf v = true) :
    ser v = none ∨ (ser v).bind deser = some v :=
  Or.inr (C15_roundtrip v h)

/-- Non-vacuity: a deeply mixed value satisfies `wf`, and its round trip computes. -/
def sample : V :=
  .dict [(.kstr "t", .tuple [.int 1, .bool true, .list [.none, .float "1.5"]]),
         (.kstr "v", .batch [(0, "SUCCEEDED", .bytes "AAE=", none),
                             (1, "FAILED", .none, some ⟨some "boom", some "ValueError", none, some ["a", "b"]⟩)]
                        "ALL_COMPLETED"),
         (.kstr "d", .datetime "2024-01-01T00:00:00"), (.kstr "D", .date "2024-01-01")]

example : wf sample = true := by decide
example : (ser sample).bind deser = some sample := C15_roundtrip sample (by decide)

end C15
