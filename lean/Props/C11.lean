import Proofs.EngineCompat
/-!
# C11 — the update stream is always a valid operation history

Per operation, the updates the SDK sends follow the lifecycle the backend expects (B1): at most
one START per attempt, START before RETRY/SUCCEED/FAIL, nothing after a terminal record, and a
child's first update never precedes its parent context's START.  In the model every update goes
through `Backend.apply`, which refuses exactly the illegal ones, so the property reads: **no
`Ev.rejected` event ever occurs**.

* `C11_nothing_after_terminal`, `C11_parent_first`, `C11_start_once`, `C11_start_first`: what the
  backend's lifecycle automaton refuses (the meaning of "accepted").
* `C11_step_updates_accepted`, … : handler-level acceptance.
* `C11_first_invocation_accepted`: the first invocation, for **all** programs.
* `C11_accepted_scoped`: all invocation rounds of all executions, for programs that are
  `EngineCompat.Scoped` (replay-stable continuations, callback handles of earlier operations).
* `C11_accepted_false_*`: the unrestricted statement is **false** in the model; three witnesses.
-/
namespace C11
open Engine EngineCompat

/-! ## The backend's lifecycle automaton (B1) -/

/-- Nothing is accepted on a terminal record, whatever the action. -/
theorem C11_nothing_after_terminal {t : Tbl} {u : Upd} {r : OpRec} (imm : Backend.Immediate)
    (hl : lookup t u.pos = some r) (ht : r.status.terminal = true) : Backend.apply t u imm = none := by
  unfold Backend.apply
  split
  · rfl
  · rw [hl]
    cases ha : u.action <;> cases hs : r.status <;> simp_all [Status.terminal]

/-- An accepted update has an existing parent context (or is at the top level): the parent's START
was applied earlier. -/
theorem C11_parent_first {t t' : Tbl} {u : Upd} {imm : Backend.Immediate}
    (h : Backend.apply t u imm = some t') :
    Backend.parentOk t u.pos = true ∧
    (u.pos.dropLast = [] ∨ ∃ r, lookup t u.pos.dropLast = some r ∧ r.kind = .context) := by
  have hp : Backend.parentOk t u.pos = true := by
    unfold Backend.apply at h
    split at h
    · cases h
    · rename_i hn; simpa using hn
  refine ⟨hp, ?_⟩
  unfold Backend.parentOk at hp
  cases hd : u.pos.dropLast with
  | nil => exact Or.inl rfl
  | cons c cs =>
    refine Or.inr ?_
    rw [hd] at hp
    cases hl : lookup t (c :: cs) with
    | none => simp [hl] at hp
    | some r => exact ⟨r, rfl, by simpa [hl] using hp⟩

/-- At most one START per attempt: a START on an existing record is refused unless the record is a
step / wait-for-condition that a retry timer made READY. -/
theorem C11_start_once {t : Tbl} {u : Upd} {r : OpRec} (imm : Backend.Immediate)
    (hl : lookup t u.pos = some r) (ha : u.action = .start)
    (hnr : ¬ ((r.kind = .step ∨ r.kind = .wfc) ∧ r.status = .ready)) : Backend.apply t u imm = none := by
  unfold Backend.apply
  split
  · rfl
  · rw [hl, ha]
    simp only []
    split
    · rename_i hc
      simp only [Bool.and_eq_true, Bool.or_eq_true, beq_iff_eq] at hc
      exact absurd ⟨hc.1.1, hc.1.2⟩ hnr
    · rfl

/-- START comes first: RETRY / SUCCEED / FAIL on an absent record are refused. -/
theorem C11_start_first {t : Tbl} {u : Upd} (imm : Backend.Immediate)
    (hl : lookup t u.pos = none) (ha : u.action ≠ .start) : Backend.apply t u imm = none := by
  unfold Backend.apply
  split
  · rfl
  · rw [hl]
    cases hact : u.action <;> simp_all

/-! ## Handler-level acceptance -/

theorem traceExt_newEvents {s s1 : St} (h : TraceExt s s1) : ∀ ev ∈ newEvents s s1, ev.isRejected = false := by
  obtain ⟨evs, he, hn⟩ := h
  unfold newEvents
  rw [he, List.drop_left]
  exact hn

/-- The record a step-like handler may find: none, or one of its own kind in a lifecycle status. -/
def SaneRec (kd : Kind) : Option OpRec → Prop
  | none => True
  | some r => r.kind = kd ∧ (r.status = .started ∨ r.status = .pending ∨ r.status = .ready ∨
      r.status = .succeeded ∨ r.status = .failed)

theorem hpost_trace {G U ctx n s kd D res} (h : HPost G U ctx n s kd D res) : TraceExt s res.st := by
  cases res with
  | deliver o s1 => exact h.1.trace
  | stop e s1 => exact h.1.trace

theorem rpost_trace {G U ctx n s D res} (h : RPost G U ctx n s D res) : TraceExt s res.st := by
  cases res with
  | deliver o s1 => exact h.1.trace
  | stop e s1 => exact h.1.trace

theorem deliverAt_trace (s : St) (p : Pos) (o : Outcome) : TraceExt s (deliverAt s p o).st := by
  obtain ⟨s', he, hsame⟩ := deliverAt_same s p o
  rw [he]; exact hsame.trace

theorem upsertStable_true (q : Pos) : UpsertStable (fun _ => True) q := fun _ _ _ => trivial

/-- Every update the step handler sends is accepted: START (on an absent record, or on a READY
at-most-once retry), then SUCCEED / RETRY / FAIL on the STARTED or READY record. -/
theorem C11_step_updates_accepted (s : St) (ctx : Pos) (n : Nat) (spec : StepSpec)
    (hpar : Backend.parentOk s.tbl (ctx ++ [n + 1]) = true)
    (hrec : SaneRec .step (lookup s.tbl (ctx ++ [n + 1]))) :
    ∀ ev ∈ newEvents s (handleStep s (ctx ++ [n + 1]) spec).st, ev.isRejected = false := by
  apply traceExt_newEvents
  have hctx := ctxOk_of_parentOk hpar
  have hlive := fun h => hpost_trace (handleStep_live (G := AnyTbl) (U := fun _ => True) spec (crashG_any s) hctx h
    (upsertStable_true _) trivial (nodeG_any _ ctx n s))
  cases hl : lookup s.tbl (ctx ++ [n + 1]) with
  | none => exact hlive (Or.inl hl)
  | some r =>
    rw [hl] at hrec
    obtain ⟨hk, h | h | h | h | h⟩ := hrec
    · exact hlive (Or.inr ⟨r, hl, hk, Or.inl h⟩)
    · exact hlive (Or.inr ⟨r, hl, hk, Or.inr (Or.inl h)⟩)
    · exact hlive (Or.inr ⟨r, hl, hk, Or.inr (Or.inr h)⟩)
    · rw [handleStep_done spec hl (by simp [Done, h])]; exact deliverAt_trace _ _ _
    · rw [handleStep_done spec hl (by simp [Done, h])]; exact deliverAt_trace _ _ _

/-- Every update the wait-for-condition handler sends is accepted. -/
theorem C11_wfc_updates_accepted (s : St) (ctx : Pos) (n : Nat) (w : WfcSpec)
    (hpar : Backend.parentOk s.tbl (ctx ++ [n + 1]) = true)
    (hrec : SaneRec .wfc (lookup s.tbl (ctx ++ [n + 1]))) :
    ∀ ev ∈ newEvents s (handleWfc s (ctx ++ [n + 1]) w).st, ev.isRejected = false := by
  apply traceExt_newEvents
  have hctx := ctxOk_of_parentOk hpar
  have hlive := fun h => hpost_trace (handleWfc_live (G := AnyTbl) (U := fun _ => True) w (crashG_any s) hctx h
    (upsertStable_true _) trivial (nodeG_any _ ctx n s))
  cases hl : lookup s.tbl (ctx ++ [n + 1]) with
  | none => exact hlive (Or.inl hl)
  | some r =>
    rw [hl] at hrec
    obtain ⟨hk, h | h | h | h | h⟩ := hrec
    · exact hlive (Or.inr ⟨r, hl, hk, Or.inl h⟩)
    · exact hlive (Or.inr ⟨r, hl, hk, Or.inr (Or.inl h)⟩)
    · exact hlive (Or.inr ⟨r, hl, hk, Or.inr (Or.inr h)⟩)
    · rw [handleWfc_done w hl (by simp [Done, h])]; exact deliverAt_trace _ _ _
    · rw [handleWfc_done w hl (by simp [Done, h])]; exact deliverAt_trace _ _ _

/-- The wait handler sends one START, on an absent record only (any existing record: nothing). -/
theorem C11_wait_updates_accepted (s : St) (ctx : Pos) (n : Nat) (secs : Nat)
    (hpar : Backend.parentOk s.tbl (ctx ++ [n + 1]) = true) :
    ∀ ev ∈ newEvents s (handleWait s (ctx ++ [n + 1]) secs).st, ev.isRejected = false := by
  apply traceExt_newEvents
  have hctx := ctxOk_of_parentOk hpar
  cases hl : lookup s.tbl (ctx ++ [n + 1]) with
  | none =>
    exact rpost_trace (handleWait_fresh (G := AnyTbl) (U := fun _ => True) secs (crashG_any s) hctx hl
      (upsertStable_true _) trivial (nodeG_any _ ctx n s))
  | some r =>
    rw [handleWait_some secs hl]
    split
    · exact deliverAt_trace _ _ _
    · exact TraceExt.refl s

/-- The invoke handler sends one START, on an absent record only. -/
theorem C11_invoke_updates_accepted (s : St) (ctx : Pos) (n : Nat) (payload : Val)
    (hpar : Backend.parentOk s.tbl (ctx ++ [n + 1]) = true) :
    ∀ ev ∈ newEvents s (handleInvoke s (ctx ++ [n + 1]) payload).st, ev.isRejected = false := by
  apply traceExt_newEvents
  have hctx := ctxOk_of_parentOk hpar
  cases hl : lookup s.tbl (ctx ++ [n + 1]) with
  | none =>
    exact rpost_trace (handleInvoke_fresh (G := AnyTbl) (U := fun _ => True) payload (crashG_any s) hctx hl
      (upsertStable_true _) trivial (nodeG_any _ ctx n s))
  | some r =>
    rw [handleInvoke_some payload hl]
    cases invOut r with
    | none => exact TraceExt.refl s
    | some o => exact deliverAt_trace _ _ _

/-- State after `handleCbNew`. -/
def cbSt : Except (End × St) St → St
  | .ok s => s
  | .error (_, s) => s

/-- The callback handler sends one START, on an absent record only. -/
theorem C11_callback_updates_accepted (s : St) (ctx : Pos) (n : Nat)
    (hpar : Backend.parentOk s.tbl (ctx ++ [n + 1]) = true) :
    ∀ ev ∈ newEvents s (cbSt (handleCbNew s (ctx ++ [n + 1]))), ev.isRejected = false := by
  apply traceExt_newEvents
  have hctx := ctxOk_of_parentOk hpar
  cases hl : lookup s.tbl (ctx ++ [n + 1]) with
  | none =>
    have h := handleCbNew_fresh (G := AnyTbl) (U := fun _ => True) (crashG_any s) hctx hl
      (upsertStable_true _) trivial (nodeG_any _ ctx n s)
    cases hres : handleCbNew s (ctx ++ [n + 1]) with
    | error x => obtain ⟨e, s1⟩ := x; rw [hres] at h; exact h.1.trace
    | ok s1 => rw [hres] at h; exact h.1.trace
  | some r =>
    obtain ⟨s1, he, hsame⟩ := handleCbNew_some hl
    rw [he]; exact hsame.trace

/-- `Callback.result` never sends anything. -/
theorem C11_callback_result_sends_nothing (s : St) (h : Handle) :
    ∀ ev ∈ newEvents s (handleCbRes s h).st, ev.isRejected = false := by
  apply traceExt_newEvents
  cases hl : lookup s.tbl h with
  | none => simp only [handleCbRes, hl]; exact (same_emit s _ rfl).trace
  | some r =>
    rw [handleCbRes_some hl]
    cases cbOut r with
    | none => exact TraceExt.refl s
    | some o => exact (same_emit s _ rfl).trace

/-- State after `childBefore`. -/
def beforeSt : HRes ⊕ (St × Bool) → St
  | .inl r => r.st
  | .inr (s, _) => s

/-- The child-context handler sends its START on an absent record only; on any existing record it
sends nothing before the body runs. -/
theorem C11_child_start_accepted (s : St) (ctx : Pos) (n : Nat)
    (hpar : Backend.parentOk s.tbl (ctx ++ [n + 1]) = true) :
    ∀ ev ∈ newEvents s (beforeSt (childBefore s (ctx ++ [n + 1]))), ev.isRejected = false := by
  apply traceExt_newEvents
  cases hl : lookup s.tbl (ctx ++ [n + 1]) with
  | none =>
    have hext := ext_upsert (ctx := ctx) (n := n) (t := s.tbl)
      (r' := Backend.startRec .context (s.imm (ctx ++ [n + 1]))) (fun r0 h0 => by rw [hl] at h0; cases h0)
    have hck := checkpoint_ok (G := AnyTbl) (crashG_any s)
      (apply_start_absent (u := { pos := ctx ++ [n + 1], kind := .context, action := .start, sync := false })
        hpar hl rfl) hext trivial
    simp only [childBefore, hl]
    cases hres : checkpoint s { pos := ctx ++ [n + 1], kind := .context, action := .start, sync := false } with
    | error x => obtain ⟨en, s1⟩ := x; rw [hres] at hck; exact hck.1.trace
    | ok s1 => rw [hres] at hck; exact hck.1.trace.trans (same_emit s1 _ rfl).trace
  | some r =>
    simp only [childBefore, hl]
    split
    · exact deliverAt_trace _ _ _
    · split
      · exact (same_emit s _ rfl).trace
      · split
        · exact deliverAt_trace _ _ _
        · exact (same_emit s _ rfl).trace

/-- When the body of a (non-replayed) child context ends, the SUCCEED / FAIL the handler sends on the
STARTED context record is accepted. -/
theorem C11_child_completion_accepted (s : St) (ctx : Pos) (n : Nat) (c : ChildSpec) (e : End) (r : OpRec)
    (hpar : Backend.parentOk s.tbl (ctx ++ [n + 1]) = true)
    (hl : lookup s.tbl (ctx ++ [n + 1]) = some r) (hk : r.kind = .context) (hs : r.status = .started) :
    ∀ ev ∈ newEvents s (childAfter s (ctx ++ [n + 1]) c false e).st, ev.isRejected = false := by
  apply traceExt_newEvents
  have h := childAfter_fresh (U := fun _ => True) c e (ctxOk_of_parentOk hpar) hl hk hs (upsertStable_true _) trivial
  cases hres : childAfter s (ctx ++ [n + 1]) c false e with
  | deliver o s1 => rw [hres] at h; exact h.1.trace
  | stop e' s1 => rw [hres] at h; exact h.trace

/-- A replayed child context (ReplayChildren) whose body returns sends nothing. -/
theorem C11_child_replay_sends_nothing (s : St) (p : Pos) (c : ChildSpec) (v : Val) :
    ∀ ev ∈ newEvents s (childAfter s p c true (.returned v)).st, ev.isRejected = false := by
  apply traceExt_newEvents
  simp only [childAfter, if_true]
  exact deliverAt_trace _ _ _

/-! ## Whole invocations and executions -/

/-- **First invocation.** On the empty history every update of every program is accepted. -/
theorem C11_first_invocation_accepted (p : Prog) (budget : Nat) (failAt : Option Nat)
    (imm : Pos → Backend.Immediate) :
    ∀ ev ∈ (Engine.invoke p [] budget failAt imm).2.trace, ev.isRejected = false := by
  have h := run_fresh p [] 0 (initSt [] budget failAt imm) (Or.inl rfl) (fun _ _ => rfl)
  obtain ⟨evs, he, hn⟩ := h.trace
  unfold Engine.invoke
  rw [he]
  simpa [initSt, NoRej] using hn

/-- **C11, all rounds.** For a `Scoped` program, no update is ever rejected: in any invocation
round (first execution or replay, after crashes with any `keep`, failed checkpoint calls,
immediate outcomes, backend events in between) of any execution starting from the empty table. -/
theorem C11_accepted_scoped (p : Prog) (hsc : Scoped p [] 0) (rounds : List Exec.Round) :
    ∀ o ∈ Exec.runRounds p [] rounds, ∀ ev ∈ o.trace, ev.isRejected = false :=
  fun o ho => (runRounds_ok hsc rounds [] (compat_nil p [] 0) o ho).1

/-- The invariant behind it: every table the backend holds between rounds is compatible with the
program, and an invocation on a compatible table sends only accepted updates. -/
theorem C11_tables_compatible (p : Prog) (hsc : Scoped p [] 0) (rounds : List Exec.Round) :
    ∀ o ∈ Exec.runRounds p [] rounds, Compat p [] 0 o.tbl :=
  fun o ho => (runRounds_ok hsc rounds [] (compat_nil p [] 0) o ho).2

/-- Replay on any compatible history (not only reachable ones). -/
theorem C11_replay_accepted (p : Prog) (hsc : Scoped p [] 0) (t : Tbl) (hc : Compat p [] 0 t)
    (budget : Nat) (failAt : Option Nat) (imm : Pos → Backend.Immediate) :
    ∀ ev ∈ (Engine.invoke p (Exec.visible t) budget failAt imm).2.trace, ev.isRejected = false :=
  (invoke_ok hsc hc budget failAt imm).1


/-! ## The unrestricted statement is false in the model: three witnesses

Each witness is a program and two invocation rounds (plus, for the third, nothing else) whose second
invocation sends an update the backend rejects.  The cause is always the same: the continuation
receives, on replay, a different outcome than on the first execution, so the replaying code calls a
different operation at a position whose record belongs to the operation called the first time. -/

def anyRejected (os : List Exec.RoundOut) : Bool := os.any (fun o => o.trace.any Ev.isRejected)

def okStep : StepSpec := { body := fun _ => .ok "s", strategy := fun _ _ => none }

def twoRounds : List Exec.Round := [.invoke 100 none 0 [], .invoke 100 none 0 []]

/-- **F2.** A wait-for-condition whose check raises: the first execution re-raises the ORIGINAL
exception (`etype = none`), a replay raises `CallableRuntimeError` (`etype = some _`).  User code
that tells them apart waits at `[2]` first and calls a step at `[2]` on replay: the step handler
finds a STARTED WAIT record, runs the step and sends SUCCEED (kind STEP) — rejected. -/
def cexF2 : Prog :=
  .wfc { init := "", check := fun _ _ => .err { cls := "E", msg := "m" }, decide := fun _ _ => none }
    (fun o => match o with
      | .err e => if e.etype.isSome then .step okStep (fun _ => .ret "b") else .wait 5 (.ret "a")
      | .ok _ => .ret "c")

theorem C11_accepted_false_F2 : anyRejected (Exec.runRounds cexF2 [] twoRounds) = true := by decide

/-- The same with a step whose function raises an `InvocationError` (`inv := true`): `retry_handler`
re-raises the original, a replay raises `CallableRuntimeError`. (Also applies to an at-most-once
step's `StepInterruptedError` and to a child context whose body raises an `InvocationError`.) -/
def cexInv : Prog :=
  .step { body := fun _ => .err { cls := "E", msg := "m", inv := true }, strategy := fun _ _ => none }
    (fun o => match o with
      | .err e => if e.etype.isSome then .step okStep (fun _ => .ret "b") else .wait 5 (.ret "a")
      | .ok _ => .ret "c")

theorem C11_accepted_false_inv : anyRejected (Exec.runRounds cexInv [] twoRounds) = true := by decide

/-- A forged callback handle: `[1, 1]` is a step inside the child context `[1]`.  During the first
invocation `Callback.result` finds its SUCCEEDED record and returns; on replay the record is
omitted (B6: descendants of a completed context), `Callback.result` raises, and the other branch
calls a step at `[2]`, where the first invocation started a WAIT. -/
def cexHandle : Prog :=
  .child {} (.step okStep (fun _ => .ret "x"))
    (fun _ => .cbRes [1, 1] (fun o => match o with
      | .ok _ => .wait 5 (.ret "a")
      | .err _ => .step okStep (fun _ => .ret "b")))

theorem C11_accepted_false_handle : anyRejected (Exec.runRounds cexHandle [] twoRounds) = true := by decide

/-- The statement "for all programs" is false. -/
theorem C11_accepted_false :
    ¬ ∀ (p : Prog) (rounds : List Exec.Round),
        ∀ o ∈ Exec.runRounds p [] rounds, ∀ ev ∈ o.trace, ev.isRejected = false := by
  intro h
  have h1 := h cexF2 twoRounds
  have h2 : anyRejected (Exec.runRounds cexF2 [] twoRounds) = false := by
    unfold anyRejected
    rw [List.any_eq_false]
    intro o ho
    rw [Bool.not_eq_true, List.any_eq_false]
    intro ev hev
    rw [h1 o ho ev hev]; simp
  rw [C11_accepted_false_F2] at h2
  cases h2

/-- Hence none of the witnesses is `Scoped`. -/
theorem cexF2_not_scoped : ¬ Scoped cexF2 [] 0 := by
  intro h
  have h1 := C11_accepted_scoped cexF2 h twoRounds
  have h2 : anyRejected (Exec.runRounds cexF2 [] twoRounds) = false := by
    unfold anyRejected
    rw [List.any_eq_false]
    intro o ho
    rw [Bool.not_eq_true, List.any_eq_false]
    intro ev hev
    rw [h1 o ho ev hev]; simp
  rw [C11_accepted_false_F2] at h2
  cases h2

/-! ## Non-vacuity: a `Scoped` program with a child context, a retried step and a wait -/

/-- A child context whose body runs a step (fails on attempt 1, retried, succeeds on attempt 2) and
then waits; errors propagate (`raise e`), which is replay-stable (`Sim.raise`). -/
def demo : Prog :=
  .child {}
    (.step { body := fun a => if a < 2 then .err { cls := "E", msg := "m" } else .ok "v",
             strategy := fun _ made => if made < 3 then some 1 else none }
      (fun o => match o with
        | .ok _ => .wait 5 (.ret "done")
        | .err e => .raise e))
    (fun o => match o with
      | .ok v => .ret v
      | .err e => .raise e)

theorem demo_scoped : Scoped demo [] 0 := by
  refine .child (.step ?_ (fun e _ _ => Sim.raise _ _)) ?_ (fun e _ => Sim.raise _ _)
  · intro o
    cases o with
    | ok v => exact .wait .ret
    | err e => exact .raise
  · intro o
    cases o with
    | ok v => exact .ret
    | err e => exact .raise

/-- Crash inside the step with only the context START surviving (`keep = 1`); retry; crash right
after the step's SUCCEED was applied; wait; a failing checkpoint call; completion. -/
def demoRounds : List Exec.Round :=
  [ .invoke 1 none 1 [],              -- dies before the RETRY call; of [START ctx, START step] only the first is kept
    .invoke 100 none 0 [],            -- START step again, attempt 1 fails, RETRY, suspended
    .event (.retryReady [1, 1]),
    .invoke 2 none 0 [],              -- attempt 2: SUCCEED applied, then dies
    .invoke 100 none 0 [],            -- step replayed from its record; WAIT started, suspended
    .event (.waitDone [1, 2]),
    .invoke 100 (some 0) 0 [],        -- the context's SUCCEED call fails
    .invoke 100 none 0 [] ]           -- replay: the context's SUCCEED is sent again and accepted

/-- The updates of a round with the backend's verdict (`true` = accepted). -/
def sent (o : Exec.RoundOut) : List (Pos × Kind × Action × Bool) :=
  o.trace.filterMap (fun ev => match ev with
    | .applied u => some (u.pos, u.kind, u.action, true)
    | .rejected u => some (u.pos, u.kind, u.action, false)
    | _ => none)

example : anyRejected (Exec.runRounds demo [] demoRounds) = false := by decide

/-- What the accepted stream looks like, round by round. -/
example : (Exec.runRounds demo [] demoRounds).map (fun o => (o.ending, sent o)) =
    [ (some .crashed, [([1], .context, .start, true), ([1, 1], .step, .start, true)]),
      (some (.suspended (some 1)), [([1, 1], .step, .start, true), ([1, 1], .step, .retry, true)]),
      (none, []),
      (some .crashed, [([1, 1], .step, .succeed, true)]),
      (some (.suspended (some 5)), [([1, 2], .wait, .start, true)]),
      (none, []),
      (some .ckptFailed, []),
      (some (.returned "done"), [([1], .context, .succeed, true)]) ] := by rfl

/-- The theorem applies to it. -/
example : ∀ o ∈ Exec.runRounds demo [] demoRounds, ∀ ev ∈ o.trace, ev.isRejected = false :=
  C11_accepted_scoped demo demo_scoped demoRounds

/-- A context with an oversized result (ReplayChildren): on replay the body is traversed again
from its records and sends nothing. -/
def demoLarge : Prog :=
  .child { large := fun _ => true, summary := fun _ => "sum" }
    (.step okStep (fun _ => .ret "big"))
    (fun _ => .wait 1 (.ret "end"))

theorem demoLarge_scoped : Scoped demoLarge [] 0 :=
  .child (.step (fun _ => .ret) (fun _ _ _ => Sim.refl _)) (fun _ => .wait .ret) (fun _ _ => Sim.refl _)

example : (Exec.runRounds demoLarge [] [.invoke 100 none 0 [], .event (.waitDone [2]), .invoke 100 none 0 []]).map
      (fun o => (o.ending, sent o)) =
    [ (some (.suspended (some 1)),
        [([1], .context, .start, true), ([1, 1], .step, .start, true), ([1, 1], .step, .succeed, true),
         ([1], .context, .succeed, true), ([2], .wait, .start, true)]),
      (none, []),
      (some (.returned "end"), []) ] := by rfl

end C11
