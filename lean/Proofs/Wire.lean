import DurableModel.Wire
/-!
# Helper lemmas for C20 (wire codecs)

Strategy: every decoder reads the dictionary only through `lookup`, and every encoder is a
concatenation of literal-key fragments, so
1. `lookup k (toKVs x)` is computed for each literal key `k` (`lk_*` lemmas, by `simp`),
2. each typed reader applied to such a looked-up value is computed (`as*_…` lemmas),
3. the exact *image* of `fromDict ∘ toDict` is obtained field by field (`img*` functions), with no
   hypotheses — the partial round-trip theorems of `Props/C20.lean` are corollaries.
-/
set_option linter.unusedSimpArgs false

namespace WireProofs
open Wire

/-! ## Association lists -/

theorem lookup_cons (k k' : String) (v : DV) (rest : KVs) :
    lookup k ((k', v) :: rest) = if k' = k then some v else lookup k rest := rfl

@[simp] theorem lookup_nil (k : String) : lookup k [] = none := rfl

theorem lookup_append (k : String) (a b : KVs) :
    lookup k (a ++ b) = (lookup k a).or (lookup k b) := by
  induction a with
  | nil => simp
  | cons p t ih =>
    obtain ⟨k', v⟩ := p
    simp only [List.cons_append, lookup_cons]
    split <;> simp [ih]

theorem lookup_optKV (k k' : String) (o : Option DV) :
    lookup k (optKV k' o) = if k' = k then o else none := by
  cases o <;> simp [optKV, lookup_cons]

theorem lookup_setKey (k k' : String) (v : DV) (kvs : KVs) :
    lookup k (setKey k' v kvs) = if k' = k then some v else lookup k kvs := by
  induction kvs with
  | nil => simp [setKey, lookup_cons]
  | cons p t ih =>
    obtain ⟨k'', v''⟩ := p
    simp only [setKey]
    by_cases h1 : k'' = k' <;> by_cases h2 : k' = k <;> simp_all [lookup_cons]

/-! ## Enumerations -/

theorem action_rt (a : OperationAction) : OperationAction.ofStr? a.toStr = some a := by
  cases a <;> rfl
theorem status_rt (a : OperationStatus) : OperationStatus.ofStr? a.toStr = some a := by
  cases a <;> rfl
theorem type_rt (a : OperationType) : OperationType.ofStr? a.toStr = some a := by
  cases a <;> rfl
theorem subtype_rt (a : OperationSubType) : OperationSubType.ofStr? a.toStr = some a := by
  cases a <;> rfl
theorem invstatus_rt (a : InvocationStatus) : InvocationStatus.ofStr? a.toStr = some a := by
  cases a <;> rfl
theorem subtype_truthy (a : OperationSubType) : (DV.str a.toStr).truthy = true := by
  cases a <;> simp [DV.truthy, OperationSubType.toStr]

/-! ## Readers applied to encoder output -/

theorem asOptStr_map (o : Option String) : asOptStr (o.map DV.str) = some o := by
  cases o <;> rfl
theorem asOptStr_optStrDV (o : Option String) : asOptStr (some (optStrDV o)) = some o := by
  cases o <;> rfl
theorem asOptStrs_map (o : Option (List String)) : asOptStrs (o.map DV.strs) = some o := by
  cases o <;> rfl
theorem asOptTs_map (o : Option Int) : asOptTs (o.map DV.ts) = some o := by
  cases o <;> rfl
theorem asReqStr_some (s : String) : asReqStr (some (DV.str s)) = some s := rfl
theorem asStrD_some (d s : String) : asStrD d (some (DV.str s)) = some s := rfl
theorem asIntD_some (d i : Int) : asIntD d (some (DV.int i)) = some i := rfl
theorem asBoolD_some (d b : Bool) : asBoolD d (some (DV.bool b)) = some b := rfl
theorem asBoolD_none (d : Bool) : asBoolD d none = some d := rfl

theorem asReqEnum_some {α : Type} (ofStr? : String → Option α) (s : String) :
    asReqEnum ofStr? (some (DV.str s)) = ofStr? s := rfl

theorem asOptEnum_subtype (o : Option OperationSubType) :
    asOptEnum OperationSubType.ofStr? (o.map (fun s => DV.str s.toStr)) = some o := by
  cases o with
  | none => rfl
  | some a => simp [asOptEnum, truthyOf, subtype_truthy, subtype_rt]

/-- `f(x) if x else None` on an always-truthy encoding. -/
theorem subOf_map {α β : Type} (f : DV → Option β) (g : α → DV) (r : α → β)
    (hT : ∀ a, (g a).truthy = true) (hf : ∀ a, f (g a) = some (r a)) (o : Option α) :
    subOf f (o.map g) = some (o.map r) := by
  cases o with
  | none => rfl
  | some a => simp [subOf, truthyOf, hT, hf]

/-! ## ErrorObject -/

/-- All four fields are `None`: the error whose wire form is the empty (falsy) dict. -/
def allNone (e : ErrorObject) : Bool :=
  e.message.isNone && e.type.isNone && e.data.isNone && e.stack_trace.isNone

/-- What an optional error becomes after `to_dict`/`from_dict` of its container. -/
def imgError (e : Option ErrorObject) : Option ErrorObject :=
  match e with
  | some e => if allNone e then none else some e
  | none => none

theorem error_kvs_rt (e : ErrorObject) : ErrorObject.fromKVs e.toKVs = some e := by
  obtain ⟨m, t, d, s⟩ := e
  cases m <;> cases t <;> cases d <;> cases s <;>
    simp [ErrorObject.fromKVs, ErrorObject.toKVs, getStr?, getStrs?, asOptStr, asOptStrs,
      lookup_append, lookup_optKV]

theorem error_rt (e : ErrorObject) : ErrorObject.fromDict e.toDict = some e := by
  simp [ErrorObject.fromDict, ErrorObject.toDict, error_kvs_rt]

theorem error_truthy (e : ErrorObject) : e.toDict.truthy = !allNone e := by
  obtain ⟨m, t, d, s⟩ := e
  cases m <;> cases t <;> cases d <;> cases s <;>
    simp [ErrorObject.toDict, ErrorObject.toKVs, DV.truthy, allNone, optKV]

theorem subOf_error (e : Option ErrorObject) :
    subOf ErrorObject.fromDict (e.map ErrorObject.toDict) = some (imgError e) := by
  cases e with
  | none => rfl
  | some e =>
    cases h : allNone e <;> simp [subOf, truthyOf, error_truthy, h, error_rt, imgError]

/-! ## Options -/

theorem stepOptions_rt (o : StepOptions) : StepOptions.fromDict o.toDict = some o := by
  simp [StepOptions.fromDict, StepOptions.toDict, getIntD, lookup_cons, asIntD]
theorem waitOptions_rt (o : WaitOptions) : WaitOptions.fromDict o.toDict = some o := by
  simp [WaitOptions.fromDict, WaitOptions.toDict, getIntD, lookup_cons, asIntD]
theorem callbackOptions_rt (o : CallbackOptions) : CallbackOptions.fromDict o.toDict = some o := by
  simp [CallbackOptions.fromDict, CallbackOptions.toDict, getIntD, lookup_cons, asIntD]
theorem contextOptions_rt (o : ContextOptions) : ContextOptions.fromDict o.toDict = some o := by
  simp [ContextOptions.fromDict, ContextOptions.toDict, getBoolD, lookup_cons, asBoolD]
theorem chainedInvokeOptions_rt (o : ChainedInvokeOptions) :
    ChainedInvokeOptions.fromDict o.toDict = some o := by
  obtain ⟨f, t⟩ := o
  cases t <;>
    simp [ChainedInvokeOptions.fromDict, ChainedInvokeOptions.toDict, reqStr, getStr?, lookup_cons,
      lookup_append, lookup_optKV, asReqStr, asOptStr]

theorem stepOptions_truthy (o : StepOptions) : o.toDict.truthy = true := by
  simp [StepOptions.toDict, DV.truthy]
theorem waitOptions_truthy (o : WaitOptions) : o.toDict.truthy = true := by
  simp [WaitOptions.toDict, DV.truthy]
theorem callbackOptions_truthy (o : CallbackOptions) : o.toDict.truthy = true := by
  simp [CallbackOptions.toDict, DV.truthy]
theorem contextOptions_truthy (o : ContextOptions) : o.toDict.truthy = true := by
  simp [ContextOptions.toDict, DV.truthy]
theorem chainedInvokeOptions_truthy (o : ChainedInvokeOptions) : o.toDict.truthy = true := by
  simp [ChainedInvokeOptions.toDict, DV.truthy]

/-! ## OperationUpdate -/

/-- The exact image of `from_dict ∘ to_dict` on an update. -/
def imgUpdate (u : OperationUpdate) : OperationUpdate :=
  { u with parent_id := truthyStr u.parent_id, name := truthyStr u.name,
           payload := truthyStr u.payload, error := imgError u.error }

section
variable (u : OperationUpdate)
theorem lkU_Id : lookup "Id" u.toKVs = some (.str u.operation_id) := by
  simp [OperationUpdate.toKVs, lookup_append, lookup_optKV, lookup_cons]
theorem lkU_Type : lookup "Type" u.toKVs = some (.str u.operation_type.toStr) := by
  simp [OperationUpdate.toKVs, lookup_append, lookup_optKV, lookup_cons]
theorem lkU_Action : lookup "Action" u.toKVs = some (.str u.action.toStr) := by
  simp [OperationUpdate.toKVs, lookup_append, lookup_optKV, lookup_cons]
theorem lkU_ParentId : lookup "ParentId" u.toKVs = (truthyStr u.parent_id).map .str := by
  simp [OperationUpdate.toKVs, lookup_append, lookup_optKV, lookup_cons]
theorem lkU_Name : lookup "Name" u.toKVs = (truthyStr u.name).map .str := by
  simp [OperationUpdate.toKVs, lookup_append, lookup_optKV, lookup_cons]
theorem lkU_SubType : lookup "SubType" u.toKVs = u.sub_type.map (fun s => .str s.toStr) := by
  simp [OperationUpdate.toKVs, lookup_append, lookup_optKV, lookup_cons]
theorem lkU_Payload : lookup "Payload" u.toKVs = (truthyStr u.payload).map .str := by
  simp [OperationUpdate.toKVs, lookup_append, lookup_optKV, lookup_cons]
theorem lkU_Error : lookup "Error" u.toKVs = u.error.map ErrorObject.toDict := by
  simp [OperationUpdate.toKVs, lookup_append, lookup_optKV, lookup_cons]
theorem lkU_ContextOptions :
    lookup "ContextOptions" u.toKVs = u.context_options.map ContextOptions.toDict := by
  simp [OperationUpdate.toKVs, lookup_append, lookup_optKV, lookup_cons]
theorem lkU_StepOptions : lookup "StepOptions" u.toKVs = u.step_options.map StepOptions.toDict := by
  simp [OperationUpdate.toKVs, lookup_append, lookup_optKV, lookup_cons]
theorem lkU_WaitOptions : lookup "WaitOptions" u.toKVs = u.wait_options.map WaitOptions.toDict := by
  simp [OperationUpdate.toKVs, lookup_append, lookup_optKV, lookup_cons]
theorem lkU_CallbackOptions :
    lookup "CallbackOptions" u.toKVs = u.callback_options.map CallbackOptions.toDict := by
  simp [OperationUpdate.toKVs, lookup_append, lookup_optKV, lookup_cons]
theorem lkU_ChainedInvokeOptions :
    lookup "ChainedInvokeOptions" u.toKVs
      = u.chained_invoke_options.map ChainedInvokeOptions.toDict := by
  simp [OperationUpdate.toKVs, lookup_append, lookup_optKV, lookup_cons]
end

theorem update_kvs_rt (u : OperationUpdate) :
    OperationUpdate.fromKVs u.toKVs = some (imgUpdate u) := by
  simp only [OperationUpdate.fromKVs, optError, optSub, reqStr, reqEnum, getStr?, optEnum,
    lkU_Id, lkU_Type, lkU_Action, lkU_ParentId, lkU_Name, lkU_SubType, lkU_Payload, lkU_Error,
    lkU_ContextOptions, lkU_StepOptions, lkU_WaitOptions, lkU_CallbackOptions,
    lkU_ChainedInvokeOptions,
    subOf_error,
    subOf_map _ _ _ contextOptions_truthy contextOptions_rt,
    subOf_map _ _ _ stepOptions_truthy stepOptions_rt,
    subOf_map _ _ _ waitOptions_truthy waitOptions_rt,
    subOf_map _ _ _ callbackOptions_truthy callbackOptions_rt,
    subOf_map _ _ _ chainedInvokeOptions_truthy chainedInvokeOptions_rt,
    asReqStr_some, asReqEnum_some, type_rt, action_rt, asOptStr_map, asOptEnum_subtype,
    Option.bind_eq_bind, Option.bind_some, Option.map_id', Option.pure_def, bind, pure]
  simp [imgUpdate]

theorem update_rt (u : OperationUpdate) :
    OperationUpdate.fromDict u.toDict = some (imgUpdate u) := by
  simp [OperationUpdate.fromDict, OperationUpdate.toDict, update_kvs_rt]

/-! ## Details -/

/-- Image of a ContextDetails: `replay_children` and `result` survive unchanged (also `""`), an
all-None error becomes `None` (lambda_service.py:827-835 / 112-119). -/
def imgContext (d : ContextDetails) : ContextDetails :=
  { d with error := imgError d.error }

/-- Image of a StepDetails. -/
def imgStep (d : StepDetails) : StepDetails :=
  { d with result := truthyStr d.result, error := imgError d.error }

/-- Image of an optional WaitDetails: one without a timestamp is emitted as `{}` and vanishes. -/
def imgWait (d : Option WaitDetails) : Option WaitDetails :=
  match d with
  | some d => if d.scheduled_end_timestamp.isSome then some d else none
  | none => none

/-- Image of a CallbackDetails. -/
def imgCallback (d : CallbackDetails) : CallbackDetails :=
  { d with result := truthyStr d.result, error := imgError d.error }

/-- Image of a ChainedInvokeDetails (when its wire form is not the empty dict). -/
def imgChained (d : ChainedInvokeDetails) : ChainedInvokeDetails :=
  { result := truthyStr d.result, error := imgError d.error }

/-- Image of an optional ChainedInvokeDetails: the one whose wire form is `{}` vanishes. -/
def imgChainedOpt (d : Option ChainedInvokeDetails) : Option ChainedInvokeDetails :=
  match d with
  | some d => if (truthyStr d.result).isNone && d.error.isNone then none else some (imgChained d)
  | none => none

/-- The ChainedInvokeDetails whose wire form is `{}`: no non-empty result and no error at all. -/
def chainedEmpty (d : Option ChainedInvokeDetails) : Bool :=
  match d with
  | some d => (truthyStr d.result).isNone && d.error.isNone
  | none => false

theorem executionDetails_rt (d : ExecutionDetails) : ExecutionDetails.fromDict d.toDict = some d := by
  simp [ExecutionDetails.fromDict, ExecutionDetails.toDict, getStr?, lookup_cons, asOptStr_optStrDV]
theorem executionDetails_truthy (d : ExecutionDetails) : d.toDict.truthy = true := by
  simp [ExecutionDetails.toDict, DV.truthy]

section
variable (d : ContextDetails)
theorem lkC_Result : lookup "Result" d.toKVs = some (optStrDV d.result) := by
  simp [ContextDetails.toKVs, lookup_append, lookup_optKV, lookup_cons]
theorem lkC_Replay :
    lookup "ReplayChildren" d.toKVs
      = if d.replay_children then some (.bool d.replay_children) else none := by
  simp [ContextDetails.toKVs, lookup_append, lookup_optKV, lookup_cons]
theorem lkC_Error : lookup "Error" d.toKVs = d.error.map ErrorObject.toDict := by
  simp [ContextDetails.toKVs, lookup_append, lookup_optKV, lookup_cons]
end

theorem asBoolD_replay (b : Bool) :
    asBoolD false (if b then some (DV.bool b) else none) = some b := by
  cases b <;> rfl

theorem contextDetails_rt (d : ContextDetails) :
    ContextDetails.fromDict d.toDict = some (imgContext d) := by
  simp only [ContextDetails.fromDict, ContextDetails.toDict, optError, optSub, getBoolD, getStr?,
    lkC_Result, lkC_Replay, lkC_Error, subOf_error, asBoolD_replay, asOptStr_optStrDV,
    Option.bind_eq_bind, Option.bind_some, Option.pure_def, bind, pure]
  simp [imgContext]
theorem contextDetails_truthy (d : ContextDetails) : d.toDict.truthy = true := by
  simp [ContextDetails.toDict, ContextDetails.toKVs, DV.truthy]

section
variable (d : StepDetails)
theorem lkS_Attempt : lookup "Attempt" d.toKVs = some (.int d.attempt) := by
  simp [StepDetails.toKVs, lookup_append, lookup_optKV, lookup_cons]
theorem lkS_Next :
    lookup "NextAttemptTimestamp" d.toKVs = d.next_attempt_timestamp.map .ts := by
  simp [StepDetails.toKVs, lookup_append, lookup_optKV, lookup_cons]
theorem lkS_Result : lookup "Result" d.toKVs = (truthyStr d.result).map .str := by
  simp [StepDetails.toKVs, lookup_append, lookup_optKV, lookup_cons]
theorem lkS_Error : lookup "Error" d.toKVs = d.error.map ErrorObject.toDict := by
  simp [StepDetails.toKVs, lookup_append, lookup_optKV, lookup_cons]
end

theorem stepDetails_rt (d : StepDetails) : StepDetails.fromDict d.toDict = some (imgStep d) := by
  simp only [StepDetails.fromDict, StepDetails.toDict, optError, optSub, getIntD, getTs?, getStr?,
    lkS_Attempt, lkS_Next, lkS_Result, lkS_Error, subOf_error, asIntD_some, asOptTs_map,
    asOptStr_map, Option.bind_eq_bind, Option.bind_some, Option.pure_def, bind, pure]
  simp [imgStep]
theorem stepDetails_truthy (d : StepDetails) : d.toDict.truthy = true := by
  simp [StepDetails.toDict, StepDetails.toKVs, DV.truthy]

theorem waitDetails_rt (d : WaitDetails) : WaitDetails.fromDict d.toDict = some d := by
  simp [WaitDetails.fromDict, WaitDetails.toDict, getTs?, lookup_optKV, asOptTs_map]

theorem subOf_wait (d : Option WaitDetails) :
    subOf WaitDetails.fromDict (d.map WaitDetails.toDict) = some (imgWait d) := by
  cases d with
  | none => rfl
  | some d =>
    obtain ⟨t⟩ := d
    cases t <;>
      simp [subOf, truthyOf, imgWait, WaitDetails.fromDict, WaitDetails.toDict, getTs?, lookup_cons,
        optKV, DV.truthy, asOptTs]

theorem callbackDetails_rt (d : CallbackDetails) :
    CallbackDetails.fromDict d.toDict = some (imgCallback d) := by
  simp only [CallbackDetails.fromDict, CallbackDetails.toDict, optError, optSub, reqStr, getStr?,
    lookup_append, lookup_optKV, lookup_cons]
  simp [subOf_error, asReqStr_some, asOptStr_map, imgCallback]
theorem callbackDetails_truthy (d : CallbackDetails) : d.toDict.truthy = true := by
  simp [CallbackDetails.toDict, DV.truthy]

theorem chainedDetails_rt (d : ChainedInvokeDetails) :
    ChainedInvokeDetails.fromDict d.toDict = some (imgChained d) := by
  simp only [ChainedInvokeDetails.fromDict, ChainedInvokeDetails.toDict, optError, optSub, getStr?,
    lookup_append, lookup_optKV, lookup_cons]
  simp [subOf_error, asOptStr_map, imgChained]

theorem chainedDetails_truthy (d : ChainedInvokeDetails) :
    d.toDict.truthy = !chainedEmpty (some d) := by
  obtain ⟨r, e⟩ := d
  cases h : truthyStr r <;> cases e <;>
    simp [ChainedInvokeDetails.toDict, DV.truthy, chainedEmpty, optKV, h]

theorem subOf_chained (d : Option ChainedInvokeDetails) :
    subOf ChainedInvokeDetails.fromDict (d.map ChainedInvokeDetails.toDict)
      = some (imgChainedOpt d) := by
  cases d with
  | none => rfl
  | some d =>
    have ht := chainedDetails_truthy d
    have hr := chainedDetails_rt d
    obtain ⟨r, e⟩ := d
    cases hr' : truthyStr r <;> cases e <;>
      simp_all [subOf, truthyOf, imgChainedOpt, chainedEmpty]

/-! ## Operation (dict) -/

/-- The exact image of `from_dict ∘ to_dict` on an operation (no hypotheses). -/
def imgOperation (o : Operation) : Operation :=
  { o with parent_id := truthyStr o.parent_id, name := truthyStr o.name,
           context_details := o.context_details.map imgContext,
           step_details := o.step_details.map imgStep,
           wait_details := imgWait o.wait_details,
           callback_details := o.callback_details.map imgCallback,
           chained_invoke_details := imgChainedOpt o.chained_invoke_details }

section
variable (o : Operation)
theorem lkO_Id : lookup "Id" o.toKVs = some (.str o.operation_id) := by
  simp [Operation.toKVs, lookup_append, lookup_optKV, lookup_cons]
theorem lkO_Type : lookup "Type" o.toKVs = some (.str o.operation_type.toStr) := by
  simp [Operation.toKVs, lookup_append, lookup_optKV, lookup_cons]
theorem lkO_Status : lookup "Status" o.toKVs = some (.str o.status.toStr) := by
  simp [Operation.toKVs, lookup_append, lookup_optKV, lookup_cons]
theorem lkO_ParentId : lookup "ParentId" o.toKVs = (truthyStr o.parent_id).map .str := by
  simp [Operation.toKVs, lookup_append, lookup_optKV, lookup_cons]
theorem lkO_Name : lookup "Name" o.toKVs = (truthyStr o.name).map .str := by
  simp [Operation.toKVs, lookup_append, lookup_optKV, lookup_cons]
theorem lkO_Start : lookup "StartTimestamp" o.toKVs = o.start_timestamp.map .ts := by
  simp [Operation.toKVs, lookup_append, lookup_optKV, lookup_cons]
theorem lkO_End : lookup "EndTimestamp" o.toKVs = o.end_timestamp.map .ts := by
  simp [Operation.toKVs, lookup_append, lookup_optKV, lookup_cons]
theorem lkO_SubType : lookup "SubType" o.toKVs = o.sub_type.map (fun s => .str s.toStr) := by
  simp [Operation.toKVs, lookup_append, lookup_optKV, lookup_cons]
theorem lkO_Execution :
    lookup "ExecutionDetails" o.toKVs = o.execution_details.map ExecutionDetails.toDict := by
  simp [Operation.toKVs, lookup_append, lookup_optKV, lookup_cons]
theorem lkO_Context :
    lookup "ContextDetails" o.toKVs = o.context_details.map ContextDetails.toDict := by
  simp [Operation.toKVs, lookup_append, lookup_optKV, lookup_cons]
theorem lkO_Step : lookup "StepDetails" o.toKVs = o.step_details.map StepDetails.toDict := by
  simp [Operation.toKVs, lookup_append, lookup_optKV, lookup_cons]
theorem lkO_Wait : lookup "WaitDetails" o.toKVs = o.wait_details.map WaitDetails.toDict := by
  simp [Operation.toKVs, lookup_append, lookup_optKV, lookup_cons]
theorem lkO_Callback :
    lookup "CallbackDetails" o.toKVs = o.callback_details.map CallbackDetails.toDict := by
  simp [Operation.toKVs, lookup_append, lookup_optKV, lookup_cons]
theorem lkO_Chained :
    lookup "ChainedInvokeDetails" o.toKVs
      = o.chained_invoke_details.map ChainedInvokeDetails.toDict := by
  simp [Operation.toKVs, lookup_append, lookup_optKV, lookup_cons]
end

/-- The keys `Operation.from_dict` reads. -/
def opKeys : List String :=
  ["Id", "Type", "Status", "ParentId", "Name", "StartTimestamp", "EndTimestamp", "SubType",
   "ExecutionDetails", "ContextDetails", "StepDetails", "WaitDetails", "CallbackDetails",
   "ChainedInvokeDetails"]

/-- `Operation.from_dict` depends on the dictionary only through the values of `opKeys`. -/
theorem operation_fromKVs_congr (a b : KVs) (h : ∀ k ∈ opKeys, lookup k a = lookup k b) :
    Operation.fromKVs a = Operation.fromKVs b := by
  simp only [Operation.fromKVs, optSub, reqStr, reqEnum, getStr?, optEnum, getTs?]
  rw [h "Id" (by simp [opKeys]), h "Type" (by simp [opKeys]), h "Status" (by simp [opKeys]),
    h "ParentId" (by simp [opKeys]), h "Name" (by simp [opKeys]),
    h "StartTimestamp" (by simp [opKeys]), h "EndTimestamp" (by simp [opKeys]),
    h "SubType" (by simp [opKeys]), h "ExecutionDetails" (by simp [opKeys]),
    h "ContextDetails" (by simp [opKeys]), h "StepDetails" (by simp [opKeys]),
    h "WaitDetails" (by simp [opKeys]), h "CallbackDetails" (by simp [opKeys]),
    h "ChainedInvokeDetails" (by simp [opKeys])]

theorem operation_kvs_rt (o : Operation) :
    Operation.fromKVs o.toKVs = some (imgOperation o) := by
  simp only [Operation.fromKVs, optSub, reqStr, reqEnum, getStr?, optEnum, getTs?,
    lkO_Id, lkO_Type, lkO_Status, lkO_ParentId, lkO_Name, lkO_Start, lkO_End, lkO_SubType,
    lkO_Execution, lkO_Context, lkO_Step, lkO_Wait, lkO_Callback, lkO_Chained,
    subOf_map _ _ _ executionDetails_truthy executionDetails_rt,
    subOf_map _ _ _ contextDetails_truthy contextDetails_rt,
    subOf_map _ _ _ stepDetails_truthy stepDetails_rt,
    subOf_map _ _ _ callbackDetails_truthy callbackDetails_rt,
    subOf_wait, subOf_chained,
    asReqStr_some, asReqEnum_some, type_rt, status_rt, asOptStr_map, asOptTs_map,
    asOptEnum_subtype,
    Option.bind_eq_bind, Option.bind_some, Option.map_id', Option.pure_def, bind, pure]
  simp [imgOperation]

theorem operation_rt (o : Operation) :
    Operation.fromDict o.toDict = some (imgOperation o) := by
  simp [Operation.fromDict, Operation.toDict, operation_kvs_rt]

/-! ## JSON variant -/

/-- Millisecond truncation of a microsecond timestamp (floor). -/
def truncMs (m : Int) : Int := (m / 1000) * 1000

theorem fromMs_toMs (m : Int) : fromMs (toMs m) = truncMs m := rfl

theorem setKey_ne_nil (k : String) (v : DV) (kvs : KVs) : setKey k v kvs ≠ [] := by
  cases kvs with
  | nil => simp [setKey]
  | cons p t => obtain ⟨k', v'⟩ := p; simp only [setKey]; split <;> simp

/-- Value-level effect of `toMillisField` on the converted key. -/
def tsToMsDV : Option DV → Option DV
  | some (.ts m) => some (.int (toMs m))
  | x => x

theorem truthyOf_eq_some (x : Option DV) (v : DV) :
    truthyOf x = some v ↔ x = some v ∧ v.truthy = true := by
  cases x with
  | none => simp [truthyOf]
  | some w =>
    simp only [truthyOf]
    split <;> rename_i hw
    · constructor
      · intro h; cases h; exact ⟨rfl, hw⟩
      · intro h; cases h.1; rfl
    · constructor
      · intro h; cases h
      · intro h; cases h.1; exact absurd h.2 hw

theorem lookup_toMillisField (k k' : String) (kvs : KVs) :
    lookup k (toMillisField k' kvs)
      = if k' = k then tsToMsDV (lookup k kvs) else lookup k kvs := by
  unfold toMillisField lookupTruthy
  split
  · rename_i m heq
    rw [truthyOf_eq_some] at heq
    by_cases hk : k' = k
    · subst hk; simp [lookup_setKey, heq.1, tsToMsDV]
    · simp [lookup_setKey, hk]
  · rename_i hno
    by_cases hk : k' = k
    · subst hk
      simp only [if_true]
      cases h : lookup k' kvs with
      | none => rfl
      | some v =>
        cases v <;> try rfl
        rename_i m
        exact absurd ((truthyOf_eq_some _ _).2 ⟨h, rfl⟩) (hno m)
    · simp [hk]

/-- Value-level effect of `toMillisNested` on the outer key. -/
def nestToMs (inner : String) : Option DV → Option DV
  | some (.dict sub) => some (.dict (toMillisField inner sub))
  | x => x

theorem lookup_toMillisNested (k outer inner : String) (kvs : KVs) :
    lookup k (toMillisNested outer inner kvs)
      = if outer = k then nestToMs inner (lookup k kvs) else lookup k kvs := by
  unfold toMillisNested lookupTruthy
  split
  · rename_i sub heq
    rw [truthyOf_eq_some] at heq
    split
    · rename_i m heq2
      by_cases hk : outer = k
      · subst hk
        simp [lookup_setKey, heq.1, nestToMs, toMillisField, lookupTruthy, heq2]
      · simp [lookup_setKey, hk]
    · rename_i hno
      by_cases hk : outer = k
      · subst hk
        simp only [if_true, heq.1, nestToMs, toMillisField, lookupTruthy]
      · simp [hk]
  · rename_i hno
    by_cases hk : outer = k
    · subst hk
      simp only [if_true]
      cases h : lookup outer kvs with
      | none => rfl
      | some v =>
        cases v <;> try rfl
        rename_i sub
        by_cases ht : (DV.dict sub).truthy = true
        · exact absurd ((truthyOf_eq_some _ _).2 ⟨h, ht⟩) (hno sub)
        · have : sub = [] := by cases sub <;> simp_all [DV.truthy]
          subst this
          simp [nestToMs, toMillisField, lookupTruthy, truthyOf]
    · simp [hk]

/-- `kvs` with key `k` set to `r` when there is an `r`. -/
def applySet (k : String) (r : Option DV) (kvs : KVs) : KVs :=
  match r with
  | some v => setKey k v kvs
  | none => kvs

theorem lookup_applySet (k k' : String) (r : Option DV) (kvs : KVs) :
    lookup k (applySet k' r kvs) = if k' = k then r.or (lookup k kvs) else lookup k kvs := by
  cases r <;> simp [applySet, lookup_setKey]

/-- Value-level effect of `fromMillisField`: `none` = raises, `some none` = left as is,
`some (some v)` = replaced by `v`. -/
def msConv : Option DV → Option (Option DV)
  | none => some none
  | some v =>
    if v.truthy then
      match v with
      | .int ms => some (some (.ts (fromMs ms)))
      | _ => none
    else some none

theorem fromMillisField_eq (k : String) (kvs : KVs) :
    fromMillisField k kvs = (msConv (lookup k kvs)).map (fun r => applySet k r kvs) := by
  unfold fromMillisField lookupTruthy
  cases h : lookup k kvs with
  | none => simp [truthyOf, msConv, applySet]
  | some v =>
    by_cases ht : v.truthy = true
    · cases v <;> simp_all [truthyOf, msConv, applySet]
    · simp [truthyOf, msConv, applySet, ht]

/-- Value-level effect of `fromMillisNested` on the outer key. -/
def nestConv (inner : String) : Option DV → Option (Option DV)
  | none => some none
  | some v =>
    if v.truthy then
      match v with
      | .dict sub =>
        (msConv (lookup inner sub)).map (fun r => r.map (fun x => DV.dict (setKey inner x sub)))
      | _ => none
    else some none

theorem fromMillisNested_eq (outer inner : String) (kvs : KVs) :
    fromMillisNested outer inner kvs
      = (nestConv inner (lookup outer kvs)).map (fun r => applySet outer r kvs) := by
  unfold fromMillisNested lookupTruthy
  cases h : lookup outer kvs with
  | none => simp [truthyOf, nestConv, applySet]
  | some v =>
    by_cases ht : v.truthy = true
    · cases v <;> try (simp_all [truthyOf, nestConv, applySet]; done)
      rename_i sub
      simp only [truthyOf, ht, if_true, nestConv]
      cases h2 : lookup inner sub with
      | none => simp [truthyOf, msConv, applySet]
      | some w =>
        by_cases hw : w.truthy = true
        · cases w <;> simp_all [truthyOf, msConv, applySet]
        · simp [truthyOf, msConv, applySet, hw]
    · simp [truthyOf, nestConv, applySet, ht]

/-! ### Timestamps through both conversions -/

/-- No timestamp at "epoch millisecond 0" (instants in `[0, 1ms)`), the value `from_json_dict`
fails to convert back. -/
def noEpoch (t : Option Int) : Prop := ∀ m, t = some m → toMs m ≠ 0

theorem tsToMsDV_map (t : Option Int) :
    tsToMsDV (t.map DV.ts) = t.map (fun m => DV.int (toMs m)) := by
  cases t <;> rfl

theorem msConv_ms (t : Option Int) (h : noEpoch t) :
    msConv (t.map (fun m => DV.int (toMs m))) = some (t.map (fun m => DV.ts (truncMs m))) := by
  cases t with
  | none => rfl
  | some m =>
    have := h m rfl
    simp [msConv, DV.truthy, this, fromMs_toMs]

theorem ts_or (t : Option Int) :
    (t.map (fun m => DV.ts (truncMs m))).or (t.map (fun m => DV.int (toMs m)))
      = (t.map truncMs).map DV.ts := by
  cases t <;> rfl

/-- Millisecond truncation of the timestamp of a StepDetails. -/
def truncStep (d : StepDetails) : StepDetails :=
  { d with next_attempt_timestamp := d.next_attempt_timestamp.map truncMs }

/-- Millisecond truncation of the timestamp of a WaitDetails. -/
def truncWait (d : WaitDetails) : WaitDetails :=
  { scheduled_end_timestamp := d.scheduled_end_timestamp.map truncMs }

/-- Millisecond truncation of all four timestamps of an operation. -/
def truncOperation (o : Operation) : Operation :=
  { o with start_timestamp := o.start_timestamp.map truncMs,
           end_timestamp := o.end_timestamp.map truncMs,
           step_details := o.step_details.map truncStep,
           wait_details := o.wait_details.map truncWait }

theorem dict_truthy_cons (p : String × DV) (l : KVs) : (DV.dict (p :: l)).truthy = true := by
  simp [DV.truthy]

theorem dict_truthy_setKey (k : String) (v : DV) (l : KVs) :
    (DV.dict (setKey k v l)).truthy = true := by
  have := setKey_ne_nil k v l
  cases h : setKey k v l with
  | nil => exact absurd h this
  | cons p t => simp [DV.truthy]

theorem stepKVs_truthy (d : StepDetails) : (DV.dict d.toKVs).truthy = true :=
  stepDetails_truthy d

theorem step_nest (sd : Option StepDetails)
    (h : ∀ d, sd = some d → noEpoch d.next_attempt_timestamp) :
    ∃ r, nestConv "NextAttemptTimestamp"
            (nestToMs "NextAttemptTimestamp" (sd.map StepDetails.toDict)) = some r ∧
         r.or (nestToMs "NextAttemptTimestamp" (sd.map StepDetails.toDict))
           = (sd.map truncStep).map StepDetails.toDict := by
  cases sd with
  | none => exact ⟨none, rfl, rfl⟩
  | some d =>
    have hd := h d rfl
    obtain ⟨a, t, r, e⟩ := d
    cases t with
    | none =>
      have h1 : toMillisField "NextAttemptTimestamp" (StepDetails.toKVs ⟨a, none, r, e⟩)
          = StepDetails.toKVs ⟨a, none, r, e⟩ := by
        simp [toMillisField, lookupTruthy, lkS_Next, truthyOf]
      refine ⟨none, ?_, ?_⟩
      · simp only [Option.map_some, StepDetails.toDict, nestToMs, h1, nestConv,
          stepKVs_truthy, if_true]
        simp [lkS_Next, msConv]
      · simp [StepDetails.toDict, nestToMs, h1, truncStep]
    | some m =>
      have hm : toMs m ≠ 0 := hd m rfl
      have h1 : toMillisField "NextAttemptTimestamp" (StepDetails.toKVs ⟨a, some m, r, e⟩)
          = setKey "NextAttemptTimestamp" (.int (toMs m)) (StepDetails.toKVs ⟨a, some m, r, e⟩) := by
        simp [toMillisField, lookupTruthy, lkS_Next, truthyOf, DV.truthy]
      refine ⟨some (.dict (StepDetails.toKVs (truncStep ⟨a, some m, r, e⟩))), ?_, ?_⟩
      · simp only [Option.map_some, StepDetails.toDict, nestToMs, h1, nestConv,
          dict_truthy_setKey, if_true, lookup_setKey, msConv]
        simp [DV.truthy, hm, fromMs_toMs, StepDetails.toKVs, optKV, setKey, truncStep]
      · simp [StepDetails.toDict, truncStep]

theorem wait_nest (wd : Option WaitDetails)
    (h : ∀ d, wd = some d → noEpoch d.scheduled_end_timestamp) :
    ∃ r, nestConv "ScheduledEndTimestamp"
            (nestToMs "ScheduledEndTimestamp" (wd.map WaitDetails.toDict)) = some r ∧
         r.or (nestToMs "ScheduledEndTimestamp" (wd.map WaitDetails.toDict))
           = (wd.map truncWait).map WaitDetails.toDict := by
  cases wd with
  | none => exact ⟨none, rfl, rfl⟩
  | some d =>
    have hd := h d rfl
    obtain ⟨t⟩ := d
    cases t with
    | none =>
      refine ⟨none, ?_, ?_⟩ <;>
        simp [nestConv, nestToMs, WaitDetails.toDict, toMillisField, lookupTruthy,
          truthyOf, DV.truthy, msConv, truncWait, optKV]
    | some m =>
      have hm : toMs m ≠ 0 := hd m rfl
      refine ⟨some (.dict [("ScheduledEndTimestamp", .ts (truncMs m))]), ?_, ?_⟩ <;>
        simp [nestConv, nestToMs, WaitDetails.toDict, toMillisField, lookupTruthy,
          truthyOf, DV.truthy, msConv, truncWait, optKV, lookup_cons, setKey, hm, fromMs_toMs]

/-- No timestamp of the operation is at epoch millisecond 0. -/
def opNoEpoch (o : Operation) : Prop :=
  noEpoch o.start_timestamp ∧ noEpoch o.end_timestamp ∧
  (∀ d, o.step_details = some d → noEpoch d.next_attempt_timestamp) ∧
  (∀ d, o.wait_details = some d → noEpoch d.scheduled_end_timestamp)

theorem operation_unjsonify (o : Operation) (h : opNoEpoch o) :
    ∃ kvs', Operation.unjsonifyKVs (Operation.jsonifyKVs o.toKVs) = some kvs' ∧
      ∀ k ∈ opKeys, lookup k kvs' = lookup k (truncOperation o).toKVs := by
  obtain ⟨hS, hE, hSt, hW⟩ := h
  obtain ⟨rs, hs1, hs2⟩ := step_nest o.step_details hSt
  obtain ⟨rw, hw1, hw2⟩ := wait_nest o.wait_details hW
  refine ⟨applySet "WaitDetails" rw (applySet "StepDetails" rs
      (applySet "EndTimestamp" (o.end_timestamp.map (fun m => DV.ts (truncMs m)))
        (applySet "StartTimestamp" (o.start_timestamp.map (fun m => DV.ts (truncMs m)))
          (Operation.jsonifyKVs o.toKVs)))), ?_, ?_⟩
  · simp [Operation.unjsonifyKVs, fromMillisField_eq, fromMillisNested_eq, lookup_applySet,
      Operation.jsonifyKVs, lookup_toMillisNested, lookup_toMillisField,
      lkO_Start, lkO_End, lkO_Step, lkO_Wait, tsToMsDV_map, msConv_ms _ hS, msConv_ms _ hE,
      hs1, hw1]
  · intro k hk
    simp only [opKeys, List.mem_cons, List.mem_nil_iff, or_false] at hk
    rcases hk with rfl | rfl | rfl | rfl | rfl | rfl | rfl | rfl | rfl | rfl | rfl | rfl | rfl | rfl <;>
      simp [lookup_applySet, Operation.jsonifyKVs, lookup_toMillisNested, lookup_toMillisField,
        lkO_Id, lkO_Type, lkO_Status, lkO_ParentId, lkO_Name, lkO_Start, lkO_End, lkO_SubType,
        lkO_Execution, lkO_Context, lkO_Step, lkO_Wait, lkO_Callback, lkO_Chained,
        tsToMsDV_map, ts_or, hs2, hw2, truncOperation]

theorem operation_json_rt (o : Operation) (h : opNoEpoch o) :
    Operation.fromJsonDict o.toJsonDict = some (imgOperation (truncOperation o)) := by
  obtain ⟨kvs', h1, h2⟩ := operation_unjsonify o h
  have h3 := operation_kvs_rt (truncOperation o)
  simp only [Operation.fromJsonDict, Operation.toJsonDict, h1, Option.bind_some,
    operation_fromKVs_congr _ _ h2, h3]

/-! ### ContextDetails through the JSON round trip, for every operation

`from_json_dict` only rewrites the four timestamp keys, so whenever it yields an Operation at all
(i.e. also without the epoch hypothesis) the ContextDetails is the one of the dict round trip. -/

theorem fromMillisField_lookup_ne (k k0 : String) (kvs kvs' : KVs)
    (h : fromMillisField k kvs = some kvs') (hk : k ≠ k0) : lookup k0 kvs' = lookup k0 kvs := by
  rw [fromMillisField_eq] at h
  cases hm : msConv (lookup k kvs) with
  | none => simp [hm] at h
  | some r =>
    simp [hm] at h
    subst h
    simp [lookup_applySet, hk]

theorem fromMillisNested_lookup_ne (outer inner k0 : String) (kvs kvs' : KVs)
    (h : fromMillisNested outer inner kvs = some kvs') (hk : outer ≠ k0) :
    lookup k0 kvs' = lookup k0 kvs := by
  rw [fromMillisNested_eq] at h
  cases hm : nestConv inner (lookup outer kvs) with
  | none => simp [hm] at h
  | some r =>
    simp [hm] at h
    subst h
    simp [lookup_applySet, hk]

theorem unjsonify_lookup_context (kvs kvs' : KVs) (h : Operation.unjsonifyKVs kvs = some kvs') :
    lookup "ContextDetails" kvs' = lookup "ContextDetails" kvs := by
  simp only [Operation.unjsonifyKVs, Option.bind_eq_bind, Option.bind_eq_some_iff] at h
  obtain ⟨k1, h1, k2, h2, k3, h3, h4⟩ := h
  rw [fromMillisNested_lookup_ne _ _ _ _ _ h4 (by decide),
    fromMillisNested_lookup_ne _ _ _ _ _ h3 (by decide),
    fromMillisField_lookup_ne _ _ _ _ h2 (by decide),
    fromMillisField_lookup_ne _ _ _ _ h1 (by decide)]

theorem jsonify_lookup_context (kvs : KVs) :
    lookup "ContextDetails" (Operation.jsonifyKVs kvs) = lookup "ContextDetails" kvs := by
  simp [Operation.jsonifyKVs, lookup_toMillisNested, lookup_toMillisField]

theorem fromKVs_context (kvs : KVs) (o' : Operation) (h : Operation.fromKVs kvs = some o') :
    optSub kvs "ContextDetails" ContextDetails.fromDict = some o'.context_details := by
  simp only [Operation.fromKVs, Option.bind_eq_bind, Option.bind_eq_some_iff, Option.pure_def,
    Option.some.injEq] at h
  obtain ⟨_, _, _, _, _, _, _, _, c, hc, _, _, _, _, _, _, _, _, _, _, _, _, _, _, _, _, _, _, rfl⟩ := h
  exact hc

theorem operation_json_context (o o' : Operation)
    (h : Operation.fromJsonDict o.toJsonDict = some o') :
    o'.context_details = o.context_details.map imgContext := by
  simp only [Operation.fromJsonDict, Operation.toJsonDict, Option.bind_eq_some_iff] at h
  obtain ⟨kvs', h1, h2⟩ := h
  have h3 := fromKVs_context kvs' o' h2
  simp only [optSub, unjsonify_lookup_context _ _ h1, jsonify_lookup_context, lkO_Context,
    subOf_map _ _ _ contextDetails_truthy contextDetails_rt, Option.some.injEq] at h3
  exact h3.symm

/-! ## InitialExecutionState, invocation input, invocation output -/

theorem allSome_map {α β γ : Type} (f : β → Option γ) (g : α → β) (img : α → γ)
    (l : List α) (h : ∀ a ∈ l, f (g a) = some (img a)) :
    allSome f (l.map g) = some (l.map img) := by
  induction l with
  | nil => rfl
  | cons a t ih =>
    have ha := h a (by simp)
    have ht := ih (fun b hb => h b (by simp [hb]))
    simp [List.map_cons, allSome, ha, ht]

/-- Image of a state. -/
def imgState (s : InitialExecutionState) : InitialExecutionState :=
  { operations := s.operations.map imgOperation, next_marker := s.next_marker }

theorem readOperations_rt (f : DV → Option Operation) (g : Operation → DV)
    (img : Operation → Operation) (ops : List Operation) (rest : KVs)
    (h : ∀ o ∈ ops, f (g o) = some (img o)) :
    readOperations f (("Operations", .list (ops.map g)) :: rest) = some (ops.map img) := by
  cases ops with
  | nil => simp [readOperations, lookupTruthy, lookup_cons, truthyOf, DV.truthy]
  | cons a t =>
    have := allSome_map f g img (a :: t) h
    simp only [readOperations, lookupTruthy, lookup_cons, if_true, truthyOf, List.map_cons,
      DV.truthy, List.isEmpty_cons, Bool.not_false]
    simpa using this

theorem state_rt (s : InitialExecutionState) :
    InitialExecutionState.fromDict s.toDict = some (imgState s) := by
  have := readOperations_rt Operation.fromDict Operation.toDict imgOperation s.operations
    [("NextMarker", .str s.next_marker)] (fun o _ => operation_rt o)
  show (do
    let operations ← readOperations Operation.fromDict
      [("Operations", .list (s.operations.map Operation.toDict)), ("NextMarker", .str s.next_marker)]
    let next_marker ← getStrD
      [("Operations", .list (s.operations.map Operation.toDict)), ("NextMarker", .str s.next_marker)]
      "NextMarker" ""
    pure ({ operations, next_marker } : InitialExecutionState)) = _
  rw [this]
  simp [getStrD, lookup_cons, asStrD_some, imgState]

theorem state_json_rt (s : InitialExecutionState) (h : ∀ o ∈ s.operations, opNoEpoch o) :
    InitialExecutionState.fromJsonDict s.toJsonDict
      = some (imgState { s with operations := s.operations.map truncOperation }) := by
  have := readOperations_rt Operation.fromJsonDict Operation.toJsonDict
    (fun o => imgOperation (truncOperation o)) s.operations
    [("NextMarker", .str s.next_marker)] (fun o ho => operation_json_rt o (h o ho))
  show (do
    let operations ← readOperations Operation.fromJsonDict
      [("Operations", .list (s.operations.map Operation.toJsonDict)),
       ("NextMarker", .str s.next_marker)]
    let next_marker ← getStrD
      [("Operations", .list (s.operations.map Operation.toJsonDict)),
       ("NextMarker", .str s.next_marker)]
      "NextMarker" ""
    pure ({ operations, next_marker } : InitialExecutionState)) = _
  rw [this]
  simp [getStrD, lookup_cons, asStrD_some, imgState]

/-- Image of an invocation input. -/
def imgInput (i : DurableExecutionInvocationInput) : DurableExecutionInvocationInput :=
  { i with initial_execution_state := imgState i.initial_execution_state }

theorem input_rt (i : DurableExecutionInvocationInput) :
    DurableExecutionInvocationInput.fromDict i.toDict = some (imgInput i) := by
  simp only [DurableExecutionInvocationInput.fromDict, DurableExecutionInvocationInput.toDict,
    reqStr, getStateDict]
  simp [lookup_cons, asReqStr_some, state_rt, imgInput]

theorem input_json_rt (i : DurableExecutionInvocationInput)
    (h : ∀ o ∈ i.initial_execution_state.operations, opNoEpoch o) :
    DurableExecutionInvocationInput.fromJsonDict i.toJsonDict
      = some (imgInput { i with initial_execution_state :=
          ({ i.initial_execution_state with
            operations := i.initial_execution_state.operations.map truncOperation }) }) := by
  simp only [DurableExecutionInvocationInput.fromJsonDict,
    DurableExecutionInvocationInput.toJsonDict, reqStr, getStateDict]
  simp [lookup_cons, asReqStr_some, state_json_rt _ h, imgInput]

/-- Image of an invocation output. -/
def imgOutput (o : DurableExecutionInvocationOutput) : DurableExecutionInvocationOutput :=
  { o with error := imgError o.error }

theorem output_rt (o : DurableExecutionInvocationOutput) :
    DurableExecutionInvocationOutput.fromDict o.toDict = some (imgOutput o) := by
  simp only [DurableExecutionInvocationOutput.fromDict, DurableExecutionInvocationOutput.toDict,
    DurableExecutionInvocationOutput.toKVs, reqEnum, optError, optSub, getStr?,
    lookup_append, lookup_optKV, lookup_cons]
  simp [asReqEnum_some, invstatus_rt, subOf_error, asOptStr_map, imgOutput]

end WireProofs
