import DurableModel.Strategy
/-!
# Proofs about the retry / wait strategy model (properties C12, C13 — strategy part)

Everything here is about `DurableModel/Strategy.lean`; the theorems of `Props/C12S.lean` are thin
corollaries.  Core Lean only.
-/
namespace StrategyProofs
open Strategy

/-! ## `ceilDiv` -/

/-- `⌈x / b⌉ ≤ m` as soon as `x ≤ m * b`. -/
theorem ceilDiv_le {x b m : Nat} (hb : 0 < b) (h : x ≤ m * b) : ceilDiv x b ≤ m := by
  unfold ceilDiv
  apply Nat.le_of_lt_succ
  rw [Nat.div_lt_iff_lt_mul hb, Nat.succ_mul]
  omega

/-- `x ≤ ⌈x / b⌉ * b`. -/
theorem le_ceilDiv_mul (x : Nat) {b : Nat} (hb : 0 < b) : x ≤ ceilDiv x b * b := by
  unfold ceilDiv
  have h1 := Nat.div_add_mod (x + b - 1) b
  have h2 := Nat.mod_lt (x + b - 1) hb
  rw [Nat.mul_comm] at h1
  omega

theorem ceilDiv_le_iff {x b m : Nat} (hb : 0 < b) : ceilDiv x b ≤ m ↔ x ≤ m * b :=
  ⟨fun h => Nat.le_trans (le_ceilDiv_mul x hb) (Nat.mul_le_mul_right b h), ceilDiv_le hb⟩

theorem ceilDiv_mono {x y b : Nat} (hb : 0 < b) (h : x ≤ y) : ceilDiv x b ≤ ceilDiv y b :=
  ceilDiv_le hb (Nat.le_trans h (le_ceilDiv_mul y hb))

theorem ceilDiv_one (x : Nat) : ceilDiv x 1 = x := by
  simp [ceilDiv]

/-- Scaling numerator bound and denominator by the same positive factor `k`. -/
theorem ceilDiv_scaled_le {k X B D m : Nat} (hk : 0 < k) (hD : 0 < D) (hX : X ≤ k * B)
    (hB : B ≤ m * D) : ceilDiv X (k * D) ≤ m := by
  apply ceilDiv_le (Nat.mul_pos hk hD)
  calc X ≤ k * B := hX
    _ ≤ k * (m * D) := Nat.mul_le_mul_left k hB
    _ = m * (k * D) := Nat.mul_left_comm k m D

/-- Cancelling a common positive factor `k` (lower bounds). -/
theorem ceilDiv_le_ceilDiv_scaled {k X B D : Nat} (hk : 0 < k) (hD : 0 < D) (hX : B * k ≤ X) :
    ceilDiv B D ≤ ceilDiv X (k * D) := by
  apply ceilDiv_le hD
  have h1 : X ≤ ceilDiv X (k * D) * (k * D) := le_ceilDiv_mul X (Nat.mul_pos hk hD)
  have h2 : B * k ≤ (ceilDiv X (k * D) * D) * k := by
    calc B * k ≤ X := hX
      _ ≤ ceilDiv X (k * D) * (k * D) := h1
      _ = (ceilDiv X (k * D) * D) * k := by rw [Nat.mul_comm k D, Nat.mul_assoc]
  exact Nat.le_of_mul_le_mul_right h2 hk

/-! ## base delay -/

theorem baseDen_pos (c : Cfg) (a : Nat) (hr : 0 < c.rateDen) : 0 < baseDen c a :=
  Nat.pow_pos hr

theorem baseNum_le_max (c : Cfg) (a : Nat) : baseNum c a ≤ c.maxDelay * baseDen c a :=
  Nat.min_le_right _ _

theorem baseNum_le_initial (c : Cfg) (a : Nat) : baseNum c a ≤ c.initial * c.rateNum ^ (a - 1) :=
  Nat.min_le_left _ _

/-- The un-jittered delay in whole seconds. -/
theorem base_le_max (c : Cfg) (a : Nat) (hr : 0 < c.rateDen) :
    ceilDiv (baseNum c a) (baseDen c a) ≤ c.maxDelay :=
  ceilDiv_le (baseDen_pos c a hr) (baseNum_le_max c a)

/-! ## jitter -/

theorem full_num_le {jn jd : Nat} (hj : jn < jd) (B : Nat) : jn * B ≤ jd * B :=
  Nat.mul_le_mul_right B (Nat.le_of_lt hj)

theorem half_num_le {jn jd : Nat} (hj : jn < jd) (B : Nat) : B * jd + jn * B ≤ (2 * jd) * B := by
  have h := full_num_le hj B
  rw [Nat.mul_assoc, Nat.two_mul, Nat.mul_comm B jd]
  omega

/-- Full jitter: `⌈(jn/jd)·base⌉ ≤ m` whenever `base ≤ m`. -/
theorem full_le {c : Cfg} {a jn jd m : Nat} (hr : 0 < c.rateDen) (hj : jn < jd)
    (hB : baseNum c a ≤ m * baseDen c a) :
    ceilDiv (jn * baseNum c a) (jd * baseDen c a) ≤ m :=
  ceilDiv_scaled_le (Nat.lt_of_le_of_lt (Nat.zero_le _) hj) (baseDen_pos c a hr)
    (full_num_le hj _) hB

/-- Half jitter: `⌈base/2 + (jn/jd)·base/2⌉ ≤ m` whenever `base ≤ m`. -/
theorem half_le {c : Cfg} {a jn jd m : Nat} (hr : 0 < c.rateDen) (hj : jn < jd)
    (hB : baseNum c a ≤ m * baseDen c a) :
    ceilDiv (baseNum c a * jd + jn * baseNum c a) (2 * jd * baseDen c a) ≤ m :=
  ceilDiv_scaled_le (Nat.mul_pos (by omega) (Nat.lt_of_le_of_lt (Nat.zero_le _) hj))
    (baseDen_pos c a hr) (half_num_le hj _) hB

/-- Half jitter: at least half of the base delay. -/
theorem half_ge {c : Cfg} {a jn jd : Nat} (hr : 0 < c.rateDen) (hj : jn < jd) :
    ceilDiv (baseNum c a) (2 * baseDen c a) ≤
      ceilDiv (baseNum c a * jd + jn * baseNum c a) (2 * jd * baseDen c a) := by
  have hjd : 0 < jd := Nat.lt_of_le_of_lt (Nat.zero_le _) hj
  have hD := baseDen_pos c a hr
  have e : 2 * jd * baseDen c a = jd * (2 * baseDen c a) := by
    rw [Nat.mul_comm 2 jd, Nat.mul_assoc]
  rw [e]
  exact ceilDiv_le_ceilDiv_scaled hjd (Nat.mul_pos (by omega) hD) (Nat.le_add_right _ _)

/-! ## back-off -/

theorem backoff_step (c : Cfg) (k : Nat) (hge : c.rateDen ≤ c.rateNum) :
    min (c.initial * c.rateNum ^ k) (c.maxDelay * c.rateDen ^ k) * c.rateDen ^ (k + 1) ≤
    min (c.initial * c.rateNum ^ (k + 1)) (c.maxDelay * c.rateDen ^ (k + 1)) * c.rateDen ^ k := by
  have h1 : c.initial * c.rateNum ^ k * c.rateDen ^ (k + 1) ≤
      c.initial * c.rateNum ^ (k + 1) * c.rateDen ^ k := by
    calc c.initial * c.rateNum ^ k * c.rateDen ^ (k + 1)
        = (c.initial * c.rateNum ^ k * c.rateDen ^ k) * c.rateDen := by
          rw [Nat.pow_succ, ← Nat.mul_assoc]
      _ ≤ (c.initial * c.rateNum ^ k * c.rateDen ^ k) * c.rateNum := Nat.mul_le_mul_left _ hge
      _ = c.initial * c.rateNum ^ (k + 1) * c.rateDen ^ k := by
          rw [Nat.pow_succ, Nat.mul_right_comm, Nat.mul_assoc c.initial]
  have h2 : c.maxDelay * c.rateDen ^ k * c.rateDen ^ (k + 1) =
      c.maxDelay * c.rateDen ^ (k + 1) * c.rateDen ^ k := Nat.mul_right_comm _ _ _
  rcases Nat.le_total (c.initial * c.rateNum ^ (k + 1)) (c.maxDelay * c.rateDen ^ (k + 1)) with h | h
  · rw [Nat.min_eq_left h]
    exact Nat.le_trans (Nat.mul_le_mul_right _ (Nat.min_le_left _ _)) h1
  · rw [Nat.min_eq_right h]
    exact Nat.le_trans (Nat.mul_le_mul_right _ (Nat.min_le_right _ _)) (Nat.le_of_eq h2)

end StrategyProofs
