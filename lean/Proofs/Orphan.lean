import DurableModel.Orphan
/-!
Helper lemmas about the orphan-filter model (`DurableModel/Orphan.lean`): correctness of the
breadth-first search, an exact membership description of `step`, and the invariant behind C10.
-/

namespace OrphanProofs
open Orphan

/-! ### The descendant relation -/

/-- `Desc links c x`: `x` is reachable from `c` by at least one `(parent, child)` link. -/
inductive Desc (links : List (Id × Id)) : Id → Id → Prop
  | child {c x : Id} : (c, x) ∈ links → Desc links c x
  | step {c p x : Id} : Desc links c p → (p, x) ∈ links → Desc links c x

theorem Desc.mono {L L' : List (Id × Id)} (h : ∀ e, e ∈ L → e ∈ L') {c x : Id}
    (d : Desc L c x) : Desc L' c x := by
  induction d with
  | child hm => exact .child (h _ hm)
  | step _ hm ih => exact .step ih (h _ hm)

theorem Desc.trans {L : List (Id × Id)} {a b c : Id} (h1 : Desc L a b) (h2 : Desc L b c) :
    Desc L a c := by
  induction h2 with
  | child hm => exact .step h1 hm
  | step _ hm ih => exact .step ih hm

/-- The last link of a descent. -/
theorem Desc.last {L : List (Id × Id)} {c x : Id} (d : Desc L c x) :
    ∃ q, (q, x) ∈ L ∧ (q = c ∨ Desc L c q) := by
  cases d with
  | child hm => exact ⟨c, hm, .inl rfl⟩
  | step d' hm => exact ⟨_, hm, .inr d'⟩

/-! ### Correctness of `reachable` / `descendants` -/

theorem mem_childrenOf {L : List (Id × Id)} {p x : Id} : x ∈ childrenOf L p ↔ (p, x) ∈ L := by
  unfold childrenOf
  constructor
  · intro h
    obtain ⟨e, he, rfl⟩ := List.mem_map.1 h
    obtain ⟨hm, hp⟩ := List.mem_filter.1 he
    have : e.1 = p := by simpa using hp
    cases e; simp_all
  · intro h
    exact List.mem_map.2 ⟨(p, x), List.mem_filter.2 ⟨h, by simp⟩, rfl⟩

theorem mem_expand {L : List (Id × Id)} {S : List Id} {x : Id} :
    x ∈ expand L S ↔ x ∈ S ∨ ∃ p, p ∈ S ∧ (p, x) ∈ L := by
  unfold expand
  rw [List.mem_append]
  constructor
  · rintro (h | h)
    · exact .inl h
    · obtain ⟨e, he, rfl⟩ := List.mem_map.1 h
      obtain ⟨hm, hp⟩ := List.mem_filter.1 he
      exact .inr ⟨e.1, by simpa using hp, hm⟩
  · rintro (h | ⟨p, hp, hm⟩)
    · exact .inl h
    · exact .inr (List.mem_map.2 ⟨(p, x), List.mem_filter.2 ⟨hm, by simpa using hp⟩, rfl⟩)

/-- `S` is closed under taking children. -/
def Closed (L : List (Id × Id)) (S : List Id) : Prop := ∀ p x, (p, x) ∈ L → p ∈ S → x ∈ S

theorem mem_expand_of_closed {L : List (Id × Id)} {S : List Id} (h : Closed L S) (x : Id) :
    x ∈ expand L S ↔ x ∈ S := by
  rw [mem_expand]
  constructor
  · rintro (h' | ⟨p, hp, hm⟩)
    · exact h'
    · exact h p x hm hp
  · exact .inl

theorem closed_congr {L : List (Id × Id)} {S T : List Id} (h : ∀ x, x ∈ T ↔ x ∈ S)
    (hc : Closed L S) : Closed L T :=
  fun p x hm hp => (h x).2 (hc p x hm ((h p).1 hp))

theorem closed_iter {L : List (Id × Id)} : ∀ (n : Nat) (S : List Id), Closed L S →
    Closed L (iter L n S)
  | 0, _, h => h
  | n + 1, S, h => closed_iter n (expand L S) (closed_congr (mem_expand_of_closed h) h)

theorem subset_iter {L : List (Id × Id)} : ∀ (n : Nat) (S : List Id) (x : Id), x ∈ S →
    x ∈ iter L n S
  | 0, _, _, h => h
  | n + 1, S, x, h => subset_iter n (expand L S) x (mem_expand.2 (.inl h))

/-- Number of links whose child is already in `S`: the termination measure of the search. -/
def used (L : List (Id × Id)) (S : List Id) : Nat := L.countP (fun e => S.contains e.2)

theorem used_le (L : List (Id × Id)) (S : List Id) : used L S ≤ L.length := List.countP_le_length

theorem countP_lt {α : Type} {P Q : α → Bool} : ∀ (l : List α), (∀ e, P e = true → Q e = true) →
    (∃ e, e ∈ l ∧ Q e = true ∧ P e = false) → l.countP P < l.countP Q
  | [], _, h => by obtain ⟨e, he, _⟩ := h; cases he
  | a :: l, hPQ, h => by
    obtain ⟨e, he, hq, hp⟩ := h
    have hle : l.countP P ≤ l.countP Q := List.countP_mono_left (fun x _ => hPQ x)
    rw [List.countP_cons, List.countP_cons]
    rcases List.mem_cons.1 he with rfl | hel
    · simp [hq, hp]; omega
    · have := countP_lt l hPQ ⟨e, hel, hq, hp⟩
      cases hpa : P a
      · simp; split <;> omega
      · simp [hPQ a hpa]; omega

theorem used_lt_of_not_closed {L : List (Id × Id)} {S : List Id} (h : ¬ Closed L S) :
    used L S < used L (expand L S) := by
  have : ∃ p x, (p, x) ∈ L ∧ p ∈ S ∧ x ∉ S := by
    apply Classical.byContradiction
    intro hn
    apply h
    intro p x hm hp
    apply Classical.byContradiction
    intro hx
    exact hn ⟨p, x, hm, hp, hx⟩
  obtain ⟨p, x, hm, hp, hx⟩ := this
  apply countP_lt
  · intro e he
    have : e.2 ∈ S := by simpa using he
    simpa using mem_expand.2 (.inl this)
  · refine ⟨(p, x), hm, ?_, ?_⟩
    · simpa using mem_expand.2 (.inr ⟨p, hp, hm⟩)
    · simpa using hx

theorem closed_iter_of_fuel {L : List (Id × Id)} : ∀ (n : Nat) (S : List Id),
    L.length < used L S + n → Closed L (iter L n S)
  | 0, S, h => by have := used_le L S; omega
  | n + 1, S, h => by
    by_cases hc : Closed L S
    · exact closed_iter (n + 1) S hc
    · have := used_lt_of_not_closed hc
      exact closed_iter_of_fuel n (expand L S) (by omega)

theorem iter_sound {L : List (Id × Id)} {c : Id} : ∀ (n : Nat) (S : List Id),
    (∀ x, x ∈ S → Desc L c x) → ∀ x, x ∈ iter L n S → Desc L c x
  | 0, _, h, x, hx => h x hx
  | n + 1, S, h, x, hx => by
    refine iter_sound n (expand L S) ?_ x hx
    intro y hy
    rcases mem_expand.1 hy with h' | ⟨p, hp, hm⟩
    · exact h y h'
    · exact .step (h p hp) hm

/-- The search computes exactly the nodes reachable by at least one link (any finite link list,
cycles included). -/
theorem mem_reachable_iff {L : List (Id × Id)} {c x : Id} : x ∈ reachable L c ↔ Desc L c x := by
  unfold reachable
  constructor
  · exact iter_sound _ _ (fun y hy => .child (mem_childrenOf.1 hy)) x
  · intro d
    have hcl : Closed L (iter L (L.length + 1) (childrenOf L c)) :=
      closed_iter_of_fuel _ _ (by omega)
    induction d with
    | child hm => exact subset_iter _ _ _ (mem_childrenOf.2 hm)
    | step _ hm ih => exact hcl _ _ hm ih

theorem mem_descendants_iff {L : List (Id × Id)} {c x : Id} :
    x ∈ descendants L c ↔ Desc L c x ∧ x ≠ c := by
  unfold descendants
  rw [List.mem_filter, mem_reachable_iff]
  simp

/-! ### Links, well-formedness predicates -/

/-- The parent link announced by an update (state.py:436-441), if any. -/
def linkOf (u : Upd) : List (Id × Id) :=
  match u.parent with
  | some p => [(p, u.id)]
  | none => []

/-- All parent links announced by a sequence of updates (accepted or not). -/
def linksOf (us : List Upd) : List (Id × Id) := us.flatMap linkOf

/-- All parent links the orphan filter knows in state `s`. -/
def links (s : St) : List (Id × Id) := s.recorded ++ s.edges

/-- State of a fresh invocation that loaded operations with the parent links `rec`. -/
def fresh (rec : List (Id × Id)) : St := { edges := [], recorded := rec, done := [], completed := [] }

theorem mem_linkOf {u : Upd} {e : Id × Id} : e ∈ linkOf u ↔ u.parent = some e.1 ∧ e.2 = u.id := by
  unfold linkOf
  cases h : u.parent with
  | none => simp
  | some p =>
    obtain ⟨a, b⟩ := e
    simp only [List.mem_singleton, Prod.mk.injEq, Option.some.injEq]
    constructor
    · rintro ⟨rfl, rfl⟩; exact ⟨rfl, rfl⟩
    · rintro ⟨rfl, rfl⟩; exact ⟨rfl, rfl⟩

theorem linksOf_cons (u : Upd) (us : List Upd) : linksOf (u :: us) = linkOf u ++ linksOf us := by
  simp [linksOf]

/-- *Link before children*: when an update announces a parent link `(p, x)` that is not yet
known, no link `(x, y)` is known yet (an operation gets its parent link no later than its first
child link). -/
def lbcAt (L : List (Id × Id)) (u : Upd) : Bool :=
  match u.parent with
  | none => true
  | some p => L.contains (p, u.id) || L.all (fun e => e.1 != u.id)

/-- *Parent stable*: every parent link known for the update's id (including the one the update
announces itself) names the parent the update carries. -/
def stableAt (L : List (Id × Id)) (u : Upd) : Bool :=
  (L ++ linkOf u).all (fun e => e.2 != u.id || u.parent == some e.1)

/-- Both conditions for every update of a sequence, each relative to the links known when the
update arrives (`L` initially, then extended by the announced links). -/
def wfFrom (L : List (Id × Id)) : List Upd → Bool
  | [] => true
  | u :: us => lbcAt L u && stableAt L u && wfFrom (L ++ linkOf u) us

/-- *Link before children* alone, along a sequence. -/
def lbcFrom (L : List (Id × Id)) : List Upd → Bool
  | [] => true
  | u :: us => lbcAt L u && lbcFrom (L ++ linkOf u) us

/-- *Parent stable* alone, along a sequence. -/
def stableFrom (L : List (Id × Id)) : List Upd → Bool
  | [] => true
  | u :: us => stableAt L u && stableFrom (L ++ linkOf u) us

theorem wfFrom_eq : ∀ (us : List Upd) (L : List (Id × Id)),
    wfFrom L us = (lbcFrom L us && stableFrom L us)
  | [], _ => rfl
  | u :: us, L => by
    simp only [wfFrom, lbcFrom, stableFrom, wfFrom_eq us]
    cases lbcAt L u <;> cases stableAt L u <;> simp

theorem lbcAt_iff {L : List (Id × Id)} {u : Upd} :
    lbcAt L u = true ↔ ∀ p, u.parent = some p → (p, u.id) ∈ L ∨ ∀ y, (u.id, y) ∉ L := by
  unfold lbcAt
  cases h : u.parent with
  | none => simp
  | some p =>
    simp only [Bool.or_eq_true, List.contains_iff_mem, List.all_eq_true, bne_iff_ne, ne_eq,
      Option.some.injEq, forall_eq']
    constructor
    · rintro (h | h)
      · exact .inl h
      · exact .inr (fun y hy => h _ hy rfl)
    · rintro (h | h)
      · exact .inl h
      · refine .inr (fun e he hx => ?_)
        obtain ⟨a, b⟩ := e
        simp only at hx
        subst hx
        exact h b he

theorem stableAt_iff {L : List (Id × Id)} {u : Upd} :
    stableAt L u = true ↔ ∀ p, (p, u.id) ∈ L ++ linkOf u → u.parent = some p := by
  unfold stableAt
  simp only [List.all_eq_true, Bool.or_eq_true, bne_iff_ne, ne_eq, beq_iff_eq]
  constructor
  · intro h p hp
    rcases h _ hp with h' | h'
    · exact absurd rfl h'
    · exact h'
  · intro h e he
    obtain ⟨a, b⟩ := e
    by_cases hb : b = u.id
    · subst hb; exact .inr (h a he)
    · exact .inl hb

/-! ### Exact description of `step` -/

/-- `_parent_done` after `_mark_orphans` (state.py:444-449). -/
def done1 (s : St) (u : Upd) : List Id :=
  if u.isCompletion then s.done ++ descendants ((s.edges ++ linkOf u) ++ s.recorded) u.id else s.done

/-- `_parent_done` after the "first seen after completion" rule (state.py:453-461). -/
def done2 (s : St) (u : Upd) : List Id :=
  match u.parent with
  | some p =>
    if !(done1 s u).contains u.id && ((done1 s u).contains p || s.completed.contains p)
    then done1 s u ++ [u.id] else done1 s u
  | none => done1 s u

theorem step_eq (s : St) (u : Upd) : step s u =
    if (done2 s u).contains u.id then
      ({ edges := s.edges ++ linkOf u, recorded := s.recorded, done := done2 s u,
         completed := s.completed }, false)
    else
      ({ edges := s.edges ++ linkOf u, recorded := s.recorded, done := done2 s u,
         completed := if u.isCompletion then s.completed ++ [u.id] else s.completed }, true) := by
  obtain ⟨i, par, ic, co⟩ := u
  cases par with
  | none => simp [step, done2, done1, linkOf]
  | some p => rfl

theorem step_edges (s : St) (u : Upd) : (step s u).1.edges = s.edges ++ linkOf u := by
  rw [step_eq]; split <;> rfl

theorem step_recorded (s : St) (u : Upd) : (step s u).1.recorded = s.recorded := by
  rw [step_eq]; split <;> rfl

theorem step_done (s : St) (u : Upd) : (step s u).1.done = done2 s u := by
  rw [step_eq]; split <;> rfl

theorem links_step (s : St) (u : Upd) : links (step s u).1 = links s ++ linkOf u := by
  unfold links
  rw [step_edges, step_recorded, List.append_assoc]

theorem step_accepted_iff (s : St) (u : Upd) :
    (step s u).2 = true ↔ u.id ∉ (step s u).1.done := by
  rw [step_done, step_eq]
  split <;> simp_all

theorem step_rejected_iff (s : St) (u : Upd) :
    (step s u).2 = false ↔ u.id ∈ (step s u).1.done := by
  have := step_accepted_iff s u
  cases h : (step s u).2 <;> simp_all

theorem step_completed (s : St) (u : Upd) : (step s u).1.completed =
    if (step s u).2 = true ∧ u.isCompletion = true then s.completed ++ [u.id] else s.completed := by
  rw [step_eq]
  split <;> simp

theorem mem_step_completed (s : St) (u : Upd) (y : Id) :
    y ∈ (step s u).1.completed ↔
      y ∈ s.completed ∨ (y = u.id ∧ u.isCompletion = true ∧ (step s u).2 = true) := by
  rw [step_completed]
  split
  · rename_i h
    simp only [List.mem_append, List.mem_singleton]
    constructor
    · rintro (h' | rfl)
      · exact .inl h'
      · exact .inr ⟨rfl, h.2, h.1⟩
    · rintro (h' | ⟨rfl, _⟩)
      · exact .inl h'
      · exact .inr rfl
  · rename_i h
    constructor
    · exact .inl
    · rintro (h' | ⟨_, h1, h2⟩)
      · exact h'
      · exact absurd ⟨h2, h1⟩ h

theorem mem_step_done (s : St) (u : Upd) (y : Id) :
    y ∈ (step s u).1.done ↔
      y ∈ done1 s u ∨ (y = u.id ∧ ∃ p, u.parent = some p ∧ (p ∈ done1 s u ∨ p ∈ s.completed)) := by
  rw [step_done]
  unfold done2
  cases h : u.parent with
  | none => simp
  | some p =>
    simp only [Option.some.injEq, exists_eq_left']
    split
    · rename_i hc
      simp at hc
      simp only [List.mem_append, List.mem_singleton]
      constructor
      · rintro (h' | rfl)
        · exact .inl h'
        · exact .inr ⟨rfl, hc.2⟩
      · rintro (h' | ⟨rfl, _⟩)
        · exact .inl h'
        · exact .inr rfl
    · rename_i hc
      constructor
      · exact .inl
      · rintro (h' | ⟨rfl, hp⟩)
        · exact h'
        · apply Classical.byContradiction
          intro hn
          apply hc
          simp
          exact ⟨hn, hp⟩

theorem mem_done1 (s : St) (u : Upd) (y : Id) :
    y ∈ done1 s u ↔
      y ∈ s.done ∨ (u.isCompletion = true ∧ Desc (links s ++ linkOf u) u.id y ∧ y ≠ u.id) := by
  have hperm : ∀ e, e ∈ (s.edges ++ linkOf u) ++ s.recorded ↔ e ∈ links s ++ linkOf u := by
    intro e
    simp only [links, List.mem_append]
    constructor
    · rintro ((h | h) | h)
      · exact .inl (.inr h)
      · exact .inr h
      · exact .inl (.inl h)
    · rintro ((h | h) | h)
      · exact .inr h
      · exact .inl (.inl h)
      · exact .inl (.inr h)
  unfold done1
  split
  · rename_i hc
    rw [List.mem_append, mem_descendants_iff]
    constructor
    · rintro (h | ⟨hd, hne⟩)
      · exact .inl h
      · exact .inr ⟨hc, hd.mono (fun e => (hperm e).1), hne⟩
    · rintro (h | ⟨_, hd, hne⟩)
      · exact .inl h
      · exact .inr ⟨hd.mono (fun e => (hperm e).2), hne⟩
  · rename_i hc
    constructor
    · exact .inl
    · rintro (h | ⟨h, _⟩)
      · exact h
      · exact absurd h hc

theorem done_subset_step {s : St} {u : Upd} {y : Id} (h : y ∈ s.done) : y ∈ (step s u).1.done :=
  (mem_step_done s u y).2 (.inl ((mem_done1 s u y).2 (.inl h)))

theorem completed_subset_step {s : St} {u : Upd} {y : Id} (h : y ∈ s.completed) :
    y ∈ (step s u).1.completed :=
  (mem_step_completed s u y).2 (.inl h)

/-- An update whose parent is orphaned or is a completed context is rejected and its id becomes
orphaned (state.py:453-475). -/
theorem rejected_of_parent_dead {s : St} {u : Upd} {p : Id} (hp : u.parent = some p)
    (hd : p ∈ s.done ∨ p ∈ s.completed) :
    (step s u).2 = false ∧ u.id ∈ (step s u).1.done := by
  have : u.id ∈ (step s u).1.done := by
    refine (mem_step_done s u u.id).2 (.inr ⟨rfl, p, hp, ?_⟩)
    rcases hd with h | h
    · exact .inl ((mem_done1 s u p).2 (.inl h))
    · exact .inr h
  exact ⟨(step_rejected_iff s u).2 this, this⟩

/-- An update whose id is already orphaned is rejected. -/
theorem rejected_of_mem_done {s : St} {u : Upd} (h : u.id ∈ s.done) : (step s u).2 = false :=
  (step_rejected_iff s u).2 (done_subset_step h)

/-! ### `runAll` -/

theorem runAll_cons (s : St) (u : Upd) (us : List Upd) :
    runAll s (u :: us) = ((runAll (step s u).1 us).1, (step s u).2 :: (runAll (step s u).1 us).2) :=
  rfl

theorem runAll_append (s : St) (us vs : List Upd) :
    runAll s (us ++ vs) =
      ((runAll (runAll s us).1 vs).1, (runAll s us).2 ++ (runAll (runAll s us).1 vs).2) := by
  induction us generalizing s with
  | nil => rfl
  | cons u us ih => simp only [List.cons_append, runAll_cons, ih, List.cons_append]

theorem runAll_length (s : St) (us : List Upd) : (runAll s us).2.length = us.length := by
  induction us generalizing s with
  | nil => rfl
  | cons u us ih => simp [runAll_cons, ih]

theorem done_subset_runAll {y : Id} : ∀ (us : List Upd) (s : St), y ∈ s.done →
    y ∈ (runAll s us).1.done
  | [], _, h => h
  | u :: us, s, h => done_subset_runAll us (step s u).1 (done_subset_step h)

theorem completed_subset_runAll {y : Id} : ∀ (us : List Upd) (s : St), y ∈ s.completed →
    y ∈ (runAll s us).1.completed
  | [], _, h => h
  | u :: us, s, h => completed_subset_runAll us (step s u).1 (completed_subset_step h)

theorem recorded_runAll : ∀ (us : List Upd) (s : St), (runAll s us).1.recorded = s.recorded
  | [], _ => rfl
  | u :: us, s => by rw [runAll_cons]; simp only; rw [recorded_runAll us, step_recorded]

theorem links_runAll : ∀ (us : List Upd) (s : St), links (runAll s us).1 = links s ++ linksOf us
  | [], s => by simp [runAll, linksOf]
  | u :: us, s => by
    rw [runAll_cons]; simp only
    rw [links_runAll us, links_step, linksOf_cons, List.append_assoc]

/-- Every later update for an orphaned id is rejected. -/
theorem rejected_of_mem_done_runAll {x : Id} : ∀ (us : List Upd) (s : St), x ∈ s.done →
    ∀ (k : Nat) (uk : Upd), us[k]? = some uk → uk.id = x → (runAll s us).2[k]? = some false
  | [], _, _, k, uk, hk, _ => by simp at hk
  | u :: us, s, h, 0, uk, hk, hx => by
    simp only [List.getElem?_cons_zero, Option.some.injEq] at hk
    subst hk
    subst hx
    simp [runAll_cons, rejected_of_mem_done h]
  | u :: us, s, h, k + 1, uk, hk, hx => by
    simp only [List.getElem?_cons_succ] at hk
    rw [runAll_cons]
    simp only [List.getElem?_cons_succ]
    exact rejected_of_mem_done_runAll us _ (done_subset_step h) k uk hk hx

/-! ### The invariant behind C10 -/

/-- Every known child of an orphaned node or of a completed context is orphaned (or is the node
itself, for a self-loop). -/
def Inv (s : St) : Prop :=
  ∀ q y, (q, y) ∈ links s → (q ∈ s.done ∨ q ∈ s.completed) → y ∈ s.done ∨ y = q

theorem inv_fresh (rec : List (Id × Id)) : Inv (fresh rec) := by
  intro q y _ h
  rcases h with h | h <;> simp [fresh] at h

theorem inv_step {s : St} {u : Upd} (hI : Inv s) (hl : lbcAt (links s) u = true)
    (hh : stableAt (links s) u = true) : Inv (step s u).1 := by
  intro q y hm hq
  rw [links_step] at hm
  by_cases hyq : y = q
  · exact .inr hyq
  left
  have hl' := lbcAt_iff.1 hl
  have hh' := stableAt_iff.1 hh
  -- children of nodes that were dead before the step
  have old : (q ∈ s.done ∨ q ∈ s.completed) → y ∈ (step s u).1.done := by
    intro hdead
    rcases List.mem_append.1 hm with hmL | hmU
    · rcases hI q y hmL hdead with h | h
      · exact done_subset_step h
      · exact absurd h hyq
    · obtain ⟨hpar, hy⟩ := mem_linkOf.1 hmU
      simp only at hpar hy
      subst hy
      exact (rejected_of_parent_dead hpar hdead).2
  -- children of the update's own id, when that id was dead before the step
  have oldSelf : (u.id ∈ s.done ∨ u.id ∈ s.completed) → q = u.id → y ∈ (step s u).1.done := by
    intro hdead hq'
    subst hq'
    exact old hdead
  rcases hq with hq | hq
  · rcases (mem_step_done s u q).1 hq with hq1 | ⟨hqx, p, hp, hpd⟩
    · rcases (mem_done1 s u q).1 hq1 with hq0 | ⟨hc, hd, hne⟩
      · exact old (.inl hq0)
      · -- q was marked by the search started at `u.id`
        have hdy : Desc (links s ++ linkOf u) u.id y := .step hd hm
        by_cases hyx : y = u.id
        · subst hyx
          exact (mem_step_done s u _).2 (.inr ⟨rfl, q, hh' q hm, .inl hq1⟩)
        · exact (mem_step_done s u y).2 (.inl ((mem_done1 s u y).2 (.inr ⟨hc, hdy, hyx⟩)))
    · -- q = u.id, newly orphaned because its parent `p` is dead
      subst hqx
      have hmL : (u.id, y) ∈ links s := by
        rcases List.mem_append.1 hm with h | h
        · exact h
        · exact absurd (mem_linkOf.1 h).2 hyq
      have hpx : (p, u.id) ∈ links s := by
        rcases hl' p hp with h | h
        · exact h
        · exact absurd hmL (h y)
      have pOld : (p ∈ s.done ∨ p ∈ s.completed) → y ∈ (step s u).1.done := by
        intro hdead
        rcases hI p u.id hpx hdead with h | h
        · exact oldSelf (.inl h) rfl
        · exact oldSelf (h ▸ hdead) rfl
      rcases hpd with hpd | hpd
      · rcases (mem_done1 s u p).1 hpd with h0 | ⟨hc, _, _⟩
        · exact pOld (.inl h0)
        · exact (mem_step_done s u y).2
            (.inl ((mem_done1 s u y).2 (.inr ⟨hc, .child hm, hyq⟩)))
      · exact pOld (.inr hpd)
  · rcases (mem_step_completed s u q).1 hq with hq0 | ⟨hqx, hc, _⟩
    · exact old (.inr hq0)
    · subst hqx
      exact (mem_step_done s u y).2 (.inl ((mem_done1 s u y).2 (.inr ⟨hc, .child hm, hyq⟩)))

/-- Under the invariant, everything below a dead node is orphaned (except possibly the node
itself, on a cycle). -/
theorem desc_dead {s : St} (hI : Inv s) {c x : Id} (hc : c ∈ s.done ∨ c ∈ s.completed)
    (d : Desc (links s) c x) : x ∈ s.done ∨ x = c := by
  induction d with
  | child hm => exact hI _ _ hm hc
  | step _ hm ih =>
    rename_i p x' _
    have hp : p ∈ s.done ∨ p ∈ s.completed := by
      rcases ih with h | h
      · exact .inl h
      · exact h ▸ hc
    rcases hI _ _ hm hp with h | h
    · exact .inl h
    · exact h ▸ ih

/-- An accepted update is not below any context that completed earlier. -/
theorem accepted_not_desc {s : St} {u : Upd} {c : Id} (hI : Inv s)
    (hl : lbcAt (links s) u = true) (hh : stableAt (links s) u = true)
    (hc : c ∈ s.completed) (hacc : (step s u).2 = true) :
    ¬ Desc (links s ++ linkOf u) c u.id := by
  intro d
  have hI' := inv_step hI hl hh
  have hx := (step_accepted_iff s u).1 hacc
  rw [← links_step] at d
  have hc' : c ∈ (step s u).1.completed := completed_subset_step hc
  rcases desc_dead hI' (.inr hc') d with h | h
  · exact hx h
  · obtain ⟨q, hq, hqc⟩ := d.last
    rw [links_step] at hq
    have hpar : u.parent = some q := stableAt_iff.1 hh q hq
    have hqdead : q ∈ s.done ∨ q ∈ s.completed ∨ q ∈ (step s u).1.done := by
      rcases hqc with rfl | hd
      · exact .inr (.inl hc)
      · rcases desc_dead hI' (.inr hc') hd with h' | rfl
        · exact .inr (.inr h')
        · exact .inr (.inl hc)
    apply hx
    rcases hqdead with h0 | h0 | h0
    · exact (rejected_of_parent_dead hpar (.inl h0)).2
    · exact (rejected_of_parent_dead hpar (.inr h0)).2
    · rcases (mem_step_done s u q).1 h0 with h1 | ⟨hqx, _⟩
      · exact (mem_step_done s u _).2 (.inr ⟨rfl, q, hpar, .inl h1⟩)
      · exact hqx ▸ h0

theorem accepted_after_completed {c : Id} : ∀ (us : List Upd) (s : St), Inv s →
    wfFrom (links s) us = true → c ∈ s.completed →
    ∀ (k : Nat) (uk : Upd), us[k]? = some uk → (runAll s us).2[k]? = some true →
      ¬ Desc (links s ++ linksOf (us.take (k + 1))) c uk.id
  | [], _, _, _, _, k, uk, hk, _ => by simp at hk
  | u :: us, s, hI, hwf, hc, 0, uk, hk, hacc => by
    simp only [wfFrom, Bool.and_eq_true] at hwf
    simp only [List.getElem?_cons_zero, Option.some.injEq] at hk
    subst hk
    simp only [runAll_cons, List.getElem?_cons_zero, Option.some.injEq] at hacc
    simpa [linksOf] using accepted_not_desc hI hwf.1.1 hwf.1.2 hc hacc
  | u :: us, s, hI, hwf, hc, k + 1, uk, hk, hacc => by
    simp only [wfFrom, Bool.and_eq_true] at hwf
    simp only [List.getElem?_cons_succ] at hk
    simp only [runAll_cons, List.getElem?_cons_succ] at hacc
    have hwf' : wfFrom (links (step s u).1) us = true := by rw [links_step]; exact hwf.2
    have := accepted_after_completed us (step s u).1 (inv_step hI hwf.1.1 hwf.1.2) hwf'
      (completed_subset_step hc) k uk hk hacc
    rw [links_step, List.append_assoc] at this
    simpa [List.take_succ_cons, linksOf_cons] using this

/-- The invariant form of C10: from any state satisfying the invariant, along any well-formed
sequence, nothing below an accepted completion is accepted afterwards. -/
theorem nothing_after_completion_from : ∀ (us : List Upd) (s : St), Inv s →
    wfFrom (links s) us = true →
    ∀ (j k : Nat) (uj uk : Upd), j < k → us[j]? = some uj → uj.isCompletion = true →
      (runAll s us).2[j]? = some true → us[k]? = some uk → (runAll s us).2[k]? = some true →
      ¬ Desc (links s ++ linksOf (us.take (k + 1))) uj.id uk.id
  | [], _, _, _, j, _, uj, _, _, hj, _, _, _, _ => by simp at hj
  | u :: us, s, hI, hwf, _, 0, uj, uk, hjk, _, _, _, _, _ => by omega
  | u :: us, s, hI, hwf, 0, k + 1, uj, uk, _, hj, hcomp, hjacc, hk, hkacc => by
    simp only [wfFrom, Bool.and_eq_true] at hwf
    simp only [List.getElem?_cons_zero, Option.some.injEq] at hj
    subst hj
    simp only [runAll_cons, List.getElem?_cons_zero, Option.some.injEq] at hjacc
    simp only [List.getElem?_cons_succ] at hk
    simp only [runAll_cons, List.getElem?_cons_succ] at hkacc
    have hwf' : wfFrom (links (step s u).1) us = true := by rw [links_step]; exact hwf.2
    have hc : u.id ∈ (step s u).1.completed :=
      (mem_step_completed s u _).2 (.inr ⟨rfl, hcomp, hjacc⟩)
    have := accepted_after_completed us (step s u).1 (inv_step hI hwf.1.1 hwf.1.2) hwf' hc
      k uk hk hkacc
    rw [links_step, List.append_assoc] at this
    simpa [List.take_succ_cons, linksOf_cons] using this
  | u :: us, s, hI, hwf, j + 1, k + 1, uj, uk, hjk, hj, hcomp, hjacc, hk, hkacc => by
    simp only [wfFrom, Bool.and_eq_true] at hwf
    simp only [List.getElem?_cons_succ] at hj hk
    simp only [runAll_cons, List.getElem?_cons_succ] at hjacc hkacc
    have hwf' : wfFrom (links (step s u).1) us = true := by rw [links_step]; exact hwf.2
    have := nothing_after_completion_from us (step s u).1 (inv_step hI hwf.1.1 hwf.1.2) hwf'
      j k uj uk (by omega) hj hcomp hjacc hk hkacc
    rw [links_step, List.append_assoc] at this
    simpa [List.take_succ_cons, linksOf_cons] using this

/-! ### Natural global conditions imply the step-wise well-formedness -/

/-- `x` occurs in a recorded link, as parent or as child. -/
def occursIn (L : List (Id × Id)) (x : Id) : Bool := L.any (fun e => e.1 == x || e.2 == x)

/-- Parent-first: the parent of every update is the id of an earlier update (`seen`) or occurs in
the recorded links. -/
def parentFirstFrom (rec : List (Id × Id)) : List Id → List Upd → Bool
  | _, [] => true
  | seen, u :: us =>
    (match u.parent with
     | none => true
     | some p => seen.contains p || occursIn rec p) && parentFirstFrom rec (u.id :: seen) us

/-- Parent-first for a whole sequence. -/
def parentFirst (rec : List (Id × Id)) (us : List Upd) : Bool := parentFirstFrom rec [] us

/-- Every update names the one parent that any link (recorded or announced anywhere in the
sequence) gives for its id; in particular each updated id has at most one parent. -/
def consistent (rec : List (Id × Id)) (us : List Upd) : Bool :=
  us.all (fun u => (rec ++ linksOf us).all (fun e => e.2 != u.id || u.parent == some e.1))

/-- An updated id that occurs in `recorded` as a parent and carries a parent itself has that
parent link recorded as well (the loaded operations are closed under "parent of"). -/
def recordedRooted (rec : List (Id × Id)) (us : List Upd) : Bool := us.all (lbcAt rec)

theorem consistent_iff {rec : List (Id × Id)} {us : List Upd} :
    consistent rec us = true ↔
      ∀ u, u ∈ us → ∀ p, (p, u.id) ∈ rec ++ linksOf us → u.parent = some p := by
  unfold consistent
  simp only [List.all_eq_true, Bool.or_eq_true, bne_iff_ne, ne_eq, beq_iff_eq]
  constructor
  · intro h u hu p hp
    rcases h u hu _ hp with h' | h'
    · exact absurd rfl h'
    · exact h'
  · intro h u hu e he
    obtain ⟨a, b⟩ := e
    by_cases hb : b = u.id
    · subst hb; exact .inr (h u hu a he)
    · exact .inl hb

theorem mem_linksOf {us : List Upd} {e : Id × Id} : e ∈ linksOf us ↔ ∃ u, u ∈ us ∧ e ∈ linkOf u :=
  List.mem_flatMap

theorem linksOf_append (a b : List Upd) : linksOf (a ++ b) = linksOf a ++ linksOf b :=
  List.flatMap_append

theorem self_link_mem {u : Upd} {p : Id} (h : u.parent = some p) : (p, u.id) ∈ linkOf u :=
  mem_linkOf.2 ⟨h, rfl⟩

theorem wfFrom_of_natural (rec : List (Id × Id)) : ∀ (suf pre : List Upd) (seen : List Id),
    (∀ u, u ∈ pre ++ suf → ∀ p, (p, u.id) ∈ rec ++ linksOf (pre ++ suf) → u.parent = some p) →
    (∀ u, u ∈ suf → lbcAt rec u = true) →
    (∀ x, x ∈ seen ↔ ∃ w, w ∈ pre ∧ w.id = x) →
    (∀ v, v ∈ pre → ∀ x, v.parent = some x → x ∈ seen ∨ occursIn rec x = true) →
    parentFirstFrom rec seen suf = true →
    wfFrom (rec ++ linksOf pre) suf = true
  | [], _, _, _, _, _, _, _ => rfl
  | u :: suf, pre, seen, hcons, hroot, hseen, hknown, hpf => by
    simp only [parentFirstFrom, Bool.and_eq_true] at hpf
    have hu : u ∈ pre ++ u :: suf := List.mem_append.2 (.inr (List.mem_cons_self ..))
    have hsplit : pre ++ u :: suf = (pre ++ [u]) ++ suf := by simp
    have hL : rec ++ linksOf pre ++ linkOf u = rec ++ linksOf (pre ++ [u]) := by
      rw [linksOf_append, List.append_assoc]; simp [linksOf]
    simp only [wfFrom, Bool.and_eq_true]
    refine ⟨⟨?_, ?_⟩, ?_⟩
    · -- link before children
      rw [lbcAt_iff]
      intro p hp
      have hrootu := lbcAt_iff.1 (hroot u (List.mem_cons_self ..)) p hp
      have hself : (p, u.id) ∈ rec ++ linksOf (pre ++ u :: suf) :=
        List.mem_append.2 (.inr (mem_linksOf.2 ⟨u, hu, self_link_mem hp⟩))
      apply Classical.byContradiction
      intro hn
      have hn1 : (p, u.id) ∉ rec ++ linksOf pre := fun h => hn (.inl h)
      have : ∃ y, (u.id, y) ∈ rec ++ linksOf pre := by
        apply Classical.byContradiction
        intro hne
        exact hn (.inr (fun y hy => hne ⟨y, hy⟩))
      obtain ⟨y, hy⟩ := this
      -- a recorded link with parent `u.id` forces the recorded parent link
      have fromRecParent : ∀ b, (u.id, b) ∈ rec → False := by
        intro b hb
        rcases hrootu with h | h
        · exact hn1 (List.mem_append.2 (.inl h))
        · exact h b hb
      rcases List.mem_append.1 hy with hy | hy
      · exact fromRecParent y hy
      · obtain ⟨v, hv, hvl⟩ := mem_linksOf.1 hy
        have hvp : v.parent = some u.id := (mem_linkOf.1 hvl).1
        rcases hknown v hv u.id hvp with hs | ho
        · obtain ⟨w, hw, hwid⟩ := (hseen u.id).1 hs
          have hwp : w.parent = some p :=
            hcons w (List.mem_append.2 (.inl hw)) p (hwid ▸ hself)
          have : (p, w.id) ∈ linksOf pre := mem_linksOf.2 ⟨w, hw, self_link_mem hwp⟩
          exact hn1 (List.mem_append.2 (.inr (hwid ▸ this)))
        · unfold occursIn at ho
          obtain ⟨e, he, hex⟩ := List.any_eq_true.1 ho
          obtain ⟨a, b⟩ := e
          simp only [Bool.or_eq_true, beq_iff_eq] at hex
          rcases hex with rfl | rfl
          · exact fromRecParent b he
          · have hap : u.parent = some a :=
              hcons u hu a (List.mem_append.2 (.inl he))
            have : a = p := by rw [hp] at hap; exact (Option.some.inj hap).symm
            exact hn1 (List.mem_append.2 (.inl (this ▸ he)))
    · -- parent stable
      rw [stableAt_iff]
      intro q hq
      apply hcons u hu q
      rw [hL] at hq
      rw [hsplit, linksOf_append]
      rcases List.mem_append.1 hq with h | h
      · exact List.mem_append.2 (.inl h)
      · exact List.mem_append.2 (.inr (List.mem_append.2 (.inl h)))
    · rw [hL]
      apply wfFrom_of_natural rec suf (pre ++ [u]) (u.id :: seen)
      · rw [← hsplit]; exact hcons
      · exact fun v hv => hroot v (List.mem_cons_of_mem _ hv)
      · intro x
        constructor
        · intro hx
          rcases List.mem_cons.1 hx with rfl | h
          · exact ⟨u, List.mem_append.2 (.inr (List.mem_singleton.2 rfl)), rfl⟩
          · obtain ⟨w, hw, hwx⟩ := (hseen x).1 h
            exact ⟨w, List.mem_append.2 (.inl hw), hwx⟩
        · rintro ⟨w, hw, hwx⟩
          rcases List.mem_append.1 hw with hw | hw
          · exact List.mem_cons_of_mem _ ((hseen x).2 ⟨w, hw, hwx⟩)
          · have : w = u := List.mem_singleton.1 hw
            subst this
            exact hwx ▸ List.mem_cons_self ..
      · intro v hv x hvx
        rcases List.mem_append.1 hv with hv | hv
        · rcases hknown v hv x hvx with h | h
          · exact .inl (List.mem_cons_of_mem _ h)
          · exact .inr h
        · have : v = u := by simpa using hv
          subst this
          have := hpf.1
          rw [hvx] at this
          simp only [Bool.or_eq_true, List.contains_iff_mem] at this
          rcases this with h | h
          · exact .inl (List.mem_cons_of_mem _ h)
          · exact .inr h
      · exact hpf.2

/-- Parent-first, globally consistent, parent-closed recorded links: the step-wise conditions
hold. -/
theorem wfFrom_of_parentFirst {rec : List (Id × Id)} {us : List Upd}
    (hpf : parentFirst rec us = true) (hcons : consistent rec us = true)
    (hroot : recordedRooted rec us = true) : wfFrom rec us = true := by
  have := wfFrom_of_natural rec us [] [] (by simpa using consistent_iff.1 hcons)
    (by simpa [recordedRooted, List.all_eq_true] using hroot) (by simp) (by simp) hpf
  simpa [linksOf] using this

end OrphanProofs
