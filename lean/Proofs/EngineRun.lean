import DurableModel.EngineSpec
/-!
# Helper lemmas and invariants for the replay engine (`Engine.run`)

* `lookup` / `upsert` / `Backend.apply` algebra,
* characterisation of `checkpoint`,
* a generic induction principle for `run` (`run_ind`): an invariant `I` on states and a
  post-condition `Q` on (end, state) pairs established handler by handler,
* the per-handler frame lemmas (`Frame`), the write-ahead invariant (`WAL`), …
-/
set_option linter.unusedSimpArgs false

namespace EngineRun
open Engine

/-! ## lookup / upsert -/

theorem lookup_nil (p : Pos) : lookup [] p = none := rfl

theorem lookup_cons (e : Pos × OpRec) (t : Tbl) (p : Pos) :
    lookup (e :: t) p = if e.1 = p then some e.2 else lookup t p := by
  unfold lookup
  by_cases h : e.1 = p <;> simp [h]

theorem lookup_append_single_of_any_false (t : Tbl) (p q : Pos) (r : OpRec)
    (h : t.any (fun e => e.1 == p) = false) :
    lookup (t ++ [(p, r)]) q = if p = q then some r else lookup t q := by
  induction t with
  | nil => simp [lookup_cons, lookup_nil]
  | cons e t ih =>
    simp only [List.any_cons, Bool.or_eq_false_iff, beq_eq_false_iff_ne, ne_eq] at h
    simp only [List.cons_append, lookup_cons, ih h.2]
    by_cases h1 : e.1 = q
    · by_cases h2 : p = q
      · exact absurd (h1.trans h2.symm) h.1
      · simp [h1, h2]
    · simp [h1]

theorem any_eq_lookup_isSome (t : Tbl) (p : Pos) :
    t.any (fun e => e.1 == p) = (lookup t p).isSome := by
  induction t with
  | nil => rfl
  | cons e t ih =>
    rw [List.any_cons, ih, lookup_cons]
    by_cases h : e.1 = p <;> simp [h]

theorem lookup_map_upd (t : Tbl) (p q : Pos) (r : OpRec) :
    lookup (t.map (fun e => if e.1 == p then (p, r) else e)) q
      = if p = q then (lookup t p).map (fun _ => r) else lookup t q := by
  induction t with
  | nil => simp [lookup_nil]
  | cons e t ih =>
    rw [List.map_cons, lookup_cons, ih, lookup_cons, lookup_cons]
    by_cases h1 : e.1 = p
    · subst h1
      by_cases h2 : e.1 = q <;> simp [h2]
    · by_cases h2 : p = q
      · subst h2
        simp [h1]
      · simp [h1, h2]

theorem lookup_upsert (t : Tbl) (p q : Pos) (r : OpRec) :
    lookup (upsert t p r) q = if p = q then some r else lookup t q := by
  unfold upsert
  rw [any_eq_lookup_isSome]
  cases h : lookup t p with
  | some r0 =>
    simp only [Option.isSome_some, if_true]
    rw [lookup_map_upd, h]; rfl
  | none =>
    simp only [Option.isSome_none, Bool.false_eq_true, if_false]
    apply lookup_append_single_of_any_false
    rw [any_eq_lookup_isSome, h]; rfl

theorem lookup_upsert_self (t : Tbl) (p : Pos) (r : OpRec) : lookup (upsert t p r) p = some r := by
  simp [lookup_upsert]

theorem lookup_upsert_ne (t : Tbl) (p q : Pos) (r : OpRec) (h : p ≠ q) :
    lookup (upsert t p r) q = lookup t q := by
  simp [lookup_upsert, h]

/-! ## Backend.apply -/

/-- The record `Backend.apply` writes at `u.pos` (when it accepts), as a function of the record
found there. -/
def newRec (o : Option OpRec) (u : Upd) (imm : Backend.Immediate) : Option OpRec :=
  match o, u.action with
  | none, .start => some (Backend.startRec u.kind imm)
  | some r, .start =>
    if (r.kind == .step || r.kind == .wfc) && r.status == .ready && r.kind == u.kind
    then some { r with status := .started } else none
  | some r, .succeed =>
    if r.kind == u.kind && (r.status == .started || ((r.kind == .step || r.kind == .wfc) && r.status == .ready))
       && (r.kind == .step || r.kind == .wfc || r.kind == .context)
    then some { r with status := .succeeded, result := u.payload, error := none,
                       replayChildren := u.replayChildren } else none
  | some r, .fail =>
    if r.kind == u.kind && (r.status == .started || ((r.kind == .step || r.kind == .wfc) && r.status == .ready))
       && (r.kind == .step || r.kind == .wfc || r.kind == .context)
    then some { r with status := .failed, error := u.error } else none
  | some r, .retry =>
    if r.kind == u.kind && (r.kind == .step || r.kind == .wfc) && (r.status == .started || r.status == .ready)
    then some { r with status := .pending, attempt := r.attempt + 1,
                       result := (if u.payload.isSome then u.payload else r.result),
                       error := u.error } else none
  | none, _ => none

theorem apply_eq (t : Tbl) (u : Upd) (imm : Backend.Immediate) :
    Backend.apply t u imm =
      if !Backend.parentOk t u.pos then none else (newRec (lookup t u.pos) u imm).map (upsert t u.pos) := by
  cases hl : lookup t u.pos <;> cases ha : u.action <;>
    simp only [Backend.apply, newRec, hl, ha] <;> split <;> (try split) <;> simp

theorem apply_some {t t' : Tbl} {u : Upd} {imm : Backend.Immediate} (h : Backend.apply t u imm = some t') :
    ∃ r', newRec (lookup t u.pos) u imm = some r' ∧ t' = upsert t u.pos r' := by
  rw [apply_eq] at h
  split at h
  · cases h
  · cases h2 : newRec (lookup t u.pos) u imm with
    | none => rw [h2] at h; cases h
    | some r' => rw [h2] at h; exact ⟨r', rfl, by simpa using h.symm⟩

theorem newRec_terminal {r : OpRec} {u : Upd} {imm : Backend.Immediate} (ht : r.status.terminal = true) :
    newRec (some r) u imm = none := by
  unfold newRec
  cases ha : u.action <;> cases hs : r.status <;> simp_all [Status.terminal]

theorem newRec_kind {o : Option OpRec} {u : Upd} {imm : Backend.Immediate} {r' : OpRec}
    (h : newRec o u imm = some r') : r'.kind = u.kind := by
  unfold newRec at h
  split at h
  · cases h; unfold Backend.startRec; split <;> rfl
  all_goals (try split at h)
  all_goals (first | (cases h; done) | (cases h; simp_all))

theorem apply_lookup_ne {t t' : Tbl} {u : Upd} {imm : Backend.Immediate} {q : Pos}
    (h : Backend.apply t u imm = some t') (hq : u.pos ≠ q) : lookup t' q = lookup t q := by
  obtain ⟨r', _, rfl⟩ := apply_some h
  exact lookup_upsert_ne _ _ _ _ hq

theorem apply_lookup_self {t t' : Tbl} {u : Upd} {imm : Backend.Immediate}
    (h : Backend.apply t u imm = some t') :
    ∃ r', newRec (lookup t u.pos) u imm = some r' ∧ lookup t' u.pos = some r' := by
  obtain ⟨r', h1, rfl⟩ := apply_some h
  exact ⟨r', h1, lookup_upsert_self _ _ _⟩

/-- **The backend never modifies a terminal record.** -/
theorem apply_terminal {t t' : Tbl} {u : Upd} {imm : Backend.Immediate} {q : Pos} {r : OpRec}
    (h : Backend.apply t u imm = some t') (hl : lookup t q = some r) (ht : r.status.terminal = true) :
    lookup t' q = some r := by
  by_cases hq : u.pos = q
  · obtain ⟨r', h1, _⟩ := apply_some h
    rw [hq, hl, newRec_terminal ht] at h1
    cases h1
  · rw [apply_lookup_ne h hq, hl]

/-! ## Post-conditions -/

/-- Post-condition of a handler: `I` on the state handed to the continuation, `Q` on an early end. -/
def Post (I : St → Prop) (Q : End → St → Prop) : HRes → Prop
  | .deliver _ s => I s
  | .stop e s => Q e s

def PostE (I : St → Prop) (Q : End → St → Prop) : Except (End × St) St → Prop
  | .ok s => I s
  | .error (e, s) => Q e s

def PostC (I : St → Prop) (Q : End → St → Prop) : HRes ⊕ (St × Bool) → Prop
  | .inl h => Post I Q h
  | .inr (s, _) => I s

@[simp] theorem Post_deliver {I Q o s} : Post I Q (.deliver o s) = I s := rfl
@[simp] theorem Post_stop {I Q e s} : Post I Q (.stop e s) = Q e s := rfl
@[simp] theorem PostE_ok {I Q s} : PostE I Q (.ok s) = I s := rfl
@[simp] theorem PostE_error {I Q e s} : PostE I Q (.error (e, s)) = Q e s := rfl
@[simp] theorem PostC_inl {I Q h} : PostC I Q (.inl h) = Post I Q h := rfl
@[simp] theorem PostC_inr {I Q s b} : PostC I Q (.inr (s, b)) = I s := rfl

/-! ## checkpoint -/

/-- The successful outcomes of `checkpoint s u`. -/
inductive CkOk (s : St) (u : Upd) : St → Prop
  | asyncApplied (t : Tbl) (hs : u.sync = false) (ha : Backend.apply s.tbl u (s.imm u.pos) = some t) :
      CkOk s u { s with tbl := t, pending := s.pending ++ [u], trace := s.trace ++ [.upd u] ++ [.applied u] }
  | asyncRejected (hs : u.sync = false) (ha : Backend.apply s.tbl u (s.imm u.pos) = none) :
      CkOk s u { s with pending := s.pending ++ [u], trace := s.trace ++ [.upd u] ++ [.rejected u] }
  | syncApplied (t : Tbl) (hs : u.sync = true) (hf : s.failAt ≠ some s.syncCalls)
      (ha : Backend.apply s.tbl u (s.imm u.pos) = some t) :
      CkOk s u { s with tbl := t, syncTbl := t, pending := [], syncCalls := s.syncCalls + 1,
                        budget := s.budget - 1 - 1, trace := s.trace ++ [.upd u] ++ [.applied u] }

/-- The failing outcomes of `checkpoint s u` (all of them on synchronous updates). -/
inductive CkErr (s : St) (u : Upd) : End → St → Prop
  | crashBefore (hs : u.sync = true) : CkErr s u .crashed { s with trace := s.trace ++ [.upd u] }
  | fault (hs : u.sync = true) (hf : s.failAt = some s.syncCalls) :
      CkErr s u .ckptFailed { s with trace := s.trace ++ [.upd u], budget := s.budget - 1,
                                     syncCalls := s.syncCalls + 1 }
  | rejected (hs : u.sync = true) (hf : s.failAt ≠ some s.syncCalls)
      (ha : Backend.apply s.tbl u (s.imm u.pos) = none) :
      CkErr s u .ckptFailed { s with trace := s.trace ++ [.upd u] ++ [.rejected u], budget := s.budget - 1,
                                     syncCalls := s.syncCalls + 1 }
  | crashAfter (t : Tbl) (hs : u.sync = true) (hf : s.failAt ≠ some s.syncCalls)
      (ha : Backend.apply s.tbl u (s.imm u.pos) = some t) :
      CkErr s u .crashed { s with tbl := t, syncTbl := t, pending := [], syncCalls := s.syncCalls + 1,
                                  budget := s.budget - 1, trace := s.trace ++ [.upd u] ++ [.applied u] }

theorem tick_some {s s' : St} (h : tick s = some s') : s' = { s with budget := s.budget - 1 } := by
  unfold tick at h
  split at h
  · cases h
  · cases h; rfl

theorem checkpoint_spec (s : St) (u : Upd) : PostE (CkOk s u) (CkErr s u) (checkpoint s u) := by
  unfold checkpoint
  dsimp only
  split
  · rename_i h
    have hs : u.sync = false := by simpa using h
    split
    · rename_i t ha; exact CkOk.asyncApplied t hs ha
    · rename_i ha; exact CkOk.asyncRejected hs ha
  · rename_i h
    have hs : u.sync = true := by simpa using h
    split
    · exact CkErr.crashBefore hs
    · rename_i s1 h1
      have e1 := tick_some h1
      subst e1
      split
      · rename_i hf; exact CkErr.fault hs hf
      · rename_i hf
        split
        · rename_i ha; exact CkErr.rejected hs hf ha
        · rename_i t ha
          split
          · exact CkErr.crashAfter t hs hf ha
          · rename_i s2 h2
            have e2 := tick_some h2
            subst e2
            exact CkOk.syncApplied t hs hf ha

/-! ## Field lemmas for the state transformers -/

@[simp] theorem emit_tbl (s : St) (e : Ev) : (emit s e).tbl = s.tbl := rfl
@[simp] theorem emit_syncTbl (s : St) (e : Ev) : (emit s e).syncTbl = s.syncTbl := rfl
@[simp] theorem emit_trace (s : St) (e : Ev) : (emit s e).trace = s.trace ++ [e] := rfl
@[simp] theorem emit_pending (s : St) (e : Ev) : (emit s e).pending = s.pending := rfl
@[simp] theorem emit_failAt (s : St) (e : Ev) : (emit s e).failAt = s.failAt := rfl
@[simp] theorem emit_syncCalls (s : St) (e : Ev) : (emit s e).syncCalls = s.syncCalls := rfl
@[simp] theorem emit_imm (s : St) (e : Ev) : (emit s e).imm = s.imm := rfl

def Except.st : Except (End × St) St → St
  | .ok s => s
  | .error (_, s) => s

def childSt : HRes ⊕ (St × Bool) → St
  | .inl h => h.st
  | .inr (s, _) => s

@[simp] theorem st_deliver (o : Outcome) (s : St) : (HRes.deliver o s).st = s := rfl
@[simp] theorem st_stop (e : End) (s : St) : (HRes.stop e s).st = s := rfl
@[simp] theorem st_ok (s : St) : Except.st (.ok s) = s := rfl
@[simp] theorem st_error (e : End) (s : St) : Except.st (.error (e, s)) = s := rfl
@[simp] theorem st_inl (h : HRes) : childSt (.inl h) = h.st := rfl
@[simp] theorem st_inr (s : St) (b : Bool) : childSt (.inr (s, b)) = s := rfl

/-! ## Frame: what a handler at position `p` may touch -/

/-- The event concerns position `p` (log lines concern none). -/
def EvAt (p : Pos) : Ev → Prop
  | .enter q _ _ _ => q = p
  | .upd u => u.pos = p
  | .applied u => u.pos = p
  | .rejected u => u.pos = p
  | .deliver q _ => q = p
  | .logged _ _ _ => False

@[simp] theorem EvAt_enter {p q k a st} : EvAt p (.enter q k a st) = (q = p) := rfl
@[simp] theorem EvAt_upd {p u} : EvAt p (.upd u) = (u.pos = p) := rfl
@[simp] theorem EvAt_applied {p u} : EvAt p (.applied u) = (u.pos = p) := rfl
@[simp] theorem EvAt_rejected {p u} : EvAt p (.rejected u) = (u.pos = p) := rfl
@[simp] theorem EvAt_deliver {p q o} : EvAt p (.deliver q o) = (q = p) := rfl

/-- What a handler working at position `p` may do to the state: it appends events that all concern
`p`, never changes a terminal record, and leaves the fault plan alone. -/
structure Frame (p : Pos) (s s' : St) : Prop where
  trace : ∃ evs, s'.trace = s.trace ++ evs ∧ ∀ e ∈ evs, EvAt p e
  term : ∀ q r, lookup s.tbl q = some r → r.status.terminal = true → lookup s'.tbl q = some r
  failAt : s'.failAt = s.failAt
  imm : s'.imm = s.imm

theorem Frame.refl (p : Pos) (s : St) : Frame p s s :=
  ⟨⟨[], by simp⟩, fun _ _ h _ => h, rfl, rfl⟩

theorem Frame.trans {p : Pos} {a b c : St} (h1 : Frame p a b) (h2 : Frame p b c) : Frame p a c := by
  obtain ⟨e1, t1, a1⟩ := h1.trace
  obtain ⟨e2, t2, a2⟩ := h2.trace
  refine ⟨⟨e1 ++ e2, by rw [t2, t1, List.append_assoc], ?_⟩, ?_, ?_, ?_⟩
  · intro e he
    rcases List.mem_append.mp he with h | h
    · exact a1 e h
    · exact a2 e h
  · intro q r hl ht; exact h2.term q r (h1.term q r hl ht) ht
  · rw [h2.failAt, h1.failAt]
  · rw [h2.imm, h1.imm]

theorem frame_emit {p s0 s e} (h : Frame p s0 s) (he : EvAt p e) : Frame p s0 (emit s e) :=
  h.trans ⟨⟨[e], rfl, by simpa using he⟩, fun _ _ h _ => h, rfl, rfl⟩

theorem frame_tick {p s0 s s'} (h : Frame p s0 s) (ht : tick s = some s') : Frame p s0 s' := by
  rw [tick_some ht]
  exact h.trans ⟨⟨[], by simp⟩, fun _ _ h _ => h, rfl, rfl⟩

theorem trackReplay_fields (s : St) (q : Pos) :
    (trackReplay s q).tbl = s.tbl ∧ (trackReplay s q).syncTbl = s.syncTbl ∧
    (trackReplay s q).trace = s.trace ∧ (trackReplay s q).pending = s.pending ∧
    (trackReplay s q).failAt = s.failAt ∧ (trackReplay s q).syncCalls = s.syncCalls ∧
    (trackReplay s q).imm = s.imm ∧ (trackReplay s q).budget = s.budget := by
  unfold trackReplay
  split <;> simp

theorem frame_track {p s0 s q} (h : Frame p s0 s) : Frame p s0 (trackReplay s q) := by
  obtain ⟨h1, _, h3, _, h5, _, h7, _⟩ := trackReplay_fields s q
  exact h.trans ⟨⟨[], by simp [h3]⟩, fun _ _ hl _ => by rw [h1]; exact hl, h5, h7⟩

theorem frame_ckOk {s u s'} (h : CkOk s u s') : Frame u.pos s s' := by
  cases h with
  | asyncApplied t hs ha =>
    exact ⟨⟨[.upd u, .applied u], by simp, by simp⟩, fun q r hl ht => apply_terminal ha hl ht, rfl, rfl⟩
  | asyncRejected hs ha =>
    exact ⟨⟨[.upd u, .rejected u], by simp, by simp⟩, fun q r hl ht => hl, rfl, rfl⟩
  | syncApplied t hs hf ha =>
    exact ⟨⟨[.upd u, .applied u], by simp, by simp⟩, fun q r hl ht => apply_terminal ha hl ht, rfl, rfl⟩

theorem frame_ckErr {s u e s'} (h : CkErr s u e s') : Frame u.pos s s' := by
  cases h with
  | crashBefore hs => exact ⟨⟨[.upd u], by simp, by simp⟩, fun q r hl ht => hl, rfl, rfl⟩
  | fault hs hf => exact ⟨⟨[.upd u], by simp, by simp⟩, fun q r hl ht => hl, rfl, rfl⟩
  | rejected hs hf ha => exact ⟨⟨[.upd u, .rejected u], by simp, by simp⟩, fun q r hl ht => hl, rfl, rfl⟩
  | crashAfter t hs hf ha =>
    exact ⟨⟨[.upd u, .applied u], by simp, by simp⟩, fun q r hl ht => apply_terminal ha hl ht, rfl, rfl⟩

theorem frame_ck_ok {p s0 s u s'} (h : Frame p s0 s) (hc : checkpoint s u = .ok s') (hu : u.pos = p) :
    Frame p s0 s' := by
  have := checkpoint_spec s u
  rw [hc] at this
  exact h.trans (hu ▸ frame_ckOk this)

theorem frame_ck_err {p s0 s u e s'} (h : Frame p s0 s) (hc : checkpoint s u = .error (e, s')) (hu : u.pos = p) :
    Frame p s0 s' := by
  have := checkpoint_spec s u
  rw [hc] at this
  exact h.trans (hu ▸ frame_ckErr this)


syntax "fr_close" : tactic
macro_rules | `(tactic| fr_close) => `(tactic| first
  | assumption
  | (refine frame_track ?_; fr_close)
  | (refine frame_emit ?_ (by simp); fr_close)
  | (refine frame_tick ?_ ‹_›; fr_close)
  | (refine frame_ck_ok ?_ ‹_› (by first | rfl | (split <;> rfl)); fr_close)
  | (refine frame_ck_err ?_ ‹_› (by first | rfl | (split <;> rfl)); fr_close))

theorem frame_deliverAt {p s0 s o} (h : Frame p s0 s) : Frame p s0 (deliverAt s p o).st := by
  unfold deliverAt
  split <;> (try simp only [st_deliver, st_stop]) <;> fr_close

syntax "fr_close2" : tactic
macro_rules | `(tactic| fr_close2) => `(tactic| first
  | assumption
  | (refine frame_deliverAt ?_; fr_close2)
  | (refine frame_track ?_; fr_close2)
  | (refine frame_emit ?_ (by simp); fr_close2)
  | (refine frame_tick ?_ ‹_›; fr_close2)
  | (refine frame_ck_ok ?_ ‹_› (by first | rfl | (split <;> rfl)); fr_close2)
  | (refine frame_ck_err ?_ ‹_› (by first | rfl | (split <;> rfl)); fr_close2))

theorem frame_retryHandler {p s0 s spec r e} (h : Frame p s0 s) : Frame p s0 (retryHandler s p spec r e).st := by
  unfold retryHandler
  dsimp only
  repeat' split
  all_goals try simp only [st_deliver, st_stop]
  all_goals fr_close2

theorem frame_stepExecute {p s0 s spec r} (h : Frame p s0 s) : Frame p s0 (stepExecute s p spec r).st := by
  unfold stepExecute
  dsimp only
  repeat' split
  all_goals try simp only [st_deliver, st_stop]
  all_goals first | fr_close2 | (refine frame_retryHandler ?_; fr_close2)

theorem frame_wfcExecute {p s0 s w r} (h : Frame p s0 s) : Frame p s0 (wfcExecute s p w r).st := by
  unfold wfcExecute
  dsimp only
  repeat' split
  all_goals try simp only [st_deliver, st_stop]
  all_goals fr_close2

syntax "fr_close3" : tactic
macro_rules | `(tactic| fr_close3) => `(tactic| first
  | assumption
  | (refine frame_deliverAt ?_; fr_close3)
  | (refine frame_retryHandler ?_; fr_close3)
  | (refine frame_stepExecute ?_; fr_close3)
  | (refine frame_wfcExecute ?_; fr_close3)
  | (refine frame_track ?_; fr_close3)
  | (refine frame_emit ?_ (by simp); fr_close3)
  | (refine frame_tick ?_ ‹_›; fr_close3)
  | (refine frame_ck_ok ?_ ‹_› (by first | rfl | (split <;> rfl)); fr_close3)
  | (refine frame_ck_err ?_ ‹_› (by first | rfl | (split <;> rfl)); fr_close3))

theorem frame_handleStep {p s0 s spec} (h : Frame p s0 s) : Frame p s0 (handleStep s p spec).st := by
  unfold handleStep
  repeat' split
  all_goals try simp only [st_deliver, st_stop]
  all_goals fr_close3

theorem frame_handleWait {p s0 s secs} (h : Frame p s0 s) : Frame p s0 (handleWait s p secs).st := by
  unfold handleWait
  repeat' split
  all_goals try simp only [st_deliver, st_stop]
  all_goals fr_close3

theorem frame_handleInvoke {p s0 s v} (h : Frame p s0 s) : Frame p s0 (handleInvoke s p v).st := by
  unfold handleInvoke invokeTerminal
  repeat' split
  all_goals try simp only [st_deliver, st_stop, Option.getD]
  all_goals fr_close3

theorem frame_handleWfc {p s0 s w} (h : Frame p s0 s) : Frame p s0 (handleWfc s p w).st := by
  unfold handleWfc
  dsimp only
  repeat' split
  all_goals try simp only [st_deliver, st_stop]
  all_goals fr_close3

theorem frame_handleCbRes {s0 s hd} (h : Frame hd s0 s) : Frame hd s0 (handleCbRes s hd).st := by
  unfold handleCbRes
  dsimp only
  repeat' split
  all_goals try simp only [st_deliver, st_stop]
  all_goals fr_close3

@[simp] theorem trackReplay_tbl (s : St) (q : Pos) : (trackReplay s q).tbl = s.tbl := (trackReplay_fields s q).1
@[simp] theorem trackReplay_syncTbl (s : St) (q : Pos) : (trackReplay s q).syncTbl = s.syncTbl := (trackReplay_fields s q).2.1
@[simp] theorem trackReplay_trace (s : St) (q : Pos) : (trackReplay s q).trace = s.trace := (trackReplay_fields s q).2.2.1
@[simp] theorem trackReplay_pending (s : St) (q : Pos) : (trackReplay s q).pending = s.pending := (trackReplay_fields s q).2.2.2.1
@[simp] theorem trackReplay_failAt (s : St) (q : Pos) : (trackReplay s q).failAt = s.failAt := (trackReplay_fields s q).2.2.2.2.1
@[simp] theorem trackReplay_syncCalls (s : St) (q : Pos) : (trackReplay s q).syncCalls = s.syncCalls := (trackReplay_fields s q).2.2.2.2.2.1
@[simp] theorem trackReplay_imm (s : St) (q : Pos) : (trackReplay s q).imm = s.imm := (trackReplay_fields s q).2.2.2.2.2.2.1

theorem frame_handleCbNew {p s0 s} (h : Frame p s0 s) : Frame p s0 (Except.st (handleCbNew s p)) := by
  unfold handleCbNew
  repeat' split
  all_goals try simp only [st_ok, st_error]
  all_goals fr_close3

theorem frame_childBefore {p s0 s} (h : Frame p s0 s) : Frame p s0 (childSt (childBefore s p)) := by
  unfold childBefore
  repeat' split
  all_goals try simp only [st_inl, st_inr, st_deliver, st_stop]
  all_goals fr_close3

theorem frame_childAfter {p s0 s c m e} (h : Frame p s0 s) : Frame p s0 (childAfter s p c m e).st := by
  unfold childAfter
  dsimp only
  repeat' split
  all_goals try simp only [st_deliver, st_stop]
  all_goals fr_close3

/-- Position-free part of `Frame`: the trace only grows, terminal records are never changed, the
fault plan (`failAt`, `imm`) is constant. -/
structure Fr (s s' : St) : Prop where
  trace : ∃ evs, s'.trace = s.trace ++ evs
  term : ∀ q r, lookup s.tbl q = some r → r.status.terminal = true → lookup s'.tbl q = some r
  failAt : s'.failAt = s.failAt
  imm : s'.imm = s.imm

theorem Fr.refl (s : St) : Fr s s := ⟨⟨[], by simp⟩, fun _ _ h _ => h, rfl, rfl⟩

theorem Fr.trans {a b c : St} (h1 : Fr a b) (h2 : Fr b c) : Fr a c := by
  obtain ⟨e1, t1⟩ := h1.trace
  obtain ⟨e2, t2⟩ := h2.trace
  exact ⟨⟨e1 ++ e2, by rw [t2, t1, List.append_assoc]⟩,
    fun q r hl ht => h2.term q r (h1.term q r hl ht) ht, by rw [h2.failAt, h1.failAt], by rw [h2.imm, h1.imm]⟩

theorem Frame.toFr {p s s'} (h : Frame p s s') : Fr s s' :=
  ⟨let ⟨evs, h1, _⟩ := h.trace; ⟨evs, h1⟩, h.term, h.failAt, h.imm⟩

theorem fr_doLog (s : St) (ctx : Pos) (m : String) : Fr s (doLog s ctx m) :=
  ⟨⟨[_], rfl⟩, fun _ _ h _ => h, rfl, rfl⟩

/-! ## Generic induction principle for `run` -/

/-- **Induction principle for one invocation.**  `I` holds whenever control is in user code,
`Q e s` when the invocation (or a child body) ends with `e` in state `s`. -/
theorem run_ind (I : St → Prop) (Q : End → St → Prop)
    (hret : ∀ s v, I s → Q (.returned v) s)
    (hraise : ∀ s e, I s → Q (.raised e) s)
    (hlog : ∀ s ctx m, I s → I (doLog s ctx m))
    (hstep : ∀ s p spec, I s → Post I Q (handleStep s p spec))
    (hwait : ∀ s p secs, I s → Post I Q (handleWait s p secs))
    (hcbNew : ∀ s p, I s → PostE I Q (handleCbNew s p))
    (hcbRes : ∀ s h, I s → Post I Q (handleCbRes s h))
    (hinvoke : ∀ s p v, I s → Post I Q (handleInvoke s p v))
    (hwfc : ∀ s p w, I s → Post I Q (handleWfc s p w))
    (hchildB : ∀ s p, I s → PostC I Q (childBefore s p))
    (hchildA : ∀ s1 s2 s p c m e body, I s1 → childBefore s1 p = .inr (s2, m) →
      run body p 0 s2 = (e, s) → Q e s → Post I Q (childAfter s p c m e)) :
    ∀ (p : Prog) (ctx : Pos) (n : Nat) (s : St), I s → Q (run p ctx n s).1 (run p ctx n s).2 := by
  intro p
  induction p with
  | ret v => intro ctx n s hs; simpa [run] using hret s v hs
  | raise e => intro ctx n s hs; simpa [run] using hraise s e hs
  | log m k ih => intro ctx n s hs; simp only [run]; exact ih _ _ _ (hlog s ctx m hs)
  | step spec k ih =>
    intro ctx n s hs
    have h := hstep s (ctx ++ [n + 1]) spec hs
    simp only [run]
    split
    · rename_i o s' heq; rw [heq] at h; exact ih o _ _ _ h
    · rename_i e s' heq; rw [heq] at h; exact h
  | wait secs k ih =>
    intro ctx n s hs
    have h := hwait s (ctx ++ [n + 1]) secs hs
    simp only [run]
    split
    · rename_i o s' heq; rw [heq] at h; exact ih _ _ _ h
    · rename_i e s' heq; rw [heq] at h; exact h
  | cbNew k ih =>
    intro ctx n s hs
    have h := hcbNew s (ctx ++ [n + 1]) hs
    simp only [run]
    split
    · rename_i s' heq; rw [heq] at h; exact ih _ _ _ _ h
    · rename_i e s' heq; rw [heq] at h; exact h
  | cbRes hd k ih =>
    intro ctx n s hs
    have h := hcbRes s hd hs
    simp only [run]
    split
    · rename_i o s' heq; rw [heq] at h; exact ih o _ _ _ h
    · rename_i e s' heq; rw [heq] at h; exact h
  | invoke payload k ih =>
    intro ctx n s hs
    have h := hinvoke s (ctx ++ [n + 1]) payload hs
    simp only [run]
    split
    · rename_i o s' heq; rw [heq] at h; exact ih o _ _ _ h
    · rename_i e s' heq; rw [heq] at h; exact h
  | wfc w k ih =>
    intro ctx n s hs
    have h := hwfc s (ctx ++ [n + 1]) w hs
    simp only [run]
    split
    · rename_i o s' heq; rw [heq] at h; exact ih o _ _ _ h
    · rename_i e s' heq; rw [heq] at h; exact h
  | child c body k ihb ihk =>
    intro ctx n s hs
    have h := hchildB s (ctx ++ [n + 1]) hs
    simp only [run]
    split
    · rename_i o s' heq; rw [heq] at h; exact ihk o _ _ _ h
    · rename_i e s' heq; rw [heq] at h; exact h
    · rename_i s' m heq
      rw [heq] at h
      have hb := ihb (ctx ++ [n + 1]) 0 s' h
      have ha := hchildA s s' (run body (ctx ++ [n + 1]) 0 s').2 (ctx ++ [n + 1]) c m
        (run body (ctx ++ [n + 1]) 0 s').1 body hs heq rfl hb
      split
      · rename_i o s'' heq2; rw [heq2] at ha; exact ihk o _ _ _ ha
      · rename_i e s'' heq2; rw [heq2] at ha; exact ha

theorem post_of_st {I : St → Prop} {h : HRes} (hh : I h.st) : Post I (fun _ => I) h := by
  cases h <;> exact hh

theorem postE_of_st {I : St → Prop} {h : Except (End × St) St} (hh : I (Except.st h)) :
    PostE I (fun _ => I) h := by
  rcases h with ⟨e, s⟩ | s <;> exact hh

theorem postC_of_st {I : St → Prop} {h : HRes ⊕ (St × Bool)} (hh : I (childSt h)) :
    PostC I (fun _ => I) h := by
  rcases h with h | ⟨s, b⟩
  · exact post_of_st hh
  · exact hh

/-- Induction principle specialised to a state invariant that must hold at every end as well. -/
theorem run_inv (I : St → Prop)
    (hlog : ∀ s ctx m, I s → I (doLog s ctx m))
    (hstep : ∀ s p spec, I s → I (handleStep s p spec).st)
    (hwait : ∀ s p secs, I s → I (handleWait s p secs).st)
    (hcbNew : ∀ s p, I s → I (Except.st (handleCbNew s p)))
    (hcbRes : ∀ s h, I s → I (handleCbRes s h).st)
    (hinvoke : ∀ s p v, I s → I (handleInvoke s p v).st)
    (hwfc : ∀ s p w, I s → I (handleWfc s p w).st)
    (hchildB : ∀ s p, I s → I (childSt (childBefore s p)))
    (hchildA : ∀ s1 s2 s p c m e body, I s1 → childBefore s1 p = .inr (s2, m) →
      run body p 0 s2 = (e, s) → I s → I (childAfter s p c m e).st)
    (p : Prog) (ctx : Pos) (n : Nat) (s : St) (hs : I s) : I (run p ctx n s).2 :=
  run_ind I (fun _ => I) (fun _ _ h => h) (fun _ _ h => h) hlog
    (fun s p spec h => post_of_st (hstep s p spec h))
    (fun s p secs h => post_of_st (hwait s p secs h))
    (fun s p h => postE_of_st (hcbNew s p h))
    (fun s hd h => post_of_st (hcbRes s hd h))
    (fun s p v h => post_of_st (hinvoke s p v h))
    (fun s p w h => post_of_st (hwfc s p w h))
    (fun s p h => postC_of_st (hchildB s p h))
    (fun s1 s2 s p c m e body h1 hb hr h => post_of_st (hchildA s1 s2 s p c m e body h1 hb hr h))
    p ctx n s hs

/-- **Frame of a whole run.** -/
theorem fr_run (p : Prog) (ctx : Pos) (n : Nat) (s : St) : Fr s (run p ctx n s).2 :=
  run_inv (Fr s)
    (fun s1 ctx m h => h.trans (fr_doLog s1 ctx m))
    (fun s1 p _ h => h.trans (frame_handleStep (Frame.refl p s1)).toFr)
    (fun s1 p _ h => h.trans (frame_handleWait (Frame.refl p s1)).toFr)
    (fun s1 p h => h.trans (frame_handleCbNew (Frame.refl p s1)).toFr)
    (fun s1 hd h => h.trans (frame_handleCbRes (Frame.refl hd s1)).toFr)
    (fun s1 p _ h => h.trans (frame_handleInvoke (Frame.refl p s1)).toFr)
    (fun s1 p _ h => h.trans (frame_handleWfc (Frame.refl p s1)).toFr)
    (fun s1 p h => h.trans (frame_childBefore (Frame.refl p s1)).toFr)
    (fun _ _ s1 p _ _ _ _ _ _ _ h => h.trans (frame_childAfter (Frame.refl p s1)).toFr)
    p ctx n s (Fr.refl s)

/-! ## The write-ahead invariant (C03) -/

/-- The error `Callback.result()` raises when its operation is unknown (delivered without any
record). -/
def mustExist : Exc := { cls := "CallbackError", msg := "Callback operation must exist" }

/-- The updates the SDK sends without waiting for the backend: STARTs of step / wait-for-condition /
child context. -/
def AsyncStart (u : Upd) : Prop :=
  u.sync = false ∧ u.action = .start ∧ (u.kind = .step ∨ u.kind = .wfc ∨ u.kind = .context)

/-- **Write-ahead invariant.** -/
structure WAL (s : St) : Prop where
  /-- whatever was delivered to user code is backed by a terminal record the backend acknowledged
  synchronously (exceptions: the handle token of `create_callback`, and the "must exist" error) -/
  deliver : ∀ q o, Ev.deliver q o ∈ s.trace → o ≠ .ok "cb" → o ≠ .err mustExist →
    ∃ r, lookup s.syncTbl q = some r ∧ r.status.terminal = true
  /-- terminal and parking records of the current table are synchronously acknowledged -/
  acked : ∀ q r, lookup s.tbl q = some r → (r.status.terminal = true ∨ Parked r = true) →
    lookup s.syncTbl q = some r
  /-- acknowledged terminal records are still in the current table -/
  back : ∀ q r, lookup s.syncTbl q = some r → r.status.terminal = true → lookup s.tbl q = some r
  /-- only asynchronous STARTs are in flight -/
  pending : ∀ u ∈ s.pending, AsyncStart u

theorem wal_init (t : Tbl) (b : Nat) (f : Option Nat) (imm : Pos → Backend.Immediate) :
    WAL (initSt t b f imm) :=
  ⟨fun _ _ h => by simp [initSt] at h, fun _ _ h _ => h, fun _ _ h _ => h, fun _ h => by simp [initSt] at h⟩

theorem wal_of_eq {s s' : St} (h : WAL s) (h1 : s'.tbl = s.tbl) (h2 : s'.syncTbl = s.syncTbl)
    (h3 : s'.pending = s.pending)
    (h4 : ∀ q o, Ev.deliver q o ∈ s'.trace → o ≠ .ok "cb" → o ≠ .err mustExist →
      Ev.deliver q o ∈ s.trace ∨ ∃ r, lookup s.tbl q = some r ∧ r.status.terminal = true) : WAL s' := by
  refine ⟨?_, ?_, ?_, ?_⟩
  · intro q o ho h5 h6
    rw [h2]
    rcases h4 q o ho h5 h6 with h7 | ⟨r, h7, h8⟩
    · exact h.deliver q o h7 h5 h6
    · exact ⟨r, h.acked q r h7 (Or.inl h8), h8⟩
  · rw [h1, h2]; exact h.acked
  · rw [h1, h2]; exact h.back
  · rw [h3]; exact h.pending

theorem wal_emit_other {s e} (h : WAL s) (he : ∀ q o, e ≠ .deliver q o) : WAL (emit s e) :=
  wal_of_eq h rfl rfl rfl (fun q o ho _ _ => by
    simp only [emit_trace, List.mem_append, List.mem_singleton] at ho
    rcases ho with ho | ho
    · exact Or.inl ho
    · exact absurd ho.symm (he q o))

theorem wal_emit_deliver {s p o} (h : WAL s) (hr : ∃ r, lookup s.tbl p = some r ∧ r.status.terminal = true) :
    WAL (emit s (.deliver p o)) :=
  wal_of_eq h rfl rfl rfl (fun q o' ho _ _ => by
    simp only [emit_trace, List.mem_append, List.mem_singleton, Ev.deliver.injEq] at ho
    rcases ho with ho | ⟨rfl, rfl⟩
    · exact Or.inl ho
    · exact Or.inr hr)

theorem wal_emit_cb {s p} (h : WAL s) : WAL (emit s (.deliver p (.ok "cb"))) :=
  wal_of_eq h rfl rfl rfl (fun q o' ho h5 _ => by
    simp only [emit_trace, List.mem_append, List.mem_singleton, Ev.deliver.injEq] at ho
    rcases ho with ho | ⟨rfl, rfl⟩
    · exact Or.inl ho
    · exact absurd rfl h5)

theorem wal_emit_mustExist {s p} (h : WAL s) : WAL (emit s (.deliver p (.err mustExist))) :=
  wal_of_eq h rfl rfl rfl (fun q o' ho _ h6 => by
    simp only [emit_trace, List.mem_append, List.mem_singleton, Ev.deliver.injEq] at ho
    rcases ho with ho | ⟨rfl, rfl⟩
    · exact Or.inl ho
    · exact absurd rfl h6)

theorem wal_tick {s s'} (h : WAL s) (ht : tick s = some s') : WAL s' := by
  rw [tick_some ht]
  exact wal_of_eq h rfl rfl rfl (fun q o ho _ _ => Or.inl ho)

theorem wal_track {s p} (h : WAL s) : WAL (trackReplay s p) :=
  wal_of_eq h (by simp) (by simp) (by simp) (fun q o ho _ _ => Or.inl (by simpa using ho))

theorem newRec_asyncStart {o : Option OpRec} {u : Upd} {imm : Backend.Immediate} {r' : OpRec}
    (h : newRec o u imm = some r') (ha : u.action = .start)
    (hk : u.kind = .step ∨ u.kind = .wfc ∨ u.kind = .context) :
    r'.status.terminal = false ∧ Parked r' = false := by
  unfold newRec at h
  rw [ha] at h
  cases o with
  | none =>
    simp only [Option.some.injEq] at h
    subst h
    rcases hk with hk | hk | hk <;> simp [hk, Backend.startRec, Status.terminal, Parked]
  | some r =>
    simp only at h
    split at h
    · rename_i hc
      cases h
      simp only [Bool.and_eq_true, Bool.or_eq_true, beq_iff_eq] at hc
      rcases hc.1.1 with hk' | hk' <;> simp [Status.terminal, Parked, hk']
    · cases h

theorem mem_trace_append2 {q o} {t : List Ev} {u1 u2 : Ev} (h : Ev.deliver q o ∈ t ++ [u1] ++ [u2])
    (h1 : ∀ q o, u1 ≠ .deliver q o) (h2 : ∀ q o, u2 ≠ .deliver q o) : Ev.deliver q o ∈ t := by
  simp only [List.mem_append, List.mem_singleton] at h
  rcases h with (h | h) | h
  · exact h
  · exact absurd h.symm (h1 q o)
  · exact absurd h.symm (h2 q o)

theorem wal_sync_applied {s : St} {u : Upd} {t : Tbl} (h : WAL s)
    (ha : Backend.apply s.tbl u (s.imm u.pos) = some t) {s' : St}
    (h1 : s'.tbl = t) (h2 : s'.syncTbl = t) (h3 : s'.pending = [])
    (h4 : s'.trace = s.trace ++ [.upd u] ++ [.applied u]) : WAL s' := by
  refine ⟨?_, ?_, ?_, ?_⟩
  · intro q o ho h5 h6
    rw [h4] at ho
    obtain ⟨r, hr, ht⟩ := h.deliver q o (mem_trace_append2 ho (by simp) (by simp)) h5 h6
    exact ⟨r, by rw [h2]; exact apply_terminal ha (h.back q r hr ht) ht, ht⟩
  · rw [h1, h2]; exact fun _ _ h _ => h
  · rw [h1, h2]; exact fun _ _ h _ => h
  · rw [h3]; simp

theorem wal_ckOk {s u s'} (h : WAL s) (hc : CkOk s u s') (hu : u.sync = false → AsyncStart u) : WAL s' := by
  cases hc with
  | asyncApplied t hs ha =>
    obtain ⟨_, hact, hk⟩ := hu hs
    obtain ⟨r', hn, rfl⟩ := apply_some ha
    have hnp := newRec_asyncStart hn hact hk
    refine ⟨?_, ?_, ?_, ?_⟩
    · intro q o ho h5 h6
      exact h.deliver q o (mem_trace_append2 ho (by simp) (by simp)) h5 h6
    · intro q r hl hr
      simp only [lookup_upsert] at hl
      split at hl
      · cases hl
        rcases hr with hr | hr
        · rw [hnp.1] at hr; cases hr
        · rw [hnp.2] at hr; cases hr
      · exact h.acked q r hl hr
    · intro q r hl hr
      exact apply_terminal ha (h.back q r hl hr) hr
    · intro u' hu'
      simp only [List.mem_append, List.mem_singleton] at hu'
      rcases hu' with hu' | rfl
      · exact h.pending u' hu'
      · exact hu hs
  | asyncRejected hs ha =>
    refine ⟨?_, h.acked, h.back, ?_⟩
    · intro q o ho h5 h6
      exact h.deliver q o (mem_trace_append2 ho (by simp) (by simp)) h5 h6
    · intro u' hu'
      simp only [List.mem_append, List.mem_singleton] at hu'
      rcases hu' with hu' | rfl
      · exact h.pending u' hu'
      · exact hu hs
  | syncApplied t hs hf ha => exact wal_sync_applied h ha rfl rfl rfl rfl

theorem wal_ckErr {s u e s'} (h : WAL s) (hc : CkErr s u e s') : WAL s' := by
  cases hc with
  | crashBefore hs =>
    exact wal_of_eq h rfl rfl rfl (fun q o ho _ _ => Or.inl (by
      simp only [List.mem_append, List.mem_singleton] at ho
      rcases ho with ho | ho
      · exact ho
      · cases ho))
  | fault hs hf =>
    exact wal_of_eq h rfl rfl rfl (fun q o ho _ _ => Or.inl (by
      simp only [List.mem_append, List.mem_singleton] at ho
      rcases ho with ho | ho
      · exact ho
      · cases ho))
  | rejected hs hf ha =>
    exact wal_of_eq h rfl rfl rfl (fun q o ho _ _ => Or.inl (mem_trace_append2 ho (by simp) (by simp)))
  | crashAfter t hs hf ha => exact wal_sync_applied h ha rfl rfl rfl rfl

theorem wal_ck_ok {s u s'} (h : WAL s) (hc : checkpoint s u = .ok s') (hu : u.sync = false → AsyncStart u) :
    WAL s' := by
  have := checkpoint_spec s u
  rw [hc] at this
  exact wal_ckOk h this hu

theorem wal_ck_err {s u e s'} (h : WAL s) (hc : checkpoint s u = .error (e, s')) : WAL s' := by
  have := checkpoint_spec s u
  rw [hc] at this
  exact wal_ckErr h this


theorem newRec_terminal_action {o : Option OpRec} {u : Upd} {imm : Backend.Immediate} {r' : OpRec}
    (h : newRec o u imm = some r') (ha : u.action = .succeed ∨ u.action = .fail) :
    r'.status.terminal = true := by
  unfold newRec at h
  rcases ha with ha | ha <;> rw [ha] at h <;> cases o <;> simp only at h
  all_goals first | (cases h; done) | (split at h <;> cases h <;> rfl)

theorem ck_ok_terminal {s u s'} (hc : checkpoint s u = .ok s')
    (ha : u.action = .succeed ∨ u.action = .fail) (hs : u.sync = true) :
    ∃ r, lookup s'.tbl u.pos = some r ∧ r.status.terminal = true := by
  have h := checkpoint_spec s u
  rw [hc] at h
  cases h with
  | asyncApplied t hs' ha' => rw [hs] at hs'; cases hs'
  | asyncRejected hs' ha' => rw [hs] at hs'; cases hs'
  | syncApplied t hs' hf ha' =>
    obtain ⟨r', h1, h2⟩ := apply_lookup_self ha'
    exact ⟨r', h2, newRec_terminal_action h1 ha⟩

theorem wal_deliverAt {s p o} (h : WAL s) (hr : ∃ r, lookup s.tbl p = some r ∧ r.status.terminal = true) :
    WAL (deliverAt s p o).st := by
  unfold deliverAt
  split <;> first | exact wal_track (wal_emit_deliver h hr) | exact wal_emit_deliver h hr

syntax "wal_side" : tactic
macro_rules | `(tactic| wal_side) => `(tactic| first
  | exact ck_ok_terminal ‹_› (by first | exact Or.inl rfl | exact Or.inr rfl) rfl
  | exact ⟨_, ‹lookup _ _ = some _›, by grind [Status.terminal]⟩)

syntax "wal_close" : tactic
macro_rules | `(tactic| wal_close) => `(tactic| first
  | assumption
  | (refine wal_deliverAt ?_ (by wal_side); wal_close)
  | (refine wal_track ?_; wal_close)
  | (refine wal_emit_other ?_ (by simp); wal_close)
  | (refine wal_tick ?_ ‹_›; wal_close)
  | (refine wal_ck_ok ?_ ‹_› (by simp [AsyncStart]); wal_close)
  | (refine wal_ck_err ?_ ‹_›; wal_close))

theorem wal_retryHandler {p s spec r e} (h : WAL s) : WAL (retryHandler s p spec r e).st := by
  unfold retryHandler
  dsimp only
  repeat' split
  all_goals try simp only [st_deliver, st_stop]
  all_goals wal_close

theorem wal_stepExecute {p s spec r} (h : WAL s) : WAL (stepExecute s p spec r).st := by
  unfold stepExecute
  dsimp only
  repeat' split
  all_goals try simp only [st_deliver, st_stop]
  all_goals first | wal_close | (refine wal_retryHandler ?_; wal_close)

theorem wal_wfcExecute {p s w r} (h : WAL s) : WAL (wfcExecute s p w r).st := by
  unfold wfcExecute
  dsimp only
  repeat' split
  all_goals try simp only [st_deliver, st_stop]
  all_goals wal_close

syntax "wal_close2" : tactic
macro_rules | `(tactic| wal_close2) => `(tactic| first
  | assumption
  | (refine wal_deliverAt ?_ (by wal_side); wal_close2)
  | (refine wal_retryHandler ?_; wal_close2)
  | (refine wal_stepExecute ?_; wal_close2)
  | (refine wal_wfcExecute ?_; wal_close2)
  | (refine wal_track ?_; wal_close2)
  | (refine wal_emit_cb ?_; wal_close2)
  | (refine wal_emit_mustExist ?_; wal_close2)
  | (refine wal_emit_deliver ?_ (by wal_side); wal_close2)
  | (refine wal_emit_other ?_ (by simp); wal_close2)
  | (refine wal_tick ?_ ‹_›; wal_close2)
  | (refine wal_ck_ok ?_ ‹_› (by simp [AsyncStart]); wal_close2)
  | (refine wal_ck_err ?_ ‹_›; wal_close2))

theorem wal_handleStep {p s spec} (h : WAL s) : WAL (handleStep s p spec).st := by
  unfold handleStep
  repeat' split
  all_goals try simp only [st_deliver, st_stop]
  all_goals wal_close2

theorem wal_handleWait {p s secs} (h : WAL s) : WAL (handleWait s p secs).st := by
  unfold handleWait
  repeat' split
  all_goals try simp only [st_deliver, st_stop]
  all_goals wal_close2

theorem wal_handleInvoke {p s v} (h : WAL s) : WAL (handleInvoke s p v).st := by
  unfold handleInvoke invokeTerminal
  repeat' split
  all_goals try simp only [st_deliver, st_stop, Option.getD]
  all_goals wal_close2

theorem wal_handleWfc {p s w} (h : WAL s) : WAL (handleWfc s p w).st := by
  unfold handleWfc
  dsimp only
  repeat' split
  all_goals try simp only [st_deliver, st_stop]
  all_goals wal_close2

theorem wal_handleCbRes {s hd} (h : WAL s) : WAL (handleCbRes s hd).st := by
  unfold handleCbRes
  dsimp only
  repeat' split
  all_goals try simp only [st_deliver, st_stop]
  all_goals wal_close2

theorem wal_handleCbNew {p s} (h : WAL s) : WAL (Except.st (handleCbNew s p)) := by
  unfold handleCbNew
  repeat' split
  all_goals try simp only [st_ok, st_error]
  all_goals wal_close2

theorem wal_childBefore {p s} (h : WAL s) : WAL (childSt (childBefore s p)) := by
  unfold childBefore
  repeat' split
  all_goals try simp only [st_inl, st_inr, st_deliver, st_stop]
  all_goals wal_close2


theorem childBefore_replay {s p s2} (h : childBefore s p = .inr (s2, true)) :
    ∃ r, lookup s2.tbl p = some r ∧ r.status.terminal = true := by
  unfold childBefore at h
  split at h
  · rename_i r hl
    split at h
    · cases h
    · split at h
      · rename_i hc
        simp only [Sum.inr.injEq, Prod.mk.injEq, and_true] at h
        subst h
        simp only [Bool.and_eq_true, beq_iff_eq] at hc
        exact ⟨r, hl, by simp [hc.1, Status.terminal]⟩
      · split at h <;> simp at h
  · split at h <;> simp at h

theorem wal_childAfter {s1 s2 s p c m e body} (hb : childBefore s1 p = .inr (s2, m))
    (hr : run body p 0 s2 = (e, s)) (h : WAL s) : WAL (childAfter s p c m e).st := by
  have hfr : Fr s2 s := by have := fr_run body p 0 s2; rw [hr] at this; exact this
  unfold childAfter
  split
  · split
    · rename_i hm
      subst hm
      obtain ⟨r, h1, h2⟩ := childBefore_replay hb
      exact wal_deliverAt h ⟨r, hfr.term p r h1 h2, h2⟩
    · dsimp only
      split
      · rename_i hc; exact wal_ck_err h hc
      · rename_i hc
        refine wal_deliverAt (wal_ck_ok h hc (by split <;> simp)) ?_
        have := ck_ok_terminal hc (by split <;> exact Or.inl rfl) (by split <;> rfl)
        simpa only [apply_ite Upd.pos, ite_self] using this
  · repeat' split
    all_goals try simp only [st_deliver, st_stop]
    all_goals wal_close2
  · exact h

theorem wal_doLog {s ctx m} (h : WAL s) : WAL (doLog s ctx m) := wal_emit_other h (by simp)

/-- **The write-ahead invariant is preserved by a whole invocation.** -/
theorem wal_run (p : Prog) (ctx : Pos) (n : Nat) (s : St) (h : WAL s) : WAL (run p ctx n s).2 :=
  run_inv WAL
    (fun _ _ _ h => wal_doLog h)
    (fun _ _ _ h => wal_handleStep h)
    (fun _ _ _ h => wal_handleWait h)
    (fun _ _ h => wal_handleCbNew h)
    (fun _ _ h => wal_handleCbRes h)
    (fun _ _ _ h => wal_handleInvoke h)
    (fun _ _ _ h => wal_handleWfc h)
    (fun _ _ h => wal_childBefore h)
    (fun _ _ _ _ _ _ _ _ _ hb hr h => wal_childAfter hb hr h)
    p ctx n s h

/-! ## Parking (C03) -/

/-- The table holds a parking record. -/
def HasParked (t : Tbl) : Prop := ∃ q r, lookup t q = some r ∧ Parked r = true

/-- Post-condition for C03 (parking): a `suspended` end comes with a parking record in the
synchronously acknowledged table. -/
def ParkQ (e : End) (s : St) : Prop := ∀ d, e = .suspended d → HasParked s.syncTbl

abbrev PPost : HRes → Prop := Post (fun _ => True) ParkQ

theorem parkQ_crashed (s : St) : ParkQ .crashed s := fun _ h => by cases h
theorem parkQ_raised (e : Exc) (s : St) : ParkQ (.raised e) s := fun _ h => by cases h
theorem parkQ_returned (v : Val) (s : St) : ParkQ (.returned v) s := fun _ h => by cases h

theorem parkQ_ck_err {s u e s'} (hc : checkpoint s u = .error (e, s')) : ParkQ e s' := by
  have h := checkpoint_spec s u
  rw [hc] at h
  intro d hd
  cases h <;> cases hd

theorem parkQ_of_tbl {s : St} {p : Pos} {r : OpRec} {e : End} (h : WAL s) (hl : lookup s.tbl p = some r)
    (hp : Parked r = true) : ParkQ e s :=
  fun _ _ => ⟨p, r, h.acked p r hl (Or.inr hp), hp⟩

theorem ck_ok_sync {s u s'} (hc : checkpoint s u = .ok s') (hs : u.sync = true) :
    s'.syncTbl = s'.tbl ∧ ∃ r', newRec (lookup s.tbl u.pos) u (s.imm u.pos) = some r' ∧
      lookup s'.tbl u.pos = some r' := by
  have h := checkpoint_spec s u
  rw [hc] at h
  cases h with
  | asyncApplied t hs' ha' => rw [hs] at hs'; cases hs'
  | asyncRejected hs' ha' => rw [hs] at hs'; cases hs'
  | syncApplied t hs' hf ha' => exact ⟨rfl, apply_lookup_self ha'⟩

theorem newRec_retry {o : Option OpRec} {u : Upd} {imm : Backend.Immediate} {r' : OpRec}
    (h : newRec o u imm = some r') (ha : u.action = .retry) : r'.status = .pending := by
  unfold newRec at h
  rw [ha] at h
  cases o <;> simp only at h
  · cases h
  · split at h <;> cases h; rfl

theorem parkQ_ck_retry {s u s' e} (hc : checkpoint s u = .ok s') (hs : u.sync = true)
    (ha : u.action = .retry) : ParkQ e s' := by
  obtain ⟨h1, r', h2, h3⟩ := ck_ok_sync hc hs
  exact fun _ _ => ⟨u.pos, r', by rw [h1]; exact h3, by simp [Parked, newRec_retry h2 ha]⟩

theorem ppost_deliverAt (s : St) (p : Pos) (o : Outcome) : PPost (deliverAt s p o) := by
  unfold deliverAt; split <;> trivial

syntax "pk_close" : tactic
macro_rules | `(tactic| pk_close) => `(tactic| first
  | trivial
  | exact ppost_deliverAt _ _ _
  | exact parkQ_crashed _
  | exact parkQ_raised _ _
  | exact parkQ_ck_err ‹_›
  | exact parkQ_ck_retry ‹_› rfl rfl)

theorem ppost_retryHandler (s : St) (p : Pos) (spec : StepSpec) (r : Option OpRec) (e : Exc) :
    PPost (retryHandler s p spec r e) := by
  unfold retryHandler
  dsimp only
  repeat' split
  all_goals try simp only [Post_deliver, Post_stop]
  all_goals pk_close

theorem ppost_stepExecute (s : St) (p : Pos) (spec : StepSpec) (r : Option OpRec) :
    PPost (stepExecute s p spec r) := by
  unfold stepExecute
  dsimp only
  repeat' split
  all_goals try simp only [Post_deliver, Post_stop]
  all_goals first | pk_close | exact ppost_retryHandler _ _ _ _ _

theorem ppost_wfcExecute (s : St) (p : Pos) (w : WfcSpec) (r : Option OpRec) :
    PPost (wfcExecute s p w r) := by
  unfold wfcExecute
  dsimp only
  repeat' split
  all_goals try simp only [Post_deliver, Post_stop]
  all_goals pk_close

syntax "pk_close2" : tactic
macro_rules | `(tactic| pk_close2) => `(tactic| first
  | pk_close
  | exact ppost_retryHandler _ _ _ _ _
  | exact ppost_stepExecute _ _ _ _
  | exact ppost_wfcExecute _ _ _ _
  | exact parkQ_of_tbl ‹WAL _› ‹lookup _ _ = some _› (by simp_all [Parked]))

theorem ppost_handleStep {s : St} (h : WAL s) (p : Pos) (spec : StepSpec) : PPost (handleStep s p spec) := by
  unfold handleStep
  repeat' split
  all_goals try simp only [Post_deliver, Post_stop]
  all_goals pk_close2

theorem ppost_handleWfc {s : St} (h : WAL s) (p : Pos) (w : WfcSpec) : PPost (handleWfc s p w) := by
  unfold handleWfc
  dsimp only
  repeat' split
  all_goals try simp only [Post_deliver, Post_stop]
  all_goals pk_close2

theorem ppost_handleCbNew (s : St) (p : Pos) : PostE (fun _ => True) ParkQ (handleCbNew s p) := by
  unfold handleCbNew
  repeat' split
  all_goals try simp only [PostE_ok, PostE_error]
  all_goals pk_close2

theorem ppost_childBefore (s : St) (p : Pos) : PostC (fun _ => True) ParkQ (childBefore s p) := by
  unfold childBefore
  repeat' split
  all_goals try simp only [PostC_inl, PostC_inr, Post_deliver, Post_stop]
  all_goals pk_close2

theorem ppost_childAfter {s : St} {e : End} (h : ParkQ e s) (p : Pos) (c : ChildSpec) (m : Bool) :
    PPost (childAfter s p c m e) := by
  unfold childAfter
  dsimp only
  repeat' split
  all_goals try simp only [Post_deliver, Post_stop]
  all_goals first | pk_close2 | exact h


/-! ### The three handlers that park on a record they did not write -/

/-- `wait` at `p` is well-placed: the record found there, if any, is a finished or still running
timer (weakest form: succeeded or parking); a fresh wait is not completed abnormally by the backend. -/
def waitSane (s : St) (p : Pos) : Bool :=
  match lookup s.tbl p with
  | some r => r.status == .succeeded || Parked r
  | none => match s.imm p with
            | .none => true
            | .succeeded _ => true
            | _ => false

/-- `invoke` at `p` is well-placed: the record found there is finished the way a chained invoke
finishes, or parking. -/
def invokeSane (s : St) (p : Pos) : Bool :=
  match lookup s.tbl p with
  | some r => r.status == .succeeded || r.status == .failed || r.status == .timedOut ||
              r.status == .stopped || Parked r
  | none => true

/-- `Callback.result()` on handle `h` is well-placed: the record there is finished or parking. -/
def cbSane (s : St) (h : Pos) : Bool :=
  match lookup s.tbl h with
  | some r => r.status.terminal || Parked r
  | none => true

theorem ck_ok_start_new {s u s'} (hc : checkpoint s u = .ok s') (hs : u.sync = true)
    (ha : u.action = .start) (hl : lookup s.tbl u.pos = none) :
    s'.syncTbl = s'.tbl ∧ lookup s'.tbl u.pos = some (Backend.startRec u.kind (s.imm u.pos)) := by
  obtain ⟨h1, r', h2, h3⟩ := ck_ok_sync hc hs
  rw [hl] at h2
  simp only [newRec, ha, Option.some.injEq] at h2
  exact ⟨h1, by rw [h3, h2]⟩

theorem ppost_handleWait {s : St} (h : WAL s) (p : Pos) (secs : Nat) (hs : waitSane s p = true) :
    PPost (handleWait s p secs) := by
  unfold handleWait
  unfold waitSane at hs
  split
  · rename_i r hl
    rw [hl] at hs
    split
    · exact ppost_deliverAt _ _ _
    · rename_i hne
      exact parkQ_of_tbl h hl (by simpa [hne] using hs)
  · rename_i hl
    rw [hl] at hs
    split
    · rename_i hc; exact parkQ_ck_err hc
    · rename_i s' hc
      obtain ⟨h1, h3⟩ := ck_ok_start_new hc rfl rfl hl
      dsimp only at h3
      cases hi : s.imm p <;> simp only [hi] at hs h3 <;> (try cases hs) <;>
        simp only [Backend.startRec] at h3 <;> rw [h3] <;> dsimp only <;> split
      · rename_i hne; simp at hne
      · exact fun _ _ => ⟨p, _, by rw [h1]; exact h3, by simp [Parked]⟩
      · exact ppost_deliverAt _ _ _
      · rename_i hne; simp at hne

theorem ppost_handleInvoke {s : St} (h : WAL s) (p : Pos) (v : Val) (hs : invokeSane s p = true) :
    PPost (handleInvoke s p v) := by
  unfold handleInvoke
  unfold invokeSane at hs
  split
  · rename_i r hl
    rw [hl] at hs
    unfold invokeTerminal
    repeat' split
    all_goals try simp only [Option.getD, Post_deliver, Post_stop]
    all_goals first | exact ppost_deliverAt _ _ _ | exact parkQ_of_tbl h hl (by simp_all)
  · rename_i hl
    split
    · rename_i hc; exact parkQ_ck_err hc
    · rename_i s' hc
      obtain ⟨h1, h3⟩ := ck_ok_start_new hc rfl rfl hl
      dsimp only at h3
      clear hs
      unfold invokeTerminal
      cases hi : s.imm p <;> simp only [hi, Backend.startRec] at h3 <;> rw [h3] <;> dsimp only <;>
        repeat' split
      all_goals try simp only [Option.getD, Post_deliver, Post_stop]
      all_goals first
        | exact ppost_deliverAt _ _ _
        | (rename_i h5 h6; exact absurd (by decide) h5)
        | (rename_i h5 h6; exact absurd (by decide) h6)
        | exact fun _ _ => ⟨p, _, by rw [h1]; exact h3, by simp [Parked]⟩

theorem ppost_handleCbRes {s : St} (h : WAL s) (hd : Pos) (hs : cbSane s hd = true) :
    PPost (handleCbRes s hd) := by
  unfold handleCbRes
  unfold cbSane at hs
  split
  · trivial
  · rename_i r hl
    rw [hl] at hs
    dsimp only
    repeat' split
    all_goals try simp only [Post_deliver, Post_stop]
    all_goals first | trivial | exact parkQ_of_tbl h hl (by
      cases hst : r.status <;> simp_all [Status.terminal])


/-- **The run is well-placed**: every `wait`, `invoke` and `Callback.result()` the invocation
actually performs satisfies `waitSane` / `invokeSane` / `cbSane` in the state in which it is
performed (a decidable condition on the run, following its actual control flow). -/
def Respects : Prog → Pos → Nat → St → Bool
  | .ret _, _, _, _ => true
  | .raise _, _, _, _ => true
  | .log m k, ctx, n, s => Respects k ctx n (doLog s ctx m)
  | .step spec k, ctx, n, s =>
    match handleStep s (ctx ++ [n + 1]) spec with
    | .deliver o s => Respects (k o) ctx (n + 1) s
    | .stop _ _ => true
  | .wait secs k, ctx, n, s =>
    waitSane s (ctx ++ [n + 1]) &&
    match handleWait s (ctx ++ [n + 1]) secs with
    | .deliver _ s => Respects k ctx (n + 1) s
    | .stop _ _ => true
  | .cbNew k, ctx, n, s =>
    match handleCbNew s (ctx ++ [n + 1]) with
    | .ok s => Respects (k (ctx ++ [n + 1])) ctx (n + 1) s
    | .error _ => true
  | .cbRes h k, ctx, n, s =>
    cbSane s h &&
    match handleCbRes s h with
    | .deliver o s => Respects (k o) ctx n s
    | .stop _ _ => true
  | .invoke payload k, ctx, n, s =>
    invokeSane s (ctx ++ [n + 1]) &&
    match handleInvoke s (ctx ++ [n + 1]) payload with
    | .deliver o s => Respects (k o) ctx (n + 1) s
    | .stop _ _ => true
  | .wfc w k, ctx, n, s =>
    match handleWfc s (ctx ++ [n + 1]) w with
    | .deliver o s => Respects (k o) ctx (n + 1) s
    | .stop _ _ => true
  | .child c body k, ctx, n, s =>
    match childBefore s (ctx ++ [n + 1]) with
    | .inl (.deliver o s) => Respects (k o) ctx (n + 1) s
    | .inl (.stop _ _) => true
    | .inr (s, replayMode) =>
      Respects body (ctx ++ [n + 1]) 0 s &&
      match childAfter (run body (ctx ++ [n + 1]) 0 s).2 (ctx ++ [n + 1]) c replayMode
              (run body (ctx ++ [n + 1]) 0 s).1 with
      | .deliver o s => Respects (k o) ctx (n + 1) s
      | .stop _ _ => true

/-- **C03, parking.** -/
theorem park_run (p : Prog) : ∀ (ctx : Pos) (n : Nat) (s : St), WAL s → Respects p ctx n s = true →
    ParkQ (run p ctx n s).1 (run p ctx n s).2 := by
  induction p with
  | ret v => intro ctx n s _ _; exact parkQ_returned v s
  | raise e => intro ctx n s _ _; exact parkQ_raised e s
  | log m k ih =>
    intro ctx n s hw hr
    simp only [run, Respects] at hr ⊢
    exact ih _ _ _ (wal_doLog hw) hr
  | step spec k ih =>
    intro ctx n s hw hr
    have h1 := ppost_handleStep hw (ctx ++ [n + 1]) spec
    have h2 := wal_handleStep (p := ctx ++ [n + 1]) (spec := spec) hw
    cases hh : handleStep s (ctx ++ [n + 1]) spec with
    | deliver o s' =>
      simp only [run, Respects, hh] at hr ⊢
      rw [hh] at h2
      exact ih o _ _ _ h2 hr
    | stop e s' =>
      simp only [run, hh]
      rw [hh] at h1
      exact h1
  | wait secs k ih =>
    intro ctx n s hw hr
    simp only [Respects, Bool.and_eq_true] at hr
    have h1 := ppost_handleWait hw (ctx ++ [n + 1]) secs hr.1
    have h2 := wal_handleWait (p := ctx ++ [n + 1]) (secs := secs) hw
    cases hh : handleWait s (ctx ++ [n + 1]) secs with
    | deliver o s' =>
      simp only [run, hh] at hr ⊢
      rw [hh] at h2
      exact ih _ _ _ h2 hr.2
    | stop e s' =>
      simp only [run, hh]
      rw [hh] at h1
      exact h1
  | cbNew k ih =>
    intro ctx n s hw hr
    have h1 := ppost_handleCbNew s (ctx ++ [n + 1])
    have h2 := wal_handleCbNew (p := ctx ++ [n + 1]) hw
    cases hh : handleCbNew s (ctx ++ [n + 1]) with
    | ok s' =>
      simp only [run, Respects, hh] at hr ⊢
      rw [hh] at h2
      exact ih _ _ _ _ h2 hr
    | error x =>
      obtain ⟨e, s'⟩ := x
      simp only [run, hh]
      rw [hh] at h1
      exact h1
  | cbRes hd k ih =>
    intro ctx n s hw hr
    simp only [Respects, Bool.and_eq_true] at hr
    have h1 := ppost_handleCbRes hw hd hr.1
    have h2 := wal_handleCbRes (hd := hd) hw
    cases hh : handleCbRes s hd with
    | deliver o s' =>
      simp only [run, hh] at hr ⊢
      rw [hh] at h2
      exact ih o _ _ _ h2 hr.2
    | stop e s' =>
      simp only [run, hh]
      rw [hh] at h1
      exact h1
  | invoke payload k ih =>
    intro ctx n s hw hr
    simp only [Respects, Bool.and_eq_true] at hr
    have h1 := ppost_handleInvoke hw (ctx ++ [n + 1]) payload hr.1
    have h2 := wal_handleInvoke (p := ctx ++ [n + 1]) (v := payload) hw
    cases hh : handleInvoke s (ctx ++ [n + 1]) payload with
    | deliver o s' =>
      simp only [run, hh] at hr ⊢
      rw [hh] at h2
      exact ih o _ _ _ h2 hr.2
    | stop e s' =>
      simp only [run, hh]
      rw [hh] at h1
      exact h1
  | wfc w k ih =>
    intro ctx n s hw hr
    have h1 := ppost_handleWfc hw (ctx ++ [n + 1]) w
    have h2 := wal_handleWfc (p := ctx ++ [n + 1]) (w := w) hw
    cases hh : handleWfc s (ctx ++ [n + 1]) w with
    | deliver o s' =>
      simp only [run, Respects, hh] at hr ⊢
      rw [hh] at h2
      exact ih o _ _ _ h2 hr
    | stop e s' =>
      simp only [run, hh]
      rw [hh] at h1
      exact h1
  | child c body k ihb ihk =>
    intro ctx n s hw hr
    have h1 := ppost_childBefore s (ctx ++ [n + 1])
    have h2 := wal_childBefore (p := ctx ++ [n + 1]) hw
    cases hh : childBefore s (ctx ++ [n + 1]) with
    | inl hres =>
      cases hres with
      | deliver o s' =>
        simp only [run, Respects, hh] at hr ⊢
        rw [hh] at h2
        exact ihk o _ _ _ h2 hr
      | stop e s' =>
        simp only [run, hh]
        rw [hh] at h1
        exact h1
    | inr x =>
      obtain ⟨s', m⟩ := x
      simp only [Respects, hh, Bool.and_eq_true] at hr
      rw [hh] at h2
      simp only [st_inr] at h2
      have hb := ihb (ctx ++ [n + 1]) 0 s' h2 hr.1
      have hwb := wal_run body (ctx ++ [n + 1]) 0 s' h2
      have h3 := ppost_childAfter hb (ctx ++ [n + 1]) c m
      have h4 := wal_childAfter (c := c) (e := (run body (ctx ++ [n + 1]) 0 s').1)
        (s := (run body (ctx ++ [n + 1]) 0 s').2) hh rfl hwb
      simp only [run, hh]
      cases ha : childAfter (run body (ctx ++ [n + 1]) 0 s').2 (ctx ++ [n + 1]) c m
          (run body (ctx ++ [n + 1]) 0 s').1 with
      | deliver o s'' =>
        simp only [ha] at hr ⊢
        rw [ha] at h4
        exact ihk o _ _ _ h4 hr.2
      | stop e s'' =>
        simp only [ha]
        rw [ha] at h3
        exact h3

/-- Kind-based sufficient conditions: the record has the handler's kind and is in a state of that
kind's lifecycle (`Backend.startRec` / `Backend.fire`). -/
theorem waitSane_of_kind {s : St} {p : Pos} {r : OpRec} (hl : lookup s.tbl p = some r)
    (hk : r.kind = .wait) (hs : r.status = .started ∨ r.status = .succeeded) : waitSane s p = true := by
  unfold waitSane; rw [hl]
  rcases hs with hs | hs <;> simp [Parked, hk, hs]

theorem invokeSane_of_kind {s : St} {p : Pos} {r : OpRec} (hl : lookup s.tbl p = some r)
    (hk : r.kind = .invoke) (hs : r.status ≠ .pending ∧ r.status ≠ .ready ∧ r.status ≠ .cancelled) :
    invokeSane s p = true := by
  unfold invokeSane; rw [hl]
  cases h : r.status <;> simp_all [Parked]

theorem cbSane_of_kind {s : St} {p : Pos} {r : OpRec} (hl : lookup s.tbl p = some r)
    (hk : r.kind = .callback) (hs : r.status ≠ .ready) : cbSane s p = true := by
  unfold cbSane; rw [hl]
  cases h : r.status <;> simp_all [Parked, Status.terminal]

/-! ## Checkpoint fault (C03) -/

/-- The event records a synchronous update the backend applied. -/
def isSyncApplied : Ev → Bool
  | .applied u => u.sync
  | _ => false

/-- Number of synchronous updates applied among the events. -/
def syncApplied (evs : List Ev) : Nat := evs.countP isSyncApplied

/-- Fault invariant while the run is going on: the failing call (index `k`) has not been reached. -/
structure FI (k : Nat) (s0 s : St) : Prop where
  failAt : s.failAt = some k
  calls : s.syncCalls ≤ k
  applied : ∃ evs, s.trace = s0.trace ++ evs ∧ syncApplied evs + s0.syncCalls ≤ s.syncCalls

/-- … and at an end: either still so, or the run has just ended `ckptFailed` on call `k`, the last
event being the update of that call. -/
def FQ (k : Nat) (s0 : St) (e : End) (s : St) : Prop :=
  FI k s0 s ∨
  (e = .ckptFailed ∧ s.failAt = some k ∧ s.syncCalls = k + 1 ∧
    ∃ evs u, s.trace = s0.trace ++ evs ++ [.upd u] ∧ u.sync = true ∧ syncApplied evs + s0.syncCalls ≤ k)

theorem syncApplied_append (a b : List Ev) : syncApplied (a ++ b) = syncApplied a + syncApplied b := by
  simp [syncApplied, List.countP_append]

theorem fi_append {k s0 s s'} (h : FI k s0 s) (evs : List Ev) (h1 : s'.failAt = s.failAt)
    (h2 : s'.trace = s.trace ++ evs) (h3 : s'.syncCalls ≤ k)
    (h4 : syncApplied evs + s.syncCalls ≤ s'.syncCalls) : FI k s0 s' := by
  obtain ⟨e1, t1, a1⟩ := h.applied
  refine ⟨by rw [h1, h.failAt], h3, e1 ++ evs, by rw [h2, t1, List.append_assoc], ?_⟩
  rw [syncApplied_append]; omega

theorem fi_emit {k s0 s e} (h : FI k s0 s) (he : isSyncApplied e = false) : FI k s0 (emit s e) :=
  fi_append h [e] rfl rfl h.calls (by simp [syncApplied, he])

theorem fi_tick {k s0 s s'} (h : FI k s0 s) (ht : tick s = some s') : FI k s0 s' := by
  rw [tick_some ht]
  exact fi_append h [] rfl (by simp) h.calls (by simp [syncApplied])

theorem fi_track {k s0 s p} (h : FI k s0 s) : FI k s0 (trackReplay s p) :=
  fi_append h [] (by simp) (by simp) (by simpa using h.calls) (by simp [syncApplied])

theorem fi_ck_ok {k s0 s u s'} (h : FI k s0 s) (hc : checkpoint s u = .ok s') : FI k s0 s' := by
  have hs := checkpoint_spec s u
  rw [hc] at hs
  cases hs with
  | asyncApplied t hs ha =>
    exact fi_append h [.upd u, .applied u] rfl (by simp) h.calls (by simp [syncApplied, isSyncApplied, hs])
  | asyncRejected hs ha =>
    exact fi_append h [.upd u, .rejected u] rfl (by simp) h.calls (by simp [syncApplied, isSyncApplied])
  | syncApplied t hs hf ha =>
    have h1 := h.failAt
    have h2 := h.calls
    have : s.syncCalls ≠ k := fun e => hf (by rw [h1, e])
    exact fi_append h [.upd u, .applied u] rfl (by simp) (by simp; omega)
      (by simp [syncApplied, isSyncApplied, hs] <;> omega)

theorem fi_ck_err {k s0 s u e s'} (h : FI k s0 s) (hc : checkpoint s u = .error (e, s')) : FQ k s0 e s' := by
  have hs := checkpoint_spec s u
  rw [hc] at hs
  have h1 := h.failAt
  have h2 := h.calls
  cases hs with
  | crashBefore hs =>
    exact Or.inl (fi_append h [.upd u] rfl rfl h.calls (by simp [syncApplied, isSyncApplied]))
  | fault hs hf =>
    obtain ⟨e1, t1, a1⟩ := h.applied
    have : s.syncCalls = k := by rw [h1] at hf; exact (Option.some.inj hf).symm
    exact Or.inr ⟨rfl, h1, by simp [this], e1, u, by simp [t1], hs, by omega⟩
  | rejected hs hf ha =>
    have : s.syncCalls ≠ k := fun e => hf (by rw [h1, e])
    exact Or.inl (fi_append h [.upd u, .rejected u] rfl (by simp) (by simp; omega)
      (by simp [syncApplied, isSyncApplied]))
  | crashAfter t hs hf ha =>
    have : s.syncCalls ≠ k := fun e => hf (by rw [h1, e])
    exact Or.inl (fi_append h [.upd u, .applied u] rfl (by simp) (by simp; omega)
      (by simp [syncApplied, isSyncApplied, hs] <;> omega))

syntax "fi_close" : tactic
macro_rules | `(tactic| fi_close) => `(tactic| first
  | assumption
  | (refine fi_track ?_; fi_close)
  | (refine fi_emit ?_ rfl; fi_close)
  | (refine fi_tick ?_ ‹_›; fi_close)
  | (refine fi_ck_ok ?_ ‹_›; fi_close))

theorem fi_deliverAt {k s0 s p o} (h : FI k s0 s) : Post (FI k s0) (FQ k s0) (deliverAt s p o) := by
  unfold deliverAt
  split <;> simp only [Post_deliver] <;> fi_close

syntax "fq_close" : tactic
macro_rules | `(tactic| fq_close) => `(tactic| first
  | (refine fi_ck_err ?_ ‹_›; fi_close)
  | (refine fi_deliverAt ?_; fi_close)
  | (refine Or.inl ?_; fi_close)
  | fi_close)

theorem fi_retryHandler {k s0 s p spec r e} (h : FI k s0 s) :
    Post (FI k s0) (FQ k s0) (retryHandler s p spec r e) := by
  unfold retryHandler
  dsimp only
  repeat' split
  all_goals try simp only [Post_deliver, Post_stop]
  all_goals fq_close

theorem fi_stepExecute {k s0 s p spec r} (h : FI k s0 s) :
    Post (FI k s0) (FQ k s0) (stepExecute s p spec r) := by
  unfold stepExecute
  dsimp only
  repeat' split
  all_goals try simp only [Post_deliver, Post_stop]
  all_goals first | fq_close | (refine fi_retryHandler ?_; fi_close)

theorem fi_wfcExecute {k s0 s p w r} (h : FI k s0 s) :
    Post (FI k s0) (FQ k s0) (wfcExecute s p w r) := by
  unfold wfcExecute
  dsimp only
  repeat' split
  all_goals try simp only [Post_deliver, Post_stop]
  all_goals fq_close

syntax "fq_close2" : tactic
macro_rules | `(tactic| fq_close2) => `(tactic| first
  | fq_close
  | (refine fi_retryHandler ?_; fi_close)
  | (refine fi_stepExecute ?_; fi_close)
  | (refine fi_wfcExecute ?_; fi_close))

theorem fi_handleStep {k s0 s p spec} (h : FI k s0 s) : Post (FI k s0) (FQ k s0) (handleStep s p spec) := by
  unfold handleStep
  repeat' split
  all_goals try simp only [Post_deliver, Post_stop]
  all_goals fq_close2

theorem fi_handleWait {k s0 s p secs} (h : FI k s0 s) : Post (FI k s0) (FQ k s0) (handleWait s p secs) := by
  unfold handleWait
  repeat' split
  all_goals try simp only [Post_deliver, Post_stop]
  all_goals fq_close2

theorem fi_handleInvoke {k s0 s p v} (h : FI k s0 s) : Post (FI k s0) (FQ k s0) (handleInvoke s p v) := by
  unfold handleInvoke invokeTerminal
  repeat' split
  all_goals try simp only [Post_deliver, Post_stop, Option.getD]
  all_goals fq_close2

theorem fi_handleWfc {k s0 s p w} (h : FI k s0 s) : Post (FI k s0) (FQ k s0) (handleWfc s p w) := by
  unfold handleWfc
  dsimp only
  repeat' split
  all_goals try simp only [Post_deliver, Post_stop]
  all_goals fq_close2

theorem fi_handleCbRes {k s0 s hd} (h : FI k s0 s) : Post (FI k s0) (FQ k s0) (handleCbRes s hd) := by
  unfold handleCbRes
  dsimp only
  repeat' split
  all_goals try simp only [Post_deliver, Post_stop]
  all_goals fq_close2

theorem fi_handleCbNew {k s0 s p} (h : FI k s0 s) : PostE (FI k s0) (FQ k s0) (handleCbNew s p) := by
  unfold handleCbNew
  repeat' split
  all_goals try simp only [PostE_ok, PostE_error]
  all_goals fq_close2

theorem fi_childBefore {k s0 s p} (h : FI k s0 s) : PostC (FI k s0) (FQ k s0) (childBefore s p) := by
  unfold childBefore
  repeat' split
  all_goals try simp only [PostC_inl, PostC_inr, Post_deliver, Post_stop]
  all_goals fq_close2

theorem fi_childAfter {k s0 s p c m e} (h : FQ k s0 e s) : Post (FI k s0) (FQ k s0) (childAfter s p c m e) := by
  unfold childAfter
  split
  · have h : FI k s0 s := by
      rcases h with h | ⟨h, _⟩
      · exact h
      · cases h
    dsimp only
    repeat' split
    all_goals try simp only [Post_deliver, Post_stop]
    all_goals fq_close2
  · have h : FI k s0 s := by
      rcases h with h | ⟨h, _⟩
      · exact h
      · cases h
    repeat' split
    all_goals try simp only [Post_deliver, Post_stop]
    all_goals fq_close2
  · exact h

theorem fi_run (k : Nat) (p : Prog) (ctx : Pos) (n : Nat) (s : St) (hf : s.failAt = some k)
    (hk : s.syncCalls ≤ k) : FQ k s (run p ctx n s).1 (run p ctx n s).2 :=
  run_ind (FI k s) (FQ k s) (fun _ _ h => Or.inl h) (fun _ _ h => Or.inl h)
    (fun _ _ _ h => fi_emit h rfl)
    (fun _ _ _ h => fi_handleStep h)
    (fun _ _ _ h => fi_handleWait h)
    (fun _ _ h => fi_handleCbNew h)
    (fun _ _ h => fi_handleCbRes h)
    (fun _ _ _ h => fi_handleInvoke h)
    (fun _ _ _ h => fi_handleWfc h)
    (fun _ _ h => fi_childBefore h)
    (fun _ _ _ _ _ _ _ _ _ _ _ h => fi_childAfter h)
    p ctx n s ⟨hf, hk, [], by simp, by simp [syncApplied]⟩

/-! ## The C01 invariant -/

/-- What a call at a position holding a `Done` record `r` can deliver, whatever the kind of the
calling handler: the recorded outcome (step / wait-for-condition / invoke / child context /
`Callback.result` of a succeeded callback), the handle token of `create_callback`, `None` for a
wait, or a `CallbackError` built from the recorded error for `Callback.result` of a failed one. -/
def Shape (r : OpRec) (o : Outcome) : Prop :=
  o = outcomeOf r ∨ o = .ok "cb" ∨ (r.status = .succeeded ∧ o = .ok noneVal) ∨
  (r.status = .failed ∧ ∃ m, o = .err { cls := "CallbackError", msg := m })

/-- Invariant for C01: the record at `q` is still `r`, and the events appended since `s0` neither
enter nor update `q`, and deliver at `q` only outcomes of the allowed shapes. -/
structure Quiet (q : Pos) (r : OpRec) (s0 s : St) : Prop where
  recd : lookup s.tbl q = some r
  trace : ∃ evs, s.trace = s0.trace ++ evs ∧ noTouch q evs = true ∧ ∀ o, Ev.deliver q o ∈ evs → Shape r o

theorem evAt_ne {p q : Pos} {e : Ev} (he : EvAt p e) (hpq : p ≠ q) :
    e.isEnterAt q = false ∧ e.isUpdAt q = false ∧ ∀ o, e ≠ .deliver q o := by
  cases e <;> simp_all [EvAt, Ev.isEnterAt, Ev.isUpdAt]

theorem noTouch_append (q : Pos) (a b : List Ev) : noTouch q (a ++ b) = (noTouch q a && noTouch q b) := by
  simp [noTouch, List.all_append]

theorem quiet_append {q r s0 s s'} (h : Quiet q r s0 s) (hrec : lookup s'.tbl q = some r)
    (evs : List Ev) (ht : s'.trace = s.trace ++ evs) (hn : noTouch q evs = true)
    (hd : ∀ o, Ev.deliver q o ∈ evs → Shape r o) : Quiet q r s0 s' := by
  obtain ⟨e1, t1, n1, d1⟩ := h.trace
  refine ⟨hrec, e1 ++ evs, by rw [ht, t1, List.append_assoc], by rw [noTouch_append, n1, hn]; rfl, ?_⟩
  intro o ho
  rcases List.mem_append.mp ho with ho | ho
  · exact d1 o ho
  · exact hd o ho

theorem quiet_frame {p q r s0 s s'} (h : Quiet q r s0 s) (hf : Frame p s s') (hpq : p ≠ q)
    (ht : r.status.terminal = true) : Quiet q r s0 s' := by
  obtain ⟨evs, t2, a2⟩ := hf.trace
  refine quiet_append h (hf.term q r h.recd ht) evs t2 ?_ ?_
  · simp only [noTouch, List.all_eq_true]
    intro e he
    obtain ⟨h1, h2, _⟩ := evAt_ne (a2 e he) hpq
    simp [h1, h2]
  · intro o ho
    exact absurd rfl ((evAt_ne (a2 _ ho) hpq).2.2 o)

theorem quiet_deliver {q r s0 s o} (h : Quiet q r s0 s) (ho : Shape r o) :
    Quiet q r s0 (emit s (.deliver q o)) := by
  refine quiet_append h h.recd [.deliver q o] rfl (by simp [noTouch, Ev.isEnterAt, Ev.isUpdAt]) ?_
  intro o' ho'
  simp only [List.mem_singleton, Ev.deliver.injEq, true_and] at ho'
  exact ho' ▸ ho

theorem quiet_track {q r s0 s p} (h : Quiet q r s0 s) : Quiet q r s0 (trackReplay s p) :=
  quiet_append h (by simpa using h.recd) [] (by simp) rfl (by simp)

theorem quiet_deliverAt {q r s0 s o} (h : Quiet q r s0 s) (ho : Shape r o) :
    Quiet q r s0 (deliverAt s q o).st := by
  unfold deliverAt
  split <;> first | exact quiet_track (quiet_deliver h ho) | exact quiet_deliver h ho

theorem quiet_log {q r s0 s ctx m} (h : Quiet q r s0 s) : Quiet q r s0 (doLog s ctx m) :=
  quiet_append h h.recd [_] rfl (by simp [noTouch, Ev.isEnterAt, Ev.isUpdAt]) (by simp)

/-! ## Same invocation (C01) -/

/-- A terminal update that is not a ReplayChildren success. -/
def TermU (u : Upd) : Bool := u.isTerminal && !(u.action == .succeed && u.replayChildren)

/-- A succeeded / failed record without the ReplayChildren mark. -/
def DoneNR (r : OpRec) : Bool := Done r && !(r.status == .succeeded && r.replayChildren)

/-- Trace monitor: after `applied u` with `TermU u`, no `enter` at `u.pos`. -/
def good : List Ev → Bool
  | [] => true
  | .applied u :: rest => (!TermU u || rest.all (fun e => !e.isEnterAt u.pos)) && good rest
  | _ :: rest => good rest

theorem good_cons_other {e : Ev} {rest : List Ev} (h : ∀ u, e ≠ .applied u) : good (e :: rest) = good rest := by
  cases e <;> first | rfl | exact absurd rfl (h _)

theorem good_append {a b : List Ev} (ha : good a = true) (hb : good b = true)
    (hab : ∀ u, Ev.applied u ∈ a → TermU u = true → ∀ e ∈ b, e.isEnterAt u.pos = false) :
    good (a ++ b) = true := by
  induction a with
  | nil => simpa using hb
  | cons x a ih =>
    have ih' := fun h1 => ih h1 (fun u hu => hab u (List.mem_cons_of_mem _ hu))
    cases x with
    | applied u =>
      simp only [good, Bool.and_eq_true, Bool.or_eq_true, Bool.not_eq_eq_eq_not, Bool.not_true,
        List.all_eq_true] at ha
      simp only [List.cons_append, good, Bool.and_eq_true, Bool.or_eq_true, Bool.not_eq_eq_eq_not,
        Bool.not_true, List.all_eq_true, List.mem_append]
      refine ⟨?_, ih' ha.2⟩
      rcases ha.1 with h | h
      · exact Or.inl h
      · by_cases ht : TermU u = true
        · refine Or.inr (fun e he => ?_)
          rcases he with he | he
          · exact h e he
          · simp [hab u (List.mem_cons_self) ht e he]
        · exact Or.inl (by simpa using ht)
    | enter _ _ _ _ => exact ih' ha
    | upd _ => exact ih' ha
    | rejected _ => exact ih' ha
    | deliver _ _ => exact ih' ha
    | logged _ _ _ => exact ih' ha

theorem good_decomp {pre post : List Ev} {u : Upd} (h : good (pre ++ .applied u :: post) = true)
    (ht : TermU u = true) : ∀ e ∈ post, e.isEnterAt u.pos = false := by
  induction pre with
  | nil =>
    simp only [List.nil_append, good, ht, Bool.not_true, Bool.false_or, Bool.and_eq_true,
      List.all_eq_true] at h
    intro e he
    simpa using h.1 e he
  | cons x pre ih =>
    apply ih
    cases x with
    | applied v =>
      simp only [List.cons_append, good, Bool.and_eq_true] at h
      exact h.2
    | enter _ _ _ _ => exact h
    | upd _ => exact h
    | rejected _ => exact h
    | deliver _ _ => exact h
    | logged _ _ _ => exact h

/-- Invariant for C01 (same invocation), relative to the start state `s0`. -/
structure SI (s0 s : St) : Prop where
  trace : ∃ evs, s.trace = s0.trace ++ evs ∧ good evs = true ∧
    ∀ u, Ev.applied u ∈ evs → TermU u = true → ∃ r, lookup s.tbl u.pos = some r ∧ DoneNR r = true

theorem DoneNR_terminal {r : OpRec} (h : DoneNR r = true) : r.status.terminal = true := by
  simp only [DoneNR, Done, Bool.and_eq_true, Bool.or_eq_true, beq_iff_eq] at h
  rcases h.1 with h | h <;> simp [h, Status.terminal]

theorem si_refl (s : St) : SI s s := ⟨[], by simp, rfl, by simp⟩

theorem si_append {s0 s s' : St} (h : SI s0 s) (evs2 : List Ev) (ht : s'.trace = s.trace ++ evs2)
    (hterm : ∀ q r, lookup s.tbl q = some r → r.status.terminal = true → lookup s'.tbl q = some r)
    (hg : good evs2 = true)
    (hnew : ∀ u, Ev.applied u ∈ evs2 → TermU u = true → ∃ r, lookup s'.tbl u.pos = some r ∧ DoneNR r = true)
    (hold : ∀ q r, lookup s.tbl q = some r → DoneNR r = true → ∀ e ∈ evs2, e.isEnterAt q = false) :
    SI s0 s' := by
  obtain ⟨evs, t1, g1, r1⟩ := h.trace
  refine ⟨evs ++ evs2, by rw [ht, t1, List.append_assoc], ?_, ?_⟩
  · refine good_append g1 hg (fun u hu htu e he => ?_)
    obtain ⟨r, hl, hd⟩ := r1 u hu htu
    exact hold u.pos r hl hd e he
  · intro u hu htu
    rcases List.mem_append.mp hu with hu | hu
    · obtain ⟨r, hl, hd⟩ := r1 u hu htu
      exact ⟨r, hterm _ r hl (DoneNR_terminal hd), hd⟩
    · exact hnew u hu htu

/-- The record at `p`, if any, is not a finished one (so no terminal update was applied at `p`). -/
def Open (s : St) (p : Pos) : Prop := ∀ r, lookup s.tbl p = some r → DoneNR r = false

theorem si_emit_other {s0 s e} (h : SI s0 s) (he : ∀ q, e.isEnterAt q = false) (ha : ∀ u, e ≠ .applied u) :
    SI s0 (emit s e) :=
  si_append h [e] rfl (fun _ _ hl _ => hl) (by rw [good_cons_other ha]; rfl)
    (fun u hu _ => by simp only [List.mem_singleton] at hu; exact absurd hu.symm (ha u))
    (fun q _ _ _ e' he' => by simp only [List.mem_singleton] at he'; rw [he']; exact he q)

theorem si_emit_enter {s0 s p k a st} (h : SI s0 s) (ho : Open s p) : SI s0 (emit s (.enter p k a st)) :=
  si_append h [_] rfl (fun _ _ hl _ => hl) rfl
    (fun u hu _ => by simp at hu)
    (fun q r hl hd e' he' => by
      simp only [List.mem_singleton] at he'
      subst he'
      simp only [Ev.isEnterAt, beq_eq_false_iff_ne, ne_eq]
      rintro rfl
      rw [ho r hl] at hd; cases hd)

theorem si_tick {s0 s s'} (h : SI s0 s) (ht : tick s = some s') : SI s0 s' := by
  rw [tick_some ht]
  exact si_append h [] (by simp) (fun _ _ hl _ => hl) rfl (by simp) (by simp)

theorem si_track {s0 s p} (h : SI s0 s) : SI s0 (trackReplay s p) :=
  si_append h [] (by simp) (fun _ _ hl _ => by simpa using hl) rfl (by simp) (by simp)

theorem newRec_termU {o : Option OpRec} {u : Upd} {imm : Backend.Immediate} {r' : OpRec}
    (h : newRec o u imm = some r') (ht : TermU u = true) : DoneNR r' = true := by
  simp only [TermU, Upd.isTerminal, Bool.and_eq_true, Bool.or_eq_true, beq_iff_eq,
    Bool.not_eq_eq_eq_not, Bool.not_true, Bool.and_eq_false_iff] at ht
  unfold newRec at h
  rcases ht.1 with ha | ha <;> rw [ha] at h <;> cases o <;> simp only at h
  · cases h
  · split at h
    · cases h
      rcases ht.2 with h2 | h2
      · rw [ha] at h2; simp at h2
      · simp [DoneNR, Done, h2]
    · cases h
  · cases h
  · split at h
    · cases h; simp [DoneNR, Done]
    · cases h

theorem good_pair {u : Upd} {e : Ev} (h1 : ∀ v, e ≠ .applied v) : good [.upd u, e] = true := by
  rw [good_cons_other (by simp), good_cons_other h1]; rfl

theorem si_ckOk {s0 s u s'} (h : SI s0 s) (hc : CkOk s u s') : SI s0 s' := by
  cases hc with
  | asyncApplied t hs ha =>
    obtain ⟨r', h1, h2⟩ := apply_lookup_self ha
    refine si_append h [.upd u, .applied u] (by simp) (fun q r hl ht => apply_terminal ha hl ht)
      (by simp [good, Ev.isEnterAt]) ?_ (by simp [Ev.isEnterAt])
    intro v hv htv
    simp only [List.mem_cons, reduceCtorEq, Ev.applied.injEq, List.not_mem_nil, or_false, false_or] at hv
    subst hv
    exact ⟨r', h2, newRec_termU h1 htv⟩
  | asyncRejected hs ha =>
    exact si_append h [.upd u, .rejected u] (by simp) (fun _ _ hl _ => hl) (good_pair (by simp))
      (by simp) (by simp [Ev.isEnterAt])
  | syncApplied t hs hf ha =>
    obtain ⟨r', h1, h2⟩ := apply_lookup_self ha
    refine si_append h [.upd u, .applied u] (by simp) (fun q r hl ht => apply_terminal ha hl ht)
      (by simp [good, Ev.isEnterAt]) ?_ (by simp [Ev.isEnterAt])
    intro v hv htv
    simp only [List.mem_cons, reduceCtorEq, Ev.applied.injEq, List.not_mem_nil, or_false, false_or] at hv
    subst hv
    exact ⟨r', h2, newRec_termU h1 htv⟩

theorem si_ckErr {s0 s u e s'} (h : SI s0 s) (hc : CkErr s u e s') : SI s0 s' := by
  cases hc with
  | crashBefore hs =>
    exact si_append h [.upd u] rfl (fun _ _ hl _ => hl) rfl (by simp) (by simp [Ev.isEnterAt])
  | fault hs hf =>
    exact si_append h [.upd u] rfl (fun _ _ hl _ => hl) rfl (by simp) (by simp [Ev.isEnterAt])
  | rejected hs hf ha =>
    exact si_append h [.upd u, .rejected u] (by simp) (fun _ _ hl _ => hl) (good_pair (by simp))
      (by simp) (by simp [Ev.isEnterAt])
  | crashAfter t hs hf ha =>
    obtain ⟨r', h1, h2⟩ := apply_lookup_self ha
    refine si_append h [.upd u, .applied u] (by simp) (fun q r hl ht => apply_terminal ha hl ht)
      (by simp [good, Ev.isEnterAt]) ?_ (by simp [Ev.isEnterAt])
    intro v hv htv
    simp only [List.mem_cons, reduceCtorEq, Ev.applied.injEq, List.not_mem_nil, or_false, false_or] at hv
    subst hv
    exact ⟨r', h2, newRec_termU h1 htv⟩

theorem si_ck_ok {s0 s u s'} (h : SI s0 s) (hc : checkpoint s u = .ok s') : SI s0 s' := by
  have := checkpoint_spec s u
  rw [hc] at this
  exact si_ckOk h this

theorem si_ck_err {s0 s u e s'} (h : SI s0 s) (hc : checkpoint s u = .error (e, s')) : SI s0 s' := by
  have := checkpoint_spec s u
  rw [hc] at this
  exact si_ckErr h this


theorem open_ck_start {s u s' p} (hc : checkpoint s u = .ok s') (ha : u.action = .start) (hp : u.pos = p)
    (hk : u.kind = .step ∨ u.kind = .wfc ∨ u.kind = .context) (ho : Open s p) : Open s' p := by
  have h := checkpoint_spec s u
  rw [hc] at h
  subst hp
  have key : ∀ t, Backend.apply s.tbl u (s.imm u.pos) = some t → ∀ r, lookup t u.pos = some r → DoneNR r = false := by
    intro t hat r hl
    obtain ⟨r', h1, h2⟩ := apply_lookup_self hat
    rw [h2] at hl; cases hl
    have := (newRec_asyncStart h1 ha hk).1
    cases hd : DoneNR r
    · rfl
    · rw [DoneNR_terminal hd] at this; cases this
  cases h with
  | asyncApplied t hs hat => exact key t hat
  | asyncRejected hs hat => exact ho
  | syncApplied t hs hf hat => exact key t hat

theorem si_deliverAt {s0 s p o} (h : SI s0 s) : SI s0 (deliverAt s p o).st := by
  unfold deliverAt
  split <;> first
    | exact si_track (si_emit_other h (fun _ => rfl) (by simp))
    | exact si_emit_other h (fun _ => rfl) (by simp)

syntax "open_close" : tactic
macro_rules | `(tactic| open_close) => `(tactic| first
  | assumption
  | (refine open_ck_start ‹checkpoint _ _ = .ok _› rfl rfl (by simp) ?_; open_close)
  | (intro r' hl; simp_all [DoneNR, Done]))

syntax "si_close" : tactic
macro_rules | `(tactic| si_close) => `(tactic| first
  | assumption
  | (refine si_deliverAt ?_; si_close)
  | (refine si_track ?_; si_close)
  | (refine si_emit_enter ?_ (by open_close); si_close)
  | (refine si_emit_other ?_ (fun _ => rfl) (by simp); si_close)
  | (refine si_tick ?_ ‹_›; si_close)
  | (refine si_ck_ok ?_ ‹_›; si_close)
  | (refine si_ck_err ?_ ‹_›; si_close))

theorem si_retryHandler {s0 s p spec r e} (h : SI s0 s) : SI s0 (retryHandler s p spec r e).st := by
  unfold retryHandler
  dsimp only
  repeat' split
  all_goals try simp only [st_deliver, st_stop]
  all_goals si_close

theorem si_stepExecute {s0 s p spec r} (h : SI s0 s) (ho : Open s p) : SI s0 (stepExecute s p spec r).st := by
  unfold stepExecute
  dsimp only
  repeat' split
  all_goals try simp only [st_deliver, st_stop]
  all_goals first | si_close | (refine si_retryHandler ?_; si_close)

theorem si_wfcExecute {s0 s p w r} (h : SI s0 s) (ho : Open s p) : SI s0 (wfcExecute s p w r).st := by
  unfold wfcExecute
  dsimp only
  repeat' split
  all_goals try simp only [st_deliver, st_stop]
  all_goals si_close

syntax "si_close2" : tactic
macro_rules | `(tactic| si_close2) => `(tactic| first
  | si_close
  | (refine si_retryHandler ?_; si_close)
  | (refine si_stepExecute ?_ (by open_close); si_close)
  | (refine si_wfcExecute ?_ (by open_close); si_close))

theorem si_handleStep {s0 s p spec} (h : SI s0 s) : SI s0 (handleStep s p spec).st := by
  unfold handleStep
  repeat' split
  all_goals try simp only [st_deliver, st_stop]
  all_goals si_close2

theorem si_handleWfc {s0 s p w} (h : SI s0 s) : SI s0 (handleWfc s p w).st := by
  unfold handleWfc
  dsimp only
  repeat' split
  all_goals try simp only [st_deliver, st_stop]
  all_goals si_close2

theorem si_handleWait {s0 s p secs} (h : SI s0 s) : SI s0 (handleWait s p secs).st := by
  unfold handleWait
  repeat' split
  all_goals try simp only [st_deliver, st_stop]
  all_goals si_close2

theorem si_handleInvoke {s0 s p v} (h : SI s0 s) : SI s0 (handleInvoke s p v).st := by
  unfold handleInvoke invokeTerminal
  repeat' split
  all_goals try simp only [st_deliver, st_stop, Option.getD]
  all_goals si_close2

theorem si_handleCbRes {s0 s hd} (h : SI s0 s) : SI s0 (handleCbRes s hd).st := by
  unfold handleCbRes
  dsimp only
  repeat' split
  all_goals try simp only [st_deliver, st_stop]
  all_goals si_close2

theorem si_handleCbNew {s0 s p} (h : SI s0 s) : SI s0 (Except.st (handleCbNew s p)) := by
  unfold handleCbNew
  repeat' split
  all_goals try simp only [st_ok, st_error]
  all_goals si_close2

theorem si_childBefore {s0 s p} (h : SI s0 s) : SI s0 (childSt (childBefore s p)) := by
  unfold childBefore
  repeat' split
  all_goals try simp only [st_inl, st_inr, st_deliver, st_stop]
  all_goals si_close2

theorem si_childAfter {s0 s p c m e} (h : SI s0 s) : SI s0 (childAfter s p c m e).st := by
  unfold childAfter
  dsimp only
  repeat' split
  all_goals try simp only [st_deliver, st_stop]
  all_goals si_close2

theorem si_run (p : Prog) (ctx : Pos) (n : Nat) (s : St) : SI s (run p ctx n s).2 :=
  run_inv (SI s)
    (fun _ _ _ h => si_emit_other h (fun _ => rfl) (by simp))
    (fun _ _ _ h => si_handleStep h)
    (fun _ _ _ h => si_handleWait h)
    (fun _ _ h => si_handleCbNew h)
    (fun _ _ h => si_handleCbRes h)
    (fun _ _ _ h => si_handleInvoke h)
    (fun _ _ _ h => si_handleWfc h)
    (fun _ _ h => si_childBefore h)
    (fun _ _ _ _ _ _ _ _ _ _ _ h => si_childAfter h)
    p ctx n s (si_refl s)

end EngineRun
