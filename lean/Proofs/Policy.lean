import DurableModel.Policy
/-!
# Proofs about the completion-policy model (property C09, pure part)

Everything here is about `DurableModel/Policy.lean`; the theorems of `Props/C09.lean` are thin
corollaries.  Core Lean only.
-/
namespace PolicyProofs
open Policy

/-! ## items -/

variable {ρ ε : Type}

@[simp] theorem idx_itemOf (i : Nat) (b : Branch ρ ε) : (itemOf i b).idx = i := by
  cases b <;> rfl

@[simp] theorem length_itemsFrom (i : Nat) (bs : List (Branch ρ ε)) :
    (itemsFrom i bs).length = bs.length := by
  induction bs generalizing i with
  | nil => rfl
  | cons b bs ih => simp [itemsFrom, ih]

theorem map_idx_itemsFrom (i : Nat) (bs : List (Branch ρ ε)) :
    (itemsFrom i bs).map Item.idx = List.range' i bs.length := by
  induction bs generalizing i with
  | nil => rfl
  | cons b bs ih => simp [itemsFrom, ih, List.range'_succ]

theorem getElem?_itemsFrom (i k : Nat) (bs : List (Branch ρ ε)) :
    (itemsFrom i bs)[k]? = bs[k]?.map (itemOf (i + k)) := by
  induction bs generalizing i k with
  | nil => simp [itemsFrom]
  | cons b bs ih =>
    cases k with
    | zero => simp [itemsFrom]
    | succ k =>
      simp only [itemsFrom, List.getElem?_cons_succ, ih]
      rw [Nat.add_assoc, Nat.add_comm 1 k]

/-- Every item is exactly one of succeeded / failed / started. -/
theorem counts_total (is : List (Item ρ ε)) : countS is + countF is + countT is = is.length := by
  induction is with
  | nil => rfl
  | cons x xs ih =>
    simp only [countS, countF, countT] at ih ⊢
    cases x <;> simp <;> omega

/-! ## decision logic -/

/-- The percentage test is monotone in the number of failures. -/
theorem pctExceeded_succ {f n : Nat} {p : Nat × Nat} (h : pctExceeded f n p = true) :
    pctExceeded (f + 1) n p = true := by
  simp only [pctExceeded, Bool.and_eq_true, decide_eq_true_eq] at h ⊢
  refine ⟨h.1, Nat.lt_of_lt_of_le h.2 ?_⟩
  exact Nat.mul_le_mul_right _ (Nat.mul_le_mul_right _ (Nat.le_succ f))

theorem countExceeded_succ {f c : Nat} (h : countExceeded f c = true) :
    countExceeded (f + 1) c = true := by
  simp only [countExceeded, decide_eq_true_eq] at h ⊢
  omega

/-- `!should_continue` is exactly "tolerance exceeded". -/
theorem not_shouldContinue_eq (cfg : Cfg) (f n : Nat) :
    (!shouldContinue cfg f n) = toleranceExceeded cfg f n := by
  unfold shouldContinue toleranceExceeded
  cases cfg.tolCount <;> cases cfg.tolPct
  · cases f <;> simp
  · simp
  · simp
  · simp

theorem toleranceExceeded_succ {cfg : Cfg} {f n : Nat} (h : toleranceExceeded cfg f n = true) :
    toleranceExceeded cfg (f + 1) n = true := by
  unfold toleranceExceeded at h ⊢
  cases hc : cfg.tolCount <;> cases hp : cfg.tolPct <;> simp [hc, hp] at h ⊢
  · exact pctExceeded_succ h
  · exact countExceeded_succ h
  · rcases h with h | h
    · exact Or.inl (countExceeded_succ h)
    · exact Or.inr (pctExceeded_succ h)

end PolicyProofs
