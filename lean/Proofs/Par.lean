import DurableModel.Par
import Proofs.Policy
import Props.C09
/-!
# Proofs about the concurrent-executor model (`DurableModel/Par.lean`)

One inductive invariant `Inv` (bookkeeping part `Book` + control part), one preservation lemma per
action, `Reach → Inv`.  The theorems of `Props/C09X.lean` are corollaries.  Core Lean only.
-/
namespace ParProofs
open Par

/-! ## counting statuses -/

def isCompleted : BSt → Bool
  | .completed => true
  | _ => false

def isFailed : BSt → Bool
  | .failed => true
  | _ => false

/-- Number of `i < n` whose status `f i` satisfies `p`. -/
def cnt (p : BSt → Bool) (f : Nat → BSt) (n : Nat) : Nat := ((List.range n).map f).countP p

@[simp] theorem cnt_zero (p : BSt → Bool) (f : Nat → BSt) : cnt p f 0 = 0 := rfl

theorem cnt_succ (p : BSt → Bool) (f : Nat → BSt) (n : Nat) :
    cnt p f (n + 1) = cnt p f n + (if p (f n) then 1 else 0) := by
  simp [cnt, List.range_succ, List.countP_append, List.countP_singleton]

theorem cnt_congr {p : BSt → Bool} {f g : Nat → BSt} {n : Nat}
    (h : ∀ j, j < n → p (f j) = p (g j)) : cnt p f n = cnt p g n := by
  induction n with
  | zero => rfl
  | succ n ih =>
    rw [cnt_succ, cnt_succ, ih (fun j hj => h j (Nat.lt_succ_of_lt hj)), h n (Nat.lt_succ_self n)]

/-- The update lemma: changing the status of one branch `i < n`. -/
theorem cnt_update (p : BSt → Bool) (f : Nat → BSt) (b : BSt) {i n : Nat} (hi : i < n) :
    cnt p (fun x => if x = i then b else f x) n + (if p (f i) then 1 else 0)
      = cnt p f n + (if p b then 1 else 0) := by
  induction n with
  | zero => omega
  | succ n ih =>
    rw [cnt_succ, cnt_succ]
    by_cases h : i = n
    · subst h
      have : cnt p (fun x => if x = i then b else f x) i = cnt p f i :=
        cnt_congr (fun j hj => by simp [Nat.ne_of_lt hj])
      simp only [this, if_true]
      omega
    · have hi' : i < n := by omega
      have := ih hi'
      have hne : ¬ n = i := fun e => h e.symm
      simp only [hne, if_false]
      omega

theorem cnt_le (p : BSt → Bool) (f : Nat → BSt) (n : Nat) : cnt p f n ≤ n := by
  induction n with
  | zero => simp
  | succ n ih => rw [cnt_succ]; split <;> omega

theorem cnt_add_le {p q : BSt → Bool} (hpq : ∀ b, p b = true → q b = true → False)
    (f : Nat → BSt) (n : Nat) : cnt p f n + cnt q f n ≤ n := by
  induction n with
  | zero => simp
  | succ n ih =>
    rw [cnt_succ, cnt_succ]
    have := hpq (f n)
    by_cases h1 : p (f n) = true <;> by_cases h2 : q (f n) = true <;> simp [h1, h2] <;>
      first | omega | exact absurd (this h1 h2) id

theorem cnt_add_eq {p q : BSt → Bool} (hpq : ∀ b, p b = true → q b = true → False)
    (f : Nat → BSt) (n : Nat) (hall : ∀ i, i < n → p (f i) = true ∨ q (f i) = true) :
    cnt p f n + cnt q f n = n := by
  induction n with
  | zero => simp
  | succ n ih =>
    rw [cnt_succ, cnt_succ]
    have ih := ih (fun i hi => hall i (Nat.lt_succ_of_lt hi))
    have := hpq (f n)
    by_cases h1 : p (f n) = true <;> by_cases h2 : q (f n) = true <;> simp [h1, h2]
    · exact absurd (this h1 h2) id
    · omega
    · omega
    · rcases hall n (Nat.lt_succ_self n) with h | h
      · exact absurd h h1
      · exact absurd h h2

theorem isCompleted_isFailed (b : BSt) : isCompleted b = true → isFailed b = true → False := by
  cases b <;> simp [isCompleted, isFailed]

theorem cnt_eq_countP (p : BSt → Bool) (f : Nat → BSt) (n : Nat) :
    cnt p f n = ((List.range n).map f).countP p := rfl

/-! ## small list facts -/

theorem foldl_min_le (ts : List Nat) (t : Nat) :
    ts.foldl min t ≤ t ∧ ∀ x, x ∈ ts → ts.foldl min t ≤ x := by
  induction ts generalizing t with
  | nil => simp
  | cons a ts ih =>
    simp only [List.foldl_cons, List.mem_cons]
    have h := ih (min t a)
    refine ⟨Nat.le_trans h.1 (Nat.min_le_left _ _), ?_⟩
    intro x hx
    rcases hx with rfl | hx
    · exact Nat.le_trans h.1 (Nat.min_le_right _ _)
    · exact h.2 x hx

theorem foldl_min_mem (ts : List Nat) (t : Nat) : ts.foldl min t = t ∨ ts.foldl min t ∈ ts := by
  induction ts generalizing t with
  | nil => simp
  | cons a ts ih =>
    simp only [List.foldl_cons, List.mem_cons]
    rcases ih (min t a) with h | h
    · rw [h]
      rcases Nat.le_total t a with hle | hle
      · left; exact Nat.min_eq_left hle
      · right; left; exact Nat.min_eq_right hle
    · right; right; exact h

theorem foldl_sel_mem {α : Type} (g : α → α → α) (hg : ∀ a b, g a b = a ∨ g a b = b)
    (ds : List α) (d : α) : ds.foldl g d = d ∨ ds.foldl g d ∈ ds := by
  induction ds generalizing d with
  | nil => simp
  | cons a ds ih =>
    simp only [List.foldl_cons, List.mem_cons]
    rcases ih (g d a) with h | h
    · rw [h]
      rcases hg d a with h' | h'
      · left; exact h'
      · right; left; exact h'
    · right; right; exact h

/-! ## `shouldSuspend` -/

/-- `shouldSuspend` on the list of statuses. -/
def ssL (sts : List BSt) : Option (Option Nat) :=
  if sts.any (fun b => b == .pending || b == .running) then none
  else
    let times := sts.filterMap (fun b => match b with | .suspendedUntil t => some t | _ => none)
    match times with
    | t :: ts => some (some (ts.foldl min t))
    | [] => if sts.any (fun b => b == .suspended) then some none else none

theorem shouldSuspend_eq (s : St) : shouldSuspend s = ssL ((List.range s.n).map s.status) := rfl

theorem mem_times {sts : List BSt} {t : Nat} :
    t ∈ sts.filterMap (fun b => match b with | .suspendedUntil t => some t | _ => none)
      ↔ BSt.suspendedUntil t ∈ sts := by
  rw [List.mem_filterMap]
  constructor
  · rintro ⟨b, hb, h⟩
    cases b <;> simp at h
    subst h; exact hb
  · intro h
    exact ⟨_, h, rfl⟩

theorem ssL_some {sts : List BSt} {k : Option Nat} (h : ssL sts = some k) :
    (∀ b, b ∈ sts → b ≠ .pending ∧ b ≠ .running) ∧
    (match k with
     | some m => BSt.suspendedUntil m ∈ sts ∧ ∀ t, BSt.suspendedUntil t ∈ sts → m ≤ t
     | none => (∀ t, BSt.suspendedUntil t ∉ sts) ∧ BSt.suspended ∈ sts) := by
  unfold ssL at h
  split at h
  · simp at h
  · rename_i hany
    refine ⟨?_, ?_⟩
    · intro b hb
      constructor <;> (intro e; subst e; exact hany (List.any_eq_true.2 ⟨_, hb, by simp⟩))
    · simp only at h
      split at h
      · rename_i t ts heq
        simp only [Option.some.injEq] at h
        subst h
        have hmem : ∀ x, x ∈ t :: ts ↔ BSt.suspendedUntil x ∈ sts := by
          intro x; rw [← heq]; exact mem_times
        refine ⟨?_, ?_⟩
        · rcases foldl_min_mem ts t with e | e
          · rw [e]; exact (hmem t).1 (by simp)
          · exact (hmem _).1 (List.mem_cons_of_mem _ e)
        · intro x hx
          have := (hmem x).2 hx
          rcases List.mem_cons.1 this with rfl | hx'
          · exact (foldl_min_le ts x).1
          · exact (foldl_min_le ts t).2 x hx'
      · rename_i heq
        split at h
        · rename_i hs
          simp only [Option.some.injEq] at h
          subst h
          refine ⟨?_, ?_⟩
          · intro t ht
            have := mem_times.2 ht
            rw [heq] at this
            simp at this
          · rcases List.any_eq_true.1 hs with ⟨b, hb, hbe⟩
            have : b = .suspended := by simpa using hbe
            subst this; exact hb
        · simp at h

theorem ssL_none {sts : List BSt} (h : ssL sts = none) :
    (∃ b, b ∈ sts ∧ (b = .pending ∨ b = .running)) ∨
    (∀ b, b ∈ sts → (∀ t, b ≠ .suspendedUntil t) ∧ b ≠ .suspended) := by
  unfold ssL at h
  split at h
  · rename_i hany
    left
    rcases List.any_eq_true.1 hany with ⟨b, hb, hbe⟩
    exact ⟨b, hb, by simpa using hbe⟩
  · right
    simp only at h
    split at h
    · simp at h
    · rename_i heq
      split at h
      · simp at h
      · rename_i hs
        intro b hb
        refine ⟨?_, ?_⟩
        · intro t e
          subst e
          have := mem_times.2 hb
          rw [heq] at this
          simp at this
        · intro e
          subst e
          exact hs (List.any_eq_true.2 ⟨_, hb, by simp⟩)

theorem ssL_of_running {sts : List BSt} (h : BSt.running ∈ sts) : ssL sts = none := by
  unfold ssL
  rw [if_pos]
  exact List.any_eq_true.2 ⟨_, h, by simp⟩


theorem mem_sts {s : St} {b : BSt} :
    b ∈ (List.range s.n).map s.status ↔ ∃ i, i < s.n ∧ s.status i = b := by
  simp [List.mem_map, List.mem_range]

theorem shouldSuspend_congr {s s' : St} (hn : s'.n = s.n)
    (hst : ∀ i, i < s.n → s'.status i = s.status i) : shouldSuspend s' = shouldSuspend s := by
  rw [shouldSuspend_eq, shouldSuspend_eq, hn]
  congr 1
  apply List.map_congr_left
  intro i hi
  exact hst i (List.mem_range.1 hi)

/-- What a suspend decision `k` says about the statuses of branches `0..n-1`: the earliest resume time
of the timed-suspended branches if there is one, else "indefinite" with some branch SUSPENDED. -/
def SuspendSpec (n : Nat) (st : Nat → BSt) : Option Nat → Prop
  | some m => (∃ i, i < n ∧ st i = .suspendedUntil m) ∧
              ∀ i t, i < n → st i = .suspendedUntil t → m ≤ t
  | none => (∀ i t, i < n → st i ≠ .suspendedUntil t) ∧ ∃ i, i < n ∧ st i = .suspended

theorem shouldSuspend_some {s : St} {k : Option Nat} (h : shouldSuspend s = some k) :
    (∀ i, i < s.n → s.status i ≠ .pending ∧ s.status i ≠ .running) ∧
    SuspendSpec s.n s.status k := by
  rw [shouldSuspend_eq] at h
  have h' := ssL_some h
  refine ⟨fun i hi => h'.1 _ (mem_sts.2 ⟨i, hi, rfl⟩), ?_⟩
  cases k with
  | some m =>
    simp only at h'
    exact ⟨mem_sts.1 h'.2.1, fun i t hi e => h'.2.2 t (mem_sts.2 ⟨i, hi, e⟩)⟩
  | none =>
    simp only at h'
    exact ⟨fun i t hi e => h'.2.1 t (mem_sts.2 ⟨i, hi, e⟩), mem_sts.1 h'.2.2⟩

theorem shouldSuspend_none {s : St} (h : shouldSuspend s = none) :
    (∃ i, i < s.n ∧ (s.status i = .pending ∨ s.status i = .running)) ∨
    (∀ i, i < s.n → (∀ t, s.status i ≠ .suspendedUntil t) ∧ s.status i ≠ .suspended) := by
  rw [shouldSuspend_eq] at h
  rcases ssL_none h with ⟨b, hb, hbe⟩ | h'
  · left
    rcases mem_sts.1 hb with ⟨i, hi, e⟩
    exact ⟨i, hi, by rw [e]; exact hbe⟩
  · right
    intro i hi
    exact h' _ (mem_sts.2 ⟨i, hi, rfl⟩)

theorem ssL_of_pending {sts : List BSt} (h : BSt.pending ∈ sts) : ssL sts = none := by
  unfold ssL
  rw [if_pos]
  exact List.any_eq_true.2 ⟨_, h, by simp⟩

theorem shouldSuspend_of_pending {s : St} {i : Nat} (hi : i < s.n) (h : s.status i = .pending) :
    shouldSuspend s = none := by
  rw [shouldSuspend_eq]
  exact ssL_of_pending (mem_sts.2 ⟨i, hi, h⟩)

theorem shouldSuspend_of_running {s : St} {i : Nat} (hi : i < s.n) (h : s.status i = .running) :
    shouldSuspend s = none := by
  rw [shouldSuspend_eq]
  exact ssL_of_running (mem_sts.2 ⟨i, hi, h⟩)

/-! ## `decide` -/

theorem decide_cases (s : St) :
    (Policy.shouldComplete s.cfg s.succ s.fail s.n = true ∧ Par.decide s = { s with evt := true }) ∨
    (Policy.shouldComplete s.cfg s.succ s.fail s.n = false ∧
      ∃ k, shouldSuspend s = some k ∧ Par.decide s = { s with suspendExc := some k, evt := true }) ∨
    (Policy.shouldComplete s.cfg s.succ s.fail s.n = false ∧ shouldSuspend s = none ∧ Par.decide s = s) := by
  unfold Par.decide
  cases h : Policy.shouldComplete s.cfg s.succ s.fail s.n
  · right
    cases h2 : shouldSuspend s
    · right; simp
    · left; simp
  · left; simp

/-! ## the bookkeeping invariant -/

structure Book (n maxConc : Nat) (cfg : Policy.Cfg) (s : St) : Prop where
  hn : s.n = n
  hcfg : s.cfg = cfg
  hmw : s.maxWorkers = if maxConc = 0 then n else maxConc
  act_nodup : s.active.Nodup
  q_nodup : s.queue.Nodup
  disj : ∀ i, i ∈ s.active → i ∉ s.queue
  act_lt : ∀ i, i ∈ s.active → i < n
  q_lt : ∀ i, i ∈ s.queue → i < n
  run : ∀ i, i ∈ s.active ∨ i ∈ s.queue → s.status i = .running
  hsucc : s.succ = cnt isCompleted s.status n
  hfail : s.fail = cnt isFailed s.status n
  out_n : ∀ i, n ≤ i → s.status i = .completed
  act_le : s.active.length ≤ s.maxWorkers
  act_max : s.active.length ≤ s.maxActive
  max_le : s.maxActive ≤ s.maxWorkers
  tim_live : ∀ t i, (t, i) ∈ s.timers → s.status i = .suspendedUntil t
  tim_nodup : s.timers.Nodup
  tim_has : ∀ t i, s.status i = .suspendedUntil t → (t, i) ∈ s.timers
  /-- the main thread submits the initial tasks one by one … -/
  sub_le : s.submitted ≤ n
  /-- … and a branch it has not submitted yet is PENDING (hence has no task and no timer entry) -/
  unsub : ∀ i, s.submitted ≤ i → i < n → s.status i = .pending
  /-- the branch whose resumption is in flight (popped from the timer heap, refresh checkpoint not yet
  done) was submitted before and is PENDING (hence has no task and no timer entry) -/
  refr : ∀ i, s.refreshing = some i → i < s.submitted ∧ s.status i = .pending
  /-- tasks whose function has ended but whose done-callback has not run yet: at most one per branch … -/
  end_nodup : s.ended.Nodup
  end_uniq : ∀ i f f', (i, f) ∈ s.ended → (i, f') ∈ s.ended → f = f'
  /-- … still RUNNING in the executor's eyes, and neither executing nor queued -/
  end_ok : ∀ i f, (i, f) ∈ s.ended → s.status i = .running ∧ i < n ∧ i ∉ s.active ∧ i ∉ s.queue

variable {n maxConc : Nat} {cfg : Policy.Cfg}

/-- `Book` only looks at these components. -/
theorem Book.congr {s s' : St} (h : Book n maxConc cfg s)
    (h1 : s'.n = s.n) (h2 : s'.cfg = s.cfg) (h3 : s'.maxWorkers = s.maxWorkers)
    (h4 : s'.active = s.active) (h5 : s'.queue = s.queue) (h6 : s'.status = s.status)
    (h7 : s'.succ = s.succ) (h8 : s'.fail = s.fail) (h9 : s'.maxActive = s.maxActive)
    (h10 : s'.timers = s.timers) (h11 : s'.submitted = s.submitted)
    (h12 : s'.refreshing = s.refreshing) (h13 : s'.ended = s.ended) : Book n maxConc cfg s' := by
  cases h
  constructor <;> simp only [h1, h2, h3, h4, h5, h6, h7, h8, h9, h10, h11, h12, h13] <;> assumption

theorem cnt_const_false {p : BSt → Bool} {f : Nat → BSt} {n : Nat}
    (h : ∀ j, j < n → p (f j) = false) : cnt p f n = 0 := by
  induction n with
  | zero => rfl
  | succ n ih =>
    rw [cnt_succ, ih (fun j hj => h j (Nat.lt_succ_of_lt hj)), h n (Nat.lt_succ_self n)]; rfl

theorem Book.init : Book n maxConc cfg (init n maxConc cfg) where
  hn := rfl
  hcfg := rfl
  hmw := rfl
  act_nodup := List.nodup_nil
  q_nodup := List.nodup_nil
  disj := by simp [Par.init]
  act_lt := by simp [Par.init]
  q_lt := by simp [Par.init]
  run := by simp [Par.init]
  hsucc := by
    simp only [Par.init]
    rw [cnt_const_false]
    intro j hj; simp [hj, isCompleted]
  hfail := by
    simp only [Par.init]
    rw [cnt_const_false]
    intro j hj; simp [hj, isFailed]
  out_n := by intro i hi; simp [Par.init]; omega
  act_le := by simp [Par.init]
  act_max := by simp [Par.init]
  max_le := by simp [Par.init]
  tim_live := by simp [Par.init]
  tim_nodup := List.nodup_nil
  tim_has := by intro t i; simp only [Par.init]; split <;> simp
  sub_le := Nat.zero_le n
  unsub := by intro i _ hi; simp [Par.init, hi]
  refr := by simp [Par.init]
  end_nodup := List.nodup_nil
  end_uniq := by simp [Par.init]
  end_ok := by simp [Par.init]

theorem Book.succ_fail_le {s : St} (h : Book n maxConc cfg s) : s.succ + s.fail ≤ n := by
  rw [h.hsucc, h.hfail]; exact cnt_add_le isCompleted_isFailed _ _

theorem Book.tim_lt {s : St} (h : Book n maxConc cfg s) (t i : Nat) (hm : (t, i) ∈ s.timers) : i < n := by
  have := h.tim_live t i hm
  apply Decidable.byContradiction
  intro hlt
  rw [h.out_n i (by omega)] at this
  cases this

theorem Book.decide {s : St} (h : Book n maxConc cfg s) : Book n maxConc cfg (Par.decide s) := by
  rcases decide_cases s with ⟨_, e⟩ | ⟨_, k, _, e⟩ | ⟨_, _, e⟩ <;> rw [e] <;>
    exact h.congr rfl rfl rfl rfl rfl rfl rfl rfl rfl rfl rfl rfl rfl

theorem Book.begin_ {s s' : St} {i : Nat} (h : Book n maxConc cfg s) (hs : begin_ s i = some s') :
    Book n maxConc cfg s' := by
  unfold Par.begin_ at hs
  split at hs
  · cases hs
  · rename_i hd rest hq
    split at hs
    · cases hs
    · rename_i hhi
      have hhi : hd = i := Decidable.not_not.1 hhi
      subst hhi
      split at hs
      · cases hs
      · rename_i hlt
        have hlt : s.active.length < s.maxWorkers := Decidable.not_not.1 hlt
        cases hs
        have hqn := h.q_nodup
        rw [hq] at hqn
        have hqn' := List.nodup_cons.1 hqn
        have hmem : ∀ x, x ∈ s.queue ↔ x = hd ∨ x ∈ rest := by intro x; rw [hq]; simp
        have hnot : hd ∉ s.active := fun hm => h.disj hd hm ((hmem hd).2 (Or.inl rfl))
        constructor <;> simp only
        · exact h.hn
        · exact h.hcfg
        · exact h.hmw
        · rw [List.nodup_append]
          refine ⟨h.act_nodup, by simp, ?_⟩
          intro a ha b hb
          simp at hb; subst hb
          intro e; subst e; exact hnot ha
        · exact hqn'.2
        · intro x hx hr
          rcases List.mem_append.1 hx with hx | hx
          · exact h.disj x hx ((hmem x).2 (Or.inr hr))
          · simp at hx; subst hx; exact hqn'.1 hr
        · intro x hx
          rcases List.mem_append.1 hx with hx | hx
          · exact h.act_lt x hx
          · simp at hx; subst hx; exact h.q_lt _ ((hmem _).2 (Or.inl rfl))
        · intro x hx; exact h.q_lt x ((hmem x).2 (Or.inr hx))
        · intro x hx
          apply h.run
          rcases hx with hx | hx
          · rcases List.mem_append.1 hx with hx | hx
            · exact Or.inl hx
            · simp at hx; subst hx; exact Or.inr ((hmem _).2 (Or.inl rfl))
          · exact Or.inr ((hmem x).2 (Or.inr hx))
        · exact h.hsucc
        · exact h.hfail
        · exact h.out_n
        · simp; omega
        · simp; omega
        · have := h.max_le; omega
        · exact h.tim_live
        · exact h.tim_nodup
        · exact h.tim_has
        · exact h.sub_le
        · exact h.unsub
        · exact h.refr
        · exact h.end_nodup
        · exact h.end_uniq
        · intro x g hm
          have ho := h.end_ok x g hm
          refine ⟨ho.1, ho.2.1, fun ha => ?_, fun hq => ho.2.2.2 ((hmem x).2 (Or.inr hq))⟩
          rcases List.mem_append.1 ha with ha | ha
          · exact ho.2.2.1 ha
          · simp at ha; subst ha; exact ho.2.2.2 ((hmem _).2 (Or.inl rfl))


/-- The bookkeeping effect of a done-callback that changes the status (before `decide`). -/
theorem Book.finish_core {s : St} (h : Book n maxConc cfg s) {i : Nat} {f : Fin}
    (hi : (i, f) ∈ s.ended) (b : BSt)
    (sc fl : Nat) (tm : List (Nat × Nat))
    (hsc : sc = s.succ + (if isCompleted b then 1 else 0))
    (hfl : fl = s.fail + (if isFailed b then 1 else 0))
    (htm : (∃ t, b = .suspendedUntil t ∧ tm = s.timers ++ [(t, i)]) ∨
           ((∀ t, b ≠ .suspendedUntil t) ∧ tm = s.timers)) :
    Book n maxConc cfg { s with
      ended := s.ended.erase (i, f),
      status := fun x => if x = i then b else s.status x,
      succ := sc, fail := fl, timers := tm } := by
  have hok := h.end_ok i f hi
  have hrun : s.status i = .running := hok.1
  have hin : i < n := hok.2.1
  have hnt : ∀ t, (t, i) ∉ s.timers := by
    intro t hm
    have := h.tim_live t i hm
    rw [hrun] at this; cases this
  constructor <;> simp only
  · exact h.hn
  · exact h.hcfg
  · exact h.hmw
  · exact h.act_nodup
  · exact h.q_nodup
  · exact h.disj
  · exact h.act_lt
  · exact h.q_lt
  · intro x hx
    have hne : x ≠ i := by
      rcases hx with hx | hx
      · intro e; rw [e] at hx; exact hok.2.2.1 hx
      · intro e; rw [e] at hx; exact hok.2.2.2 hx
    simp only [hne, if_false]
    exact h.run x hx
  · have := cnt_update isCompleted s.status b hin
    have h0 : isCompleted BSt.running = false := rfl
    rw [hrun, h0] at this
    simp only [Bool.false_eq_true, if_false, Nat.add_zero] at this
    rw [hsc, h.hsucc]
    exact this.symm
  · have := cnt_update isFailed s.status b hin
    have h0 : isFailed BSt.running = false := rfl
    rw [hrun, h0] at this
    simp only [Bool.false_eq_true, if_false, Nat.add_zero] at this
    rw [hfl, h.hfail]
    exact this.symm
  · intro x hx
    have hne : x ≠ i := by omega
    simp only [hne, if_false]
    exact h.out_n x hx
  · exact h.act_le
  · exact h.act_max
  · exact h.max_le
  · intro t x hm
    rcases htm with ⟨t0, hb, rfl⟩ | ⟨hb, rfl⟩
    · rcases List.mem_append.1 hm with hm1 | hm2
      · have hne : x ≠ i := by intro e; rw [e] at hm1; exact hnt t hm1
        simp only [hne, if_false]
        exact h.tim_live t x hm1
      · simp at hm2
        rcases hm2 with ⟨rfl, rfl⟩
        simp [hb]
    · have hne : x ≠ i := by intro e; rw [e] at hm; exact hnt t hm
      simp only [hne, if_false]
      exact h.tim_live t x hm
  · rcases htm with ⟨t0, hb, rfl⟩ | ⟨hb, rfl⟩
    · rw [List.nodup_append]
      refine ⟨h.tim_nodup, by simp, ?_⟩
      intro a ha b' hb'
      simp at hb'; subst hb'
      intro e; subst e; exact hnt t0 ha
    · exact h.tim_nodup
  · intro t x hst
    by_cases hx : x = i
    · subst hx
      simp only [if_true] at hst
      rcases htm with ⟨t0, hb, rfl⟩ | ⟨hb, rfl⟩
      · rw [hb] at hst
        cases hst
        simp
      · exact absurd hst (hb t)
    · simp only [hx, if_false] at hst
      have := h.tim_has t x hst
      rcases htm with ⟨t0, hb, rfl⟩ | ⟨hb, rfl⟩
      · exact List.mem_append_left _ this
      · exact this
  · exact h.sub_le
  · intro x hx hxn
    have hne : x ≠ i := by
      intro e; have := h.unsub x hx hxn; rw [e, hrun] at this; cases this
    simp only [hne, if_false]; exact h.unsub x hx hxn
  · intro j hj
    have hr := h.refr j hj
    have hne : j ≠ i := by
      intro e; have := hr.2; rw [e, hrun] at this; cases this
    simp only [hne, if_false]; exact hr
  · exact h.end_nodup.erase _
  · intro x g g' h1 h2
    exact h.end_uniq x g g' (List.mem_of_mem_erase h1) (List.mem_of_mem_erase h2)
  · intro x g hm
    have hm' := (h.end_nodup.mem_erase_iff).1 hm
    have ho := h.end_ok x g hm'.2
    have hne : x ≠ i := by
      intro e
      rw [e] at hm'
      have := h.end_uniq i g f hm'.2 hi
      rw [this] at hm'
      exact hm'.1 rfl
    simp only [hne, if_false]
    exact ho

/-- The bookkeeping effect of a done-callback that leaves the status alone (orphan, fatal). -/
theorem Book.finish_erase {s : St} (h : Book n maxConc cfg s) {i : Nat} {f : Fin}
    (hi : (i, f) ∈ s.ended) :
    Book n maxConc cfg { s with ended := s.ended.erase (i, f) } := by
  have hrun := (h.end_ok i f hi).1
  have := h.finish_core hi (s.status i) s.succ s.fail s.timers
    (by rw [hrun]; rfl) (by rw [hrun]; rfl)
    (Or.inr ⟨(by rw [hrun]; intro t e; cases e), rfl⟩)
  refine this.congr rfl rfl rfl rfl rfl ?_ rfl rfl rfl rfl rfl rfl rfl
  funext x
  by_cases hx : x = i
  · subst hx; simp
  · simp [hx]

theorem Book.finish {s s' : St} {i : Nat} {f : Fin} (h : Book n maxConc cfg s)
    (hs : finish s i f = some s') : Book n maxConc cfg s' := by
  unfold Par.finish at hs
  split at hs
  · cases hs
  · rename_i hi
    have hi : (i, f) ∈ s.ended := Decidable.not_not.1 hi
    cases f <;> simp only [Option.some.injEq] at hs <;> subst hs
    · apply Book.decide
      exact h.finish_core hi .completed _ _ _ rfl rfl (Or.inr ⟨(by intro t e; cases e), rfl⟩)
    · apply Book.decide
      exact h.finish_core hi .failed _ _ _ rfl rfl (Or.inr ⟨(by intro t e; cases e), rfl⟩)
    · apply Book.decide
      exact h.finish_core hi .suspended _ _ _ rfl rfl (Or.inr ⟨(by intro t e; cases e), rfl⟩)
    · rename_i t _
      apply Book.decide
      exact h.finish_core hi (.suspendedUntil t) _ _ _ rfl rfl (Or.inl ⟨t, rfl, rfl⟩)
    · exact h.finish_erase hi
    · exact (h.finish_erase hi).congr rfl rfl rfl rfl rfl rfl rfl rfl rfl rfl rfl rfl rfl

/-- What `taskEnd` does. -/
theorem taskEnd_spec {s s' : St} {i : Nat} {f : Fin} (hs : taskEnd s i f = some s') :
    i ∈ s.active ∧ s' = { s with active := s.active.erase i, ended := s.ended ++ [(i, f)] } := by
  unfold Par.taskEnd at hs
  split at hs
  · cases hs
  · rename_i hi
    cases hs
    exact ⟨Decidable.not_not.1 hi, rfl⟩

/-- The bookkeeping effect of a task function ending: the worker is free, the callback is due. -/
theorem Book.taskEnd {s s' : St} {i : Nat} {f : Fin} (h : Book n maxConc cfg s)
    (hs : taskEnd s i f = some s') : Book n maxConc cfg s' := by
  rcases taskEnd_spec hs with ⟨hi, rfl⟩
  have hnone : ∀ g, (i, g) ∉ s.ended := fun g hm => (h.end_ok i g hm).2.2.1 hi
  constructor <;> simp only
  · exact h.hn
  · exact h.hcfg
  · exact h.hmw
  · exact h.act_nodup.erase i
  · exact h.q_nodup
  · intro x hx; exact h.disj x (List.mem_of_mem_erase hx)
  · intro x hx; exact h.act_lt x (List.mem_of_mem_erase hx)
  · exact h.q_lt
  · intro x hx
    apply h.run
    rcases hx with hx | hx
    · exact Or.inl (List.mem_of_mem_erase hx)
    · exact Or.inr hx
  · exact h.hsucc
  · exact h.hfail
  · exact h.out_n
  · have := List.length_erase_of_mem hi
    have := h.act_le
    omega
  · have := List.length_erase_of_mem hi
    have := h.act_max
    omega
  · exact h.max_le
  · exact h.tim_live
  · exact h.tim_nodup
  · exact h.tim_has
  · exact h.sub_le
  · exact h.unsub
  · exact h.refr
  · rw [List.nodup_append]
    refine ⟨h.end_nodup, by simp, ?_⟩
    intro a ha b' hb'
    simp at hb'; subst hb'
    intro e; subst e; exact hnone f ha
  · intro x g g' h1 h2
    rcases List.mem_append.1 h1 with a1 | a1 <;> rcases List.mem_append.1 h2 with a2 | a2
    · exact h.end_uniq x g g' a1 a2
    · simp at a2; rw [a2.1] at a1; exact absurd a1 (hnone g)
    · simp at a1; rw [a1.1] at a2; exact absurd a2 (hnone g')
    · simp at a1 a2; rw [a1.2, a2.2]
  · intro x g hm
    rcases List.mem_append.1 hm with hm | hm
    · have ho := h.end_ok x g hm
      exact ⟨ho.1, ho.2.1, fun ha => ho.2.2.1 (List.mem_of_mem_erase ha), ho.2.2.2⟩
    · simp at hm
      rcases hm with ⟨rfl, rfl⟩
      exact ⟨h.run x (Or.inl hi), h.act_lt x hi,
        fun ha => ((h.act_nodup.mem_erase_iff).1 ha).1 rfl, h.disj x hi⟩

/-- What the first half of a resumption does in a state satisfying the bookkeeping invariant (every
heap entry is live): no other resumption is in flight; the due entry is popped, the branch is reset to
PENDING and its refresh is in flight. -/
theorem timerFire_spec {s s' : St} {i : Nat} (hB : Book n maxConc cfg s)
    (h : timerFire s i = some s') :
    s.refreshing = none ∧
    ∃ t, (t, i) ∈ s.timers ∧ t ≤ s.clock ∧ s.status i = .suspendedUntil t ∧
      s' = { s with timers := s.timers.erase (t, i),
                    status := fun x => if x = i then .pending else s.status x,
                    refreshing := some i } := by
  unfold Par.timerFire at h
  split at h
  · cases h
  · rename_i hrf
    have hrf : s.refreshing = none := by
      cases hr : s.refreshing
      · rfl
      · rw [hr] at hrf; exact absurd rfl hrf
    refine ⟨hrf, ?_⟩
    split at h
    · cases h
    · simp only at h
      split at h
      · cases h
      · rename_i d ds hdue
        generalize he : List.foldl (fun a b => if b.1 < a.1 then b else a) d ds = e at h
        have hmem : e ∈ d :: ds := by
          rcases foldl_sel_mem (fun a b : Nat × Nat => if b.1 < a.1 then b else a)
            (by intro a b; by_cases hc : b.1 < a.1 <;> simp [hc]) ds d with h1 | h1
          · rw [he] at h1; rw [h1]; simp
          · rw [he] at h1; exact List.mem_cons_of_mem _ h1
        rw [← hdue, List.mem_filter] at hmem
        split at h
        · cases h
        · rename_i hi
          have hi : e.2 = i := Decidable.not_not.1 hi
          obtain ⟨t, j⟩ := e
          simp only at hi
          subst hi
          have hlive := hB.tim_live t j hmem.1
          have hle : t ≤ s.clock := by simpa using hmem.2
          refine ⟨t, hmem.1, hle, hlive, ?_⟩
          simp only [hlive, hle, if_true, Option.some.injEq] at h
          exact h.symm

/-- What the second half of a resumption does. -/
theorem resubmit_spec {s s' : St} {i : Nat} {ok : Bool} (h : resubmit s i ok = some s') :
    s.refreshing = some i ∧
      ((ok = true ∧ s.evt = false ∧
          s' = { s with refreshing := none,
                        status := fun x => if x = i then .running else s.status x,
                        queue := s.queue ++ [i] }) ∨
       (ok = true ∧ s.evt = true ∧ s' = { s with refreshing := none }) ∨
       (ok = false ∧ s' = { s with refreshing := none, fatal := true, evt := true })) := by
  unfold Par.resubmit at h
  split at h
  · cases h
  · rename_i hr
    have hr : s.refreshing = some i := Decidable.not_not.1 hr
    refine ⟨hr, ?_⟩
    simp only at h
    cases ok
    · right; right
      simp only [Bool.false_eq_true, not_false_eq_true, if_true, Option.some.injEq] at h
      exact ⟨rfl, h.symm⟩
    · simp only [not_true_eq_false, if_false] at h
      cases hev : s.evt
      · left
        simp only [hev, Bool.false_eq_true, if_false, Option.some.injEq] at h
        exact ⟨rfl, rfl, h.symm⟩
      · right; left
        simp only [hev, if_true, Option.some.injEq] at h
        exact ⟨rfl, rfl, h.symm⟩

theorem Book.timer_core {s : St} (h : Book n maxConc cfg s) {t i : Nat} (hm : (t, i) ∈ s.timers)
    (b : BSt) (q' : List Nat) (r' : Option Nat)
    (hb : (b = .running ∧ q' = s.queue ++ [i]) ∨ (b = .pending ∧ q' = s.queue))
    (hr' : ∀ j, r' = some j → j = i ∧ b = .pending) :
    Book n maxConc cfg { s with
      timers := s.timers.erase (t, i),
      status := fun x => if x = i then b else s.status x,
      queue := q', refreshing := r' } := by
  have hst : s.status i = .suspendedUntil t := h.tim_live t i hm
  have hin : i < n := h.tim_lt t i hm
  have hna : i ∉ s.active := by
    intro hi; have := h.run i (Or.inl hi); rw [hst] at this; cases this
  have hnq : i ∉ s.queue := by
    intro hi; have := h.run i (Or.inr hi); rw [hst] at this; cases this
  have hbc : isCompleted b = false := by rcases hb with ⟨rfl, _⟩ | ⟨rfl, _⟩ <;> rfl
  have hbf : isFailed b = false := by rcases hb with ⟨rfl, _⟩ | ⟨rfl, _⟩ <;> rfl
  have hbs : ∀ t', b ≠ .suspendedUntil t' := by
    intro t' e; rcases hb with ⟨rfl, _⟩ | ⟨rfl, _⟩ <;> cases e
  constructor <;> simp only
  · exact h.hn
  · exact h.hcfg
  · exact h.hmw
  · exact h.act_nodup
  · rcases hb with ⟨_, rfl⟩ | ⟨_, rfl⟩
    · rw [List.nodup_append]
      refine ⟨h.q_nodup, by simp, ?_⟩
      intro a ha b' hb'
      simp at hb'; subst hb'
      intro e; rw [e] at ha; exact hnq ha
    · exact h.q_nodup
  · intro x hx
    rcases hb with ⟨_, rfl⟩ | ⟨_, rfl⟩
    · intro hq
      rcases List.mem_append.1 hq with hq | hq
      · exact h.disj x hx hq
      · simp at hq; rw [hq] at hx; exact hna hx
    · exact h.disj x hx
  · exact h.act_lt
  · intro x hx
    rcases hb with ⟨_, rfl⟩ | ⟨_, rfl⟩
    · rcases List.mem_append.1 hx with hq | hq
      · exact h.q_lt x hq
      · simp at hq; rw [hq]; exact hin
    · exact h.q_lt x hx
  · intro x hx
    by_cases hxi : x = i
    · rw [hxi] at hx
      simp only [hxi, if_true]
      rcases hb with ⟨rfl, _⟩ | ⟨_, rfl⟩
      · rfl
      · rcases hx with hx | hx
        · exact absurd hx hna
        · exact absurd hx hnq
    · simp only [hxi, if_false]
      apply h.run
      rcases hx with hx | hx
      · exact Or.inl hx
      · right
        rcases hb with ⟨_, rfl⟩ | ⟨_, rfl⟩
        · rcases List.mem_append.1 hx with hq | hq
          · exact hq
          · simp at hq; exact absurd hq hxi
        · exact hx
  · rw [h.hsucc]
    apply cnt_congr
    intro j _
    by_cases hj : j = i
    · simp only [hj, if_true, hst, hbc]; rfl
    · simp only [hj, if_false]
  · rw [h.hfail]
    apply cnt_congr
    intro j _
    by_cases hj : j = i
    · simp only [hj, if_true, hst, hbf]; rfl
    · simp only [hj, if_false]
  · intro x hx
    have hne : x ≠ i := by omega
    simp only [hne, if_false]
    exact h.out_n x hx
  · exact h.act_le
  · exact h.act_max
  · exact h.max_le
  · intro t' x hm'
    have hm'' := (h.tim_nodup.mem_erase_iff).1 hm'
    have hne : x ≠ i := by
      intro e
      rw [e] at hm''
      have := h.tim_live t' i hm''.2
      rw [hst] at this
      cases this
      exact hm''.1 rfl
    simp only [hne, if_false]
    exact h.tim_live t' x hm''.2
  · exact h.tim_nodup.erase _
  · intro t' x hs
    by_cases hxi : x = i
    · simp only [hxi, if_true] at hs
      exact absurd hs (hbs t')
    · simp only [hxi, if_false] at hs
      apply (h.tim_nodup.mem_erase_iff).2
      refine ⟨?_, h.tim_has t' x hs⟩
      intro e
      cases e
      exact hxi rfl
  · exact h.sub_le
  · intro x hx hxn
    have hne : x ≠ i := by
      intro e; have := h.unsub x hx hxn; rw [e, hst] at this; cases this
    simp only [hne, if_false]; exact h.unsub x hx hxn
  · intro j hj
    obtain ⟨rfl, hbp⟩ := hr' j hj
    refine ⟨?_, by simp [hbp]⟩
    apply Decidable.byContradiction
    intro hlt
    have := h.unsub j (by omega) hin
    rw [hst] at this; cases this
  · exact h.end_nodup
  · exact h.end_uniq
  · intro x g hm
    have ho := h.end_ok x g hm
    have hne : x ≠ i := by
      intro e; have := ho.1; rw [e, hst] at this; cases this
    simp only [hne, if_false]
    refine ⟨ho.1, ho.2.1, ho.2.2.1, ?_⟩
    rcases hb with ⟨_, rfl⟩ | ⟨_, rfl⟩
    · intro hq
      rcases List.mem_append.1 hq with hq | hq
      · exact ho.2.2.2 hq
      · simp at hq; exact hne hq
    · exact ho.2.2.2


theorem Book.timerFire {s s' : St} {i : Nat} (h : Book n maxConc cfg s)
    (hs : timerFire s i = some s') : Book n maxConc cfg s' := by
  rcases timerFire_spec h hs with ⟨_, t, hm, _, _, rfl⟩
  exact h.timer_core hm .pending _ (some i) (Or.inr ⟨rfl, rfl⟩)
    (fun j hj => ⟨(Option.some.inj hj).symm, rfl⟩)

/-- The bookkeeping effect of the resubmitter queueing the refreshed branch. -/
theorem Book.resubmit_core {s : St} (h : Book n maxConc cfg s) {i : Nat}
    (hr : s.refreshing = some i) :
    Book n maxConc cfg { s with
      refreshing := none,
      status := fun x => if x = i then .running else s.status x,
      queue := s.queue ++ [i] } := by
  have hlt : i < s.submitted := (h.refr i hr).1
  have hp : s.status i = .pending := (h.refr i hr).2
  have hin : i < n := Nat.lt_of_lt_of_le hlt h.sub_le
  have hna : i ∉ s.active := by
    intro hm; have := h.run i (Or.inl hm); rw [hp] at this; cases this
  have hnq : i ∉ s.queue := by
    intro hm; have := h.run i (Or.inr hm); rw [hp] at this; cases this
  constructor <;> simp only
  · exact h.hn
  · exact h.hcfg
  · exact h.hmw
  · exact h.act_nodup
  · rw [List.nodup_append]
    refine ⟨h.q_nodup, by simp, ?_⟩
    intro a ha b' hb'
    simp at hb'; subst hb'
    intro e; rw [e] at ha; exact hnq ha
  · intro x hx hq
    rcases List.mem_append.1 hq with hq | hq
    · exact h.disj x hx hq
    · simp at hq; rw [hq] at hx; exact hna hx
  · exact h.act_lt
  · intro x hx
    rcases List.mem_append.1 hx with hq | hq
    · exact h.q_lt x hq
    · simp at hq; rw [hq]; exact hin
  · intro x hx
    by_cases hxi : x = i
    · simp only [hxi, if_true]
    · simp only [hxi, if_false]
      apply h.run
      rcases hx with hx | hx
      · exact Or.inl hx
      · right
        rcases List.mem_append.1 hx with hq | hq
        · exact hq
        · simp at hq; exact absurd hq hxi
  · rw [h.hsucc]
    apply cnt_congr
    intro j _
    by_cases hj : j = i
    · simp only [hj, if_true, hp]; rfl
    · simp only [hj, if_false]
  · rw [h.hfail]
    apply cnt_congr
    intro j _
    by_cases hj : j = i
    · simp only [hj, if_true, hp]; rfl
    · simp only [hj, if_false]
  · intro x hx
    have hne : x ≠ i := by omega
    simp only [hne, if_false]
    exact h.out_n x hx
  · exact h.act_le
  · exact h.act_max
  · exact h.max_le
  · intro t x hm
    have hst := h.tim_live t x hm
    have hne : x ≠ i := by
      intro e; rw [e, hp] at hst; cases hst
    simp only [hne, if_false]; exact hst
  · exact h.tim_nodup
  · intro t x hst
    by_cases hx : x = i
    · simp only [hx, if_true] at hst; cases hst
    · simp only [hx, if_false] at hst; exact h.tim_has t x hst
  · exact h.sub_le
  · intro x hx hxn
    have hne : x ≠ i := by omega
    simp only [hne, if_false]
    exact h.unsub x hx hxn
  · intro j hj; cases hj
  · exact h.end_nodup
  · exact h.end_uniq
  · intro x g hm
    have ho := h.end_ok x g hm
    have hne : x ≠ i := by
      intro e; have := ho.1; rw [e, hp] at this; cases this
    simp only [hne, if_false]
    refine ⟨ho.1, ho.2.1, ho.2.2.1, ?_⟩
    intro hq
    rcases List.mem_append.1 hq with hq | hq
    · exact ho.2.2.2 hq
    · simp at hq; exact hne hq


/-- Clearing `refreshing` alone keeps the bookkeeping invariant. -/
theorem Book.clear_refr {s : St} (h : Book n maxConc cfg s) :
    Book n maxConc cfg { s with refreshing := none } := by
  cases h
  constructor <;> first | assumption | (intro j hj; cases hj)

theorem Book.resubmit {s s' : St} {i : Nat} {ok : Bool} (h : Book n maxConc cfg s)
    (hs : resubmit s i ok = some s') : Book n maxConc cfg s' := by
  rcases resubmit_spec hs with ⟨hr, ⟨_, _, rfl⟩ | ⟨_, _, rfl⟩ | ⟨_, rfl⟩⟩
  · exact h.resubmit_core hr
  · exact h.clear_refr
  · have := h.clear_refr
    cases this
    constructor <;> assumption

theorem Book.tick {s s' : St} {d : Nat} (h : Book n maxConc cfg s)
    (hs : tick s d = some s') : Book n maxConc cfg s' := by
  cases hs
  exact h.congr rfl rfl rfl rfl rfl rfl rfl rfl rfl rfl rfl rfl rfl

theorem Book.wake_core {s : St} (h : Book n maxConc cfg s) :
    Book n maxConc cfg { s with
      status := fun x => if x ∈ s.queue then .suspended else s.status x, queue := [] } := by
  constructor <;> simp only
  · exact h.hn
  · exact h.hcfg
  · exact h.hmw
  · exact h.act_nodup
  · exact List.nodup_nil
  · intro x _; simp
  · exact h.act_lt
  · intro x hx; simp at hx
  · intro x hx
    rcases hx with hx | hx
    · rw [if_neg (h.disj x hx)]
      exact h.run x (Or.inl hx)
    · simp at hx
  · rw [h.hsucc]
    apply cnt_congr
    intro j _
    by_cases hj : j ∈ s.queue
    · rw [if_pos hj, h.run j (Or.inr hj)]; rfl
    · rw [if_neg hj]
  · rw [h.hfail]
    apply cnt_congr
    intro j _
    by_cases hj : j ∈ s.queue
    · rw [if_pos hj, h.run j (Or.inr hj)]; rfl
    · rw [if_neg hj]
  · intro x hx
    have : x ∉ s.queue := fun hq => by have := h.q_lt x hq; omega
    rw [if_neg this]
    exact h.out_n x hx
  · exact h.act_le
  · exact h.act_max
  · exact h.max_le
  · intro t x hm
    have hst := h.tim_live t x hm
    have : x ∉ s.queue := by
      intro hq; have := h.run x (Or.inr hq); rw [hst] at this; cases this
    rw [if_neg this]; exact hst
  · exact h.tim_nodup
  · intro t x hs
    by_cases hq : x ∈ s.queue
    · rw [if_pos hq] at hs; cases hs
    · rw [if_neg hq] at hs; exact h.tim_has t x hs
  · exact h.sub_le
  · intro x hx hxn
    have hp := h.unsub x hx hxn
    have : x ∉ s.queue := by
      intro hq; have := h.run x (Or.inr hq); rw [hp] at this; cases this
    rw [if_neg this]; exact hp
  · intro j hj
    have hr := h.refr j hj
    have : j ∉ s.queue := by
      intro hq; have := h.run j (Or.inr hq); rw [hr.2] at this; cases this
    rw [if_neg this]; exact hr
  · exact h.end_nodup
  · exact h.end_uniq
  · intro x g hm
    have ho := h.end_ok x g hm
    rw [if_neg ho.2.2.2]
    exact ⟨ho.1, ho.2.1, ho.2.2.1, fun hq => by cases hq⟩

/-- What `wake` (the main thread reading the flags) does. -/
theorem wake_spec {s s' : St} (hs : wake s = some s') :
    s.evt = true ∧ s.out = none ∧ s.n ≤ s.submitted ∧ s.returning = false ∧
    ((s.fatal = true ∧
        s' = { s with status := fun x => if x ∈ s.queue then .suspended else s.status x, queue := [],
                      out := some .fatal }) ∨
     (s.fatal = false ∧ ∃ k, s.suspendExc = some k ∧
        s' = { s with status := fun x => if x ∈ s.queue then .suspended else s.status x, queue := [],
                      out := some (.suspend k) }) ∨
     (s.fatal = false ∧ s.suspendExc = none ∧ s' = { s with returning := true })) := by
  unfold Par.wake at hs
  split at hs
  · cases hs
  · rename_i he
    split at hs
    · cases hs
    · rename_i hsub
      split at hs
      · cases hs
      · rename_i ho
        split at hs
        · cases hs
        · rename_i hret
          have he : s.evt = true := by simpa using he
          have ho : s.out = none := by simpa using ho
          have hret : s.returning = false := by simpa using hret
          refine ⟨he, ho, Nat.le_of_not_lt hsub, hret, ?_⟩
          cases hf : s.fatal
          · cases hk : s.suspendExc
            · right; right
              simp [hf, hk] at hs
              exact ⟨rfl, rfl, hs.symm⟩
            · right; left
              simp [hf, hk] at hs
              exact ⟨rfl, _, rfl, hs.symm⟩
          · left
            simp [hf] at hs
            exact ⟨rfl, hs.symm⟩

/-- What `snapshot` (the main thread building the result) does. -/
theorem snapshot_spec {s s' : St} (hs : snapshot s = some s') :
    s.returning = true ∧ s.out = none ∧
    s' = { s with status := fun x => if x ∈ s.queue then .suspended else s.status x, queue := [],
                  out := some (.result ((List.range s.n).map
                    (fun x => if x ∈ s.queue then .suspended else s.status x))) } := by
  unfold Par.snapshot at hs
  split at hs
  · cases hs
  · rename_i hret
    split at hs
    · cases hs
    · rename_i ho
      cases hs
      exact ⟨by simpa using hret, by simpa using ho, rfl⟩

theorem Book.wake {s s' : St} (h : Book n maxConc cfg s)
    (hs : wake s = some s') : Book n maxConc cfg s' := by
  rcases wake_spec hs with ⟨_, _, _, _, ⟨_, rfl⟩ | ⟨_, k, _, rfl⟩ | ⟨_, _, rfl⟩⟩
  · exact h.wake_core.congr rfl rfl rfl rfl rfl rfl rfl rfl rfl rfl rfl rfl rfl
  · exact h.wake_core.congr rfl rfl rfl rfl rfl rfl rfl rfl rfl rfl rfl rfl rfl
  · exact h.congr rfl rfl rfl rfl rfl rfl rfl rfl rfl rfl rfl rfl rfl

theorem Book.snapshot {s s' : St} (h : Book n maxConc cfg s)
    (hs : snapshot s = some s') : Book n maxConc cfg s' := by
  rcases snapshot_spec hs with ⟨_, _, rfl⟩
  exact h.wake_core.congr rfl rfl rfl rfl rfl rfl rfl rfl rfl rfl rfl rfl rfl

/-- What `cancel` does. -/
theorem cancel_spec {s s' : St} {i : Nat} (hs : cancel_ s i = some s') :
    s.evt = true ∧ s.out = none ∧ i ∈ s.queue ∧ s.n ≤ s.submitted ∧
    s' = { s with status := fun x => if x = i then .suspended else s.status x,
                  queue := s.queue.erase i } := by
  unfold Par.cancel_ at hs
  split at hs
  · cases hs
  · rename_i he
    split at hs
    · cases hs
    · rename_i hsub
      split at hs
      · cases hs
      · rename_i ho
        split at hs
        · cases hs
        · rename_i hq
          cases hs
          refine ⟨by simpa using he, by simpa using ho, Decidable.not_not.1 hq,
            Nat.le_of_not_lt hsub, rfl⟩

/-- The bookkeeping effect of cancelling one queued task. -/
theorem Book.cancel_core {s : St} (h : Book n maxConc cfg s) {i : Nat} (hi : i ∈ s.queue) :
    Book n maxConc cfg { s with
      status := fun x => if x = i then .suspended else s.status x,
      queue := s.queue.erase i } := by
  have hrun : s.status i = .running := h.run i (Or.inr hi)
  have hin : i < n := h.q_lt i hi
  have hna : i ∉ s.active := fun ha => h.disj i ha hi
  constructor <;> simp only
  · exact h.hn
  · exact h.hcfg
  · exact h.hmw
  · exact h.act_nodup
  · exact h.q_nodup.erase i
  · intro x hx hq; exact h.disj x hx (List.mem_of_mem_erase hq)
  · exact h.act_lt
  · intro x hx; exact h.q_lt x (List.mem_of_mem_erase hx)
  · intro x hx
    have hne : x ≠ i := by
      rcases hx with hx | hx
      · intro e; rw [e] at hx; exact hna hx
      · exact ((h.q_nodup.mem_erase_iff).1 hx).1
    simp only [hne, if_false]
    apply h.run
    rcases hx with hx | hx
    · exact Or.inl hx
    · exact Or.inr (List.mem_of_mem_erase hx)
  · rw [h.hsucc]
    apply cnt_congr
    intro j _
    by_cases hj : j = i
    · simp only [hj, if_true, hrun]; rfl
    · simp only [hj, if_false]
  · rw [h.hfail]
    apply cnt_congr
    intro j _
    by_cases hj : j = i
    · simp only [hj, if_true, hrun]; rfl
    · simp only [hj, if_false]
  · intro x hx
    have hne : x ≠ i := by omega
    simp only [hne, if_false]
    exact h.out_n x hx
  · exact h.act_le
  · exact h.act_max
  · exact h.max_le
  · intro t x hm
    have hst := h.tim_live t x hm
    have hne : x ≠ i := by
      intro e; rw [e, hrun] at hst; cases hst
    simp only [hne, if_false]; exact hst
  · exact h.tim_nodup
  · intro t x hst
    by_cases hx : x = i
    · simp only [hx, if_true] at hst; cases hst
    · simp only [hx, if_false] at hst; exact h.tim_has t x hst
  · exact h.sub_le
  · intro x hx hxn
    have hne : x ≠ i := by
      intro e; have := h.unsub x hx hxn; rw [e, hrun] at this; cases this
    simp only [hne, if_false]; exact h.unsub x hx hxn
  · intro j hj
    have hr := h.refr j hj
    have hne : j ≠ i := by
      intro e; have := hr.2; rw [e, hrun] at this; cases this
    simp only [hne, if_false]; exact hr
  · exact h.end_nodup
  · exact h.end_uniq
  · intro x g hm
    have ho := h.end_ok x g hm
    have hne : x ≠ i := by
      intro e; rw [e] at ho; exact ho.2.2.2 hi
    simp only [hne, if_false]
    exact ⟨ho.1, ho.2.1, ho.2.2.1, fun hq => ho.2.2.2 (List.mem_of_mem_erase hq)⟩

theorem Book.cancel {s s' : St} {i : Nat} (h : Book n maxConc cfg s)
    (hs : cancel_ s i = some s') : Book n maxConc cfg s' := by
  rcases cancel_spec hs with ⟨_, _, hi, _, rfl⟩
  exact h.cancel_core hi

/-- What `submit` does. -/
theorem submit_spec {s s' : St} {i : Nat} (hs : submit_ s i = some s') :
    i = s.submitted ∧ i < s.n ∧
    s' = { s with status := fun x => if x = i then .running else s.status x,
                  queue := s.queue ++ [i], submitted := s.submitted + 1 } := by
  unfold Par.submit_ at hs
  split at hs
  · cases hs
  · rename_i h1
    split at hs
    · cases hs
    · rename_i h2
      cases hs
      exact ⟨Decidable.not_not.1 h1, Decidable.not_not.1 h2, rfl⟩

theorem Book.submit {s s' : St} {i : Nat} (h : Book n maxConc cfg s)
    (hs : submit_ s i = some s') : Book n maxConc cfg s' := by
  rcases submit_spec hs with ⟨hi, hin, rfl⟩
  rw [h.hn] at hin
  have hp : s.status i = .pending := h.unsub i (by omega) hin
  have hna : i ∉ s.active := by
    intro hm; have := h.run i (Or.inl hm); rw [hp] at this; cases this
  have hnq : i ∉ s.queue := by
    intro hm; have := h.run i (Or.inr hm); rw [hp] at this; cases this
  constructor <;> simp only
  · exact h.hn
  · exact h.hcfg
  · exact h.hmw
  · exact h.act_nodup
  · rw [List.nodup_append]
    refine ⟨h.q_nodup, by simp, ?_⟩
    intro a ha b' hb'
    simp at hb'; subst hb'
    intro e; rw [e] at ha; exact hnq ha
  · intro x hx hq
    rcases List.mem_append.1 hq with hq | hq
    · exact h.disj x hx hq
    · simp at hq; rw [hq] at hx; exact hna hx
  · exact h.act_lt
  · intro x hx
    rcases List.mem_append.1 hx with hq | hq
    · exact h.q_lt x hq
    · simp at hq; rw [hq]; exact hin
  · intro x hx
    by_cases hxi : x = i
    · simp only [hxi, if_true]
    · simp only [hxi, if_false]
      apply h.run
      rcases hx with hx | hx
      · exact Or.inl hx
      · right
        rcases List.mem_append.1 hx with hq | hq
        · exact hq
        · simp at hq; exact absurd hq hxi
  · rw [h.hsucc]
    apply cnt_congr
    intro j _
    by_cases hj : j = i
    · simp only [hj, if_true, hp]; rfl
    · simp only [hj, if_false]
  · rw [h.hfail]
    apply cnt_congr
    intro j _
    by_cases hj : j = i
    · simp only [hj, if_true, hp]; rfl
    · simp only [hj, if_false]
  · intro x hx
    have hne : x ≠ i := by omega
    simp only [hne, if_false]
    exact h.out_n x hx
  · exact h.act_le
  · exact h.act_max
  · exact h.max_le
  · intro t x hm
    have hst := h.tim_live t x hm
    have hne : x ≠ i := by
      intro e; rw [e, hp] at hst; cases hst
    simp only [hne, if_false]; exact hst
  · exact h.tim_nodup
  · intro t x hst
    by_cases hx : x = i
    · simp only [hx, if_true] at hst; cases hst
    · simp only [hx, if_false] at hst; exact h.tim_has t x hst
  · omega
  · intro x hx hxn
    have hne : x ≠ i := by omega
    simp only [hne, if_false]
    exact h.unsub x (by omega) hxn
  · intro j hj
    have hr := h.refr j hj
    have hne : j ≠ i := by omega
    simp only [hne, if_false]
    exact ⟨by omega, hr.2⟩
  · exact h.end_nodup
  · exact h.end_uniq
  · intro x g hm
    have ho := h.end_ok x g hm
    have hne : x ≠ i := by
      intro e; have := ho.1; rw [e, hp] at this; cases this
    simp only [hne, if_false]
    refine ⟨ho.1, ho.2.1, ho.2.2.1, ?_⟩
    intro hq
    rcases List.mem_append.1 hq with hq | hq
    · exact ho.2.2.2 hq
    · simp at hq; exact hne hq


theorem Book.step {s s' : St} {a : Act} (h : Book n maxConc cfg s)
    (hs : step s a = some s') : Book n maxConc cfg s' := by
  cases a with
  | submit i => exact h.submit hs
  | begin i => exact h.begin_ hs
  | taskEnd i f => exact h.taskEnd hs
  | finish i f => exact h.finish hs
  | timerFire i => exact h.timerFire hs
  | resubmit i ok => exact h.resubmit hs
  | tick d => exact h.tick hs
  | cancel i => exact h.cancel hs
  | wake => exact h.wake hs
  | snapshot => exact h.snapshot hs


/-! ## the full invariant -/

/-- The inductive invariant of the executor: bookkeeping (`Book`) + control. -/
structure Inv (n maxConc : Nat) (cfg : Policy.Cfg) (s : St) : Prop extends Book n maxConc cfg s where
  /-- a fatal failure always wakes the main thread -/
  fatal_evt : s.fatal = true → s.evt = true
  /-- a suspend decision always wakes the main thread -/
  susp_evt : s.suspendExc.isSome = true → s.evt = true
  /-- the event is only set by a fatal failure, a suspend decision or the decided policy -/
  evt_sound : s.evt = true → s.fatal = true ∨ s.suspendExc.isSome = true ∨
    Policy.shouldComplete cfg s.succ s.fail n = true
  /-- a branch that was submitted is PENDING again — unless its refresh is in flight — only once the
  completion event is set: after a failed resubmission (fatal),
  or when the timer thread bails out because a decision has already been taken -/
  pend_evt : ∀ i, s.status i = .pending → i < s.submitted → s.refreshing ≠ some i → s.evt = true
  /-- once a suspend decision is taken nothing is executing, queued or RUNNING — for good -/
  susp_idle : s.suspendExc.isSome = true →
    s.active = [] ∧ s.queue = [] ∧ ∀ i, i < n → s.status i ≠ .running
  /-- … and the counters no longer move, so the policy stays undecided -/
  susp_undecided : s.suspendExc.isSome = true → Policy.shouldComplete cfg s.succ s.fail n = false
  /-- while the event is not set, neither the policy nor `should_execution_suspend` fires -/
  undecided : 0 < n → s.evt = false →
    Policy.shouldComplete cfg s.succ s.fail n = false ∧ shouldSuspend s = none
  /-- after a decision to suspend indefinitely every branch stays idle -/
  indef : s.suspendExc = some none → ∀ i, i < n →
    s.status i ≠ .running ∧ s.status i ≠ .pending ∧ ∀ t, s.status i ≠ .suspendedUntil t
  /-- a returned result was taken when the policy was decided, and what it reports as
  completed / failed stays so -/
  out_res : ∀ items, s.out = some (.result items) → items.length = n ∧
    Policy.shouldComplete cfg (items.countP isCompleted) (items.countP isFailed) n = true ∧
    ∀ i, (items[i]? = some .completed → s.status i = .completed) ∧
         (items[i]? = some .failed → s.status i = .failed)
  out_fatal : s.out = some .fatal → s.fatal = true
  out_susp : ∀ k, s.out = some (.suspend k) → s.suspendExc.isSome = true
  /-- after the main thread returned nothing is queued any more -/
  out_evt : s.out.isSome = true → s.evt = true ∧ s.queue = []
  /-- no suspend decision while a branch is still to be submitted (PENDING counts as not idle) -/
  susp_sub : s.suspendExc.isSome = true → s.submitted = n
  /-- the main thread returns only after it has submitted everything -/
  out_sub : s.out.isSome = true → s.submitted = n
  /-- once the main thread has read the flags and found neither set, the policy is decided and stays
  so, and no suspend decision is taken any more (a fatal flag may still be set — too late) -/
  ret_inv : s.returning = true → s.evt = true ∧ s.submitted = n ∧ s.suspendExc = none ∧
    Policy.shouldComplete cfg s.succ s.fail n = true
  /-- a result is only built on that path, and nothing else is -/
  out_ret : ∀ items, s.out = some (.result items) → s.returning = true
  ret_out : s.returning = true → ∀ o, s.out = some o → ∃ items, o = .result items

theorem sc_init_false (hn : 0 < n) : Policy.shouldComplete cfg 0 0 n = false := by
  cases h : Policy.shouldComplete cfg 0 0 n
  · rfl
  · rw [C09.C09_decide_iff_policy] at h
    exfalso
    rcases h with h | h | h
    · omega
    · unfold Policy.minEff at h
      split at h
      · split at h <;> omega
      · omega
    · unfold Policy.toleranceExceeded Policy.countExceeded Policy.pctExceeded at h
      rcases cfg with ⟨ms, tc, tp⟩
      cases tc <;> cases tp <;> simp at h

theorem Inv.init : Inv n maxConc cfg (init n maxConc cfg) where
  toBook := Book.init
  fatal_evt := by simp [Par.init]
  susp_evt := by simp [Par.init]
  evt_sound := by simp [Par.init]
  pend_evt := by intro i _ hi _; exact absurd hi (Nat.not_lt_zero i)
  susp_idle := by simp [Par.init]
  susp_undecided := by simp [Par.init]
  undecided := by
    intro hn _
    refine ⟨sc_init_false hn, ?_⟩
    exact shouldSuspend_of_pending (s := Par.init n maxConc cfg) (i := 0) hn (by simp [Par.init, hn])
  indef := by simp [Par.init]
  out_res := by simp [Par.init]
  out_fatal := by simp [Par.init]
  out_susp := by simp [Par.init]
  susp_sub := by simp [Par.init]
  out_sub := by simp [Par.init]
  ret_inv := by simp [Par.init]
  out_ret := by simp [Par.init]
  ret_out := by simp [Par.init]
  out_evt := by simp [Par.init]


theorem begin_spec {s s' : St} {i : Nat} (hs : begin_ s i = some s') :
    ∃ rest, s.queue = i :: rest ∧ s.active.length < s.maxWorkers ∧
      s' = { s with queue := rest, active := s.active ++ [i],
                    maxActive := max s.maxActive (s.active.length + 1) } := by
  unfold Par.begin_ at hs
  split at hs
  · cases hs
  · rename_i hd rest hq
    split at hs
    · cases hs
    · rename_i hhi
      have hhi : hd = i := Decidable.not_not.1 hhi
      subst hhi
      split at hs
      · cases hs
      · rename_i hlt
        cases hs
        exact ⟨rest, hq, Decidable.not_not.1 hlt, rfl⟩

theorem Inv.begin_ {s s' : St} {i : Nat} (h : Inv n maxConc cfg s) (hs : begin_ s i = some s') :
    Inv n maxConc cfg s' := by
  have hB := h.toBook.begin_ hs
  rcases begin_spec hs with ⟨rest, hq, _, rfl⟩
  exact {
    toBook := hB
    fatal_evt := h.fatal_evt
    susp_evt := h.susp_evt
    evt_sound := h.evt_sound
    pend_evt := h.pend_evt
    susp_idle := fun hk => by
      have := (h.susp_idle hk).2.1
      rw [hq] at this; cases this
    susp_undecided := h.susp_undecided
    undecided := fun hn he => by
      have := h.undecided hn he
      exact ⟨this.1, (shouldSuspend_congr rfl (fun _ _ => rfl)).trans this.2⟩
    indef := h.indef
    out_res := h.out_res
    out_fatal := h.out_fatal
    out_susp := h.out_susp
    susp_sub := h.susp_sub
    out_sub := h.out_sub
    ret_inv := h.ret_inv
    out_ret := h.out_ret
    ret_out := h.ret_out
    out_evt := fun ho => by
      have := (h.out_evt ho).2
      rw [hq] at this; cases this }

theorem Inv.tick {s s' : St} {d : Nat} (h : Inv n maxConc cfg s) (hs : tick s d = some s') :
    Inv n maxConc cfg s' := by
  have hB := h.toBook.tick hs
  cases hs
  exact {
    toBook := hB
    fatal_evt := h.fatal_evt
    susp_evt := h.susp_evt
    evt_sound := h.evt_sound
    pend_evt := h.pend_evt
    susp_idle := h.susp_idle
    susp_undecided := h.susp_undecided
    undecided := fun hn he => by
      have := h.undecided hn he
      exact ⟨this.1, (shouldSuspend_congr rfl (fun _ _ => rfl)).trans this.2⟩
    indef := h.indef
    out_res := h.out_res
    out_fatal := h.out_fatal
    out_susp := h.out_susp
    susp_sub := h.susp_sub
    out_sub := h.out_sub
    ret_inv := h.ret_inv
    out_ret := h.out_ret
    ret_out := h.ret_out
    out_evt := h.out_evt }

theorem Inv.timerFire {s s' : St} {i : Nat} (h : Inv n maxConc cfg s)
    (hs : timerFire s i = some s') : Inv n maxConc cfg s' := by
  have hB := h.toBook.timerFire hs
  rcases timerFire_spec h.toBook hs with ⟨hrf, t, hm, _, hst, rfl⟩
  have hin : i < n := h.tim_lt t i hm
  exact {
    toBook := hB
    fatal_evt := h.fatal_evt
    susp_evt := h.susp_evt
    evt_sound := h.evt_sound
    pend_evt := fun x hx hlt hnr => by
      by_cases hxi : x = i
      · exact absurd (by rw [hxi]) hnr
      · simp only [hxi, if_false] at hx
        exact h.pend_evt x hx hlt (by rw [hrf]; intro e; cases e)
    susp_idle := fun hk => by
      have h0 := h.susp_idle hk
      refine ⟨h0.1, h0.2.1, fun x hx => ?_⟩
      simp only
      by_cases hxi : x = i
      · rw [if_pos hxi]; intro e; cases e
      · rw [if_neg hxi]; exact h0.2.2 x hx
    susp_undecided := h.susp_undecided
    undecided := fun hn he => by
      refine ⟨(h.undecided hn he).1, ?_⟩
      apply shouldSuspend_of_pending (i := i)
      · show i < s.n
        rw [h.hn]; exact hin
      · simp
    indef := fun hk => absurd hst ((h.indef hk i hin).2.2 t)
    out_res := fun items ho => by
      have := h.out_res items ho
      refine ⟨this.1, this.2.1, fun x => ?_⟩
      have hx := this.2.2 x
      by_cases hxi : x = i
      · subst hxi
        rw [hst] at hx
        constructor <;> intro e
        · exact absurd (hx.1 e) (by intro e'; cases e')
        · exact absurd (hx.2 e) (by intro e'; cases e')
      · simp only [hxi, if_false]; exact hx
    out_fatal := h.out_fatal
    out_susp := h.out_susp
    susp_sub := h.susp_sub
    out_sub := h.out_sub
    ret_inv := h.ret_inv
    out_ret := h.out_ret
    ret_out := h.ret_out
    out_evt := h.out_evt }

theorem Inv.resubmit {s s' : St} {i : Nat} {ok : Bool} (h : Inv n maxConc cfg s)
    (hs : resubmit s i ok = some s') : Inv n maxConc cfg s' := by
  have hB := h.toBook.resubmit hs
  rcases resubmit_spec hs with ⟨hr, ⟨_, hev, rfl⟩ | ⟨_, hev, rfl⟩ | ⟨_, rfl⟩⟩
  · have hlt : i < s.submitted := (h.refr i hr).1
    have hp : s.status i = .pending := (h.refr i hr).2
    have hin : i < n := Nat.lt_of_lt_of_le hlt h.sub_le
    have hout : s.out = none := by
      cases ho : s.out
      · rfl
      · have := (h.out_evt (by rw [ho]; rfl)).1; rw [hev] at this; cases this
    have hns : s.suspendExc.isSome = true → False := by
      intro hk; have := h.susp_evt hk; rw [hev] at this; cases this
    exact {
      toBook := hB
      fatal_evt := h.fatal_evt
      susp_evt := h.susp_evt
      evt_sound := h.evt_sound
      pend_evt := fun x hx hlt' _ => by
        by_cases hxi : x = i
        · simp [hxi] at hx
        · simp only [hxi, if_false] at hx
          exact h.pend_evt x hx hlt' (by rw [hr]; intro e; exact hxi (Option.some.inj e).symm)
      susp_idle := fun hk => (hns hk).elim
      susp_undecided := fun hk => (hns hk).elim
      undecided := fun hn he => by
        refine ⟨(h.undecided hn he).1, ?_⟩
        apply shouldSuspend_of_running (i := i)
        · show i < s.n
          rw [h.hn]; exact hin
        · simp
      indef := fun hk => (hns (by rw [hk]; rfl)).elim
      out_res := fun items ho => by simp [hout] at ho
      out_fatal := fun ho => by simp [hout] at ho
      out_susp := fun k ho => by simp [hout] at ho
      susp_sub := fun hk => (hns hk).elim
      out_sub := fun ho => by simp [hout] at ho
      ret_inv := h.ret_inv
      out_ret := h.out_ret
      ret_out := h.ret_out
      out_evt := fun ho => by simp [hout] at ho }
  · exact {
      toBook := hB
      fatal_evt := h.fatal_evt
      susp_evt := h.susp_evt
      evt_sound := h.evt_sound
      pend_evt := fun x hx hlt _ => by
        by_cases hxi : x = i
        · exact hev
        · exact h.pend_evt x hx hlt (by rw [hr]; intro e; exact hxi (Option.some.inj e).symm)
      susp_idle := h.susp_idle
      susp_undecided := h.susp_undecided
      undecided := fun _ he => by
        have : s.evt = false := he
        rw [hev] at this; cases this
      indef := h.indef
      out_res := h.out_res
      out_fatal := h.out_fatal
      out_susp := h.out_susp
      susp_sub := h.susp_sub
      out_sub := h.out_sub
      ret_inv := h.ret_inv
      out_ret := h.out_ret
      ret_out := h.ret_out
      out_evt := h.out_evt }
  · exact {
      toBook := hB
      fatal_evt := fun _ => rfl
      susp_evt := fun _ => rfl
      evt_sound := fun _ => Or.inl rfl
      pend_evt := fun _ _ _ _ => rfl
      susp_idle := h.susp_idle
      susp_undecided := h.susp_undecided
      undecided := fun _ he => by cases he
      indef := h.indef
      out_res := h.out_res
      out_fatal := fun _ => rfl
      out_susp := h.out_susp
      susp_sub := h.susp_sub
      out_sub := h.out_sub
      ret_inv := fun hr => ⟨rfl, (h.ret_inv hr).2⟩
      out_ret := h.out_ret
      ret_out := h.ret_out
      out_evt := fun ho => ⟨rfl, (h.out_evt ho).2⟩ }

theorem getElem?_range_map {α : Type} (f : Nat → α) (n i : Nat) :
    ((List.range n).map f)[i]? = if i < n then some (f i) else none := by
  by_cases h : i < n
  · simp [h]
  · simp [h]

/-- The main thread leaves: the queue is cleared and the outcome fixed. -/
theorem Inv.leave {s : St} (h : Inv n maxConc cfg s) (hevt : s.evt = true) (hsubn : s.n ≤ s.submitted)
    (o : Outcome) (hof : o = .fatal → s.fatal = true)
    (hos : ∀ k, o = .suspend k → s.suspendExc.isSome = true)
    (hor : ∀ items, o = .result items → s.returning = true ∧
      items = (List.range s.n).map (fun x => if x ∈ s.queue then .suspended else s.status x))
    (hro : s.returning = true → ∃ items, o = .result items) :
    Inv n maxConc cfg { s with
      status := fun x => if x ∈ s.queue then .suspended else s.status x, queue := [],
      out := some o } := by
  have hB : Book n maxConc cfg { s with
      status := fun x => if x ∈ s.queue then .suspended else s.status x, queue := [],
      out := some o } := h.toBook.wake_core.congr rfl rfl rfl rfl rfl rfl rfl rfl rfl rfl rfl rfl rfl
  exact {
    toBook := hB
    fatal_evt := h.fatal_evt
    susp_evt := h.susp_evt
    evt_sound := h.evt_sound
    pend_evt := fun x hx hlt hnr => by
      simp only at hx
      by_cases hq : x ∈ s.queue
      · rw [if_pos hq] at hx; cases hx
      · rw [if_neg hq] at hx; exact h.pend_evt x hx hlt hnr
    susp_idle := fun hk => by
      have h0 := h.susp_idle hk
      refine ⟨h0.1, rfl, fun x hx => ?_⟩
      simp only
      by_cases hq : x ∈ s.queue
      · rw [if_pos hq]; intro e; cases e
      · rw [if_neg hq]; exact h0.2.2 x hx
    susp_undecided := h.susp_undecided
    undecided := fun _ he => by rw [hevt] at he; cases he
    indef := fun hk x hx => by
      simp only
      by_cases hq : x ∈ s.queue
      · rw [if_pos hq]
        refine ⟨?_, ?_, ?_⟩ <;> intros <;> intro e <;> cases e
      · rw [if_neg hq]; exact h.indef hk x hx
    out_res := fun items ho => by
      simp only [Option.some.injEq] at ho
      have hr := hor items ho
      have hsc := (h.ret_inv hr.1).2.2.2
      rw [hr.2]
      refine ⟨by simp [h.hn], ?_, ?_⟩
      · have e1 := hB.hsucc
        have e2 := hB.hfail
        simp only at e1 e2
        rw [cnt_eq_countP] at e1 e2
        rw [h.hn, ← e1, ← e2]
        exact hsc
      · intro x
        rw [getElem?_range_map]
        by_cases hx : x < s.n
        · simp only [hx, if_true, Option.some.injEq]
          exact ⟨id, id⟩
        · simp [hx]
    out_fatal := fun ho => by
      simp only [Option.some.injEq] at ho
      exact hof ho
    out_susp := fun k ho => by
      simp only [Option.some.injEq] at ho
      exact hos k ho
    susp_sub := h.susp_sub
    out_sub := fun _ => Nat.le_antisymm h.sub_le (by rw [← h.hn]; exact hsubn)
    ret_inv := h.ret_inv
    out_ret := fun items ho => by
      simp only [Option.some.injEq] at ho
      exact (hor items ho).1
    ret_out := fun hr o' ho => by
      simp only [Option.some.injEq] at ho
      rcases hro hr with ⟨items, e⟩
      exact ⟨items, by rw [← ho, e]⟩
    out_evt := fun _ => ⟨hevt, rfl⟩ }

theorem Inv.wake {s s' : St} (h : Inv n maxConc cfg s) (hs : wake s = some s') :
    Inv n maxConc cfg s' := by
  rcases wake_spec hs with ⟨hevt, hout, hsubn, hret, ⟨hf, rfl⟩ | ⟨hf, k, hk, rfl⟩ | ⟨hf, hk, rfl⟩⟩
  · exact h.leave hevt hsubn .fatal (fun _ => hf) (fun k e => by cases e)
      (fun items e => by cases e) (fun hr => by rw [hret] at hr; cases hr)
  · exact h.leave hevt hsubn (.suspend k) (fun e => by cases e) (fun _ _ => by rw [hk]; rfl)
      (fun items e => by cases e) (fun hr => by rw [hret] at hr; cases hr)
  · have hsc : Policy.shouldComplete cfg s.succ s.fail n = true := by
      rcases h.evt_sound hevt with h1 | h1 | h1
      · rw [hf] at h1; cases h1
      · rw [hk] at h1; cases h1
      · exact h1
    exact {
      toBook := h.toBook.congr rfl rfl rfl rfl rfl rfl rfl rfl rfl rfl rfl rfl rfl
      fatal_evt := h.fatal_evt
      susp_evt := h.susp_evt
      evt_sound := h.evt_sound
      pend_evt := h.pend_evt
      susp_idle := h.susp_idle
      susp_undecided := h.susp_undecided
      undecided := fun hn he => by
        have := h.undecided hn he
        exact ⟨this.1, (shouldSuspend_congr rfl (fun _ _ => rfl)).trans this.2⟩
      indef := h.indef
      out_res := h.out_res
      out_fatal := h.out_fatal
      out_susp := h.out_susp
      susp_sub := h.susp_sub
      out_sub := h.out_sub
      ret_inv := fun _ =>
        ⟨hevt, Nat.le_antisymm h.sub_le (by have := hsubn; rw [h.hn] at this; exact this), hk, hsc⟩
      out_ret := fun items ho => by
        have : s.out = some (.result items) := ho
        exact nomatch (hout.symm.trans this)
      ret_out := fun _ o ho => by
        have : s.out = some o := ho
        exact nomatch (hout.symm.trans this)
      out_evt := h.out_evt }

theorem Inv.snapshot {s s' : St} (h : Inv n maxConc cfg s) (hs : snapshot s = some s') :
    Inv n maxConc cfg s' := by
  rcases snapshot_spec hs with ⟨hret, hout, rfl⟩
  have hr := h.ret_inv hret
  exact h.leave hr.1 (by rw [h.hn, hr.2.1]; exact Nat.le_refl _) _
    (fun e => by cases e) (fun k e => by cases e)
    (fun items e => by cases e; exact ⟨hret, rfl⟩) (fun _ => ⟨_, rfl⟩)

/-- When `should_execution_suspend` fires in a state satisfying the bookkeeping invariant, no task is
queued or executing. -/
theorem idle_of_shouldSuspend {s : St} {k : Option Nat} (hB : Book n maxConc cfg s)
    (hk : shouldSuspend s = some k) : s.active = [] ∧ s.queue = [] := by
  have hss := (shouldSuspend_some hk).1
  rw [hB.hn] at hss
  constructor
  · cases ha : s.active with
    | nil => rfl
    | cons x xs =>
      have hx : x ∈ s.active := by rw [ha]; simp
      exact absurd (hB.run x (Or.inl hx)) (hss x (hB.act_lt x hx)).2
  · cases hq : s.queue with
    | nil => rfl
    | cons x xs =>
      have hx : x ∈ s.queue := by rw [hq]; simp
      exact absurd (hB.run x (Or.inr hx)) (hss x (hB.q_lt x hx)).2

/-- A status a finishing task can leave behind. -/
def FinalSt (b : BSt) : Prop :=
  b = .completed ∨ b = .failed ∨ b = .suspended ∨ ∃ t, b = .suspendedUntil t

theorem sc_mono {s f : Nat} {b : BSt} (hb : FinalSt b)
    (hle : (s + if isCompleted b then 1 else 0) + (f + if isFailed b then 1 else 0) ≤ n)
    (h : Policy.shouldComplete cfg s f n = true) :
    Policy.shouldComplete cfg (s + if isCompleted b then 1 else 0)
      (f + if isFailed b then 1 else 0) n = true := by
  rcases hb with rfl | rfl | rfl | ⟨t, rfl⟩ <;> simp only [isCompleted, isFailed] at hle ⊢
  · exact (C09.C09_decision_stable cfg s f n h (by simp at hle; omega)).1
  · exact (C09.C09_decision_stable cfg s f n h (by simp at hle; omega)).2
  · exact h
  · exact h

theorem Inv.finish_core {s : St} (h : Inv n maxConc cfg s) {i : Nat} {f : Fin}
    (hi : (i, f) ∈ s.ended) (b : BSt)
    (hb : FinalSt b) (sc fl : Nat) (tm : List (Nat × Nat))
    (hsc : sc = s.succ + (if isCompleted b then 1 else 0))
    (hfl : fl = s.fail + (if isFailed b then 1 else 0))
    (htm : (∃ t, b = .suspendedUntil t ∧ tm = s.timers ++ [(t, i)]) ∨
           ((∀ t, b ≠ .suspendedUntil t) ∧ tm = s.timers)) :
    Inv n maxConc cfg (Par.decide { s with
      ended := s.ended.erase (i, f),
      status := fun x => if x = i then b else s.status x,
      succ := sc, fail := fl, timers := tm }) := by
  have hB1 := h.toBook.finish_core hi b sc fl tm hsc hfl htm
  have hB := hB1.decide
  have hrun : s.status i = .running := (h.end_ok i f hi).1
  have hin : i < n := (h.end_ok i f hi).2.1
  have hle := hB1.succ_fail_le
  simp only at hle
  have hmono : Policy.shouldComplete cfg s.succ s.fail n = true →
      Policy.shouldComplete cfg sc fl n = true := by
    intro hsc0
    rw [hsc, hfl]
    rw [hsc, hfl] at hle
    exact sc_mono hb hle hsc0
  have hbp : b ≠ .pending := by
    rcases hb with rfl | rfl | rfl | ⟨t, rfl⟩ <;> intro e <;> cases e
  have hpend : ∀ x, (if x = i then b else s.status x) = .pending → x < s.submitted →
      s.refreshing ≠ some x → s.evt = true := by
    intro x hx hlt hnr
    by_cases hxi : x = i
    · rw [if_pos hxi] at hx; exact absurd hx hbp
    · rw [if_neg hxi] at hx; exact h.pend_evt x hx hlt hnr
  have hnone : s.suspendExc = none := by
    cases hk : s.suspendExc
    · rfl
    · exact absurd hrun ((h.susp_idle (by rw [hk]; rfl)).2.2 i hin)
  have hindef0 : s.suspendExc ≠ some none := by
    intro hk
    exact (h.indef hk i hin).1 hrun
  have hres : ∀ items, s.out = some (.result items) → items.length = n ∧
      Policy.shouldComplete cfg (items.countP isCompleted) (items.countP isFailed) n = true ∧
      ∀ x, (items[x]? = some .completed → (if x = i then b else s.status x) = .completed) ∧
           (items[x]? = some .failed → (if x = i then b else s.status x) = .failed) := by
    intro items ho
    have := h.out_res items ho
    refine ⟨this.1, this.2.1, fun x => ?_⟩
    have hx := this.2.2 x
    by_cases hxi : x = i
    · subst hxi
      rw [hrun] at hx
      constructor <;> intro e
      · exact absurd (hx.1 e) (by intro e'; cases e')
      · exact absurd (hx.2 e) (by intro e'; cases e')
    · simp only [hxi, if_false]; exact hx
  generalize hs1 : ({ s with
      ended := s.ended.erase (i, f),
      status := fun x => if x = i then b else s.status x,
      succ := sc, fail := fl, timers := tm } : St) = s1 at hB hB1
  have e_n : s1.n = s.n := by rw [← hs1]
  have e_cfg : s1.cfg = s.cfg := by rw [← hs1]
  have e_st : s1.status = fun x => if x = i then b else s.status x := by rw [← hs1]
  have e_sc : s1.succ = sc := by rw [← hs1]
  have e_fl : s1.fail = fl := by rw [← hs1]
  have e_evt : s1.evt = s.evt := by rw [← hs1]
  have e_sx : s1.suspendExc = s.suspendExc := by rw [← hs1]
  have e_fat : s1.fatal = s.fatal := by rw [← hs1]
  have e_out : s1.out = s.out := by rw [← hs1]
  have e_q : s1.queue = s.queue := by rw [← hs1]
  have e_sub : s1.submitted = s.submitted := by rw [← hs1]
  have e_refr : s1.refreshing = s.refreshing := by rw [← hs1]
  have e_ret : s1.returning = s.returning := by rw [← hs1]
  rcases decide_cases s1 with ⟨hc, e⟩ | ⟨hc, k, hk, e⟩ | ⟨hc, hk, e⟩
  · rw [e] at hB ⊢
    rw [e_cfg, h.hcfg, e_sc, e_fl, e_n, h.hn] at hc
    exact {
      toBook := hB
      fatal_evt := fun _ => rfl
      susp_evt := fun _ => rfl
      evt_sound := fun _ => by
        right; right; show Policy.shouldComplete cfg s1.succ s1.fail n = true
        rw [e_sc, e_fl]; exact hc
      pend_evt := fun _ _ _ _ => rfl
      susp_idle := fun hk => by
        have : s1.suspendExc.isSome = true := hk
        rw [e_sx, hnone] at this; cases this
      susp_undecided := fun hk => by
        have : s1.suspendExc.isSome = true := hk
        rw [e_sx, hnone] at this; cases this
      undecided := fun _ he => by cases he
      indef := fun hk => by
        have : s1.suspendExc = some none := hk
        rw [e_sx] at this; exact absurd this hindef0
      out_res := fun items ho => by
        have ho' : s1.out = some (.result items) := ho
        rw [e_out] at ho'
        show _ ∧ _ ∧ ∀ x, (_ → s1.status x = _) ∧ (_ → s1.status x = _)
        rw [e_st]; exact hres items ho'
      out_fatal := fun ho => by
        show s1.fatal = true
        have ho' : s1.out = some .fatal := ho
        rw [e_out] at ho'; rw [e_fat]; exact h.out_fatal ho'
      out_susp := fun k ho => by
        show s1.suspendExc.isSome = true
        have ho' : s1.out = some (.suspend k) := ho
        rw [e_out] at ho'; rw [e_sx]; exact h.out_susp k ho'
      susp_sub := fun hk => by
        have : s1.suspendExc.isSome = true := hk
        rw [e_sx, hnone] at this; cases this
      out_sub := fun ho => by
        have ho' : s1.out.isSome = true := ho
        rw [e_out] at ho'
        show s1.submitted = n
        rw [e_sub]; exact h.out_sub ho'
      ret_inv := fun hr => by
        have hr' : s1.returning = true := hr
        rw [e_ret] at hr'
        refine ⟨rfl, ?_, ?_, ?_⟩
        · show s1.submitted = n
          rw [e_sub]; exact (h.ret_inv hr').2.1
        · show s1.suspendExc = none
          rw [e_sx]; exact hnone
        · show Policy.shouldComplete cfg s1.succ s1.fail n = true
          rw [e_sc, e_fl]; exact hc
      out_ret := fun items ho => by
        have ho' : s1.out = some (.result items) := ho
        rw [e_out] at ho'
        show s1.returning = true
        rw [e_ret]; exact h.out_ret items ho'
      ret_out := fun hr o ho => by
        have hr' : s1.returning = true := hr
        have ho' : s1.out = some o := ho
        rw [e_ret] at hr'; rw [e_out] at ho'
        exact h.ret_out hr' o ho'
      out_evt := fun ho => by
        have ho' : s1.out.isSome = true := ho
        rw [e_out] at ho'
        refine ⟨rfl, ?_⟩
        show s1.queue = []
        rw [e_q]; exact (h.out_evt ho').2 }
  · rw [e] at hB ⊢
    exact {
      toBook := hB
      fatal_evt := fun _ => rfl
      susp_evt := fun _ => rfl
      evt_sound := fun _ => Or.inr (Or.inl rfl)
      pend_evt := fun _ _ _ _ => rfl
      susp_idle := fun _ => by
        have hid := idle_of_shouldSuspend hB1 hk
        have hss := (shouldSuspend_some hk).1
        rw [e_n, h.hn] at hss
        show s1.active = [] ∧ s1.queue = [] ∧ ∀ x, x < n → s1.status x ≠ .running
        exact ⟨hid.1, hid.2, fun x hx => (hss x hx).2⟩
      susp_undecided := fun _ => by
        show Policy.shouldComplete cfg s1.succ s1.fail n = false
        rw [e_cfg, h.hcfg, e_n, h.hn] at hc
        exact hc
      undecided := fun _ he => by cases he
      indef := fun hk' x hx => by
        have : some k = some none := hk'
        cases this
        have hss := shouldSuspend_some hk
        rw [e_n, h.hn] at hss
        show s1.status x ≠ _ ∧ s1.status x ≠ _ ∧ ∀ t, s1.status x ≠ _
        exact ⟨(hss.1 x hx).2, (hss.1 x hx).1, fun t => hss.2.1 x t hx⟩
      out_res := fun items ho => by
        have ho' : s1.out = some (.result items) := ho
        rw [e_out] at ho'
        show _ ∧ _ ∧ ∀ x, (_ → s1.status x = _) ∧ (_ → s1.status x = _)
        rw [e_st]; exact hres items ho'
      out_fatal := fun ho => by
        show s1.fatal = true
        have ho' : s1.out = some .fatal := ho
        rw [e_out] at ho'; rw [e_fat]; exact h.out_fatal ho'
      out_susp := fun _ _ => rfl
      susp_sub := fun _ => by
        show s1.submitted = n
        have hss := (shouldSuspend_some hk).1
        rw [e_n, h.hn] at hss
        apply Decidable.byContradiction
        intro hne
        have hlt : s1.submitted < n := Nat.lt_of_le_of_ne hB1.sub_le hne
        exact (hss _ hlt).1 (hB1.unsub _ (Nat.le_refl _) hlt)
      out_sub := fun ho => by
        have ho' : s1.out.isSome = true := ho
        rw [e_out] at ho'
        show s1.submitted = n
        rw [e_sub]; exact h.out_sub ho'
      ret_inv := fun hr => by
        have hr' : s1.returning = true := hr
        rw [e_ret] at hr'
        have h1 := hmono (h.ret_inv hr').2.2.2
        rw [e_cfg, h.hcfg, e_n, h.hn, e_sc, e_fl] at hc
        rw [hc] at h1; cases h1
      out_ret := fun items ho => by
        have ho' : s1.out = some (.result items) := ho
        rw [e_out] at ho'
        show s1.returning = true
        rw [e_ret]; exact h.out_ret items ho'
      ret_out := fun hr o ho => by
        have hr' : s1.returning = true := hr
        have ho' : s1.out = some o := ho
        rw [e_ret] at hr'; rw [e_out] at ho'
        exact h.ret_out hr' o ho'
      out_evt := fun ho => by
        have ho' : s1.out.isSome = true := ho
        rw [e_out] at ho'
        refine ⟨rfl, ?_⟩
        show s1.queue = []
        rw [e_q]; exact (h.out_evt ho').2 }
  · rw [e] at hB ⊢
    rw [e_cfg, h.hcfg, e_sc, e_fl, e_n, h.hn] at hc
    exact {
      toBook := hB
      fatal_evt := by rw [e_fat, e_evt]; exact h.fatal_evt
      susp_evt := by rw [e_sx, e_evt]; exact h.susp_evt
      evt_sound := by
        rw [e_evt, e_fat, e_sx, e_sc, e_fl]
        intro he
        rcases h.evt_sound he with h1 | h1 | h1
        · exact Or.inl h1
        · exact Or.inr (Or.inl h1)
        · exact Or.inr (Or.inr (hmono h1))
      pend_evt := fun x hx hlt hnr => by
        rw [e_evt]; apply hpend x
        · rw [e_st] at hx; exact hx
        · rw [e_sub] at hlt; exact hlt
        · rw [e_refr] at hnr; exact hnr
      susp_idle := by rw [e_sx, hnone]; intro hk; cases hk
      susp_undecided := by rw [e_sx, hnone]; intro hk; cases hk
      undecided := fun _ _ => by
        rw [e_sc, e_fl]; exact ⟨hc, hk⟩
      indef := fun hk => by
        rw [e_sx] at hk; exact absurd hk hindef0
      out_res := fun items ho => by
        rw [e_out] at ho
        rw [e_st]; exact hres items ho
      out_fatal := fun ho => by
        rw [e_out] at ho; rw [e_fat]; exact h.out_fatal ho
      out_susp := fun k ho => by
        rw [e_out] at ho; rw [e_sx]; exact h.out_susp k ho
      susp_sub := by rw [e_sx, hnone]; intro hk; cases hk
      out_sub := by rw [e_out, e_sub]; exact h.out_sub
      ret_inv := fun hr => by
        rw [e_ret] at hr
        have h1 := hmono (h.ret_inv hr).2.2.2
        rw [hc] at h1; cases h1
      out_ret := by rw [e_out, e_ret]; exact h.out_ret
      ret_out := by rw [e_out, e_ret]; exact h.ret_out
      out_evt := fun ho => by
        rw [e_out] at ho
        rw [e_evt, e_q]; exact h.out_evt ho }


/-- The status a task ending with `f` leaves behind (`none`: status untouched). -/
def finSt : Fin → Option BSt
  | .ok => some .completed
  | .err => some .failed
  | .susp => some .suspended
  | .suspUntil t => some (.suspendedUntil t)
  | .orphan => none
  | .fatal => none

/-- The timer heap after a task ending with `f`. -/
def finTimers (f : Fin) (tm : List (Nat × Nat)) (i : Nat) : List (Nat × Nat) :=
  match f with
  | .suspUntil t => tm ++ [(t, i)]
  | _ => tm

/-- What `finish` does, in one normal form. -/
theorem finish_spec {s s' : St} {i : Nat} {f : Fin} (hs : finish s i f = some s') :
    (i, f) ∈ s.ended ∧
    ((∃ b, finSt f = some b ∧ FinalSt b ∧
        s' = Par.decide { s with
          ended := s.ended.erase (i, f),
          status := fun x => if x = i then b else s.status x,
          succ := s.succ + (if isCompleted b then 1 else 0),
          fail := s.fail + (if isFailed b then 1 else 0),
          timers := finTimers f s.timers i }) ∨
     (f = .orphan ∧ s' = { s with ended := s.ended.erase (i, f) }) ∨
     (f = .fatal ∧ s' = { s with ended := s.ended.erase (i, f), fatal := true, evt := true })) := by
  unfold Par.finish at hs
  split at hs
  · cases hs
  · rename_i hi
    have hi : (i, f) ∈ s.ended := Decidable.not_not.1 hi
    refine ⟨hi, ?_⟩
    cases f <;> simp only [Option.some.injEq] at hs <;> subst hs
    · exact Or.inl ⟨_, rfl, Or.inl rfl, rfl⟩
    · exact Or.inl ⟨_, rfl, Or.inr (Or.inl rfl), rfl⟩
    · exact Or.inl ⟨_, rfl, Or.inr (Or.inr (Or.inl rfl)), rfl⟩
    · exact Or.inl ⟨_, rfl, Or.inr (Or.inr (Or.inr ⟨_, rfl⟩)), rfl⟩
    · exact Or.inr (Or.inl ⟨rfl, rfl⟩)
    · exact Or.inr (Or.inr ⟨rfl, rfl⟩)

theorem Inv.taskEnd {s s' : St} {i : Nat} {f : Fin} (h : Inv n maxConc cfg s)
    (hs : taskEnd s i f = some s') : Inv n maxConc cfg s' := by
  have hB := h.toBook.taskEnd hs
  rcases taskEnd_spec hs with ⟨hi, rfl⟩
  exact {
    toBook := hB
    fatal_evt := h.fatal_evt
    susp_evt := h.susp_evt
    evt_sound := h.evt_sound
    pend_evt := h.pend_evt
    susp_idle := fun hk => by
      have := (h.susp_idle hk).1
      rw [this] at hi; cases hi
    susp_undecided := h.susp_undecided
    undecided := fun hn he => by
      have := h.undecided hn he
      exact ⟨this.1, (shouldSuspend_congr rfl (fun _ _ => rfl)).trans this.2⟩
    indef := h.indef
    out_res := h.out_res
    out_fatal := h.out_fatal
    out_susp := h.out_susp
    susp_sub := h.susp_sub
    out_sub := h.out_sub
    ret_inv := h.ret_inv
    out_ret := h.out_ret
    ret_out := h.ret_out
    out_evt := h.out_evt }

theorem Inv.finish {s s' : St} {i : Nat} {f : Fin} (h : Inv n maxConc cfg s)
    (hs : finish s i f = some s') : Inv n maxConc cfg s' := by
  have hB := h.toBook.finish hs
  rcases finish_spec hs with ⟨hi, ⟨b, hfb, hb, rfl⟩ | ⟨_, rfl⟩ | ⟨_, rfl⟩⟩
  · apply h.finish_core hi b hb _ _ _ rfl rfl
    cases f <;> simp only [finSt, Option.some.injEq] at hfb <;> try cases hfb
    · exact Or.inr ⟨(by intro t e; cases e), rfl⟩
    · exact Or.inr ⟨(by intro t e; cases e), rfl⟩
    · exact Or.inr ⟨(by intro t e; cases e), rfl⟩
    · exact Or.inl ⟨_, rfl, rfl⟩
  · exact {
      toBook := hB
      fatal_evt := h.fatal_evt
      susp_evt := h.susp_evt
      evt_sound := h.evt_sound
      pend_evt := h.pend_evt
      susp_idle := fun hk =>
        absurd (h.end_ok i f hi).1 ((h.susp_idle hk).2.2 i (h.end_ok i f hi).2.1)
      susp_undecided := h.susp_undecided
      undecided := fun hn he => by
        have := h.undecided hn he
        exact ⟨this.1, (shouldSuspend_congr rfl (fun _ _ => rfl)).trans this.2⟩
      indef := h.indef
      out_res := h.out_res
      out_fatal := h.out_fatal
      out_susp := h.out_susp
      susp_sub := h.susp_sub
      out_sub := h.out_sub
      ret_inv := h.ret_inv
      out_ret := h.out_ret
      ret_out := h.ret_out
      out_evt := h.out_evt }
  · exact {
      toBook := hB
      fatal_evt := fun _ => rfl
      susp_evt := fun _ => rfl
      evt_sound := fun _ => Or.inl rfl
      pend_evt := fun _ _ _ _ => rfl
      susp_idle := fun hk =>
        absurd (h.end_ok i f hi).1 ((h.susp_idle hk).2.2 i (h.end_ok i f hi).2.1)
      susp_undecided := h.susp_undecided
      undecided := fun _ he => by cases he
      indef := h.indef
      out_res := h.out_res
      out_fatal := fun _ => rfl
      out_susp := h.out_susp
      susp_sub := h.susp_sub
      out_sub := h.out_sub
      ret_inv := fun hr => ⟨rfl, (h.ret_inv hr).2⟩
      out_ret := h.out_ret
      ret_out := h.ret_out
      out_evt := fun ho => ⟨rfl, (h.out_evt ho).2⟩ }

theorem Inv.cancel {s s' : St} {i : Nat} (h : Inv n maxConc cfg s)
    (hs : cancel_ s i = some s') : Inv n maxConc cfg s' := by
  have hB := h.toBook.cancel hs
  rcases cancel_spec hs with ⟨hevt, hout, hi, hsubn, rfl⟩
  exact {
    toBook := hB
    fatal_evt := h.fatal_evt
    susp_evt := h.susp_evt
    evt_sound := h.evt_sound
    pend_evt := fun x hx hlt hnr => by
      simp only at hx
      by_cases hxi : x = i
      · rw [if_pos hxi] at hx; cases hx
      · rw [if_neg hxi] at hx; exact h.pend_evt x hx hlt hnr
    susp_idle := fun hk => by
      have := (h.susp_idle hk).2.1
      rw [this] at hi; cases hi
    susp_undecided := h.susp_undecided
    undecided := fun _ he => by rw [hevt] at he; cases he
    indef := fun hk x hx => by
      simp only
      by_cases hxi : x = i
      · rw [if_pos hxi]
        refine ⟨?_, ?_, ?_⟩ <;> intros <;> intro e <;> cases e
      · rw [if_neg hxi]; exact h.indef hk x hx
    out_res := fun items ho => by simp [hout] at ho
    out_fatal := fun ho => by simp [hout] at ho
    out_susp := fun k ho => by simp [hout] at ho
    susp_sub := h.susp_sub
    out_sub := fun ho => by simp [hout] at ho
    ret_inv := h.ret_inv
    out_ret := h.out_ret
    ret_out := h.ret_out
    out_evt := fun ho => by simp [hout] at ho }

theorem Inv.submit {s s' : St} {i : Nat} (h : Inv n maxConc cfg s)
    (hs : submit_ s i = some s') : Inv n maxConc cfg s' := by
  have hB := h.toBook.submit hs
  rcases submit_spec hs with ⟨hi, hin, rfl⟩
  rw [h.hn] at hin
  have hp : s.status i = .pending := h.unsub i (by omega) hin
  have hne : s.submitted ≠ n := by omega
  have hns : s.suspendExc.isSome = true → False := fun hk => hne (h.susp_sub hk)
  have hno : s.out.isSome = true → False := fun ho => hne (h.out_sub ho)
  exact {
    toBook := hB
    fatal_evt := h.fatal_evt
    susp_evt := h.susp_evt
    evt_sound := h.evt_sound
    pend_evt := fun x hx hlt hnr => by
      simp only at hx hlt
      by_cases hxi : x = i
      · rw [if_pos hxi] at hx; cases hx
      · rw [if_neg hxi] at hx
        exact h.pend_evt x hx (by omega) hnr
    susp_idle := fun hk => (hns hk).elim
    susp_undecided := h.susp_undecided
    undecided := fun hn he => by
      refine ⟨(h.undecided hn he).1, ?_⟩
      apply shouldSuspend_of_running (i := i)
      · show i < s.n
        rw [h.hn]; exact hin
      · simp
    indef := fun hk => absurd hp (h.indef hk i hin).2.1
    out_res := fun items ho => (hno (by rw [ho]; rfl)).elim
    out_fatal := fun ho => (hno (by rw [ho]; rfl)).elim
    out_susp := fun k ho => (hno (by rw [ho]; rfl)).elim
    susp_sub := fun hk => (hns hk).elim
    out_sub := fun ho => (hno ho).elim
    ret_inv := fun hr => absurd (h.ret_inv hr).2.1 hne
    out_ret := fun items ho => (hno (by rw [ho]; rfl)).elim
    ret_out := fun hr => absurd (h.ret_inv hr).2.1 hne
    out_evt := fun ho => (hno ho).elim }

theorem Inv.step {s s' : St} {a : Act} (h : Inv n maxConc cfg s)
    (hs : step s a = some s') : Inv n maxConc cfg s' := by
  cases a with
  | submit i => exact h.submit hs
  | begin i => exact h.begin_ hs
  | taskEnd i f => exact h.taskEnd hs
  | finish i f => exact h.finish hs
  | timerFire i => exact h.timerFire hs
  | resubmit i ok => exact h.resubmit hs
  | tick d => exact h.tick hs
  | cancel i => exact h.cancel hs
  | wake => exact h.wake hs
  | snapshot => exact h.snapshot hs

theorem Inv.of_reach {s : St} (h : Reach n maxConc cfg s) : Inv n maxConc cfg s := by
  induction h with
  | init => exact Inv.init
  | step a _ hs ih => exact ih.step hs


/-! ## step lemmas -/

theorem decide_fields (s : St) :
    (Par.decide s).n = s.n ∧ (Par.decide s).cfg = s.cfg ∧ (Par.decide s).status = s.status ∧
    (Par.decide s).queue = s.queue ∧ (Par.decide s).active = s.active ∧
    (Par.decide s).succ = s.succ ∧ (Par.decide s).fail = s.fail ∧
    (Par.decide s).fatal = s.fatal ∧ (Par.decide s).out = s.out ∧
    (Par.decide s).timers = s.timers ∧ (Par.decide s).clock = s.clock ∧
    (s.evt = true → (Par.decide s).evt = true) := by
  rcases decide_cases s with ⟨_, e⟩ | ⟨_, k, _, e⟩ | ⟨_, _, e⟩ <;> rw [e] <;> simp

theorem decide_ended (s : St) : (Par.decide s).ended = s.ended := by
  rcases decide_cases s with ⟨_, e⟩ | ⟨_, k, _, e⟩ | ⟨_, _, e⟩ <;> rw [e]

/-- How one step can change the status of branch `x`. -/
theorem status_step {s s' : St} {a : Act} (hB : Book n maxConc cfg s) (hs : step s a = some s')
    (x : Nat) :
    s'.status x = s.status x ∨
    (∃ f b, a = .finish x f ∧ finSt f = some b ∧ s.status x = .running ∧ s'.status x = b) ∨
    (∃ t, a = .timerFire x ∧ s.refreshing = none ∧ s.status x = .suspendedUntil t ∧ t ≤ s.clock ∧
        s'.status x = .pending ∧ s'.refreshing = some x) ∨
    (a = .resubmit x true ∧ s.evt = false ∧ s.refreshing = some x ∧ s.status x = .pending ∧
        s'.status x = .running) ∨
    ((a = .wake ∨ a = .snapshot ∨ a = .cancel x) ∧ x ∈ s.queue ∧ s.status x = .running ∧
        s'.status x = .suspended) ∨
    (a = .submit x ∧ x = s.submitted ∧ s.status x = .pending ∧ s'.status x = .running) := by
  cases a with
  | submit i =>
    rcases submit_spec hs with ⟨hi, hin, rfl⟩
    by_cases hx : x = i
    · subst hx
      right; right; right; right; right
      rw [hB.hn] at hin
      exact ⟨rfl, hi, hB.unsub x (by omega) hin, by simp⟩
    · left; simp [hx]
  | begin i =>
    rcases begin_spec hs with ⟨rest, _, _, rfl⟩
    exact Or.inl rfl
  | tick d => cases hs; exact Or.inl rfl
  | taskEnd i f =>
    rcases taskEnd_spec hs with ⟨hi, rfl⟩
    exact Or.inl rfl
  | finish i f =>
    rcases finish_spec hs with ⟨hi, ⟨b, hfb, hb, rfl⟩ | ⟨_, rfl⟩ | ⟨_, rfl⟩⟩
    · rw [(decide_fields _).2.2.1]
      by_cases hx : x = i
      · subst hx
        right; left
        exact ⟨f, b, rfl, hfb, (hB.end_ok x f hi).1, by simp⟩
      · left; simp [hx]
    · exact Or.inl rfl
    · exact Or.inl rfl
  | timerFire i =>
    rcases timerFire_spec hB hs with ⟨hrf, t, hm, hle, hst, rfl⟩
    by_cases hx : x = i
    · subst hx
      right; right; left
      exact ⟨t, rfl, hrf, hst, hle, by simp, rfl⟩
    · left; simp [hx]
  | resubmit i ok =>
    rcases resubmit_spec hs with ⟨hr, ⟨hok, hev, rfl⟩ | ⟨hok, hev, rfl⟩ | ⟨hok, rfl⟩⟩
    · by_cases hx : x = i
      · subst hx; subst hok
        right; right; right; left
        exact ⟨rfl, hev, hr, (hB.refr x hr).2, by simp⟩
      · left; simp [hx]
    · exact Or.inl rfl
    · exact Or.inl rfl
  | cancel i =>
    rcases cancel_spec hs with ⟨_, _, hi, _, rfl⟩
    by_cases hx : x = i
    · subst hx
      right; right; right; right; left
      exact ⟨Or.inr (Or.inr rfl), hi, hB.run x (Or.inr hi), by simp⟩
    · left; simp [hx]
  | wake =>
    rcases wake_spec hs with ⟨hev, ho, _, _, ⟨_, rfl⟩ | ⟨_, k, _, rfl⟩ | ⟨_, _, rfl⟩⟩
    · by_cases hx : x ∈ s.queue
      · right; right; right; right; left
        exact ⟨Or.inl rfl, hx, hB.run x (Or.inr hx), by simp [hx]⟩
      · left; simp [hx]
    · by_cases hx : x ∈ s.queue
      · right; right; right; right; left
        exact ⟨Or.inl rfl, hx, hB.run x (Or.inr hx), by simp [hx]⟩
      · left; simp [hx]
    · exact Or.inl rfl
  | snapshot =>
    rcases snapshot_spec hs with ⟨_, ho, rfl⟩
    by_cases hx : x ∈ s.queue
    · right; right; right; right; left
      exact ⟨Or.inr (Or.inl rfl), hx, hB.run x (Or.inr hx), by simp [hx]⟩
    · left; simp [hx]

/-- COMPLETED is only ever written by the callback of a task that returned. -/
theorem completed_step {s s' : St} {a : Act} (hB : Book n maxConc cfg s) (hs : step s a = some s')
    {x : Nat} (h0 : s.status x ≠ .completed) (h1 : s'.status x = .completed) : a = .finish x .ok := by
  rcases status_step hB hs x with e | ⟨f, b, rfl, hfb, _, e⟩ | ⟨t, _, _, _, _, e, _⟩ |
      ⟨_, _, _, _, e⟩ | ⟨_, _, _, e⟩ | ⟨_, _, _, e⟩
  · rw [e] at h1; exact absurd h1 h0
  · rw [e] at h1; subst h1
    cases f <;> simp [finSt] at hfb
    rfl
  · rw [e] at h1; cases h1
  · rw [e] at h1; cases h1
  · rw [e] at h1; cases h1
  · rw [e] at h1; cases h1

/-- FAILED is only ever written by the callback of a task that raised. -/
theorem failed_step {s s' : St} {a : Act} (hB : Book n maxConc cfg s) (hs : step s a = some s')
    {x : Nat} (h0 : s.status x ≠ .failed) (h1 : s'.status x = .failed) : a = .finish x .err := by
  rcases status_step hB hs x with e | ⟨f, b, rfl, hfb, _, e⟩ | ⟨t, _, _, _, _, e, _⟩ |
      ⟨_, _, _, _, e⟩ | ⟨_, _, _, e⟩ | ⟨_, _, _, e⟩
  · rw [e] at h1; exact absurd h1 h0
  · rw [e] at h1; subst h1
    cases f <;> simp [finSt] at hfb
    rfl
  · rw [e] at h1; cases h1
  · rw [e] at h1; cases h1
  · rw [e] at h1; cases h1
  · rw [e] at h1; cases h1

/-- A branch becomes RUNNING only through its initial submission by the main thread, or — again —
through the resubmitter (second half of a resumption, refresh checkpoint ok), which only queues the
branch while the completion event is not set. -/
theorem running_step {s s' : St} {a : Act} (hB : Book n maxConc cfg s) (hs : step s a = some s')
    {x : Nat} (h0 : s.status x ≠ .running) (h1 : s'.status x = .running) :
    (a = .submit x ∧ x = s.submitted ∧ s.status x = .pending) ∨
    (a = .resubmit x true ∧ s.evt = false ∧ s.refreshing = some x ∧ s.status x = .pending) := by
  rcases status_step hB hs x with e | ⟨f, b, rfl, hfb, hr, e⟩ | ⟨t, _, _, _, _, e, _⟩ |
      ⟨ha, hev, hrf, hp, _⟩ | ⟨_, _, hr, e⟩ | ⟨ha, hx, hp, _⟩
  · rw [e] at h1; exact absurd h1 h0
  · exact absurd hr h0
  · rw [e] at h1; cases h1
  · exact Or.inr ⟨ha, hev, hrf, hp⟩
  · exact absurd hr h0
  · exact Or.inl ⟨ha, hx, hp⟩

/-- COMPLETED and FAILED are final. -/
theorem final_step {s s' : St} {a : Act} (hB : Book n maxConc cfg s) (hs : step s a = some s')
    {x : Nat} (h0 : s.status x = .completed ∨ s.status x = .failed) : s'.status x = s.status x := by
  rcases status_step hB hs x with e | ⟨f, b, rfl, hfb, hr, e⟩ | ⟨t, ha, ho, hst, hle, e, _⟩ |
      ⟨_, _, _, hst, _⟩ | ⟨_, _, hr, e⟩ | ⟨_, _, hr, _⟩
  · exact e
  · rw [hr] at h0; rcases h0 with h0 | h0 <;> cases h0
  · rw [hst] at h0; rcases h0 with h0 | h0 <;> cases h0
  · rw [hst] at h0; rcases h0 with h0 | h0 <;> cases h0
  · rw [hr] at h0; rcases h0 with h0 | h0 <;> cases h0
  · rw [hr] at h0; rcases h0 with h0 | h0 <;> cases h0

/-- Control flags never go back. -/
theorem mono_step {s s' : St} {a : Act} (hB : Book n maxConc cfg s) (hs : step s a = some s') :
    (s.fatal = true → s'.fatal = true) ∧ (s.evt = true → s'.evt = true) ∧
    (∀ o, s.out = some o → s'.out = some o) ∧
    (s.suspendExc.isSome = true → s'.suspendExc.isSome = true) := by
  cases a with
  | submit i =>
    rcases submit_spec hs with ⟨_, _, rfl⟩
    exact ⟨id, id, fun _ => id, id⟩
  | begin i =>
    rcases begin_spec hs with ⟨rest, _, _, rfl⟩
    exact ⟨id, id, fun _ => id, id⟩
  | tick d => cases hs; exact ⟨id, id, fun _ => id, id⟩
  | taskEnd i f =>
    rcases taskEnd_spec hs with ⟨hi, rfl⟩
    exact ⟨id, id, fun _ => id, id⟩
  | finish i f =>
    rcases finish_spec hs with ⟨hi, ⟨b, hfb, hb, rfl⟩ | ⟨_, rfl⟩ | ⟨_, rfl⟩⟩
    · have hd := decide_fields { s with
          ended := s.ended.erase (i, f),
          status := fun x => if x = i then b else s.status x,
          succ := s.succ + (if isCompleted b then 1 else 0),
          fail := s.fail + (if isFailed b then 1 else 0),
          timers := finTimers f s.timers i }
      refine ⟨fun h => by rw [hd.2.2.2.2.2.2.2.1]; exact h, hd.2.2.2.2.2.2.2.2.2.2.2,
        fun o h => by rw [hd.2.2.2.2.2.2.2.2.1]; exact h, ?_⟩
      intro h
      rcases decide_cases { s with
          ended := s.ended.erase (i, f),
          status := fun x => if x = i then b else s.status x,
          succ := s.succ + (if isCompleted b then 1 else 0),
          fail := s.fail + (if isFailed b then 1 else 0),
          timers := finTimers f s.timers i } with ⟨_, e⟩ | ⟨_, k, _, e⟩ | ⟨_, _, e⟩ <;> rw [e]
      · exact h
      · rfl
      · exact h
    · exact ⟨id, id, fun _ => id, id⟩
    · exact ⟨fun _ => rfl, fun _ => rfl, fun _ => id, id⟩
  | timerFire i =>
    rcases timerFire_spec hB hs with ⟨hrf, t, hm, hle, hst, rfl⟩
    exact ⟨id, id, fun _ => id, id⟩
  | resubmit i ok =>
    rcases resubmit_spec hs with ⟨hr, ⟨hok, hev, rfl⟩ | ⟨hok, hev, rfl⟩ | ⟨hok, rfl⟩⟩
    · exact ⟨id, id, fun _ => id, id⟩
    · exact ⟨id, id, fun _ => id, id⟩
    · exact ⟨fun _ => rfl, fun _ => rfl, fun _ => id, id⟩
  | cancel i =>
    rcases cancel_spec hs with ⟨_, _, _, _, rfl⟩
    exact ⟨id, id, fun _ => id, id⟩
  | wake =>
    rcases wake_spec hs with ⟨hev, ho, _, _, ⟨_, rfl⟩ | ⟨_, k, _, rfl⟩ | ⟨_, _, rfl⟩⟩
    · refine ⟨id, id, fun o h => ?_, id⟩
      rw [ho] at h; cases h
    · refine ⟨id, id, fun o h => ?_, id⟩
      rw [ho] at h; cases h
    · exact ⟨id, id, fun _ => id, id⟩
  | snapshot =>
    rcases snapshot_spec hs with ⟨_, ho, rfl⟩
    refine ⟨id, id, fun o h => ?_, id⟩
    rw [ho] at h; cases h


/-! ## the suspend decision -/

/-- `_suspend_exception` is only written by a done-callback, and only when the policy is undecided and
`should_execution_suspend` fires on the statuses of that very moment. -/
theorem suspend_decision {s s' : St} {a : Act} (hB : Book n maxConc cfg s)
    (hs : step s a = some s') (hne : s'.suspendExc ≠ s.suspendExc) :
    (∃ i f b, a = .finish i f ∧ finSt f = some b) ∧
    ∃ k, s'.suspendExc = some k ∧ shouldSuspend s' = some k ∧
      Policy.shouldComplete cfg s'.succ s'.fail n = false := by
  cases a with
  | submit i =>
    rcases submit_spec hs with ⟨_, _, rfl⟩
    exact absurd rfl hne
  | begin i =>
    rcases begin_spec hs with ⟨rest, _, _, rfl⟩
    exact absurd rfl hne
  | tick d => cases hs; exact absurd rfl hne
  | taskEnd i f =>
    rcases taskEnd_spec hs with ⟨hi, rfl⟩
    exact absurd rfl hne
  | finish i f =>
    rcases finish_spec hs with ⟨hi, ⟨b, hfb, hb, rfl⟩ | ⟨_, rfl⟩ | ⟨_, rfl⟩⟩
    · refine ⟨⟨i, f, b, rfl, hfb⟩, ?_⟩
      have hB1 := hB.finish_core hi b _ _ (finTimers f s.timers i) rfl rfl (by
        cases f <;> simp only [finSt, Option.some.injEq] at hfb <;> try cases hfb
        · exact Or.inr ⟨(by intro t e; cases e), rfl⟩
        · exact Or.inr ⟨(by intro t e; cases e), rfl⟩
        · exact Or.inr ⟨(by intro t e; cases e), rfl⟩
        · exact Or.inl ⟨_, rfl, rfl⟩)
      generalize hs1 : ({ s with
          ended := s.ended.erase (i, f),
          status := fun x => if x = i then b else s.status x,
          succ := s.succ + (if isCompleted b then 1 else 0),
          fail := s.fail + (if isFailed b then 1 else 0),
          timers := finTimers f s.timers i } : St) = s1 at hne hB1 ⊢
      have hsx : s1.suspendExc = s.suspendExc := by rw [← hs1]
      rcases decide_cases s1 with ⟨_, e⟩ | ⟨hc, k, hk, e⟩ | ⟨_, _, e⟩
      · rw [e] at hne; exact absurd hsx hne
      · rw [e]
        refine ⟨k, rfl, ?_, ?_⟩
        · exact (shouldSuspend_congr rfl (fun _ _ => rfl)).trans hk
        · rw [hB1.hcfg, hB1.hn] at hc; exact hc
      · rw [e] at hne; exact absurd hsx hne
    · exact absurd rfl hne
    · exact absurd rfl hne
  | timerFire i =>
    rcases timerFire_spec hB hs with ⟨hrf, t, hm, hle, hst, rfl⟩
    exact absurd rfl hne
  | resubmit i ok =>
    rcases resubmit_spec hs with ⟨hr, ⟨hok, hev, rfl⟩ | ⟨hok, hev, rfl⟩ | ⟨hok, rfl⟩⟩
    · exact absurd rfl hne
    · exact absurd rfl hne
    · exact absurd rfl hne
  | cancel i =>
    rcases cancel_spec hs with ⟨_, _, _, _, rfl⟩
    exact absurd rfl hne
  | wake =>
    rcases wake_spec hs with ⟨hev, ho, _, _, ⟨_, rfl⟩ | ⟨_, k, _, rfl⟩ | ⟨_, _, rfl⟩⟩
    · exact absurd rfl hne
    · exact absurd rfl hne
    · exact absurd rfl hne
  | snapshot =>
    rcases snapshot_spec hs with ⟨_, ho, rfl⟩
    exact absurd rfl hne

/-! ## the completion policy -/

/-- How one step changes the counters. -/
theorem counters_step {s s' : St} {a : Act} (hB : Book n maxConc cfg s) (hs : step s a = some s') :
    (s'.succ = s.succ ∧ s'.fail = s.fail) ∨
    (∃ i, a = .finish i .ok ∧ s'.succ = s.succ + 1 ∧ s'.fail = s.fail) ∨
    (∃ i, a = .finish i .err ∧ s'.succ = s.succ ∧ s'.fail = s.fail + 1) := by
  cases a with
  | submit i =>
    rcases submit_spec hs with ⟨_, _, rfl⟩
    exact Or.inl ⟨rfl, rfl⟩
  | begin i =>
    rcases begin_spec hs with ⟨rest, _, _, rfl⟩
    exact Or.inl ⟨rfl, rfl⟩
  | tick d => cases hs; exact Or.inl ⟨rfl, rfl⟩
  | taskEnd i f =>
    rcases taskEnd_spec hs with ⟨hi, rfl⟩
    exact Or.inl ⟨rfl, rfl⟩
  | finish i f =>
    rcases finish_spec hs with ⟨hi, ⟨b, hfb, hb, rfl⟩ | ⟨_, rfl⟩ | ⟨_, rfl⟩⟩
    · rw [(decide_fields _).2.2.2.2.2.1, (decide_fields _).2.2.2.2.2.2.1]
      cases f <;> simp only [finSt, Option.some.injEq] at hfb <;> try cases hfb
      · right; left; exact ⟨i, rfl, rfl, rfl⟩
      · right; right; exact ⟨i, rfl, rfl, rfl⟩
      · left; exact ⟨rfl, rfl⟩
      · left; exact ⟨rfl, rfl⟩
    · exact Or.inl ⟨rfl, rfl⟩
    · exact Or.inl ⟨rfl, rfl⟩
  | timerFire i =>
    rcases timerFire_spec hB hs with ⟨hrf, t, hm, hle, hst, rfl⟩
    exact Or.inl ⟨rfl, rfl⟩
  | resubmit i ok =>
    rcases resubmit_spec hs with ⟨hr, ⟨hok, hev, rfl⟩ | ⟨hok, hev, rfl⟩ | ⟨hok, rfl⟩⟩
    · exact Or.inl ⟨rfl, rfl⟩
    · exact Or.inl ⟨rfl, rfl⟩
    · exact Or.inl ⟨rfl, rfl⟩
  | cancel i =>
    rcases cancel_spec hs with ⟨_, _, _, _, rfl⟩
    exact Or.inl ⟨rfl, rfl⟩
  | wake =>
    rcases wake_spec hs with ⟨hev, ho, _, _, ⟨_, rfl⟩ | ⟨_, k, _, rfl⟩ | ⟨_, _, rfl⟩⟩
    · exact Or.inl ⟨rfl, rfl⟩
    · exact Or.inl ⟨rfl, rfl⟩
    · exact Or.inl ⟨rfl, rfl⟩
  | snapshot =>
    rcases snapshot_spec hs with ⟨_, ho, rfl⟩
    exact Or.inl ⟨rfl, rfl⟩

/-- Once the policy is decided it stays decided, and no suspend decision is taken any more. -/
theorem policy_decided_step {s s' : St} {a : Act} (h : Inv n maxConc cfg s)
    (hs : step s a = some s') (hsc : Policy.shouldComplete cfg s.succ s.fail n = true) :
    Policy.shouldComplete cfg s'.succ s'.fail n = true ∧ s'.suspendExc = s.suspendExc := by
  have h' := h.step hs
  have hle := h'.toBook.succ_fail_le
  have hdec : Policy.shouldComplete cfg s'.succ s'.fail n = true := by
    rcases counters_step h.toBook hs with ⟨e1, e2⟩ | ⟨i, _, e1, e2⟩ | ⟨i, _, e1, e2⟩
    · rw [e1, e2]; exact hsc
    · rw [e1, e2] at hle ⊢
      exact (C09.C09_decision_stable cfg _ _ n hsc (by omega)).1
    · rw [e1, e2] at hle ⊢
      exact (C09.C09_decision_stable cfg _ _ n hsc (by omega)).2
  refine ⟨hdec, ?_⟩
  apply Decidable.byContradiction
  intro hne
  rcases (suspend_decision h.toBook hs hne).2 with ⟨k, _, _, hc⟩
  rw [hdec] at hc; cases hc

/-! ## deadlock freedom -/

/-- While the event is not set, the main thread is still submitting, or a resumption is in flight, or
the executor still regards some branch as RUNNING. -/
theorem running_of_not_evt {s : St} (h : Inv n maxConc cfg s) (hn : 0 < n) (he : s.evt = false) :
    s.submitted < n ∨ s.refreshing.isSome = true ∨ ∃ i, i < n ∧ s.status i = .running := by
  by_cases hsub : s.submitted < n
  · exact Or.inl hsub
  right
  cases hrf : s.refreshing with
  | some j => exact Or.inl rfl
  | none =>
  right
  have hnp : ∀ i, i < n → s.status i ≠ .pending := by
    intro i hi hp
    have := h.pend_evt i hp (by omega) (by rw [hrf]; intro e; cases e)
    rw [he] at this; cases this
  have hu := h.undecided hn he
  rcases shouldSuspend_none hu.2 with ⟨i, hi, hp | hr⟩ | hall
  · rw [h.hn] at hi; exact absurd hp (hnp i hi)
  · exact ⟨i, by rw [← h.hn]; exact hi, hr⟩
  · apply Decidable.byContradiction
    intro hex
    rw [h.hn] at hall
    have hsum : s.succ + s.fail = n := by
      rw [h.hsucc, h.hfail]
      apply cnt_add_eq isCompleted_isFailed
      intro i hi
      have h1 := hall i hi
      have h2 : s.status i ≠ .pending := hnp i hi
      have h3 : s.status i ≠ .running := fun hr => hex ⟨i, hi, hr⟩
      cases hst : s.status i with
      | pending => exact absurd hst h2
      | running => exact absurd hst h3
      | completed => left; rfl
      | failed => right; rfl
      | suspended => exact absurd hst h1.2
      | suspendedUntil t => exact absurd hst (h1.1 t)
    have := (C09.C09_decide_iff_policy cfg s.succ s.fail n).2 (Or.inl hsum)
    rw [hu.1] at this; cases this

/-! ## deadlock freedom without early orphans -/

/-- Reachability in which `OrphanedChildException` is only raised in a task after the executor's
completion event was set (it means "the parent already completed"). -/
inductive ReachO (n maxConc : Nat) (cfg : Policy.Cfg) : St → Prop where
  | init : ReachO n maxConc cfg (init n maxConc cfg)
  | step {s s' : St} (a : Act) : ReachO n maxConc cfg s →
      (∀ i, a = .finish i .orphan → s.evt = true) → step s a = some s' → ReachO n maxConc cfg s'

theorem ReachO.reach {s : St} (h : ReachO n maxConc cfg s) : Reach n maxConc cfg s := by
  induction h with
  | init => exact Reach.init
  | step a _ _ hs ih => exact Reach.step a ih hs

/-- Every branch the executor regards as RUNNING has a task: queued, executing, or ended with its
done-callback still due. -/
def NoOrphan (n : Nat) (s : St) : Prop :=
  s.evt = false → ∀ i, i < n → s.status i = .running →
    i ∈ s.active ∨ i ∈ s.queue ∨ ∃ f, (i, f) ∈ s.ended

theorem NoOrphan.init : NoOrphan n (init n maxConc cfg) := by
  intro _ i hi hr
  simp [Par.init, hi] at hr

theorem NoOrphan.step {s s' : St} {a : Act} (hI : Inv n maxConc cfg s) (h : NoOrphan n s)
    (ha : ∀ i, a = .finish i .orphan → s.evt = true) (hs : step s a = some s') :
    NoOrphan n s' := by
  have hB := hI.toBook
  intro he' x hx hr
  have he : s.evt = false := by
    cases hev : s.evt
    · rfl
    · have := (mono_step hB hs).2.1 hev; rw [he'] at this; cases this
  cases a with
  | submit i =>
    rcases submit_spec hs with ⟨_, _, rfl⟩
    by_cases hxi : x = i
    · right; left; rw [hxi]; simp
    · simp only [hxi, if_false] at hr
      rcases h he x hx hr with hm | hm | hm
      · left; exact hm
      · right; left; exact List.mem_append_left _ hm
      · right; right; exact hm
  | begin i =>
    rcases begin_spec hs with ⟨rest, hq, _, rfl⟩
    rcases h he x hx hr with hm | hm | hm
    · left; exact List.mem_append_left _ hm
    · rw [hq] at hm
      rcases List.mem_cons.1 hm with rfl | hm
      · left; simp
      · right; left; exact hm
    · right; right; exact hm
  | tick d => cases hs; exact h he x hx hr
  | taskEnd i f =>
    rcases taskEnd_spec hs with ⟨hi, rfl⟩
    rcases h he x hx hr with hm | hm | ⟨g, hm⟩
    · by_cases hxi : x = i
      · right; right; exact ⟨f, by rw [hxi]; simp⟩
      · left; exact (List.mem_erase_of_ne hxi).2 hm
    · right; left; exact hm
    · right; right; exact ⟨g, List.mem_append_left _ hm⟩
  | finish i f =>
    rcases finish_spec hs with ⟨hi, ⟨b, hfb, hb, rfl⟩ | ⟨rfl, rfl⟩ | ⟨_, rfl⟩⟩
    · rw [(decide_fields _).2.2.1] at hr
      rw [(decide_fields _).2.2.2.1, (decide_fields _).2.2.2.2.1, decide_ended]
      by_cases hxi : x = i
      · simp only [hxi, if_true] at hr
        rcases hb with rfl | rfl | rfl | ⟨t, rfl⟩ <;> cases hr
      · simp only [hxi, if_false] at hr
        rcases h he x hx hr with hm | hm | ⟨g, hm⟩
        · left; exact hm
        · right; left; exact hm
        · right; right
          refine ⟨g, (List.mem_erase_of_ne ?_).2 hm⟩
          intro e; cases e; exact hxi rfl
    · have := ha i rfl; rw [he] at this; cases this
    · cases he'
  | timerFire i =>
    rcases timerFire_spec hB hs with ⟨hrf, t, hm, hle, hst, rfl⟩
    by_cases hxi : x = i
    · simp only [hxi, if_true] at hr; cases hr
    · simp only [hxi, if_false] at hr
      exact h he x hx hr
  | resubmit i ok =>
    rcases resubmit_spec hs with ⟨hr, ⟨hok, hev, rfl⟩ | ⟨hok, hev, rfl⟩ | ⟨hok, rfl⟩⟩
    · by_cases hxi : x = i
      · right; left; rw [hxi]; simp
      · simp only [hxi, if_false] at hr
        rcases h he x hx hr with hm | hm | hm
        · left; exact hm
        · right; left; exact List.mem_append_left _ hm
        · right; right; exact hm
    · have : s.evt = false := he'
      rw [hev] at this; cases this
    · cases he'
  | cancel i =>
    rcases cancel_spec hs with ⟨hev, _, _, _, _⟩
    rw [he] at hev; cases hev
  | wake =>
    rcases wake_spec hs with ⟨hev, _, _, _, _⟩
    rw [he] at hev; cases hev
  | snapshot =>
    rcases snapshot_spec hs with ⟨hret, _, _⟩
    have := (hI.ret_inv hret).1
    rw [he] at this; cases this

theorem NoOrphan.of_reachO {s : St} (h : ReachO n maxConc cfg s) : NoOrphan n s := by
  induction h with
  | init => exact NoOrphan.init
  | step a hr ha hs ih => exact ih.step (Inv.of_reach hr.reach) ha hs

/-! ## enabledness -/

theorem finish_enabled {s : St} {i : Nat} {f : Fin} (hi : (i, f) ∈ s.ended) :
    (step s (.finish i f)).isSome = true := by
  simp only [Par.step, Par.finish, hi, not_true_eq_false, if_false]
  cases f <;> rfl

theorem taskEnd_enabled {s : St} {i : Nat} (hi : i ∈ s.active) (f : Fin) :
    (step s (.taskEnd i f)).isSome = true := by
  simp [Par.step, Par.taskEnd, hi]

theorem begin_enabled {s : St} {i : Nat} {rest : List Nat} (hq : s.queue = i :: rest)
    (hw : s.active.length < s.maxWorkers) : (step s (.begin i)).isSome = true := by
  simp [Par.step, Par.begin_, hq, hw]

theorem snapshot_enabled {s : St} (hr : s.returning = true) (ho : s.out = none) :
    (step s .snapshot).isSome = true := by
  simp [Par.step, Par.snapshot, hr, ho]

theorem wake_enabled {s : St} (he : s.evt = true) (ho : s.out = none) (hsub : s.n ≤ s.submitted)
    (hret : s.returning = false) : (step s .wake).isSome = true := by
  simp only [Par.step, Par.wake, he, ho, Nat.not_lt.2 hsub, hret]
  cases s.fatal
  · cases s.suspendExc <;> simp
  · simp

theorem tick_enabled (s : St) (d : Nat) : (step s (.tick d)).isSome = true := rfl

theorem maxWorkers_pos {s : St} (hB : Book n maxConc cfg s) (hn : 0 < n) : 0 < s.maxWorkers := by
  rw [hB.hmw]; split <;> omega

/-! ## fatal failures -/

theorem finish_fatal {s s' : St} {i : Nat} (hs : finish s i .fatal = some s') :
    s'.fatal = true ∧ s'.evt = true := by
  rcases finish_spec hs with ⟨_, ⟨b, hfb, _, _⟩ | ⟨hf, _⟩ | ⟨_, rfl⟩⟩
  · cases hfb
  · cases hf
  · exact ⟨rfl, rfl⟩

/-- A failing refresh checkpoint in the timer thread's resubmitter is always recorded as fatal and sets
the event; the branch stays PENDING. -/
theorem resubmit_false_fatal {s s' : St} {i : Nat} (hB : Book n maxConc cfg s)
    (hs : resubmit s i false = some s') :
    s'.fatal = true ∧ s'.evt = true ∧ s'.status i = .pending ∧ s'.refreshing = none := by
  rcases resubmit_spec hs with ⟨hr, ⟨hok, hev, rfl⟩ | ⟨hok, hev, rfl⟩ | ⟨hok, rfl⟩⟩
  · cases hok
  · cases hok
  · exact ⟨rfl, rfl, (hB.refr i hr).2, rfl⟩

theorem wake_fatal {s s' : St} (hf : s.fatal = true) (hs : wake s = some s') :
    s'.out = some .fatal := by
  rcases wake_spec hs with ⟨_, _, _, _, ⟨_, rfl⟩ | ⟨hf', _⟩ | ⟨hf', _⟩⟩
  · rfl
  · rw [hf] at hf'; cases hf'
  · rw [hf] at hf'; cases hf'

/-! ## traces -/

theorem reach_of_runActs {s0 s : St} (h0 : Reach n maxConc cfg s0) (acts : List Act)
    (hr : runActs s0 acts = some s) : Reach n maxConc cfg s := by
  induction acts generalizing s0 with
  | nil => cases hr; exact h0
  | cons a as ih =>
    simp only [runActs] at hr
    split at hr
    · cases hr
    · rename_i s1 hs1
      exact ih (Reach.step a h0 hs1) hr

theorem runActs_of_reach {s : St} (h : Reach n maxConc cfg s) :
    ∃ acts, runActs (init n maxConc cfg) acts = some s := by
  induction h with
  | init => exact ⟨[], rfl⟩
  | step a _ hs ih =>
    rcases ih with ⟨acts, hacts⟩
    refine ⟨acts ++ [a], ?_⟩
    have : ∀ (s0 : St) (l : List Act) (s1 : St), runActs s0 l = some s1 →
        runActs s0 (l ++ [a]) = step s1 a := by
      intro s0 l
      induction l generalizing s0 with
      | nil => intro s1 h1; cases h1; simp only [List.nil_append, runActs]; cases step s0 a <;> rfl
      | cons b l ihl =>
        intro s1 h1
        simp only [runActs, List.cons_append] at h1 ⊢
        cases hb : step s0 b with
        | none => rw [hb] at h1; cases h1
        | some s2 => rw [hb] at h1; simp only; exact ihl s2 s1 h1
    rw [this _ _ _ hacts, hs]

/-- A branch found COMPLETED / FAILED after a run was so at the start or a task of it returned / raised
during the run. -/
theorem trace_final {s0 s : St} (h0 : Reach n maxConc cfg s0) (acts : List Act)
    (hr : runActs s0 acts = some s) (x : Nat) :
    (s.status x = .completed → s0.status x = .completed ∨ Act.finish x .ok ∈ acts) ∧
    (s.status x = .failed → s0.status x = .failed ∨ Act.finish x .err ∈ acts) := by
  induction acts generalizing s0 with
  | nil => cases hr; exact ⟨Or.inl, Or.inl⟩
  | cons a as ih =>
    simp only [runActs] at hr
    split at hr
    · cases hr
    · rename_i s1 hs1
      have hB := (Inv.of_reach h0).toBook
      have := ih (Reach.step a h0 hs1) hr
      constructor
      · intro hc
        rcases this.1 hc with h1 | h1
        · by_cases hc0 : s0.status x = .completed
          · exact Or.inl hc0
          · right; rw [completed_step hB hs1 hc0 h1]; simp
        · right; exact List.mem_cons_of_mem _ h1
      · intro hc
        rcases this.2 hc with h1 | h1
        · by_cases hc0 : s0.status x = .failed
          · exact Or.inl hc0
          · right; rw [failed_step hB hs1 hc0 h1]; simp
        · right; exact List.mem_cons_of_mem _ h1


/-! ## cancellation -/

/-- SUSPENDED is final too: a branch that suspended indefinitely (or whose task was cancelled) is never
resubmitted — no timer entry exists for it and it has no task. -/
theorem suspended_step {s s' : St} {a : Act} (hB : Book n maxConc cfg s) (hs : step s a = some s')
    {x : Nat} (h0 : s.status x = .suspended) : s'.status x = .suspended := by
  rcases status_step hB hs x with e | ⟨f, b, _, _, hr, _⟩ | ⟨t, _, _, hst, _, _, _⟩ |
      ⟨_, _, _, hst, _⟩ | ⟨_, _, hr, _⟩ | ⟨_, _, hr, _⟩
  · rw [e]; exact h0
  · rw [h0] at hr; cases hr
  · rw [h0] at hst; cases hst
  · rw [h0] at hst; cases hst
  · rw [h0] at hr; cases hr
  · rw [h0] at hr; cases hr

/-- The main thread's outcome is only written by `wake`. -/
theorem out_step {s s' : St} {a : Act} (hB : Book n maxConc cfg s) (hs : step s a = some s') :
    s'.out = s.out ∨ a = .wake ∨ a = .snapshot := by
  cases a with
  | submit i =>
    rcases submit_spec hs with ⟨_, _, rfl⟩
    exact Or.inl rfl
  | begin i =>
    rcases begin_spec hs with ⟨rest, _, _, rfl⟩
    exact Or.inl rfl
  | tick d => cases hs; exact Or.inl rfl
  | taskEnd i f =>
    rcases taskEnd_spec hs with ⟨hi, rfl⟩
    exact Or.inl rfl
  | finish i f =>
    rcases finish_spec hs with ⟨hi, ⟨b, hfb, hb, rfl⟩ | ⟨_, rfl⟩ | ⟨_, rfl⟩⟩
    · left; rw [(decide_fields _).2.2.2.2.2.2.2.2.1]
    · exact Or.inl rfl
    · exact Or.inl rfl
  | timerFire i =>
    rcases timerFire_spec hB hs with ⟨hrf, t, hm, hle, hst, rfl⟩
    exact Or.inl rfl
  | resubmit i ok =>
    rcases resubmit_spec hs with ⟨hr, ⟨hok, hev, rfl⟩ | ⟨hok, hev, rfl⟩ | ⟨hok, rfl⟩⟩
    · exact Or.inl rfl
    · exact Or.inl rfl
    · exact Or.inl rfl
  | cancel i =>
    rcases cancel_spec hs with ⟨_, _, _, _, rfl⟩
    exact Or.inl rfl
  | wake => exact Or.inr (Or.inl rfl)
  | snapshot => exact Or.inr (Or.inr rfl)

theorem cancel_enabled {s : St} {i : Nat} (he : s.evt = true) (ho : s.out = none)
    (hsub : s.n ≤ s.submitted) (hi : i ∈ s.queue) : (step s (.cancel i)).isSome = true := by
  simp [Par.step, Par.cancel_, he, ho, hi, Nat.not_lt.2 hsub]

theorem submit_enabled {s : St} (hsub : s.submitted < s.n) :
    (step s (.submit s.submitted)).isSome = true := by
  simp [Par.step, Par.submit_, hsub]


/-- A done-callback does not touch the submission counter. -/
theorem queue_step_sub {s s' : St} {i : Nat} {f : Fin}
    (hs : step s (.finish i f) = some s') : s'.submitted = s.submitted := by
  rcases finish_spec hs with ⟨hi, ⟨b, hfb, hb, rfl⟩ | ⟨_, rfl⟩ | ⟨_, rfl⟩⟩
  · rcases decide_cases { s with
        ended := s.ended.erase (i, f),
        status := fun x => if x = i then b else s.status x,
        succ := s.succ + (if isCompleted b then 1 else 0),
        fail := s.fail + (if isFailed b then 1 else 0),
        timers := finTimers f s.timers i } with ⟨_, e⟩ | ⟨_, k, _, e⟩ | ⟨_, _, e⟩ <;> rw [e]
  · rfl
  · rfl

/-! ## nothing is started after the decision -/

/-- Once the completion event is set, a step adds to the work queue only by the main thread's initial
submission of the next branch, and only a queued task can become active. -/
theorem queue_step {s s' : St} {a : Act} (hB : Book n maxConc cfg s) (he : s.evt = true)
    (hs : step s a = some s') :
    s'.evt = true ∧ s.submitted ≤ s'.submitted ∧
    (∀ x, x ∈ s'.queue → x ∈ s.queue ∨ (s.submitted ≤ x ∧ x < s'.submitted)) ∧
    (∀ x, x ∈ s'.active → x ∈ s.active ∨ x ∈ s.queue) := by
  refine ⟨(mono_step hB hs).2.1 he, ?_⟩
  cases a with
  | submit i =>
    rcases submit_spec hs with ⟨hi, _, rfl⟩
    refine ⟨Nat.le_succ _, fun x hx => ?_, fun x hx => Or.inl hx⟩
    rcases List.mem_append.1 hx with hx | hx
    · exact Or.inl hx
    · simp at hx; subst hx; subst hi
      exact Or.inr ⟨Nat.le_refl _, Nat.lt_succ_self _⟩
  | begin i =>
    rcases begin_spec hs with ⟨rest, hq, _, rfl⟩
    refine ⟨Nat.le_refl _, fun x hx => Or.inl (by rw [hq]; exact List.mem_cons_of_mem _ hx),
      fun x hx => ?_⟩
    rcases List.mem_append.1 hx with hx | hx
    · exact Or.inl hx
    · simp at hx; subst hx
      exact Or.inr (by rw [hq]; simp)
  | tick d => cases hs; exact ⟨Nat.le_refl _, fun _ hx => Or.inl hx, fun _ hx => Or.inl hx⟩
  | taskEnd i f =>
    rcases taskEnd_spec hs with ⟨hi, rfl⟩
    exact ⟨Nat.le_refl _, fun _ hx => Or.inl hx, fun _ hx => Or.inl (List.mem_of_mem_erase hx)⟩
  | finish i f =>
    rcases finish_spec hs with ⟨hi, ⟨b, hfb, hb, rfl⟩ | ⟨_, rfl⟩ | ⟨_, rfl⟩⟩
    · have hd := decide_fields { s with
          ended := s.ended.erase (i, f),
          status := fun x => if x = i then b else s.status x,
          succ := s.succ + (if isCompleted b then 1 else 0),
          fail := s.fail + (if isFailed b then 1 else 0),
          timers := finTimers f s.timers i }
      have hsub : (Par.decide { s with
          ended := s.ended.erase (i, f),
          status := fun x => if x = i then b else s.status x,
          succ := s.succ + (if isCompleted b then 1 else 0),
          fail := s.fail + (if isFailed b then 1 else 0),
          timers := finTimers f s.timers i }).submitted = s.submitted := by
        rcases decide_cases { s with
          ended := s.ended.erase (i, f),
          status := fun x => if x = i then b else s.status x,
          succ := s.succ + (if isCompleted b then 1 else 0),
          fail := s.fail + (if isFailed b then 1 else 0),
          timers := finTimers f s.timers i } with ⟨_, e⟩ | ⟨_, k, _, e⟩ | ⟨_, _, e⟩ <;> rw [e]
      rw [hd.2.2.2.1, hd.2.2.2.2.1, hsub]
      exact ⟨Nat.le_refl _, fun _ hx => Or.inl hx, fun _ hx => Or.inl hx⟩
    · exact ⟨Nat.le_refl _, fun _ hx => Or.inl hx, fun _ hx => Or.inl hx⟩
    · exact ⟨Nat.le_refl _, fun _ hx => Or.inl hx, fun _ hx => Or.inl hx⟩
  | timerFire i =>
    rcases timerFire_spec hB hs with ⟨hrf, t, hm, hle, hst, rfl⟩
    exact ⟨Nat.le_refl _, fun _ hx => Or.inl hx, fun _ hx => Or.inl hx⟩
  | resubmit i ok =>
    rcases resubmit_spec hs with ⟨hr, ⟨hok, hev, rfl⟩ | ⟨hok, hev, rfl⟩ | ⟨hok, rfl⟩⟩
    · rw [he] at hev; cases hev
    · exact ⟨Nat.le_refl _, fun _ hx => Or.inl hx, fun _ hx => Or.inl hx⟩
    · exact ⟨Nat.le_refl _, fun _ hx => Or.inl hx, fun _ hx => Or.inl hx⟩
  | cancel i =>
    rcases cancel_spec hs with ⟨_, _, _, _, rfl⟩
    exact ⟨Nat.le_refl _, fun _ hx => Or.inl (List.mem_of_mem_erase hx), fun _ hx => Or.inl hx⟩
  | wake =>
    rcases wake_spec hs with ⟨hev, ho, _, _, ⟨_, rfl⟩ | ⟨_, k, _, rfl⟩ | ⟨_, _, rfl⟩⟩
    · exact ⟨Nat.le_refl _, fun _ hx => (by cases hx), fun _ hx => Or.inl hx⟩
    · exact ⟨Nat.le_refl _, fun _ hx => (by cases hx), fun _ hx => Or.inl hx⟩
    · exact ⟨Nat.le_refl _, fun _ hx => Or.inl hx, fun _ hx => Or.inl hx⟩
  | snapshot =>
    rcases snapshot_spec hs with ⟨_, ho, rfl⟩
    exact ⟨Nat.le_refl _, fun _ hx => (by cases hx), fun _ hx => Or.inl hx⟩

theorem queue_run {s s' : St} (hR : Reach n maxConc cfg s) (he : s.evt = true) (acts : List Act)
    (hr : runActs s acts = some s') :
    s'.evt = true ∧ s.submitted ≤ s'.submitted ∧ s'.submitted ≤ n ∧
    (∀ x, x ∈ s'.queue → x ∈ s.queue ∨ (s.submitted ≤ x ∧ x < s'.submitted)) ∧
    (∀ x, x ∈ s'.active → x ∈ s.active ∨ x ∈ s.queue ∨ (s.submitted ≤ x ∧ x < s'.submitted)) := by
  induction acts generalizing s with
  | nil =>
    cases hr
    exact ⟨he, Nat.le_refl _, (Inv.of_reach hR).sub_le, fun _ hx => Or.inl hx, fun _ hx => Or.inl hx⟩
  | cons a as ih =>
    simp only [runActs] at hr
    split at hr
    · cases hr
    · rename_i s1 hs1
      have h1 := queue_step (Inv.of_reach hR).toBook he hs1
      have h2 := ih (Reach.step a hR hs1) h1.1 hr
      refine ⟨h2.1, Nat.le_trans h1.2.1 h2.2.1, h2.2.2.1, fun x hx => ?_, fun x hx => ?_⟩
      · rcases h2.2.2.2.1 x hx with hq | ⟨ha, hb⟩
        · rcases h1.2.2.1 x hq with hq | ⟨ha, hb⟩
          · exact Or.inl hq
          · exact Or.inr ⟨ha, Nat.lt_of_lt_of_le hb h2.2.1⟩
        · exact Or.inr ⟨Nat.le_trans h1.2.1 ha, hb⟩
      · rcases h2.2.2.2.2 x hx with hq | hq | ⟨ha, hb⟩
        · rcases h1.2.2.2 x hq with hq | hq
          · exact Or.inl hq
          · exact Or.inr (Or.inl hq)
        · rcases h1.2.2.1 x hq with hq | ⟨ha, hb⟩
          · exact Or.inr (Or.inl hq)
          · exact Or.inr (Or.inr ⟨ha, Nat.lt_of_lt_of_le hb h2.2.1⟩)
        · exact Or.inr (Or.inr ⟨Nat.le_trans h1.2.1 ha, hb⟩)

/-! ## submission order -/

/-- The indices of the `submit` steps of a run, in order. -/
def submitsOf (acts : List Act) : List Nat :=
  acts.filterMap (fun a => match a with | .submit i => some i | _ => none)

/-- `submitted` only moves by `submit submitted`. -/
theorem submitted_step {s s' : St} {a : Act} (hB : Book n maxConc cfg s) (hs : step s a = some s') :
    (a = .submit s.submitted ∧ s'.submitted = s.submitted + 1) ∨
    (submitsOf [a] = [] ∧ s'.submitted = s.submitted) := by
  cases a with
  | submit i =>
    rcases submit_spec hs with ⟨hi, _, rfl⟩
    subst hi
    exact Or.inl ⟨rfl, rfl⟩
  | begin i =>
    rcases begin_spec hs with ⟨rest, _, _, rfl⟩
    exact Or.inr ⟨rfl, rfl⟩
  | tick d => cases hs; exact Or.inr ⟨rfl, rfl⟩
  | taskEnd i f =>
    rcases taskEnd_spec hs with ⟨hi, rfl⟩
    exact Or.inr ⟨rfl, rfl⟩
  | finish i f =>
    have := (queue_step_sub hs)
    exact Or.inr ⟨rfl, this⟩
  | timerFire i =>
    rcases timerFire_spec hB hs with ⟨hrf, t, hm, hle, hst, rfl⟩
    exact Or.inr ⟨rfl, rfl⟩
  | resubmit i ok =>
    rcases resubmit_spec hs with ⟨hr, ⟨hok, hev, rfl⟩ | ⟨hok, hev, rfl⟩ | ⟨hok, rfl⟩⟩
    · exact Or.inr ⟨rfl, rfl⟩
    · exact Or.inr ⟨rfl, rfl⟩
    · exact Or.inr ⟨rfl, rfl⟩
  | cancel i =>
    rcases cancel_spec hs with ⟨_, _, _, _, rfl⟩
    exact Or.inr ⟨rfl, rfl⟩
  | wake =>
    rcases wake_spec hs with ⟨hev, ho, _, _, ⟨_, rfl⟩ | ⟨_, k, _, rfl⟩ | ⟨_, _, rfl⟩⟩
    · exact Or.inr ⟨rfl, rfl⟩
    · exact Or.inr ⟨rfl, rfl⟩
    · exact Or.inr ⟨rfl, rfl⟩
  | snapshot =>
    rcases snapshot_spec hs with ⟨_, ho, rfl⟩
    exact Or.inr ⟨rfl, rfl⟩

/-- Along any run the initial tasks are submitted in index order, each exactly once. -/
theorem submits_run {s0 s : St} (h0 : Reach n maxConc cfg s0) (acts : List Act)
    (hr : runActs s0 acts = some s) :
    s0.submitted ≤ s.submitted ∧
    submitsOf acts = List.range' s0.submitted (s.submitted - s0.submitted) := by
  induction acts generalizing s0 with
  | nil => cases hr; simp [submitsOf]
  | cons a as ih =>
    simp only [runActs] at hr
    split at hr
    · cases hr
    · rename_i s1 hs1
      have h1 := submitted_step (Inv.of_reach h0).toBook hs1
      have h2 := ih (Reach.step a h0 hs1) hr
      have hcons : submitsOf (a :: as) = submitsOf [a] ++ submitsOf as := by
        simp [submitsOf, List.filterMap_cons]
        cases a <;> simp
      rcases h1 with ⟨rfl, e⟩ | ⟨e0, e⟩
      · rw [e] at h2
        refine ⟨by omega, ?_⟩
        rw [hcons, h2.2]
        have : s.submitted - s0.submitted = (s.submitted - (s0.submitted + 1)) + 1 := by omega
        rw [this, List.range'_succ]
        simp [submitsOf]
      · rw [e] at h2
        refine ⟨h2.1, ?_⟩
        rw [hcons, e0, h2.2]; rfl


/-! ## the refresh window -/

/-- How one step changes `refreshing`: set by the first half of a resumption, cleared by the second. -/
theorem refreshing_step {s s' : St} {a : Act} (hB : Book n maxConc cfg s) (hs : step s a = some s') :
    s'.refreshing = s.refreshing ∨
    (∃ i t, a = .timerFire i ∧ s.refreshing = none ∧ s'.refreshing = some i ∧
        s.status i = .suspendedUntil t ∧ t ≤ s.clock) ∨
    (∃ i ok, a = .resubmit i ok ∧ s.refreshing = some i ∧ s'.refreshing = none) := by
  cases a with
  | submit i =>
    rcases submit_spec hs with ⟨_, _, rfl⟩
    exact Or.inl rfl
  | begin i =>
    rcases begin_spec hs with ⟨rest, _, _, rfl⟩
    exact Or.inl rfl
  | tick d => cases hs; exact Or.inl rfl
  | taskEnd i f =>
    rcases taskEnd_spec hs with ⟨hi, rfl⟩
    exact Or.inl rfl
  | finish i f =>
    rcases finish_spec hs with ⟨hi, ⟨b, hfb, hb, rfl⟩ | ⟨_, rfl⟩ | ⟨_, rfl⟩⟩
    · left
      rcases decide_cases { s with
        ended := s.ended.erase (i, f),
        status := fun x => if x = i then b else s.status x,
        succ := s.succ + (if isCompleted b then 1 else 0),
        fail := s.fail + (if isFailed b then 1 else 0),
        timers := finTimers f s.timers i } with ⟨_, e⟩ | ⟨_, k, _, e⟩ | ⟨_, _, e⟩ <;> rw [e]
    · exact Or.inl rfl
    · exact Or.inl rfl
  | timerFire i =>
    rcases timerFire_spec hB hs with ⟨hrf, t, hm, hle, hst, rfl⟩
    exact Or.inr (Or.inl ⟨i, t, rfl, hrf, rfl, hst, hle⟩)
  | resubmit i ok =>
    rcases resubmit_spec hs with ⟨hr, ⟨hok, hev, rfl⟩ | ⟨hok, hev, rfl⟩ | ⟨hok, rfl⟩⟩
    · exact Or.inr (Or.inr ⟨i, ok, rfl, hr, rfl⟩)
    · exact Or.inr (Or.inr ⟨i, ok, rfl, hr, rfl⟩)
    · exact Or.inr (Or.inr ⟨i, ok, rfl, hr, rfl⟩)
  | cancel i =>
    rcases cancel_spec hs with ⟨_, _, _, _, rfl⟩
    exact Or.inl rfl
  | wake =>
    rcases wake_spec hs with ⟨hev, ho, _, _, ⟨_, rfl⟩ | ⟨_, k, _, rfl⟩ | ⟨_, _, rfl⟩⟩
    · exact Or.inl rfl
    · exact Or.inl rfl
    · exact Or.inl rfl
  | snapshot =>
    rcases snapshot_spec hs with ⟨_, ho, rfl⟩
    exact Or.inl rfl

/-- While a refresh is in flight and its `resubmit` has not happened, it stays in flight (and the branch
PENDING, by `Book.refr`). -/
theorem refresh_window {s s' : St} {i : Nat} (hR : Reach n maxConc cfg s)
    (hr : s.refreshing = some i) (acts : List Act) (hrun : runActs s acts = some s')
    (hno : ∀ ok, Act.resubmit i ok ∉ acts) :
    s'.refreshing = some i ∧ s'.status i = .pending := by
  induction acts generalizing s with
  | nil => cases hrun; exact ⟨hr, ((Inv.of_reach hR).refr i hr).2⟩
  | cons a as ih =>
    simp only [runActs] at hrun
    split at hrun
    · cases hrun
    · rename_i s1 hs1
      have hB := (Inv.of_reach hR).toBook
      have hr1 : s1.refreshing = some i := by
        rcases refreshing_step hB hs1 with e | ⟨j, t, _, hn, _⟩ | ⟨j, ok, ha, hj, _⟩
        · rw [e]; exact hr
        · rw [hr] at hn; cases hn
        · rw [hr] at hj; cases hj
          exact absurd (by rw [ha]; simp) (hno ok)
      exact ih (Reach.step a hR hs1) hr1 hrun
        (fun ok hm => hno ok (List.mem_cons_of_mem _ hm))

theorem resubmit_enabled {s : St} {i : Nat} (hr : s.refreshing = some i) (ok : Bool) :
    (step s (.resubmit i ok)).isSome = true := by
  simp only [Par.step, Par.resubmit, hr, ne_eq, not_true_eq_false, if_false]
  cases ok
  · simp
  · cases s.evt <;> simp

theorem timerFire_disabled {s : St} (hr : s.refreshing.isSome = true) (i : Nat) :
    step s (.timerFire i) = none := by
  simp [Par.step, Par.timerFire, hr]


/-! ## a done-callback runs after its task function ended -/

theorem finish_ended {s s' : St} {i : Nat} {f : Fin} (hs : finish s i f = some s') :
    (i, f) ∈ s.ended ∧ s'.ended = s.ended.erase (i, f) := by
  rcases finish_spec hs with ⟨hi, ⟨b, hfb, hb, rfl⟩ | ⟨_, rfl⟩ | ⟨_, rfl⟩⟩
  · exact ⟨hi, decide_ended _⟩
  · exact ⟨hi, rfl⟩
  · exact ⟨hi, rfl⟩

/-- How one step changes whether the callback of `(i, f)` is due. -/
theorem ended_step {s s' : St} {a : Act} (hB : Book n maxConc cfg s) (hs : step s a = some s')
    (i : Nat) (f : Fin) :
    (a = .taskEnd i f ∧ (i, f) ∉ s.ended ∧ (i, f) ∈ s'.ended) ∨
    (a = .finish i f ∧ (i, f) ∈ s.ended ∧ (i, f) ∉ s'.ended) ∨
    (a ≠ .taskEnd i f ∧ a ≠ .finish i f ∧ ((i, f) ∈ s'.ended ↔ (i, f) ∈ s.ended)) := by
  cases a with
  | submit j =>
    rcases submit_spec hs with ⟨_, _, rfl⟩
    exact Or.inr (Or.inr ⟨(by intro e; cases e), (by intro e; cases e), Iff.rfl⟩)
  | begin j =>
    rcases begin_spec hs with ⟨rest, _, _, rfl⟩
    exact Or.inr (Or.inr ⟨(by intro e; cases e), (by intro e; cases e), Iff.rfl⟩)
  | tick d =>
    cases hs
    exact Or.inr (Or.inr ⟨(by intro e; cases e), (by intro e; cases e), Iff.rfl⟩)
  | taskEnd j g =>
    rcases taskEnd_spec hs with ⟨hj, rfl⟩
    by_cases hjg : (j, g) = (i, f)
    · have e1 : j = i := (Prod.mk.inj hjg).1
      have e2 : g = f := (Prod.mk.inj hjg).2
      subst e1; subst e2
      left
      exact ⟨rfl, fun hm => (hB.end_ok j g hm).2.2.1 hj, by simp⟩
    · right; right
      refine ⟨(by intro e; cases e; exact hjg rfl), (by intro e; cases e), ?_⟩
      simp only [List.mem_append, List.mem_singleton]
      constructor
      · rintro (hm | hm)
        · exact hm
        · exact absurd hm.symm hjg
      · exact Or.inl
  | finish j g =>
    have he := finish_ended hs
    by_cases hjg : (j, g) = (i, f)
    · have e1 : j = i := (Prod.mk.inj hjg).1
      have e2 : g = f := (Prod.mk.inj hjg).2
      subst e1; subst e2
      right; left
      refine ⟨rfl, he.1, ?_⟩
      rw [he.2]
      intro hm
      exact ((hB.end_nodup.mem_erase_iff).1 hm).1 rfl
    · right; right
      refine ⟨(by intro e; cases e), (by intro e; cases e; exact hjg rfl), ?_⟩
      rw [he.2]
      exact List.mem_erase_of_ne (fun e => hjg e.symm)
  | timerFire j =>
    rcases timerFire_spec hB hs with ⟨hrf, t, hm, hle, hst, rfl⟩
    exact Or.inr (Or.inr ⟨(by intro e; cases e), (by intro e; cases e), Iff.rfl⟩)
  | resubmit j ok =>
    rcases resubmit_spec hs with ⟨hr, ⟨hok, hev, rfl⟩ | ⟨hok, hev, rfl⟩ | ⟨hok, rfl⟩⟩
    · exact Or.inr (Or.inr ⟨(by intro e; cases e), (by intro e; cases e), Iff.rfl⟩)
    · exact Or.inr (Or.inr ⟨(by intro e; cases e), (by intro e; cases e), Iff.rfl⟩)
    · exact Or.inr (Or.inr ⟨(by intro e; cases e), (by intro e; cases e), Iff.rfl⟩)
  | cancel j =>
    rcases cancel_spec hs with ⟨_, _, _, _, rfl⟩
    exact Or.inr (Or.inr ⟨(by intro e; cases e), (by intro e; cases e), Iff.rfl⟩)
  | wake =>
    rcases wake_spec hs with ⟨hev, ho, _, _, ⟨_, rfl⟩ | ⟨_, k, _, rfl⟩ | ⟨_, _, rfl⟩⟩
    · exact Or.inr (Or.inr ⟨(by intro e; cases e), (by intro e; cases e), Iff.rfl⟩)
    · exact Or.inr (Or.inr ⟨(by intro e; cases e), (by intro e; cases e), Iff.rfl⟩)
    · exact Or.inr (Or.inr ⟨(by intro e; cases e), (by intro e; cases e), Iff.rfl⟩)
  | snapshot =>
    rcases snapshot_spec hs with ⟨_, ho, rfl⟩
    exact Or.inr (Or.inr ⟨(by intro e; cases e), (by intro e; cases e), Iff.rfl⟩)

/-- Along any run: (callbacks of `(i, f)` run) + [callback due at the end] =
(task ends `(i, f)`) + [callback due at the start]. -/
theorem callbacks_run {s0 s : St} (h0 : Reach n maxConc cfg s0) (acts : List Act)
    (hr : runActs s0 acts = some s) (i : Nat) (f : Fin) :
    acts.count (.finish i f) + (if (i, f) ∈ s.ended then 1 else 0) =
      acts.count (.taskEnd i f) + (if (i, f) ∈ s0.ended then 1 else 0) := by
  induction acts generalizing s0 with
  | nil => cases hr; simp
  | cons a as ih =>
    simp only [runActs] at hr
    split at hr
    · cases hr
    · rename_i s1 hs1
      have ih' := ih (Reach.step a h0 hs1) hr
      rw [List.count_cons, List.count_cons]
      rcases ended_step (Inv.of_reach h0).toBook hs1 i f with ⟨rfl, h1, h2⟩ | ⟨rfl, h1, h2⟩ |
          ⟨h1, h2, h3⟩
      · rw [if_pos h2] at ih'
        rw [if_neg h1]
        simp
        omega
      · rw [if_neg h2] at ih'
        rw [if_pos h1]
        simp
        omega
      · have e1 : (a == Act.finish i f) = false := by simpa using h2
        have e2 : (a == Act.taskEnd i f) = false := by simpa using h1
        rw [e1, e2]
        by_cases hm : (i, f) ∈ s0.ended
        · rw [if_pos (h3.2 hm)] at ih'; rw [if_pos hm]; simp; omega
        · rw [if_neg (fun h => hm (h3.1 h))] at ih'; rw [if_neg hm]; simp; omega

theorem runActs_prefix {s s' : St} (l1 l2 : List Act) (hr : runActs s (l1 ++ l2) = some s') :
    ∃ s1, runActs s l1 = some s1 := by
  induction l1 generalizing s with
  | nil => exact ⟨s, rfl⟩
  | cons a l ih =>
    simp only [List.cons_append, runActs] at hr ⊢
    cases ha : step s a with
    | none => rw [ha] at hr; cases hr
    | some s1 => rw [ha] at hr; exact ih hr

/-- In every prefix of a run from the initial state, the callbacks of `(i, f)` that have run are at
most as many as the task functions that ended that way. -/
theorem callback_after_taskEnd {s : St} (acts pre : List Act)
    (hr : runActs (init n maxConc cfg) acts = some s) (hp : pre <+: acts) (i : Nat) (f : Fin) :
    pre.count (.finish i f) ≤ pre.count (.taskEnd i f) := by
  rcases hp with ⟨post, rfl⟩
  rcases runActs_prefix pre post hr with ⟨s1, h1⟩
  have := callbacks_run (n := n) (maxConc := maxConc) (cfg := cfg) Reach.init pre h1 i f
  simp only [Par.init, List.not_mem_nil, if_false, Nat.add_zero] at this
  omega

end ParProofs
