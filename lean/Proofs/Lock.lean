import DurableModel.Lock
/-!
# Inductive invariant of the ordered-lock model (used by `Props/C19.lean`)
-/
namespace LockProofs
open Lock

/-- The inductive invariant. Fields prefixed `u_` only speak about unbroken states. -/
structure Inv (s : St) : Prop where
  holder_head : ∀ r, (s.pc r = .inCS ∨ s.pc r = .breaking) → s.waiters.head? = some r
  breaking_broken : ∀ r, s.pc r = .breaking → s.broken = true
  broken_noCS : s.broken = true → ∀ r, s.pc r ≠ .inCS
  broken_set : s.broken = true → ∀ r, s.pc r = .waiting → s.isSet r = true
  active_arr : ∀ r, (s.pc r = .waiting ∨ s.pc r = .inCS ∨ s.pc r = .breaking) → r ∈ s.arrivals
  fifo : s.entries <+: s.arrivals
  res_pref : s.results.map Prod.fst <+: s.entries
  res_snd : s.results.map Prod.snd = List.range' 1 s.results.length
  counter : s.counter = s.results.length
  mem_not_idle : ∀ r ∈ s.waiters, s.pc r ≠ .idle
  nodup : s.waiters.Nodup
  u_waiting_mem : s.broken = false → ∀ r, s.pc r = .waiting → r ∈ s.waiters
  u_mem_pc : s.broken = false → ∀ r ∈ s.waiters, s.pc r = .waiting ∨ s.pc r = .inCS
  u_head : s.broken = false → ∀ h, s.waiters.head? = some h → s.pc h = .waiting → s.isSet h = true
  u_set_head : s.broken = false → ∀ r, s.pc r = .waiting → s.isSet r = true →
    s.waiters.head? = some r
  u_arr : s.broken = false → s.arrivals = s.results.map Prod.fst ++ s.waiters
  u_ent_none : s.broken = false → (∀ r, s.pc r ≠ .inCS) → s.entries = s.results.map Prod.fst
  u_ent_some : s.broken = false → ∀ r, s.pc r = .inCS →
    s.entries = s.results.map Prod.fst ++ [r]

theorem inv_init : Inv init := by
  constructor <;> simp [init]

/-! ## Characterisation of the four actions -/

theorem enq_some {s s' : St} {r : Nat} (h : enq s r = some s') :
    s.pc r = .idle ∧
    ((s.broken = true ∧ s' = { s with pc := fun x => if x = r then .lockErr else s.pc x }) ∨
     (s.broken = false ∧ s' = { s with
        pc := fun x => if x = r then .waiting else s.pc x,
        waiters := s.waiters ++ [r],
        arrivals := s.arrivals ++ [r],
        isSet := fun x => if x = r then s.waiters.isEmpty else s.isSet x })) := by
  unfold enq at h
  split at h
  · exact absurd h (by simp)
  · rename_i hp
    have hp' : s.pc r = .idle := Classical.not_not.mp hp
    split at h
    · rename_i hb
      exact ⟨hp', Or.inl ⟨hb, (Option.some.inj h).symm⟩⟩
    · rename_i hb
      have hb' : s.broken = false := by simpa using hb
      exact ⟨hp', Or.inr ⟨hb', (Option.some.inj h).symm⟩⟩

theorem wake_some {s s' : St} {r : Nat} (h : wake s r = some s') :
    s.pc r = .waiting ∧ s.isSet r = true ∧
    ((s.broken = true ∧ s' = { s with pc := fun x => if x = r then .lockErr else s.pc x }) ∨
     (s.broken = false ∧ s' = { s with
        pc := fun x => if x = r then .inCS else s.pc x,
        entries := s.entries ++ [r] })) := by
  unfold wake at h
  split at h
  · exact absurd h (by simp)
  · rename_i hp
    have hp' : s.pc r = .waiting := Classical.not_not.mp hp
    split at h
    · exact absurd h (by simp)
    · rename_i hi
      have hi' : s.isSet r = true := Classical.not_not.mp hi
      split at h
      · rename_i hb
        exact ⟨hp', hi', Or.inl ⟨hb, (Option.some.inj h).symm⟩⟩
      · rename_i hb
        have hb' : s.broken = false := by simpa using hb
        exact ⟨hp', hi', Or.inr ⟨hb', (Option.some.inj h).symm⟩⟩

theorem rel_some {s s' : St} {r : Nat} (h : rel s r = some s') :
    ∃ hd rest, s.waiters = hd :: rest ∧
    ((s.pc r = .inCS ∧ s' = { s with
        pc := fun x => if x = r then .doneOk else s.pc x,
        waiters := rest,
        counter := s.counter + 1,
        results := s.results ++ [(r, s.counter + 1)],
        isSet := fun x => if (!s.broken && rest.head? == some x) then true else s.isSet x }) ∨
     (s.pc r = .breaking ∧ s' = { s with
        pc := fun x => if x = r then .doneExc else s.pc x,
        waiters := rest,
        isSet := fun x => if (!s.broken && rest.head? == some x) then true else s.isSet x })) := by
  unfold rel at h
  split at h
  · rename_i hp
    split at h
    · exact absurd h (by simp)
    · rename_i hd rest hw
      exact ⟨hd, rest, hw, Or.inl ⟨hp, (Option.some.inj h).symm⟩⟩
  · rename_i hp
    split at h
    · exact absurd h (by simp)
    · rename_i hd rest hw
      exact ⟨hd, rest, hw, Or.inr ⟨hp, (Option.some.inj h).symm⟩⟩
  · exact absurd h (by simp)

theorem brk_some {s s' : St} {r : Nat} (h : brk s r = some s') :
    s.pc r = .inCS ∧ s' = { s with
      pc := fun x => if x = r then .breaking else s.pc x,
      broken := true,
      isSet := fun x => if x ∈ s.waiters then true else s.isSet x } := by
  unfold brk at h
  split at h
  · exact absurd h (by simp)
  · rename_i hp
    exact ⟨Classical.not_not.mp hp, (Option.some.inj h).symm⟩

/-! ## Preservation -/

theorem inv_enq {s s' : St} {r : Nat} (I : Inv s) (h : enq s r = some s') : Inv s' := by
  obtain ⟨hp, ⟨hb, rfl⟩ | ⟨hb, rfl⟩⟩ := enq_some h
  · constructor
    all_goals dsimp only
    all_goals (try grind [Inv])
  · constructor
    all_goals dsimp only
    all_goals (try grind [Inv])
    case u_head =>
      intro _ x hx hpx
      cases hw : s.waiters with
      | nil =>
        simp [hw] at hx
        simp [hx]
      | cons a t =>
        simp [hw] at hx
        subst hx
        have hne : a ≠ r := by
          intro e
          exact I.mem_not_idle a (by simp [hw]) (e ▸ hp)
        simp [hne] at hpx ⊢
        exact I.u_head hb a (by simp [hw]) hpx

theorem inv_wake {s s' : St} {r : Nat} (I : Inv s) (h : wake s r = some s') : Inv s' := by
  obtain ⟨hp, hi, ⟨hb, rfl⟩ | ⟨hb, rfl⟩⟩ := wake_some h
  · constructor
    all_goals dsimp only
    all_goals (try grind [Inv])
  · constructor
    all_goals dsimp only
    all_goals (try grind [Inv])
    case fifo =>
      have h2 := I.u_set_head hb r hp hi
      have hnone : ∀ y, s.pc y ≠ .inCS := by
        intro y hy
        have h1 := I.holder_head y (Or.inl hy)
        rw [h1] at h2
        cases h2
        rw [hp] at hy
        cases hy
      have he := I.u_ent_none hb hnone
      have ha := I.u_arr hb
      cases hw : s.waiters with
      | nil => simp [hw] at h2
      | cons a t =>
        simp [hw] at h2
        subst h2
        rw [ha, he, hw]
        exact ⟨t, by simp⟩

theorem inv_brk {s s' : St} {r : Nat} (I : Inv s) (h : brk s r = some s') : Inv s' := by
  obtain ⟨hp, rfl⟩ := brk_some h
  constructor
  all_goals dsimp only
  all_goals (try grind [Inv])
  case broken_set =>
    intro _ x hx
    by_cases hxr : x = r
    · simp [hxr] at hx
    · simp [hxr] at hx
      by_cases hm : x ∈ s.waiters
      · simp [hm]
      · simp [hm]
        cases hb : s.broken with
        | true => exact I.broken_set hb x hx
        | false => exact absurd (I.u_waiting_mem hb x hx) hm

theorem inv_rel {s s' : St} {r : Nat} (I : Inv s) (h : rel s r = some s') : Inv s' := by
  obtain ⟨hd, rest, hw, ⟨hp, rfl⟩ | ⟨hp, rfl⟩⟩ := rel_some h
  · have hb : s.broken = false := by
      cases hb : s.broken with
      | false => rfl
      | true => exact absurd hp (I.broken_noCS hb r)
    have hhd : hd = r := by
      have := I.holder_head r (Or.inl hp)
      simpa [hw] using this
    subst hhd
    constructor
    all_goals dsimp only
    all_goals (try grind [Inv])
    case res_snd =>
      rw [List.map_append, I.res_snd, I.counter, List.length_append, List.length_singleton,
        List.range'_concat]
      simp
      omega
  · have hb : s.broken = true := I.breaking_broken r hp
    have hhd : hd = r := by
      have := I.holder_head r (Or.inr hp)
      simpa [hw] using this
    subst hhd
    constructor
    all_goals dsimp only
    all_goals (try grind [Inv])

theorem inv_step {s s' : St} {a : Act} (I : Inv s) (h : step s a = some s') : Inv s' := by
  cases a with
  | enq r => exact inv_enq I h
  | wake r => exact inv_wake I h
  | rel r => exact inv_rel I h
  | brk r => exact inv_brk I h

theorem inv_reach {s : St} (h : Reach s) : Inv s := by
  induction h with
  | init => exact inv_init
  | step a _ hs ih => exact inv_step ih hs

/-! ## A list lemma for the progress measure -/

theorem sum_map_le {l : List Nat} {f g : Nat → Nat} (hle : ∀ x ∈ l, f x ≤ g x) :
    (l.map f).sum ≤ (l.map g).sum := by
  induction l with
  | nil => simp
  | cons a t ih =>
    have h1 := hle a (by simp)
    have h2 := ih (fun x hx => hle x (by simp [hx]))
    simp only [List.map_cons, List.sum_cons]
    omega

theorem sum_map_lt {l : List Nat} {f g : Nat → Nat} (hle : ∀ x ∈ l, f x ≤ g x) {r : Nat}
    (hr : r ∈ l) (hlt : f r < g r) : (l.map f).sum < (l.map g).sum := by
  induction l with
  | nil => simp at hr
  | cons a t ih =>
    simp only [List.map_cons, List.sum_cons]
    have h1 := hle a (by simp)
    have hle' : ∀ x ∈ t, f x ≤ g x := fun x hx => hle x (by simp [hx])
    rcases List.mem_cons.mp hr with rfl | hr'
    · have := sum_map_le hle'
      omega
    · have := ih hle' hr'
      omega

end LockProofs
