import DurableModel.Batcher
/-!
# Inductive invariants of the checkpoint-batcher model (used by `Props/C05.lean`)
-/
namespace BatcherProofs
open Batcher

-- hypotheses are consumed implicitly by `grind` / `‹_›` inside the closing macros
set_option linter.unusedVariables false

/-- Open an action hypothesis `h : act s = some s'` (after unfolding `act`): case-split on every
guard, discard the disabled branches, and substitute `s'`. -/
macro "open_act " h:ident : tactic =>
  `(tactic| ((repeat' (split at $h:ident)) <;> (first | contradiction | (cases $h:ident))))

@[simp, grind =] theorem bytesOf_nil : bytesOf [] = 0 := rfl
@[simp, grind =] theorem bytesOf_cons (x : Item) (xs : List Item) :
    bytesOf (x :: xs) = x.size + bytesOf xs := by simp [bytesOf]
@[simp, grind =] theorem bytesOf_append (a b : List Item) :
    bytesOf (a ++ b) = bytesOf a + bytesOf b := by simp [bytesOf]

/-! ## Characterisation of the actions -/

section chars
variable {s s' : St} {x : Item}

theorem pCheck_some (h : pCheck s x = some s') :
    s.ppc x.id = .new ∧
    s' = { s with ppc := fun y => if y = x.id then (if s.failed then .retErr else .checked) else s.ppc y } := by
  unfold pCheck at h; open_act h <;> simp_all [setPpc]

theorem pPut_some (h : pPut s x = some s') :
    s.ppc x.id = .checked ∧
    s' = { s with ppc := fun y => if y = x.id then .put else s.ppc y,
                  mainQ := s.mainQ ++ [x], handed := s.handed ++ [x] } := by
  unfold pPut at h; open_act h <;> simp_all [setPpc]

theorem pRecheck_some (h : pRecheck s x = some s') :
    s.ppc x.id = .put ∧ x ∈ s.handed ∧
    s' = { s with ppc := fun y => if y = x.id then
      (if s.failed then .retErr else if x.sync then .waiting else .retAsync) else s.ppc y } := by
  unfold pRecheck at h; open_act h <;> simp_all [setPpc]

theorem pWake_some (h : pWake s x = some s') :
    s.ppc x.id = .waiting ∧ ∃ b, s.evt x.id = some b ∧
    s' = { s with ppc := fun y => if y = x.id then (if b then .retOk else .retErr) else s.ppc y } := by
  unfold pWake at h; open_act h <;> simp_all [setPpc]

theorem drainTake_some (h : drainTake s = some s') :
    ∃ x r, s.phase = .drain ∧ s.batch.length < s.cfg.maxOps ∧ s.overflow = x :: r ∧
      (s.batch = [] ∨ s.total + x.size ≤ s.cfg.maxBytes) ∧
      s' = { s with batch := s.batch ++ [x], total := s.total + x.size, overflow := r } := by
  unfold drainTake at h; open_act h
  rename_i x r _ _
  refine ⟨x, r, ?_⟩
  simp_all
  grind

theorem drainPutBack_some (h : drainPutBack s = some s') :
    ∃ x r, s.phase = .drain ∧ s.batch.length < s.cfg.maxOps ∧ s.overflow = x :: r ∧
      s.batch ≠ [] ∧ 1 ≤ s.batch.length ∧ s.cfg.maxBytes < s.total + x.size ∧
      s' = { s with overflow := r ++ [x], phase := .window } := by
  unfold drainPutBack at h; open_act h
  rename_i x r _ _
  refine ⟨x, r, ?_⟩
  cases hb : s.batch <;> simp_all [afterDrain]

theorem drainEnd_some (h : drainEnd s = some s') :
    s.phase = .drain ∧ (s.overflow = [] ∨ s.cfg.maxOps ≤ s.batch.length) ∧
    ((s.batch = [] ∧ s' = { s with phase := .first }) ∨
     (s.batch ≠ [] ∧ 1 ≤ s.batch.length ∧ s' = { s with phase := .window })) := by
  unfold drainEnd at h; open_act h
  cases hb : s.batch <;> simp_all [afterDrain]

theorem firstGet_some (h : firstGet s = some s') :
    ∃ x r, s.phase = .first ∧ s.mainQ = x :: r ∧
      s' = { s with mainQ := r, batch := [x], total := x.size, phase := .window } := by
  unfold firstGet at h; open_act h
  rename_i x r _
  exact ⟨x, r, by simp_all⟩

theorem firstStop_some (h : firstStop s = some s') :
    s.phase = .first ∧ s.stopped = true ∧ s' = { s with phase := .done } := by
  unfold firstStop at h; open_act h
  simp_all

theorem windowGet_some (h : windowGet s = some s') :
    ∃ x r, s.phase = .window ∧ s.batch.length < s.cfg.maxOps ∧ s.mainQ = x :: r ∧
      ((s.cfg.maxBytes < s.total + x.size ∧
          s' = { s with mainQ := r, overflow := s.overflow ++ [x], phase := .call }) ∨
       (s.total + x.size ≤ s.cfg.maxBytes ∧
          s' = { s with mainQ := r, batch := s.batch ++ [x], total := s.total + x.size })) := by
  unfold windowGet at h; open_act h
  · rename_i x r _ _
    exact ⟨x, r, by simp_all⟩
  · rename_i x r _ _
    refine ⟨x, r, ?_⟩
    simp_all

theorem windowEnd_some (h : windowEnd s = some s') :
    s.phase = .window ∧ s' = { s with phase := .call } := by
  unfold windowEnd at h; open_act h
  simp_all

theorem apiOk_some (h : apiOk s = some s') :
    s.phase = .call ∧
    s' = { s with calls := s.calls ++ [(s.token, s.batch)], token := s.token + 1,
                  toRelease := s.batch, batch := [], total := 0, phase := .release } := by
  unfold apiOk at h; open_act h
  simp_all

theorem apiFail_some (h : apiFail s = some s') :
    s.phase = .call ∧
    s' = { s with failedCall := some (s.token, s.batch), phase := .failFlag } := by
  unfold apiFail at h; open_act h
  simp_all

theorem apiFailAfterApply_some (h : apiFailAfterApply s = some s') :
    s.phase = .call ∧
    s' = { s with calls := s.calls ++ [(s.token, s.batch)],
                  failedCall := some (s.token, s.batch), phase := .failFlag } := by
  unfold apiFailAfterApply at h; open_act h
  simp_all

theorem releaseAll_some (h : releaseAll s = some s') :
    s.phase = .release ∧
    s' = { s with evt := setEvents s.evt s.toRelease true, toRelease := [], phase := .loopCheck } := by
  unfold releaseAll at h; open_act h
  simp_all

theorem loopAgain_some (h : loopAgain s = some s') :
    s.phase = .loopCheck ∧ s.stopped = false ∧ s' = { s with phase := .drain } := by
  unfold loopAgain at h; open_act h
  simp_all

theorem loopStop_some (h : loopStop s = some s') :
    s.phase = .loopCheck ∧ s.stopped = true ∧ s' = { s with phase := .done } := by
  unfold loopStop at h; open_act h
  simp_all

theorem failFlag_some (h : failFlag s = some s') :
    s.phase = .failFlag ∧ s' = { s with failed := true, phase := .failBatch } := by
  unfold failFlag at h; open_act h
  simp_all

theorem failBatch_some (h : failBatch s = some s') :
    s.phase = .failBatch ∧
    s' = { s with evt := setEvents s.evt s.batch false, dropped := s.dropped ++ s.batch,
                  batch := [], total := 0, phase := .failOverflow } := by
  unfold failBatch at h; open_act h
  simp_all

theorem failOvOne_some (h : failOvOne s = some s') :
    ∃ x r, s.phase = .failOverflow ∧ s.overflow = x :: r ∧
      s' = { s with evt := setEvents s.evt [x] false, dropped := s.dropped ++ [x], overflow := r } := by
  unfold failOvOne at h; open_act h
  rename_i x r _
  exact ⟨x, r, by simp_all⟩

theorem failOvEnd_some (h : failOvEnd s = some s') :
    s.phase = .failOverflow ∧ s.overflow = [] ∧ s' = { s with phase := .failMain } := by
  unfold failOvEnd at h; open_act h
  simp_all

theorem failMainOne_some (h : failMainOne s = some s') :
    ∃ x r, s.phase = .failMain ∧ s.mainQ = x :: r ∧
      s' = { s with evt := setEvents s.evt [x] false, dropped := s.dropped ++ [x], mainQ := r } := by
  unfold failMainOne at h; open_act h
  rename_i x r _
  exact ⟨x, r, by simp_all⟩

theorem failMainEnd_some (h : failMainEnd s = some s') :
    s.phase = .failMain ∧ s.mainQ = [] ∧ s' = { s with phase := .done } := by
  unfold failMainEnd at h; open_act h
  simp_all

theorem stop_some (h : stop s = some s') : s' = { s with stopped := true } := by
  unfold stop at h; cases h; rfl

end chars

/-- Control-structure invariant: everything that does not mention producers or events. -/
structure InvP (cfg : Cfg) (s : St) : Prop where
  cfg_eq : s.cfg = cfg
  total_eq : s.total = bytesOf s.batch
  size_ok : bytesOf s.batch ≤ cfg.maxBytes ∨ s.batch.length ≤ 1
  batch_nil : (s.phase = .first ∨ s.phase = .release ∨ s.phase = .loopCheck ∨ s.phase = .done ∨
    s.phase = .failOverflow ∨ s.phase = .failMain) → s.batch = []
  batch_ne : (s.phase = .window ∨ s.phase = .call) → 1 ≤ s.batch.length
  rel_nil : s.phase ≠ .release → s.toRelease = []
  ov_nil : s.phase = .failMain → s.overflow = []
  fail_fc : s.phase.isFail = true → s.failedCall ≠ none
  fc_phase : s.failedCall ≠ none → s.phase.isFail = true ∨ s.phase = .done
  failed_iff : s.failed = true ↔ (s.phase = .failBatch ∨ s.phase = .failOverflow ∨
    s.phase = .failMain ∨ (s.phase = .done ∧ s.failedCall ≠ none))
  done_stopped : s.phase = .done → s.failedCall = none → s.stopped = true
  tok_calls : s.calls.map Prod.fst = List.range s.calls.length
  tok_cur : s.failedCall = none → s.token = s.calls.length
  tok_fc : ∀ c, s.failedCall = some c → c.1 = s.token
  calls_size : ∀ c ∈ s.calls, bytesOf c.2 ≤ cfg.maxBytes ∨ c.2.length = 1
  calls_ne : ∀ c ∈ s.calls, 1 ≤ c.2.length

theorem invP_init (cfg : Cfg) : InvP cfg (init cfg) := by
  constructor <;> simp [init, bytesOf, Phase.isFail]

/-! ## Preservation of `InvP` -/

theorem tok_snoc (calls : List (Nat × List Item)) (t : Nat) (b : List Item)
    (h1 : calls.map Prod.fst = List.range calls.length) (h2 : t = calls.length) :
    (calls ++ [(t, b)]).map Prod.fst = List.range (calls ++ [(t, b)]).length := by
  simp [List.range_succ, h1, h2]

macro "invP_close" : tactic =>
  `(tactic| (constructor <;> dsimp only <;> grind [InvP, Phase.isFail, tok_snoc]))

theorem invP_pCheck {cfg s s' x} (I : InvP cfg s) (h : pCheck s x = some s') : InvP cfg s' := by
  obtain ⟨hp, rfl⟩ := pCheck_some h
  all_goals invP_close

theorem invP_pPut {cfg s s' x} (I : InvP cfg s) (h : pPut s x = some s') : InvP cfg s' := by
  obtain ⟨hp, rfl⟩ := pPut_some h
  all_goals invP_close

theorem invP_pRecheck {cfg s s' x} (I : InvP cfg s) (h : pRecheck s x = some s') : InvP cfg s' := by
  obtain ⟨hp, hh, rfl⟩ := pRecheck_some h
  all_goals invP_close

theorem invP_pWake {cfg s s' x} (I : InvP cfg s) (h : pWake s x = some s') : InvP cfg s' := by
  obtain ⟨hp, b, hb, rfl⟩ := pWake_some h
  all_goals invP_close

theorem invP_drainTake {cfg s s'} (I : InvP cfg s) (h : drainTake s = some s') : InvP cfg s' := by
  obtain ⟨x, r, hph, hlen, hov, hsz, rfl⟩ := drainTake_some h
  all_goals invP_close

theorem invP_drainPutBack {cfg s s'} (I : InvP cfg s) (h : drainPutBack s = some s') : InvP cfg s' := by
  obtain ⟨x, r, hph, hlen, hov, hne, hne1, hsz, rfl⟩ := drainPutBack_some h
  all_goals invP_close

theorem invP_drainEnd {cfg s s'} (I : InvP cfg s) (h : drainEnd s = some s') : InvP cfg s' := by
  obtain ⟨hph, hc, ⟨hb, rfl⟩ | ⟨hb, hb1, rfl⟩⟩ := drainEnd_some h
  all_goals invP_close

theorem invP_firstGet {cfg s s'} (I : InvP cfg s) (h : firstGet s = some s') : InvP cfg s' := by
  obtain ⟨x, r, hph, hq, rfl⟩ := firstGet_some h
  all_goals invP_close

theorem invP_firstStop {cfg s s'} (I : InvP cfg s) (h : firstStop s = some s') : InvP cfg s' := by
  obtain ⟨hph, hst, rfl⟩ := firstStop_some h
  all_goals invP_close

theorem invP_windowGet {cfg s s'} (I : InvP cfg s) (h : windowGet s = some s') : InvP cfg s' := by
  obtain ⟨x, r, hph, hlen, hq, ⟨hsz, rfl⟩ | ⟨hsz, rfl⟩⟩ := windowGet_some h
  all_goals invP_close

theorem invP_windowEnd {cfg s s'} (I : InvP cfg s) (h : windowEnd s = some s') : InvP cfg s' := by
  obtain ⟨hph, rfl⟩ := windowEnd_some h
  all_goals invP_close

theorem invP_apiOk {cfg s s'} (I : InvP cfg s) (h : apiOk s = some s') : InvP cfg s' := by
  obtain ⟨hph, rfl⟩ := apiOk_some h
  all_goals invP_close

theorem invP_apiFail {cfg s s'} (I : InvP cfg s) (h : apiFail s = some s') : InvP cfg s' := by
  obtain ⟨hph, rfl⟩ := apiFail_some h
  all_goals invP_close

theorem invP_apiFailAfterApply {cfg s s'} (I : InvP cfg s) (h : apiFailAfterApply s = some s') : InvP cfg s' := by
  obtain ⟨hph, rfl⟩ := apiFailAfterApply_some h
  all_goals invP_close

theorem invP_releaseAll {cfg s s'} (I : InvP cfg s) (h : releaseAll s = some s') : InvP cfg s' := by
  obtain ⟨hph, rfl⟩ := releaseAll_some h
  all_goals invP_close

theorem invP_loopAgain {cfg s s'} (I : InvP cfg s) (h : loopAgain s = some s') : InvP cfg s' := by
  obtain ⟨hph, hst, rfl⟩ := loopAgain_some h
  all_goals invP_close

theorem invP_loopStop {cfg s s'} (I : InvP cfg s) (h : loopStop s = some s') : InvP cfg s' := by
  obtain ⟨hph, hst, rfl⟩ := loopStop_some h
  all_goals invP_close

theorem invP_failFlag {cfg s s'} (I : InvP cfg s) (h : failFlag s = some s') : InvP cfg s' := by
  obtain ⟨hph, rfl⟩ := failFlag_some h
  all_goals invP_close

theorem invP_failBatch {cfg s s'} (I : InvP cfg s) (h : failBatch s = some s') : InvP cfg s' := by
  obtain ⟨hph, rfl⟩ := failBatch_some h
  all_goals invP_close

theorem invP_failOvOne {cfg s s'} (I : InvP cfg s) (h : failOvOne s = some s') : InvP cfg s' := by
  obtain ⟨x, r, hph, hq, rfl⟩ := failOvOne_some h
  all_goals invP_close

theorem invP_failMainOne {cfg s s'} (I : InvP cfg s) (h : failMainOne s = some s') : InvP cfg s' := by
  obtain ⟨x, r, hph, hq, rfl⟩ := failMainOne_some h
  all_goals invP_close

theorem invP_failOvEnd {cfg s s'} (I : InvP cfg s) (h : failOvEnd s = some s') : InvP cfg s' := by
  obtain ⟨hph, hq, rfl⟩ := failOvEnd_some h
  all_goals invP_close

theorem invP_failMainEnd {cfg s s'} (I : InvP cfg s) (h : failMainEnd s = some s') : InvP cfg s' := by
  obtain ⟨hph, hq, rfl⟩ := failMainEnd_some h
  all_goals invP_close

theorem invP_stop {cfg s s'} (I : InvP cfg s) (h : stop s = some s') : InvP cfg s' := by
  obtain rfl := stop_some h
  all_goals invP_close

/-! ## `Inv2`: facts that need `1 ≤ cfg.maxOps` -/

theorem delivered_snoc (calls : List (Nat × List Item)) (t : Nat) (b : List Item) :
    ((calls ++ [(t, b)]).map Prod.snd).flatten = (calls.map Prod.snd).flatten ++ b := by
  simp

structure Inv2 (cfg : Cfg) (s : St) : Prop where
  b_len : s.batch.length ≤ cfg.maxOps
  calls_len : ∀ c ∈ s.calls, c.2.length ≤ cfg.maxOps
  ov_len : s.overflow.length ≤ 1
  drain_len : s.phase = .drain → s.batch.length + s.overflow.length ≤ 1
  ov_nil2 : (s.phase = .first ∨ s.phase = .window) → s.overflow = []
  order : s.failedCall = none → delivered s ++ s.batch ++ s.overflow ++ s.mainQ = s.handed
  pref : delivered s <+: s.handed

theorem inv2_init (cfg : Cfg) : Inv2 cfg (init cfg) := by
  constructor <;> simp [init, delivered]

macro "inv2_close" : tactic =>
  `(tactic| (constructor <;> dsimp only [delivered] <;>
    grind [InvP, Inv2, Phase.isFail, delivered, delivered_snoc]))

theorem inv2_pCheck {cfg s s' x} (hops : 1 ≤ cfg.maxOps) (P : InvP cfg s) (I : Inv2 cfg s) (h : pCheck s x = some s') : Inv2 cfg s' := by
  obtain ⟨hp, rfl⟩ := pCheck_some h
  all_goals inv2_close

theorem inv2_pPut {cfg s s' x} (hops : 1 ≤ cfg.maxOps) (P : InvP cfg s) (I : Inv2 cfg s) (h : pPut s x = some s') : Inv2 cfg s' := by
  obtain ⟨hp, rfl⟩ := pPut_some h
  all_goals inv2_close

theorem inv2_pRecheck {cfg s s' x} (hops : 1 ≤ cfg.maxOps) (P : InvP cfg s) (I : Inv2 cfg s) (h : pRecheck s x = some s') : Inv2 cfg s' := by
  obtain ⟨hp, hh, rfl⟩ := pRecheck_some h
  all_goals inv2_close

theorem inv2_pWake {cfg s s' x} (hops : 1 ≤ cfg.maxOps) (P : InvP cfg s) (I : Inv2 cfg s) (h : pWake s x = some s') : Inv2 cfg s' := by
  obtain ⟨hp, b, hb, rfl⟩ := pWake_some h
  all_goals inv2_close

theorem inv2_drainTake {cfg s s'} (hops : 1 ≤ cfg.maxOps) (P : InvP cfg s) (I : Inv2 cfg s) (h : drainTake s = some s') : Inv2 cfg s' := by
  obtain ⟨x, r, hph, hlen, hov, hsz, rfl⟩ := drainTake_some h
  all_goals inv2_close

theorem inv2_drainPutBack {cfg s s'} (hops : 1 ≤ cfg.maxOps) (P : InvP cfg s) (I : Inv2 cfg s) (h : drainPutBack s = some s') : Inv2 cfg s' := by
  obtain ⟨x, r, hph, hlen, hov, hne, hne1, hsz, rfl⟩ := drainPutBack_some h
  all_goals inv2_close

theorem inv2_drainEnd {cfg s s'} (hops : 1 ≤ cfg.maxOps) (P : InvP cfg s) (I : Inv2 cfg s) (h : drainEnd s = some s') : Inv2 cfg s' := by
  obtain ⟨hph, hc, ⟨hb, rfl⟩ | ⟨hb, hb1, rfl⟩⟩ := drainEnd_some h
  · inv2_close
  · have : s.overflow = [] := List.eq_nil_of_length_eq_zero (by have := I.drain_len hph; omega)
    inv2_close

theorem inv2_firstGet {cfg s s'} (hops : 1 ≤ cfg.maxOps) (P : InvP cfg s) (I : Inv2 cfg s) (h : firstGet s = some s') : Inv2 cfg s' := by
  obtain ⟨x, r, hph, hq, rfl⟩ := firstGet_some h
  all_goals inv2_close

theorem inv2_firstStop {cfg s s'} (hops : 1 ≤ cfg.maxOps) (P : InvP cfg s) (I : Inv2 cfg s) (h : firstStop s = some s') : Inv2 cfg s' := by
  obtain ⟨hph, hst, rfl⟩ := firstStop_some h
  all_goals inv2_close

theorem inv2_windowGet {cfg s s'} (hops : 1 ≤ cfg.maxOps) (P : InvP cfg s) (I : Inv2 cfg s) (h : windowGet s = some s') : Inv2 cfg s' := by
  obtain ⟨x, r, hph, hlen, hq, ⟨hsz, rfl⟩ | ⟨hsz, rfl⟩⟩ := windowGet_some h
  all_goals inv2_close

theorem inv2_windowEnd {cfg s s'} (hops : 1 ≤ cfg.maxOps) (P : InvP cfg s) (I : Inv2 cfg s) (h : windowEnd s = some s') : Inv2 cfg s' := by
  obtain ⟨hph, rfl⟩ := windowEnd_some h
  all_goals inv2_close

theorem inv2_apiOk {cfg s s'} (hops : 1 ≤ cfg.maxOps) (P : InvP cfg s) (I : Inv2 cfg s) (h : apiOk s = some s') : Inv2 cfg s' := by
  obtain ⟨hph, rfl⟩ := apiOk_some h
  all_goals inv2_close

theorem inv2_apiFail {cfg s s'} (hops : 1 ≤ cfg.maxOps) (P : InvP cfg s) (I : Inv2 cfg s) (h : apiFail s = some s') : Inv2 cfg s' := by
  obtain ⟨hph, rfl⟩ := apiFail_some h
  all_goals inv2_close

theorem inv2_apiFailAfterApply {cfg s s'} (hops : 1 ≤ cfg.maxOps) (P : InvP cfg s) (I : Inv2 cfg s) (h : apiFailAfterApply s = some s') : Inv2 cfg s' := by
  obtain ⟨hph, rfl⟩ := apiFailAfterApply_some h
  all_goals inv2_close

theorem inv2_releaseAll {cfg s s'} (hops : 1 ≤ cfg.maxOps) (P : InvP cfg s) (I : Inv2 cfg s) (h : releaseAll s = some s') : Inv2 cfg s' := by
  obtain ⟨hph, rfl⟩ := releaseAll_some h
  all_goals inv2_close

theorem inv2_loopAgain {cfg s s'} (hops : 1 ≤ cfg.maxOps) (P : InvP cfg s) (I : Inv2 cfg s) (h : loopAgain s = some s') : Inv2 cfg s' := by
  obtain ⟨hph, hst, rfl⟩ := loopAgain_some h
  all_goals inv2_close

theorem inv2_loopStop {cfg s s'} (hops : 1 ≤ cfg.maxOps) (P : InvP cfg s) (I : Inv2 cfg s) (h : loopStop s = some s') : Inv2 cfg s' := by
  obtain ⟨hph, hst, rfl⟩ := loopStop_some h
  all_goals inv2_close

theorem inv2_failFlag {cfg s s'} (hops : 1 ≤ cfg.maxOps) (P : InvP cfg s) (I : Inv2 cfg s) (h : failFlag s = some s') : Inv2 cfg s' := by
  obtain ⟨hph, rfl⟩ := failFlag_some h
  all_goals inv2_close

theorem inv2_failBatch {cfg s s'} (hops : 1 ≤ cfg.maxOps) (P : InvP cfg s) (I : Inv2 cfg s) (h : failBatch s = some s') : Inv2 cfg s' := by
  obtain ⟨hph, rfl⟩ := failBatch_some h
  all_goals inv2_close

theorem inv2_failOvOne {cfg s s'} (hops : 1 ≤ cfg.maxOps) (P : InvP cfg s) (I : Inv2 cfg s) (h : failOvOne s = some s') : Inv2 cfg s' := by
  obtain ⟨x, r, hph, hq, rfl⟩ := failOvOne_some h
  all_goals inv2_close

theorem inv2_failMainOne {cfg s s'} (hops : 1 ≤ cfg.maxOps) (P : InvP cfg s) (I : Inv2 cfg s) (h : failMainOne s = some s') : Inv2 cfg s' := by
  obtain ⟨x, r, hph, hq, rfl⟩ := failMainOne_some h
  all_goals inv2_close

theorem inv2_failOvEnd {cfg s s'} (hops : 1 ≤ cfg.maxOps) (P : InvP cfg s) (I : Inv2 cfg s) (h : failOvEnd s = some s') : Inv2 cfg s' := by
  obtain ⟨hph, hq, rfl⟩ := failOvEnd_some h
  all_goals inv2_close

theorem inv2_failMainEnd {cfg s s'} (hops : 1 ≤ cfg.maxOps) (P : InvP cfg s) (I : Inv2 cfg s) (h : failMainEnd s = some s') : Inv2 cfg s' := by
  obtain ⟨hph, hq, rfl⟩ := failMainEnd_some h
  all_goals inv2_close

theorem inv2_stop {cfg s s'} (hops : 1 ≤ cfg.maxOps) (P : InvP cfg s) (I : Inv2 cfg s) (h : stop s = some s') : Inv2 cfg s' := by
  obtain rfl := stop_some h
  all_goals inv2_close

/-! ## `InvH`: producers and completion events -/

theorem setEvents_apply (e : Nat → Option Bool) (xs : List Item) (b : Bool) (i : Nat) :
    setEvents e xs b i =
      if (∃ x ∈ xs, x.sync = true ∧ x.id = i) then some ((e i).getD b) else e i := by
  unfold setEvents
  by_cases hx : ∃ x ∈ xs, x.sync = true ∧ x.id = i
  · have : (xs.any fun x => x.sync && x.id == i) = true := by simpa [List.any_eq_true] using hx
    rw [if_pos this, if_pos hx]
    cases e i <;> rfl
  · have : ¬ (xs.any fun x => x.sync && x.id == i) = true := by simpa [List.any_eq_true] using hx
    rw [if_neg this, if_neg hx]

theorem setEvents_of_some {e : Nat → Option Bool} {xs : List Item} {b v : Bool} {i : Nat}
    (h : e i = some v) : setEvents e xs b i = some v := by
  rw [setEvents_apply]; split <;> simp [h]

theorem setEvents_none {e : Nat → Option Bool} {xs : List Item} {b : Bool} {i : Nat}
    (h : setEvents e xs b i = none) : e i = none ∧ ∀ x ∈ xs, x.sync = true → x.id ≠ i := by
  rw [setEvents_apply] at h
  split at h
  · simp at h
  · rename_i hx
    exact ⟨h, fun x hxs hs hi => hx ⟨x, hxs, hs, hi⟩⟩

theorem setEvents_false_true {e : Nat → Option Bool} {xs : List Item} {i : Nat}
    (h : setEvents e xs false i = some true) : e i = some true := by
  rw [setEvents_apply] at h
  split at h
  · cases he : e i <;> simp_all
  · exact h

theorem setEvents_true_true {e : Nat → Option Bool} {xs : List Item} {i : Nat}
    (h : setEvents e xs true i = some true) : e i = some true ∨ ∃ x ∈ xs, x.id = i := by
  rw [setEvents_apply] at h
  split at h
  · rename_i hx
    obtain ⟨x, hx1, _, hx2⟩ := hx
    exact Or.inr ⟨x, hx1, hx2⟩
  · exact Or.inl h

/-- `x` is part of some successful call. -/
def InCalls (calls : List (Nat × List Item)) (x : Item) : Prop := ∃ c ∈ calls, x ∈ c.2
/-- Some item with id `i` is part of some successful call. -/
def IdInCalls (calls : List (Nat × List Item)) (i : Nat) : Prop := ∃ c ∈ calls, ∃ x ∈ c.2, x.id = i

theorem InCalls.snoc {calls : List (Nat × List Item)} {x : Item} (c : Nat × List Item)
    (h : InCalls calls x) : InCalls (calls ++ [c]) x := by
  obtain ⟨c', hc, hx⟩ := h
  exact ⟨c', by simp [hc], hx⟩

theorem InCalls.last (calls : List (Nat × List Item)) (t : Nat) {b : List Item} {x : Item}
    (h : x ∈ b) : InCalls (calls ++ [(t, b)]) x :=
  ⟨(t, b), by simp, h⟩

theorem IdInCalls.snoc {calls : List (Nat × List Item)} {i : Nat} (c : Nat × List Item)
    (h : IdInCalls calls i) : IdInCalls (calls ++ [c]) i := by
  obtain ⟨c', hc, hx⟩ := h
  exact ⟨c', by simp [hc], hx⟩

theorem InCalls.id {calls : List (Nat × List Item)} {x : Item}
    (h : InCalls calls x) : IdInCalls calls x.id := by
  obtain ⟨c', hc, hx⟩ := h
  exact ⟨c', hc, x, hx, rfl⟩

structure InvH (cfg : Cfg) (s : St) : Prop where
  h_nodup : (s.handed.map Item.id).Nodup
  h_pc : ∀ y ∈ s.handed, s.ppc y.id ≠ .new ∧ s.ppc y.id ≠ .checked
  wait_h : ∀ i, s.ppc i = .waiting → ∃ x ∈ s.handed, x.id = i ∧ x.sync = true
  ok_evt : ∀ i, s.ppc i = .retOk → s.evt i = some true
  evt_calls : ∀ i, s.evt i = some true → IdInCalls s.calls i
  rel_calls : ∀ x ∈ s.toRelease, InCalls s.calls x
  pipe : ∀ x ∈ s.handed, x.sync = true → s.evt x.id = none →
    x ∈ s.batch ++ s.overflow ++ s.mainQ ++ s.toRelease
  done_woken : s.phase = .done → s.failed = true → ∀ i, s.ppc i = .waiting → s.evt i ≠ none

theorem invH_init (cfg : Cfg) : InvH cfg (init cfg) := by
  constructor <;> simp [init]

macro "invH_close" : tactic =>
  `(tactic| (constructor <;> dsimp only <;>
    first
    | exact InvH.h_nodup ‹_› | exact InvH.h_pc ‹_› | exact InvH.wait_h ‹_› | exact InvH.ok_evt ‹_›
    | exact InvH.evt_calls ‹_› | exact InvH.rel_calls ‹_› | exact InvH.pipe ‹_›
    | exact InvH.done_woken ‹_›
    | grind [InvP, InvH, Phase.isFail, setEvents_of_some, setEvents_none, setEvents_false_true, setEvents_true_true, InCalls.snoc, InCalls.last, IdInCalls.snoc, InCalls.id]))

theorem invH_pCheck {cfg s s' x} (P : InvP cfg s) (I : InvH cfg s) (h : pCheck s x = some s') : InvH cfg s' := by
  obtain ⟨hp, rfl⟩ := pCheck_some h
  all_goals invH_close

theorem invH_pPut {cfg s s' x} (P : InvP cfg s) (I : InvH cfg s) (h : pPut s x = some s') : InvH cfg s' := by
  obtain ⟨hp, rfl⟩ := pPut_some h
  all_goals invH_close

theorem invH_pRecheck {cfg s s' x} (P : InvP cfg s) (I : InvH cfg s) (h : pRecheck s x = some s') : InvH cfg s' := by
  obtain ⟨hp, hh, rfl⟩ := pRecheck_some h
  all_goals invH_close

theorem invH_pWake {cfg s s' x} (P : InvP cfg s) (I : InvH cfg s) (h : pWake s x = some s') : InvH cfg s' := by
  obtain ⟨hp, b, hb, rfl⟩ := pWake_some h
  all_goals invH_close

theorem invH_drainTake {cfg s s'} (P : InvP cfg s) (I : InvH cfg s) (h : drainTake s = some s') : InvH cfg s' := by
  obtain ⟨x, r, hph, hlen, hov, hsz, rfl⟩ := drainTake_some h
  all_goals invH_close

theorem invH_drainPutBack {cfg s s'} (P : InvP cfg s) (I : InvH cfg s) (h : drainPutBack s = some s') : InvH cfg s' := by
  obtain ⟨x, r, hph, hlen, hov, hne, hne1, hsz, rfl⟩ := drainPutBack_some h
  all_goals invH_close

theorem invH_drainEnd {cfg s s'} (P : InvP cfg s) (I : InvH cfg s) (h : drainEnd s = some s') : InvH cfg s' := by
  obtain ⟨hph, hc, ⟨hb, rfl⟩ | ⟨hb, hb1, rfl⟩⟩ := drainEnd_some h
  all_goals invH_close

theorem invH_firstGet {cfg s s'} (P : InvP cfg s) (I : InvH cfg s) (h : firstGet s = some s') : InvH cfg s' := by
  obtain ⟨x, r, hph, hq, rfl⟩ := firstGet_some h
  all_goals invH_close

theorem invH_firstStop {cfg s s'} (P : InvP cfg s) (I : InvH cfg s) (h : firstStop s = some s') : InvH cfg s' := by
  obtain ⟨hph, hst, rfl⟩ := firstStop_some h
  all_goals invH_close

theorem invH_windowGet {cfg s s'} (P : InvP cfg s) (I : InvH cfg s) (h : windowGet s = some s') : InvH cfg s' := by
  obtain ⟨x, r, hph, hlen, hq, ⟨hsz, rfl⟩ | ⟨hsz, rfl⟩⟩ := windowGet_some h
  all_goals invH_close

theorem invH_windowEnd {cfg s s'} (P : InvP cfg s) (I : InvH cfg s) (h : windowEnd s = some s') : InvH cfg s' := by
  obtain ⟨hph, rfl⟩ := windowEnd_some h
  all_goals invH_close

theorem invH_apiOk {cfg s s'} (P : InvP cfg s) (I : InvH cfg s) (h : apiOk s = some s') : InvH cfg s' := by
  obtain ⟨hph, rfl⟩ := apiOk_some h
  all_goals invH_close

theorem invH_apiFail {cfg s s'} (P : InvP cfg s) (I : InvH cfg s) (h : apiFail s = some s') : InvH cfg s' := by
  obtain ⟨hph, rfl⟩ := apiFail_some h
  all_goals invH_close

theorem invH_apiFailAfterApply {cfg s s'} (P : InvP cfg s) (I : InvH cfg s) (h : apiFailAfterApply s = some s') : InvH cfg s' := by
  obtain ⟨hph, rfl⟩ := apiFailAfterApply_some h
  all_goals invH_close

theorem invH_releaseAll {cfg s s'} (P : InvP cfg s) (I : InvH cfg s) (h : releaseAll s = some s') : InvH cfg s' := by
  obtain ⟨hph, rfl⟩ := releaseAll_some h
  all_goals invH_close

theorem invH_loopAgain {cfg s s'} (P : InvP cfg s) (I : InvH cfg s) (h : loopAgain s = some s') : InvH cfg s' := by
  obtain ⟨hph, hst, rfl⟩ := loopAgain_some h
  all_goals invH_close

theorem invH_loopStop {cfg s s'} (P : InvP cfg s) (I : InvH cfg s) (h : loopStop s = some s') : InvH cfg s' := by
  obtain ⟨hph, hst, rfl⟩ := loopStop_some h
  all_goals invH_close

theorem invH_failFlag {cfg s s'} (P : InvP cfg s) (I : InvH cfg s) (h : failFlag s = some s') : InvH cfg s' := by
  obtain ⟨hph, rfl⟩ := failFlag_some h
  all_goals invH_close

theorem invH_failBatch {cfg s s'} (P : InvP cfg s) (I : InvH cfg s) (h : failBatch s = some s') : InvH cfg s' := by
  obtain ⟨hph, rfl⟩ := failBatch_some h
  all_goals invH_close

theorem invH_failOvOne {cfg s s'} (P : InvP cfg s) (I : InvH cfg s) (h : failOvOne s = some s') : InvH cfg s' := by
  obtain ⟨x, r, hph, hq, rfl⟩ := failOvOne_some h
  all_goals invH_close

theorem invH_failMainOne {cfg s s'} (P : InvP cfg s) (I : InvH cfg s) (h : failMainOne s = some s') : InvH cfg s' := by
  obtain ⟨x, r, hph, hq, rfl⟩ := failMainOne_some h
  all_goals invH_close

theorem invH_failOvEnd {cfg s s'} (P : InvP cfg s) (I : InvH cfg s) (h : failOvEnd s = some s') : InvH cfg s' := by
  obtain ⟨hph, hq, rfl⟩ := failOvEnd_some h
  all_goals invH_close

theorem invH_failMainEnd {cfg s s'} (P : InvP cfg s) (I : InvH cfg s) (h : failMainEnd s = some s') : InvH cfg s' := by
  obtain ⟨hph, hq, rfl⟩ := failMainEnd_some h
  all_goals invH_close

theorem invH_stop {cfg s s'} (P : InvP cfg s) (I : InvH cfg s) (h : stop s = some s') : InvH cfg s' := by
  obtain rfl := stop_some h
  all_goals invH_close

/-! ## Every reachable state satisfies the invariants -/

theorem invP_step {cfg s s'} (a : Act) (I : InvP cfg s) (h : step s a = some s') : InvP cfg s' := by
  cases a with
  | pCheck x => exact invP_pCheck I h
  | pPut x => exact invP_pPut I h
  | pRecheck x => exact invP_pRecheck I h
  | pWake x => exact invP_pWake I h
  | drainTake => exact invP_drainTake I h
  | drainPutBack => exact invP_drainPutBack I h
  | drainEnd => exact invP_drainEnd I h
  | firstGet => exact invP_firstGet I h
  | firstStop => exact invP_firstStop I h
  | windowGet => exact invP_windowGet I h
  | windowEnd => exact invP_windowEnd I h
  | apiOk => exact invP_apiOk I h
  | apiFail => exact invP_apiFail I h
  | apiFailAfterApply => exact invP_apiFailAfterApply I h
  | releaseAll => exact invP_releaseAll I h
  | loopAgain => exact invP_loopAgain I h
  | loopStop => exact invP_loopStop I h
  | failFlag => exact invP_failFlag I h
  | failBatch => exact invP_failBatch I h
  | failOvOne => exact invP_failOvOne I h
  | failMainOne => exact invP_failMainOne I h
  | failOvEnd => exact invP_failOvEnd I h
  | failMainEnd => exact invP_failMainEnd I h
  | stop => exact invP_stop I h

theorem invH_step {cfg s s'} (a : Act) (P : InvP cfg s) (I : InvH cfg s) (h : step s a = some s') :
    InvH cfg s' := by
  cases a with
  | pCheck x => exact invH_pCheck P I h
  | pPut x => exact invH_pPut P I h
  | pRecheck x => exact invH_pRecheck P I h
  | pWake x => exact invH_pWake P I h
  | drainTake => exact invH_drainTake P I h
  | drainPutBack => exact invH_drainPutBack P I h
  | drainEnd => exact invH_drainEnd P I h
  | firstGet => exact invH_firstGet P I h
  | firstStop => exact invH_firstStop P I h
  | windowGet => exact invH_windowGet P I h
  | windowEnd => exact invH_windowEnd P I h
  | apiOk => exact invH_apiOk P I h
  | apiFail => exact invH_apiFail P I h
  | apiFailAfterApply => exact invH_apiFailAfterApply P I h
  | releaseAll => exact invH_releaseAll P I h
  | loopAgain => exact invH_loopAgain P I h
  | loopStop => exact invH_loopStop P I h
  | failFlag => exact invH_failFlag P I h
  | failBatch => exact invH_failBatch P I h
  | failOvOne => exact invH_failOvOne P I h
  | failMainOne => exact invH_failMainOne P I h
  | failOvEnd => exact invH_failOvEnd P I h
  | failMainEnd => exact invH_failMainEnd P I h
  | stop => exact invH_stop P I h

theorem inv2_step {cfg s s'} (a : Act) (hops : 1 ≤ cfg.maxOps) (P : InvP cfg s) (I : Inv2 cfg s)
    (h : step s a = some s') : Inv2 cfg s' := by
  cases a with
  | pCheck x => exact inv2_pCheck hops P I h
  | pPut x => exact inv2_pPut hops P I h
  | pRecheck x => exact inv2_pRecheck hops P I h
  | pWake x => exact inv2_pWake hops P I h
  | drainTake => exact inv2_drainTake hops P I h
  | drainPutBack => exact inv2_drainPutBack hops P I h
  | drainEnd => exact inv2_drainEnd hops P I h
  | firstGet => exact inv2_firstGet hops P I h
  | firstStop => exact inv2_firstStop hops P I h
  | windowGet => exact inv2_windowGet hops P I h
  | windowEnd => exact inv2_windowEnd hops P I h
  | apiOk => exact inv2_apiOk hops P I h
  | apiFail => exact inv2_apiFail hops P I h
  | apiFailAfterApply => exact inv2_apiFailAfterApply hops P I h
  | releaseAll => exact inv2_releaseAll hops P I h
  | loopAgain => exact inv2_loopAgain hops P I h
  | loopStop => exact inv2_loopStop hops P I h
  | failFlag => exact inv2_failFlag hops P I h
  | failBatch => exact inv2_failBatch hops P I h
  | failOvOne => exact inv2_failOvOne hops P I h
  | failMainOne => exact inv2_failMainOne hops P I h
  | failOvEnd => exact inv2_failOvEnd hops P I h
  | failMainEnd => exact inv2_failMainEnd hops P I h
  | stop => exact inv2_stop hops P I h

theorem reach_invP {cfg s} (h : Reach cfg s) : InvP cfg s := by
  induction h with
  | init => exact invP_init cfg
  | step a _ hs ih => exact invP_step a ih hs

theorem reach_invH {cfg s} (h : Reach cfg s) : InvH cfg s := by
  induction h with
  | init => exact invH_init cfg
  | step a hr hs ih => exact invH_step a (reach_invP hr) ih hs

theorem reach_inv2 {cfg s} (h : Reach cfg s) (hops : 1 ≤ cfg.maxOps) : Inv2 cfg s := by
  induction h with
  | init => exact inv2_init cfg
  | step a hr hs ih => exact inv2_step a hops (reach_invP hr) ih hs

/-! ## Auxiliary list lemma and enabledness -/

theorem prefix_of_mem {α : Type} {d pre post : List α} {x : α}
    (hp : d <+: pre ++ x :: post) (hx : x ∈ d) (hn : (pre ++ x :: post).Nodup) :
    pre ++ [x] <+: d := by
  obtain ⟨t, ht⟩ := hp
  have hxpre : x ∉ pre := by
    intro hxp
    have := (List.nodup_append.mp hn).2.2 x hxp x (by simp)
    exact this rfl
  rcases List.append_eq_append_iff.mp ht with ⟨a', h1, _⟩ | ⟨c', h1, h2⟩
  · exact absurd (h1 ▸ List.mem_append_left a' hx) hxpre
  · cases c' with
    | nil => simp at h1; exact absurd (h1 ▸ hx) hxpre
    | cons y c'' =>
      simp at h2
      obtain ⟨rfl, _⟩ := h2
      exact ⟨c'', by simp [h1]⟩

theorem eq_of_nodup_map {α β : Type} {f : α → β} {l : List α} (h : (l.map f).Nodup) {a b : α}
    (ha : a ∈ l) (hb : b ∈ l) (hf : f a = f b) : a = b := by
  induction l with
  | nil => simp at ha
  | cons y t ih =>
    simp only [List.map_cons, List.nodup_cons, List.mem_map, not_exists, not_and] at h
    simp only [List.mem_cons] at ha hb
    rcases ha with rfl | ha <;> rcases hb with rfl | hb
    · rfl
    · exact absurd hf.symm (h.1 b hb)
    · exact absurd hf (h.1 a ha)
    · exact ih h.2 ha hb

theorem nodup_of_nodup_map {α β : Type} {f : α → β} {l : List α} (h : (l.map f).Nodup) :
    l.Nodup := by
  induction l with
  | nil => simp
  | cons y t ih =>
    simp only [List.map_cons, List.nodup_cons, List.mem_map, not_exists, not_and] at h
    exact List.nodup_cons.mpr ⟨fun hy => h.1 y hy rfl, ih h.2⟩

theorem mem_delivered {s : St} {c : Nat × List Item} {y : Item} (hc : c ∈ s.calls) (hy : y ∈ c.2) :
    y ∈ delivered s := by
  unfold delivered
  simp only [List.mem_flatten, List.mem_map]
  exact ⟨c.2, ⟨c, hc, rfl⟩, hy⟩

theorem drain_enabled {s : St} (h : s.phase = .drain) :
    (drainTake s).isSome = true ∨ (drainPutBack s).isSome = true ∨ (drainEnd s).isSome = true := by
  unfold drainTake drainPutBack drainEnd
  cases ho : s.overflow with
  | nil => simp [h]
  | cons x r =>
    by_cases h1 : s.batch.length < s.cfg.maxOps
    · by_cases h2 : ((!s.batch.isEmpty) && (s.total + x.size > s.cfg.maxBytes)) = true
      · right; left; simp [h, h1, h2]
      · left; simp [h, h1, h2]
    · right; right; simp [h, h1]

end BatcherProofs
